// go2lean -spec gerrorgen: translation of the field handling of the gerror generator and of the base
// rendering it must agree with (property C09):
//
//	gerror/gen/generate.go          createField, createErrorDesc (from `fields := make(…)` on: the field loop,
//	                                the embedsGError test, the sort, the result)
//	gerror/gen/error_types.go       struct Field, struct ErrorDesc, filter, ErrorDesc.FieldsToPrint, ErrorDesc.FieldsToClone
//	gerror/gen/error_types.gsort.go Fields.Less (Len and Swap must be the canonical one-liners)
//	gerror/gerror.go                (*GError).Error()
//
// What the functions get from outside is a parameter of the translation:
//
//	structtag.Parse(s)          -> env.structtagParse s : τ × Bool      (the tags, "err != nil")
//	tags.Get(k)                 -> env.tagsGet tags k   : Tag × Bool
//	*structtag.Tag              -> structure Tag (Name, Options); `t.Name = v` is a record update of the local
//	*types.Var                  -> structure Var: what Name() and Embedded() answer
//	*types.Struct               -> List (Var × Go.Str): Field(i), Tag(i), NumFields()
//	set.Make / Set.Has          -> the TRANSLATED functions of Generated/GoSet.lean
//	slices.Contains(xs, s)      -> List.contains xs s
//	sort.Sort(x) on a Fields    -> env.sortSort Fields.Less x  (the sorted slice; Less is the translated one)
//	fmt.Errorf(lit, …)          -> an error value identified by its format literal (arguments only decorate)
//	errors.New(s)               -> an error value with text s
//	len(stack), stack.String()  -> env.stackLen, env.stackString
//
// A `*Field` that a function RETURNS may be nil (`Option Field`); the elements of a `Fields` slice are
// non-nil (`List Field`): `append(fields, f)` of a possibly-nil f is only translated inside the
// `f != nil` branch of an `if`.  Anything else makes the translator fail.
package main

import (
	"fmt"
	"go/ast"
	"go/parser"
	"go/token"
	"os"
	"path/filepath"
	"strconv"
	"strings"
)

func init() { register("gerrorgen", "../lean/Generated/GoGerrorGen.lean", runGerrorGen) }

type ggStruct struct {
	lean   string
	fields []cbField // in source order
}

type ggFn struct {
	lean    string
	params  []string // kinds
	results []string // kinds
	envArg  bool
}

type geg struct {
	structs map[string]*ggStruct // kind -> fields
	fns     map[string]*ggFn     // Go name (or Recv.Name) -> translated function
	env     []map[string]string
	nonNil  map[string]int
	rets    []string
	out     strings.Builder
	n       int
	usesEnv bool
}

func gegFail(n ast.Node, format string, a ...any) {
	fail("gerrorgen: %s: %s", at(n), fmt.Sprintf(format, a...))
}

var ggKeywords = map[string]bool{"include": true, "omit": true, "result": false}

func gegName(n string) string {
	if ggKeywords[n] {
		return "«" + n + "»"
	}
	return name(n)
}

func (t *geg) line(ind int, s string) { t.out.WriteString(strings.Repeat("  ", ind) + s + "\n") }
func (t *geg) push()                  { t.env = append(t.env, map[string]string{}) }
func (t *geg) pop()                   { t.env = t.env[:len(t.env)-1] }
func (t *geg) bind(n, k string)       { t.env[len(t.env)-1][n] = k }
func (t *geg) lookup(n string) string {
	for i := len(t.env) - 1; i >= 0; i-- {
		if k, ok := t.env[i][n]; ok {
			return k
		}
	}
	return ""
}
func (t *geg) inScope(n string) bool { _, ok := t.env[len(t.env)-1][n]; return ok }

func ggLeanType(k string) string {
	switch k {
	case "str":
		return "Go.Str"
	case "bool", "errb":
		return "Bool"
	case "int":
		return "Nat"
	case "erro":
		return "Option GoError"
	case "tags":
		return "τ"
	case "tag":
		return "Tag"
	case "var":
		return "Var"
	case "field":
		return "Field"
	case "optfield":
		return "Option Field"
	case "fields":
		return "List Field"
	case "strs":
		return "List Go.Str"
	case "sset":
		return "Go.GMap Go.Str"
	case "strukt":
		return "List (Var × Go.Str)"
	case "desc":
		return "ErrorDesc"
	case "optdesc":
		return "Option ErrorDesc"
	case "gerr":
		return "GError σ"
	case "stack":
		return "σ"
	case "T":
		return "α"
	case "listT":
		return "List α"
	case "fnT":
		return "α → Bool"
	}
	fail("gerrorgen: no Lean type for kind %q", k)
	return ""
}

// ggStr spells a Go string literal as a Lean one
func ggStr(n ast.Node, goLit string) string {
	s, err := strconv.Unquote(goLit)
	if err != nil {
		gegFail(n, "string literal %s", goLit)
	}
	var b strings.Builder
	for _, r := range s {
		switch {
		case r == '\n':
			b.WriteString(`\n`)
		case r == '\t':
			b.WriteString(`\t`)
		case r == '"':
			b.WriteString(`\"`)
		case r == '\\':
			b.WriteString(`\\`)
		case r < 0x20 || r > 0x7e:
			gegFail(n, "string literal %s holds a character the translator does not spell", goLit)
		default:
			b.WriteRune(r)
		}
	}
	return `(Go.str "` + b.String() + `")`
}

// typeKind: the kind of a declared type; pos says where the type stands (a returned pointer may be nil)
func ggTypeKind(e ast.Expr, pos string) string {
	switch src(e) {
	case "string":
		return "str"
	case "bool":
		return "bool"
	case "int":
		return "int"
	case "error":
		return "erro"
	case "*types.Var":
		return "var"
	case "Fields":
		return "fields"
	case "Stack":
		return "stack"
	case "T":
		return "T"
	case "[]T":
		return "listT"
	case "func(T) bool":
		return "fnT"
	case "*Field":
		if pos == "result" {
			return "optfield"
		}
		return "field"
	case "*ErrorDesc":
		if pos == "result" {
			return "optdesc"
		}
		return "desc"
	case "*GError":
		if pos == "recv" {
			return "gerr"
		}
	}
	gegFail(e, "type `%s` (as %s) is outside the translated fragment", src(e), pos)
	return ""
}

func isNil(e ast.Expr) bool { id, ok := e.(*ast.Ident); return ok && id.Name == "nil" }

func (t *geg) pure(e ast.Expr) string {
	s, _ := t.expr(e)
	if strings.Contains(s, "←") {
		gegFail(e, "`%s` can panic or has an effect where only a plain value is translated", src(e))
	}
	return s
}

func (t *geg) exprK(e ast.Expr, want string) string {
	s, k := t.expr(e)
	if k != want {
		gegFail(e, "`%s` is a %s where a %s is expected", src(e), k, want)
	}
	return s
}

func (t *geg) composite(x *ast.CompositeLit) (string, string) {
	tn := src(x.Type)
	var kind string
	switch tn {
	case "Field":
		kind = "field"
	case "ErrorDesc":
		kind = "desc"
	default:
		gegFail(x, "composite literal of `%s`", tn)
	}
	st := t.structs[kind]
	vals := map[string]string{}
	for _, el := range x.Elts {
		kv, ok := el.(*ast.KeyValueExpr)
		if !ok {
			gegFail(x, "unkeyed composite literal")
		}
		k, ok := kv.Key.(*ast.Ident)
		if !ok {
			gegFail(x, "composite literal key `%s`", src(kv.Key))
		}
		if _, dup := vals[k.Name]; dup {
			gegFail(x, "field %s twice", k.Name)
		}
		fk := ""
		for _, f := range st.fields {
			if f.name == k.Name {
				fk = f.kind
			}
		}
		if fk == "" {
			gegFail(x, "`%s` has no field %s", tn, k.Name)
		}
		vals[k.Name] = t.exprK(kv.Value, fk)
	}
	var parts []string
	for _, f := range st.fields {
		v, ok := vals[f.name]
		if !ok {
			gegFail(x, "composite literal leaves field %s to its zero value (outside the fragment)", f.name)
		}
		parts = append(parts, f.name+" := "+v)
	}
	return "({ " + strings.Join(parts, ", ") + " } : " + st.lean + ")", kind
}

func (t *geg) expr(e ast.Expr) (string, string) {
	switch x := e.(type) {
	case *ast.ParenExpr:
		return t.expr(x.X)
	case *ast.Ident:
		if x.Name == "true" || x.Name == "false" {
			return x.Name, "bool"
		}
		if k := t.lookup(x.Name); k != "" {
			return gegName(x.Name), k
		}
		gegFail(e, "identifier `%s` is not a parameter or local of the translated function", x.Name)
	case *ast.BasicLit:
		switch x.Kind {
		case token.STRING:
			return ggStr(x, x.Value), "str"
		case token.INT:
			return x.Value, "int"
		}
	case *ast.UnaryExpr:
		switch x.Op {
		case token.NOT:
			return "(!" + t.exprK(x.X, "bool") + ")", "bool"
		case token.AND:
			if cl, ok := x.X.(*ast.CompositeLit); ok {
				s, k := t.composite(cl)
				return "(some " + s + ")", "opt" + k
			}
		}
	case *ast.BinaryExpr:
		if x.Op == token.EQL || x.Op == token.NEQ {
			if isNil(x.X) || isNil(x.Y) {
				o := x.X
				if isNil(o) {
					o = x.Y
				}
				s, k := t.expr(o)
				var r string
				switch k {
				case "errb":
					r = s
					if x.Op == token.EQL {
						r = "(!" + s + ")"
					}
				case "erro", "optfield", "optdesc":
					r = "(Option.isSome " + s + ")"
					if x.Op == token.EQL {
						r = "(Option.isNone " + s + ")"
					}
				default:
					gegFail(e, "comparison of a %s with nil", k)
				}
				return r, "bool"
			}
		}
		a, ka := t.expr(x.X)
		b, kb := t.expr(x.Y)
		if ka != kb {
			gegFail(e, "`%s`: operands of kinds %s and %s", src(e), ka, kb)
		}
		switch x.Op {
		case token.EQL:
			if ka == "str" || ka == "bool" || ka == "int" {
				return "(" + a + " == " + b + ")", "bool"
			}
		case token.NEQ:
			if ka == "str" || ka == "bool" || ka == "int" {
				return "(" + a + " != " + b + ")", "bool"
			}
		case token.ADD:
			if ka == "str" {
				return "(" + a + " ++ " + b + ")", "str"
			}
		case token.LSS:
			if ka == "str" || ka == "int" {
				return "(decide (" + a + " < " + b + "))", "bool"
			}
		case token.GTR:
			if ka == "int" {
				return "(decide (" + a + " > " + b + "))", "bool"
			}
		case token.LAND:
			if ka == "bool" {
				return "(" + a + " && " + b + ")", "bool"
			}
		case token.LOR:
			if ka == "bool" {
				return "(" + a + " || " + b + ")", "bool"
			}
		}
	case *ast.SelectorExpr:
		s, k := t.expr(x.X)
		if st := t.structs[k]; st != nil {
			for _, f := range st.fields {
				if f.name == x.Sel.Name {
					return s + "." + f.name, f.kind
				}
			}
			gegFail(e, "`%s`: %s has no translated field %s", src(e), st.lean, x.Sel.Name)
		}
	case *ast.IndexExpr:
		s, k := t.expr(x.X)
		i := t.exprK(x.Index, "int")
		switch k {
		case "fields":
			return "(← Go.listGet " + s + " " + i + ")", "field"
		case "listT":
			return "(← Go.listGet " + s + " " + i + ")", "T"
		}
	case *ast.FuncLit:
		// func(t *Field) bool { return <plain expression> }
		if len(x.Type.Params.List) == 1 && len(x.Type.Params.List[0].Names) == 1 && src(x.Type.Params.List[0].Type) == "*Field" &&
			x.Type.Results != nil && len(x.Type.Results.List) == 1 && src(x.Type.Results.List[0].Type) == "bool" && len(x.Body.List) == 1 {
			if r, ok := x.Body.List[0].(*ast.ReturnStmt); ok && len(r.Results) == 1 {
				p := x.Type.Params.List[0].Names[0].Name
				t.push()
				t.bind(p, "field")
				s := t.pure(r.Results[0])
				if _, k := t.expr(r.Results[0]); k != "bool" {
					gegFail(e, "closure result")
				}
				t.pop()
				return "(fun " + gegName(p) + " => " + s + ")", "fn:field"
			}
		}
	case *ast.CallExpr:
		return t.call(x)
	}
	gegFail(e, "expression `%s` is outside the translated fragment", src(e))
	return "", ""
}

func (t *geg) call(x *ast.CallExpr) (string, string) {
	fn := src(x.Fun)
	argN := func(n int) {
		if len(x.Args) != n || x.Ellipsis.IsValid() {
			gegFail(x, "`%s`: argument list", src(x))
		}
	}
	switch fn {
	case "len":
		argN(1)
		s, k := t.expr(x.Args[0])
		switch k {
		case "fields", "listT", "strs":
			return "(List.length " + s + ")", "int"
		case "stack":
			t.usesEnv = true
			return "(env.stackLen " + s + ")", "int"
		}
		gegFail(x, "len of a %s", k)
	case "make":
		// make(X, 0, n): an empty slice; the capacity is evaluated (it must be a plain int) and dropped
		argN(3)
		if lit, ok := x.Args[1].(*ast.BasicLit); !ok || lit.Value != "0" {
			gegFail(x, "make with a length other than the literal 0")
		}
		if _, k := t.expr(x.Args[2]); k != "int" {
			gegFail(x, "make: capacity")
		}
		t.pure(x.Args[2])
		switch src(x.Args[0]) {
		case "Fields":
			return "([] : List Field)", "fields"
		case "[]T":
			return "([] : List α)", "listT"
		}
		gegFail(x, "make of `%s`", src(x.Args[0]))
	case "append":
		argN(2)
		s, k := t.expr(x.Args[0])
		v, kv := t.expr(x.Args[1])
		switch {
		case k == "fields" && kv == "field", k == "listT" && kv == "T":
			return "(" + s + " ++ [" + v + "])", k
		case k == "fields" && kv == "optfield":
			id, ok := x.Args[1].(*ast.Ident)
			if !ok || t.nonNil[id.Name] == 0 {
				gegFail(x, "append of a *Field that may be nil (only translated inside `if %s != nil`)", src(x.Args[1]))
			}
			return "(" + s + " ++ (Option.toList " + v + "))", k
		}
		gegFail(x, "append of a %s to a %s", kv, k)
	case "Fields":
		argN(1)
		return t.exprK(x.Args[0], "fields"), "fields"
	case "slices.Contains":
		argN(2)
		return "(List.contains " + t.exprK(x.Args[0], "strs") + " " + t.exprK(x.Args[1], "str") + ")", "bool"
	case "set.Make":
		if x.Ellipsis.IsValid() {
			gegFail(x, "set.Make(xs...)")
		}
		var as []string
		for _, a := range x.Args {
			as = append(as, t.exprK(a, "str"))
		}
		return "(← Generated.GoSet.Make [" + strings.Join(as, ", ") + "])", "sset"
	case "fmt.Errorf":
		if len(x.Args) < 1 {
			gegFail(x, "fmt.Errorf()")
		}
		lit, ok := x.Args[0].(*ast.BasicLit)
		if !ok || lit.Kind != token.STRING {
			gegFail(x, "fmt.Errorf with a format that is not a literal")
		}
		return "(some (GoError.mk " + ggStr(lit, lit.Value) + "))", "erro"
	case "errors.New":
		argN(1)
		return "(some (GoError.mk " + t.exprK(x.Args[0], "str") + "))", "erro"
	}
	if id, ok := x.Fun.(*ast.Ident); ok {
		if k := t.lookup(id.Name); k == "fnT" {
			argN(1)
			return "(" + gegName(id.Name) + " " + t.exprK(x.Args[0], "T") + ")", "bool"
		}
		if f := t.fns[id.Name]; f != nil && len(f.results) == 1 {
			rk := f.results[0]
			if rk == "listT" { // the generic function at T = *Field
				for i, a := range x.Args {
					if _, k := t.expr(a); f.params[i] == "listT" && k == "fields" {
						rk = "fields"
					}
				}
			}
			return "(← " + t.callFn(x, f) + ")", rk
		}
	}
	if sel, ok := x.Fun.(*ast.SelectorExpr); ok {
		if _, isPkg := sel.X.(*ast.Ident); isPkg && t.lookup(sel.X.(*ast.Ident).Name) == "" {
			gegFail(x, "call of `%s` is outside the translated fragment", fn)
		}
		s, k := t.expr(sel.X)
		m := sel.Sel.Name
		switch {
		case k == "var" && m == "Name":
			argN(0)
			return s + ".Name", "str"
		case k == "var" && m == "Embedded":
			argN(0)
			return s + ".Embedded", "bool"
		case k == "strukt" && m == "NumFields":
			argN(0)
			return "(List.length " + s + ")", "int"
		case k == "strukt" && m == "Field":
			argN(1)
			return "(← Go.listGet " + s + " " + t.exprK(x.Args[0], "int") + ").1", "var"
		case k == "strukt" && m == "Tag":
			argN(1)
			return "(← Go.listGet " + s + " " + t.exprK(x.Args[0], "int") + ").2", "str"
		case k == "stack" && m == "String":
			argN(0)
			t.usesEnv = true
			return "(env.stackString " + s + ")", "str"
		case k == "sset" && m == "Has":
			if len(x.Args) != 1 || !x.Ellipsis.IsValid() {
				gegFail(x, "Set.Has is translated for `Has(xs...)` only")
			}
			return "(← Generated.GoSet.Set.Has " + s + " " + t.exprK(x.Args[0], "strs") + ")", "bool"
		}
	}
	gegFail(x, "call `%s` is outside the translated fragment", src(x))
	return "", ""
}

// callFn: a call of a translated function (its arguments; a closure for a `func(T) bool` parameter)
func (t *geg) callFn(x *ast.CallExpr, f *ggFn) string {
	if len(x.Args) != len(f.params) || x.Ellipsis.IsValid() {
		gegFail(x, "`%s`: argument list", src(x))
	}
	s := f.lean
	if f.envArg {
		t.usesEnv = true
		s += " env"
	}
	for i, a := range x.Args {
		v, k := t.expr(a)
		want := f.params[i]
		ok := k == want || (want == "listT" && k == "fields") || (want == "fnT" && k == "fn:field")
		if !ok {
			gegFail(a, "`%s` is a %s where %s takes a %s", src(a), k, f.lean, want)
		}
		s += " " + v
	}
	return s
}

// twoResults: the right-hand side of `a, b := f(…)`
func (t *geg) twoResults(x ast.Expr) (string, [2]string, bool) {
	c, ok := x.(*ast.CallExpr)
	if !ok {
		gegFail(x, "`%s` does not yield two values in the translated fragment", src(x))
	}
	if src(c.Fun) == "structtag.Parse" && len(c.Args) == 1 {
		t.usesEnv = true
		return "env.structtagParse " + t.exprK(c.Args[0], "str"), [2]string{"tags", "errb"}, false
	}
	if sel, ok := c.Fun.(*ast.SelectorExpr); ok && sel.Sel.Name == "Get" && len(c.Args) == 1 {
		if id, ok := sel.X.(*ast.Ident); ok && t.lookup(id.Name) == "tags" {
			t.usesEnv = true
			return "env.tagsGet " + gegName(id.Name) + " " + t.exprK(c.Args[0], "str"), [2]string{"tag", "errb"}, false
		}
	}
	if id, ok := c.Fun.(*ast.Ident); ok {
		if f := t.fns[id.Name]; f != nil && len(f.results) == 2 {
			return t.callFn(c, f), [2]string{f.results[0], f.results[1]}, true
		}
	}
	gegFail(x, "`%s` does not yield two values in the translated fragment", src(x))
	return "", [2]string{}, false
}

func (t *geg) assignedIn(b ast.Node) map[string]bool {
	r := map[string]bool{}
	ast.Inspect(b, func(n ast.Node) bool {
		switch x := n.(type) {
		case *ast.AssignStmt:
			for _, l := range x.Lhs {
				for {
					if s, ok := l.(*ast.SelectorExpr); ok {
						l = s.X
						continue
					}
					break
				}
				if id, ok := l.(*ast.Ident); ok {
					r[id.Name] = true
				}
			}
		case *ast.IncDecStmt:
			if id, ok := x.X.(*ast.Ident); ok {
				r[id.Name] = true
			}
		case *ast.ExprStmt:
			if c, ok := x.X.(*ast.CallExpr); ok && src(c.Fun) == "sort.Sort" && len(c.Args) == 1 {
				ast.Inspect(c.Args[0], func(m ast.Node) bool {
					if id, ok := m.(*ast.Ident); ok {
						r[id.Name] = true
					}
					return true
				})
			}
		}
		return true
	})
	return r
}

func (t *geg) define(ind int, id *ast.Ident, k, rhs string, monadic bool) {
	if id.Name == "_" {
		return
	}
	arrow := " := "
	if monadic {
		arrow = " ← "
	}
	if t.inScope(id.Name) { // `a, b := …` with b already declared in this scope: an assignment
		if t.lookup(id.Name) != k {
			gegFail(id, "`%s` changes kind from %s to %s", id.Name, t.lookup(id.Name), k)
		}
		t.line(ind, gegName(id.Name)+arrow+rhs)
		return
	}
	t.bind(id.Name, k)
	t.line(ind, "let mut "+gegName(id.Name)+" : "+ggLeanType(k)+arrow+rhs)
}

func (t *geg) stmt(ind int, s ast.Stmt) {
	switch x := s.(type) {
	case *ast.DeclStmt:
		gd, ok := x.Decl.(*ast.GenDecl)
		if ok && gd.Tok == token.CONST && len(gd.Specs) == 1 {
			vs := gd.Specs[0].(*ast.ValueSpec)
			if len(vs.Names) == 1 && len(vs.Values) == 1 && vs.Type == nil {
				if lit, ok := vs.Values[0].(*ast.BasicLit); ok && lit.Kind == token.STRING {
					t.bind(vs.Names[0].Name, "str")
					t.line(ind, "let "+gegName(vs.Names[0].Name)+" : Go.Str := "+ggStr(lit, lit.Value))
					return
				}
			}
		}
	case *ast.AssignStmt:
		if len(x.Lhs) == 2 && len(x.Rhs) == 1 && x.Tok == token.DEFINE {
			a, oka := x.Lhs[0].(*ast.Ident)
			b, okb := x.Lhs[1].(*ast.Ident)
			if !oka || !okb || (t.inScope(a.Name) && t.inScope(b.Name)) {
				break
			}
			rhs, ks, monadic := t.twoResults(x.Rhs[0])
			t.n++
			p := fmt.Sprintf("p%d", t.n)
			if monadic {
				t.line(ind, "let "+p+" ← "+rhs)
			} else {
				t.line(ind, "let "+p+" := "+rhs)
			}
			t.define(ind, a, ks[0], p+".1", false)
			t.define(ind, b, ks[1], p+".2", false)
			return
		}
		if len(x.Lhs) != 1 || len(x.Rhs) != 1 {
			break
		}
		switch x.Tok {
		case token.DEFINE:
			id, ok := x.Lhs[0].(*ast.Ident)
			if !ok || t.inScope(id.Name) {
				break
			}
			v, k := t.expr(x.Rhs[0])
			if k == "fn:field" {
				break
			}
			// a monadic right-hand side is bound with `←` when it is exactly one action
			if strings.HasPrefix(v, "(← ") && strings.HasSuffix(v, ")") && strings.Count(v, "←") == 1 && !strings.HasSuffix(v, ").1") && !strings.HasSuffix(v, ").2") {
				t.define(ind, id, k, v[len("(← "):len(v)-1], true)
			} else {
				t.define(ind, id, k, v, false)
			}
			return
		case token.ASSIGN:
			switch l := x.Lhs[0].(type) {
			case *ast.Ident:
				k := t.lookup(l.Name)
				if k == "" {
					break
				}
				t.line(ind, gegName(l.Name)+" := "+t.exprK(x.Rhs[0], k))
				return
			case *ast.SelectorExpr:
				// v.F = e on a local record
				id, ok := l.X.(*ast.Ident)
				if !ok {
					break
				}
				k := t.lookup(id.Name)
				st := t.structs[k]
				if st == nil || k != "tag" {
					gegFail(s, "`%s`: a write through `%s` (only the local *structtag.Tag is updated in place)", src(s), id.Name)
				}
				for _, f := range st.fields {
					if f.name == l.Sel.Name {
						t.line(ind, gegName(id.Name)+" := { "+gegName(id.Name)+" with "+f.name+" := "+t.exprK(x.Rhs[0], f.kind)+" }")
						return
					}
				}
			}
		case token.ADD_ASSIGN:
			if id, ok := x.Lhs[0].(*ast.Ident); ok && t.lookup(id.Name) == "str" {
				t.line(ind, gegName(id.Name)+" := ("+gegName(id.Name)+" ++ "+t.exprK(x.Rhs[0], "str")+")")
				return
			}
		}
	case *ast.ExprStmt:
		// sort.Sort(x) with x a Fields: the translated Less decides the order
		if c, ok := x.X.(*ast.CallExpr); ok && src(c.Fun) == "sort.Sort" && len(c.Args) == 1 {
			a := c.Args[0]
			if cv, ok := a.(*ast.CallExpr); ok && src(cv.Fun) == "Fields" && len(cv.Args) == 1 {
				a = cv.Args[0]
			}
			id, ok := a.(*ast.Ident)
			if ok && t.lookup(id.Name) == "fields" && t.fns["Fields.Less"] != nil {
				t.usesEnv = true
				t.line(ind, gegName(id.Name)+" := env.sortSort Fields.Less "+gegName(id.Name))
				return
			}
		}
	case *ast.IfStmt:
		if x.Init != nil {
			break
		}
		t.ifStmt(ind, x)
		return
	case *ast.ForStmt:
		// for i := 0; i < N; i++ { … } with N a plain int that the body does not change
		init, ok1 := x.Init.(*ast.AssignStmt)
		cond, ok2 := x.Cond.(*ast.BinaryExpr)
		post, ok3 := x.Post.(*ast.IncDecStmt)
		if ok1 && ok2 && ok3 && init.Tok == token.DEFINE && len(init.Lhs) == 1 && len(init.Rhs) == 1 && src(init.Rhs[0]) == "0" &&
			cond.Op == token.LSS && src(cond.X) == src(init.Lhs[0]) && post.Tok == token.INC && src(post.X) == src(init.Lhs[0]) {
			i := init.Lhs[0].(*ast.Ident).Name
			n := t.pure(cond.Y)
			if _, k := t.expr(cond.Y); k != "int" {
				break
			}
			as := t.assignedIn(x.Body)
			bad := as[i]
			ast.Inspect(cond.Y, func(m ast.Node) bool {
				if id, ok := m.(*ast.Ident); ok && as[id.Name] {
					bad = true
				}
				return true
			})
			if bad {
				gegFail(s, "the loop body assigns the loop variable or its bound")
			}
			ast.Inspect(x.Body, func(m ast.Node) bool {
				if b, ok := m.(*ast.BranchStmt); ok {
					gegFail(b, "`%s` in a loop", b.Tok)
				}
				return true
			})
			t.push()
			t.bind(i, "int")
			t.line(ind, "for "+gegName(i)+" in List.range' 0 "+n+" do")
			t.block(ind+1, x.Body)
			t.pop()
			return
		}
	case *ast.RangeStmt:
		key, okk := x.Key.(*ast.Ident)
		val, okv := x.Value.(*ast.Ident)
		if okk && okv && key.Name == "_" && x.Tok == token.DEFINE {
			over, k := t.expr(x.X)
			ek := map[string]string{"listT": "T", "fields": "field"}[k]
			if ek != "" {
				if id, ok := x.X.(*ast.Ident); ok && t.assignedIn(x.Body)[id.Name] {
					gegFail(s, "the loop body assigns the slice it ranges over")
				}
				ast.Inspect(x.Body, func(m ast.Node) bool {
					if b, ok := m.(*ast.BranchStmt); ok {
						gegFail(b, "`%s` in a loop", b.Tok)
					}
					return true
				})
				t.push()
				t.bind(val.Name, ek)
				t.line(ind, "for "+gegName(val.Name)+" in "+over+" do")
				t.block(ind+1, x.Body)
				t.pop()
				return
			}
		}
	case *ast.ReturnStmt:
		if len(x.Results) != len(t.rets) {
			break
		}
		var vs []string
		for i, r := range x.Results {
			if isNil(r) {
				switch t.rets[i] {
				case "optfield", "optdesc", "erro":
					vs = append(vs, "none")
					continue
				}
				gegFail(s, "nil as a %s", t.rets[i])
			}
			vs = append(vs, t.exprK(r, t.rets[i]))
		}
		if len(vs) == 1 {
			t.line(ind, "return "+vs[0])
		} else {
			t.line(ind, "return ("+strings.Join(vs, ", ")+")")
		}
		return
	}
	gegFail(s, "statement `%s` is outside the translated fragment", src(s))
}

func (t *geg) block(ind int, b *ast.BlockStmt) {
	t.push()
	if len(b.List) == 0 {
		t.line(ind, "pure ()")
	}
	for _, s := range b.List {
		t.stmt(ind, s)
	}
	t.pop()
}

func (t *geg) ifStmt(ind int, x *ast.IfStmt) {
	t.line(ind, "if "+t.exprK(x.Cond, "bool")+" then")
	// inside `if v != nil { … }` the pointer v is known not to be nil
	nn := ""
	if be, ok := x.Cond.(*ast.BinaryExpr); ok && be.Op == token.NEQ && isNil(be.Y) {
		if id, ok := be.X.(*ast.Ident); ok && !t.assignedIn(x.Body)[id.Name] {
			nn = id.Name
		}
	}
	if nn != "" {
		t.nonNil[nn]++
	}
	t.block(ind+1, x.Body)
	if nn != "" {
		t.nonNil[nn]--
	}
	switch e := x.Else.(type) {
	case nil:
	case *ast.BlockStmt:
		t.line(ind, "else")
		t.block(ind+1, e)
	case *ast.IfStmt:
		if e.Init != nil {
			gegFail(e, "`if` with an init statement")
		}
		t.line(ind, "else")
		t.ifStmt(ind+1, e)
	default:
		gegFail(x, "else branch")
	}
}

// ---- declarations ----

func ggParse(repo, rel string) *ast.File {
	f, err := parser.ParseFile(fset, filepath.Join(repo, rel), nil, 0)
	if err != nil {
		fail("gerrorgen: %v", err)
	}
	return f
}

func ggFuncs(f *ast.File) map[string]*ast.FuncDecl {
	r := map[string]*ast.FuncDecl{}
	for _, d := range f.Decls {
		if fd, ok := d.(*ast.FuncDecl); ok && fd.Body != nil {
			key := fd.Name.Name
			if fd.Recv != nil && len(fd.Recv.List) == 1 {
				key = recvTypeName(fd.Recv.List[0].Type) + "." + key
			}
			r[key] = fd
		}
	}
	return r
}

func ggStructDecl(f *ast.File, tn string) *ast.StructType {
	for _, d := range f.Decls {
		if gd, ok := d.(*ast.GenDecl); ok && gd.Tok == token.TYPE {
			for _, sp := range gd.Specs {
				ts := sp.(*ast.TypeSpec)
				if st, ok := ts.Type.(*ast.StructType); ok && ts.Name.Name == tn {
					return st
				}
			}
		}
	}
	fail("gerrorgen: type %s struct not found", tn)
	return nil
}

type ggSpec struct {
	file    *ast.File
	key     string   // Go name
	lean    string   // Lean name
	recvK   string   // kind of the receiver ("" = none)
	skip    int      // leading statements that are checked against `prefix` and not translated
	prefix  []string // their source text
	extra   string   // extra leading Lean parameters (in place of what the skipped prefix computes)
	extraK  [][2]string
	dropPar map[string]bool // Go parameters that only the skipped prefix reads
}

func runGerrorGen(repo, out string) {
	gen := ggParse(repo, "gerror/gen/generate.go")
	types := ggParse(repo, "gerror/gen/error_types.go")
	gsort := ggParse(repo, "gerror/gen/error_types.gsort.go")
	gerr := ggParse(repo, "gerror/gerror.go")

	t := &geg{structs: map[string]*ggStruct{}, fns: map[string]*ggFn{}, nonNil: map[string]int{}}
	t.structs["tag"] = &ggStruct{"Tag", []cbField{{"Name", "str"}, {"Options", "strs"}}}
	t.structs["var"] = &ggStruct{"Var", nil} // queried through Name() / Embedded() only

	var b strings.Builder
	b.WriteString("import Model.GoPrelude\nimport Generated.GoSet\n")
	b.WriteString("/-! REGENERATED on every run by harness/cmd/go2lean -spec gerrorgen from gerror/gen/generate.go (createField,\ncreateErrorDesc from its field loop on), gerror/gen/error_types.go (Field, ErrorDesc, filter, FieldsToPrint,\nFieldsToClone), gerror/gen/error_types.gsort.go (Fields.Less) and gerror/gerror.go ((*GError).Error).  Do not edit.\nEach definition follows the Go function statement by statement.  Parameters of the translation (`Env`):\nstructtag.Parse, Tags.Get, sort.Sort (handed the translated Less), len / String of a Stack.  `set.Make` and\n`Set.Has` are the TRANSLATED functions of Generated/GoSet.lean.  A `*types.Var` is what its Name()/Embedded()\nanswer, a `*types.Struct` the list of its fields with their tags, an error value its text (for fmt.Errorf: the\nformat literal).  A returned `*Field` may be nil (`Option`); elements of a `Fields` slice are not. -/\nnamespace Generated.GoGerrorGen\n\n")
	b.WriteString("/-- `structtag.Tag` as far as the generator reads it -/\nstructure Tag where\n  Name : Go.Str\n  Options : List Go.Str\n  deriving Inhabited\n\n")
	b.WriteString("/-- `*types.Var`: the answers of `Name()` and `Embedded()` -/\nstructure Var where\n  Name : Go.Str\n  Embedded : Bool\n  deriving Inhabited\n\n")
	b.WriteString("/-- an error value made by `fmt.Errorf` (its format literal) or `errors.New` (its text) -/\nstructure GoError where\n  text : Go.Str\n  deriving DecidableEq, Inhabited\n\n")

	// structs of error_types.go, as declared
	for _, sd := range []struct{ tn, kind string }{{"Field", "field"}, {"ErrorDesc", "desc"}} {
		st := ggStructDecl(types, sd.tn)
		gs := &ggStruct{lean: sd.tn}
		fmt.Fprintf(&b, "/-- `type %s struct` -/\nstructure %s where\n", sd.tn, sd.tn)
		for _, f := range st.Fields.List {
			k := ggTypeKind(f.Type, "struct field")
			if len(f.Names) == 0 {
				gegFail(f, "embedded field in %s", sd.tn)
			}
			for _, n := range f.Names {
				gs.fields = append(gs.fields, cbField{n.Name, k})
				fmt.Fprintf(&b, "  %s : %s\n", n.Name, ggLeanType(k))
			}
		}
		if sd.kind == "field" {
			b.WriteString("  deriving DecidableEq, Inhabited\n")
		}
		b.WriteString("\n")
		t.structs[sd.kind] = gs
	}
	// struct GError: the string fields and the stack
	{
		st := ggStructDecl(gerr, "GError")
		gs := &ggStruct{lean: "GError σ"}
		var skipped []string
		b.WriteString("/-- `type GError struct`: its string fields and the stack -/\nstructure GError (σ : Type) where\n")
		for _, f := range st.Fields.List {
			ty := src(f.Type)
			for _, n := range f.Names {
				switch ty {
				case "string":
					gs.fields = append(gs.fields, cbField{n.Name, "str"})
					fmt.Fprintf(&b, "  %s : Go.Str\n", n.Name)
				case "Stack":
					gs.fields = append(gs.fields, cbField{n.Name, "stack"})
					fmt.Fprintf(&b, "  %s : σ\n", n.Name)
				default:
					skipped = append(skipped, n.Name+" "+ty)
				}
			}
		}
		fmt.Fprintf(&b, "\n/-- fields of GError outside the translation (no translated function may read them) -/\ndef GError.untranslated : List String := [%s]\n\n", `"`+strings.Join(skipped, `", "`)+`"`)
		t.structs["gerr"] = gs
	}
	// type Fields []*Field with the canonical Len and Swap
	{
		found := false
		for _, d := range gsort.Decls {
			if gd, ok := d.(*ast.GenDecl); ok && gd.Tok == token.TYPE {
				for _, sp := range gd.Specs {
					ts := sp.(*ast.TypeSpec)
					if ts.Name.Name == "Fields" {
						if src(ts.Type) != "[]*Field" {
							fail("gerrorgen: type Fields is `%s`, the translation assumes `[]*Field`", src(ts.Type))
						}
						found = true
					}
				}
			}
		}
		if !found {
			fail("gerrorgen: type Fields not found in error_types.gsort.go")
		}
		fs := ggFuncs(gsort)
		for name, want := range map[string]string{"Fields.Len": "{ return len(s) }", "Fields.Swap": "{ s[i], s[j] = s[j], s[i] }"} {
			fd := fs[name]
			if fd == nil || src(fd.Body) != want || recvName2(fd) != "s" {
				fail("gerrorgen: %s is not the canonical `%s` (sort.Sort is given its contract only for that)", name, want)
			}
		}
		if fd := fs["Fields.Swap"]; len(fd.Type.Params.List) != 1 || src(fd.Type.Params.List[0].Type) != "int" || len(fd.Type.Params.List[0].Names) != 2 ||
			fd.Type.Params.List[0].Names[0].Name != "i" || fd.Type.Params.List[0].Names[1].Name != "j" {
			fail("gerrorgen: Fields.Swap: parameters")
		}
	}

	b.WriteString("/-- library and runtime functions the translated code calls -/\nstructure Env (τ σ : Type) where\n  structtagParse : Go.Str → τ × Bool\n  tagsGet : τ → Go.Str → Tag × Bool\n  sortSort : (List Field → Nat → Nat → Go.M Bool) → List Field → List Field\n  stackLen : σ → Nat\n  stackString : σ → Go.Str\n\nvariable {τ σ α : Type}\n\n")

	specs := []ggSpec{
		{file: gen, key: "createField", lean: "createField"},
		{file: types, key: "filter", lean: "filter"},
		{file: gsort, key: "Fields.Less", lean: "Fields.Less", recvK: "fields"},
		{file: types, key: "ErrorDesc.FieldsToPrint", lean: "ErrorDesc.FieldsToPrint", recvK: "desc"},
		{file: types, key: "ErrorDesc.FieldsToClone", lean: "ErrorDesc.FieldsToClone", recvK: "desc"},
		{file: gen, key: "Generate.createErrorDesc", lean: "createErrorDesc", recvK: "-", skip: 2,
			prefix: []string{
				`if obj == nil { return nil, errors.New(typeName + " was not found in AST") }`,
				`strukt, ok := obj.Type().Underlying().(*types.Struct) if !ok { return nil, errors.New(typeName + " is not a struct") }`},
			extra: "(strukt : List (Var × Go.Str))", extraK: [][2]string{{"strukt", "strukt"}}, dropPar: map[string]bool{"obj": true}},
		{file: gerr, key: "GError.Error", lean: "GError.Error", recvK: "gerr"},
	}
	var names []string
	for _, sp := range specs {
		fd := ggFuncs(sp.file)[sp.key]
		if fd == nil {
			fail("gerrorgen: func %s not found", sp.key)
		}
		t.env, t.n, t.usesEnv = nil, 0, false
		t.out.Reset()
		t.push()
		sig := ""
		fn := &ggFn{lean: sp.lean}
		if fd.Recv != nil {
			if sp.recvK == "" {
				fail("gerrorgen: %s has a receiver", sp.key)
			}
			if sp.recvK != "-" { // "-": a receiver the translated part must not touch
				r := fd.Recv.List[0]
				if len(r.Names) != 1 {
					fail("gerrorgen: %s: receiver without a name", sp.key)
				}
				k := sp.recvK
				if want := map[string]string{"fields": "Fields", "desc": "*ErrorDesc", "gerr": "*GError"}[k]; src(r.Type) != want {
					fail("gerrorgen: %s: receiver type `%s`, the translation assumes `%s`", sp.key, src(r.Type), want)
				}
				t.bind(r.Names[0].Name, k)
				sig += " (" + gegName(r.Names[0].Name) + " : " + ggLeanType(k) + ")"
				fn.params = append(fn.params, k)
			}
		} else if sp.recvK != "" {
			fail("gerrorgen: %s has no receiver", sp.key)
		}
		sig += map[bool]string{true: " " + sp.extra, false: ""}[sp.extra != ""]
		for _, e := range sp.extraK {
			t.bind(e[0], e[1])
		}
		for _, p := range fd.Type.Params.List {
			for _, n := range p.Names {
				if sp.dropPar[n.Name] {
					continue
				}
				k := ggTypeKind(p.Type, "parameter")
				t.bind(n.Name, k)
				sig += " (" + gegName(n.Name) + " : " + ggLeanType(k) + ")"
				fn.params = append(fn.params, k)
			}
		}
		if fd.Type.Results == nil {
			fail("gerrorgen: %s has no result", sp.key)
		}
		var rts []string
		for _, r := range fd.Type.Results.List {
			if len(r.Names) > 0 {
				fail("gerrorgen: %s: named results", sp.key)
			}
			k := ggTypeKind(r.Type, "result")
			fn.results = append(fn.results, k)
			rts = append(rts, ggLeanType(k))
		}
		t.rets = fn.results
		body := fd.Body.List
		if sp.skip > 0 {
			// the statements before the translated part: exactly the known guards, over parameters the
			// translated part does not see
			if len(body) < 4 {
				fail("gerrorgen: %s: body too short", sp.key)
			}
			got := []string{src(body[0]), src(body[1]) + " " + src(body[2])}
			for i := range sp.prefix {
				if got[i] != sp.prefix[i] {
					fail("gerrorgen: %s: the statements before the field loop are `%s`; the translation assumes `%s`", sp.key, got[i], sp.prefix[i])
				}
			}
			body = body[3:]
		}
		for _, s := range body {
			t.stmt(1, s)
		}
		if n := len(body); n == 0 || !endsInReturn(body[n-1]) {
			fail("gerrorgen: %s can fall off its end", sp.key)
		}
		if sp.recvK == "-" {
			// the receiver must not occur in the translated part (it is not bound, so the translation would have failed)
		}
		fn.envArg = t.usesEnv
		envSig := ""
		if fn.envArg {
			envSig = " (env : Env τ σ)"
		}
		t.fns[strings.TrimPrefix(sp.key, "Generate.")] = fn
		if sp.key == "Fields.Less" {
			t.fns["Fields.Less"] = fn
		}
		fmt.Fprintf(&b, "/-- `%s` -/\ndef %s%s%s : Go.M (%s) := do\n%s\n", src(&ast.FuncDecl{Recv: fd.Recv, Name: fd.Name, Type: fd.Type}), sp.lean, envSig, sig, strings.Join(rts, " × "), t.out.String())
		names = append(names, sp.lean)
	}
	fmt.Fprintf(&b, "/-- the translated functions -/\ndef translated : List String := [%s]\n\nend Generated.GoGerrorGen\n", `"`+strings.Join(names, `", "`)+`"`)
	if err := os.WriteFile(out, []byte(b.String()), 0o644); err != nil {
		fail("%v", err)
	}
	fmt.Printf("go2lean gerrorgen: %s -> %s\n", strings.Join(names, ", "), out)
}

func recvName2(fd *ast.FuncDecl) string {
	if fd.Recv == nil || len(fd.Recv.List) != 1 || len(fd.Recv.List[0].Names) != 1 {
		return ""
	}
	return fd.Recv.List[0].Names[0].Name
}

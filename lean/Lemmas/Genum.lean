import Model.Genum
/-! Technical lemmas about `Model/Genum` (encoding, ordering, sorting, de-duplication, binary
search). The property theorems are in `Properties/C04.lean`. -/
namespace Genum

/-! ### the uint64 + Signed encoding -/

/-- both values fit one Go integer type of at most 64 bits -/
def Compat (a b : Int) : Prop :=
  (-9223372036854775808 ≤ a ∧ a < 9223372036854775808 ∧ -9223372036854775808 ≤ b ∧ b < 9223372036854775808) ∨
  (0 ≤ a ∧ a < 18446744073709551616 ∧ 0 ≤ b ∧ b < 18446744073709551616)

theorem pow_le_two63 {n : Nat} (h : n ≤ 63) : (2 : Int) ^ n ≤ 9223372036854775808 := by
  have h' : (2 : Nat) ^ n ≤ 2 ^ 63 := Nat.pow_le_pow_right (by decide) h
  have : ((2 ^ n : Nat) : Int) ≤ ((2 ^ 63 : Nat) : Int) := Int.ofNat_le.mpr h'
  simpa [Int.natCast_pow] using this

theorem pow_le_two64 {n : Nat} (h : n ≤ 64) : (2 : Int) ^ n ≤ 18446744073709551616 := by
  have h' : (2 : Nat) ^ n ≤ 2 ^ 64 := Nat.pow_le_pow_right (by decide) h
  have : ((2 ^ n : Nat) : Int) ≤ ((2 ^ 64 : Nat) : Int) := Int.ofNat_le.mpr h'
  simpa [Int.natCast_pow] using this

theorem compat_of_inRange {k : IntKind} (hk : k.WF) {a b : Int} (ha : k.InRange a) (hb : k.InRange b) :
    Compat a b := by
  unfold IntKind.InRange IntKind.minVal IntKind.maxVal at ha hb
  obtain ⟨h1, h2⟩ := hk
  by_cases hs : k.signed
  · simp [hs] at ha hb
    have := pow_le_two63 (n := k.bits - 1) (by omega)
    left; omega
  · simp [hs] at ha hb
    have := pow_le_two64 (n := k.bits) h2
    right; omega

theorem asI64_toU64 {a : Int} (h1 : -9223372036854775808 ≤ a) (h2 : a < 9223372036854775808) :
    asI64 (toU64 a) = a := by
  unfold asI64 toU64 two63 two64
  split <;> omega

theorem toU64_nonneg {a : Int} (h1 : 0 ≤ a) (h2 : a < 18446744073709551616) : (toU64 a : Int) = a := by
  unfold toU64 two64
  omega

/-- the order the constants of one type are sorted in: by value, ties by name -/
def R (a b : Value) : Prop := a.val < b.val ∨ (a.val = b.val ∧ a.name < b.name)

instance (a b : Value) : Decidable (R a b) := by unfold R; exact inferInstance

/-- `less_iff_lt`: on the images of two constants of one integer type `Value.Less` is the order
of the integers (ties by name), whatever the width and signedness. -/
theorem less_ofConst (a b : Const) (h : Compat a.val b.val) :
    (Value.ofConst a).less (Value.ofConst b) = decide (R (Value.ofConst a) (Value.ofConst b)) := by
  unfold Value.less R Value.ofConst
  simp only
  rcases h with ⟨h1, h2, h3, h4⟩ | ⟨h1, h2, h3, h4⟩
  · -- signed type: whichever branch is taken, both compare the integers
    by_cases hs : (decide (a.val < 0) || decide (b.val < 0)) = true
    · rw [if_pos hs, asI64_toU64 h1 h2, asI64_toU64 h3 h4]
      by_cases he : a.val = b.val
      · simp [he]
      · simp [he]
    · rw [if_neg hs]
      simp at hs
      have ea := toU64_nonneg (a := a.val) (by omega) (by omega)
      have eb := toU64_nonneg (a := b.val) (by omega) (by omega)
      by_cases he : a.val = b.val
      · simp [he]
      · have : toU64 a.val ≠ toU64 b.val := by omega
        simp [he, this]
        omega
  · have hs : ¬ (decide (a.val < 0) || decide (b.val < 0)) = true := by simp; omega
    rw [if_neg hs]
    have ea := toU64_nonneg h1 h2
    have eb := toU64_nonneg h3 h4
    by_cases he : a.val = b.val
    · simp [he]
    · have : toU64 a.val ≠ toU64 b.val := by omega
      simp [he, this]
      omega

theorem value_eq_iff (a b : Const) (h : Compat a.val b.val) :
    (Value.ofConst a).value = (Value.ofConst b).value ↔ a.val = b.val := by
  unfold Value.ofConst; simp only
  rcases h with ⟨h1, h2, h3, h4⟩ | ⟨h1, h2, h3, h4⟩
  · constructor
    · intro e
      have := asI64_toU64 h1 h2
      have := asI64_toU64 h3 h4
      rw [e] at *; omega
    · intro e; rw [e]
  · have ea := toU64_nonneg h1 h2
    have eb := toU64_nonneg h3 h4
    constructor
    · intro e; rw [e] at ea; omega
    · intro e; rw [e]

/-! ### `R` is a strict total order on values with distinct names -/

theorem String.le_of_lt' {a b : String} (h : a < b) : a ≤ b := by
  rcases String.le_total a b with h' | h'
  · exact h'
  · exact absurd h (String.not_lt.mpr h')

theorem R_irrefl (a : Value) : ¬ R a a := by
  unfold R; intro h
  rcases h with h | ⟨_, h⟩
  · omega
  · exact String.lt_irrefl _ h

theorem R_trans {a b c : Value} (h1 : R a b) (h2 : R b c) : R a c := by
  unfold R at *
  rcases h1 with h1 | ⟨e1, n1⟩ <;> rcases h2 with h2 | ⟨e2, n2⟩
  · left; omega
  · left; omega
  · left; omega
  · right; exact ⟨by omega, String.lt_trans n1 n2⟩

theorem R_asymm {a b : Value} (h1 : R a b) : ¬ R b a := fun h2 => R_irrefl a (R_trans h1 h2)

/-- trichotomy up to (value, name) -/
theorem R_total {a b : Value} (h1 : ¬ R a b) (h2 : ¬ R b a) : a.val = b.val ∧ a.name = b.name := by
  unfold R at *
  have hv : a.val = b.val := by
    apply Classical.byContradiction; intro hne
    have : a.val < b.val ∨ b.val < a.val := by omega
    rcases this with h | h
    · exact h1 (Or.inl h)
    · exact h2 (Or.inl h)
  refine ⟨hv, ?_⟩
  have n1 : ¬ a.name < b.name := fun h => h1 (Or.inr ⟨hv, h⟩)
  have n2 : ¬ b.name < a.name := fun h => h2 (Or.inr ⟨hv.symm, h⟩)
  exact String.le_antisymm (String.not_lt.mp n2) (String.not_lt.mp n1)

/-! ### sorting -/

theorem insertBy_perm (less : Value → Value → Bool) (x : Value) (l : List Value) :
    (insertBy less x l).Perm (x :: l) := by
  induction l with
  | nil => exact List.Perm.refl _
  | cons y ys ih =>
    unfold insertBy
    split
    · exact List.Perm.refl _
    · exact (List.Perm.cons y ih).trans (List.Perm.swap x y ys)

theorem sortValues_perm (l : List Value) : (sortValues l).Perm l := by
  induction l with
  | nil => exact List.Perm.refl _
  | cons x xs ih =>
    show (insertBy Value.less x (sortValues xs)).Perm (x :: xs)
    exact (insertBy_perm _ x _).trans (List.Perm.cons x ih)

theorem mem_sortValues {l : List Value} {v : Value} : v ∈ sortValues l ↔ v ∈ l :=
  (sortValues_perm l).mem_iff

/-- `less` decides `R` on the list (true for the images of the constants of one type) -/
def LessIsR (l : List Value) : Prop := ∀ a ∈ l, ∀ b ∈ l, a.less b = decide (R a b)

theorem insertBy_sorted (x : Value) (l : List Value)
    (hl : l.Pairwise (fun a b => ¬ R b a)) (hx : ∀ y ∈ l, x.less y = decide (R x y)) :
    (insertBy Value.less x l).Pairwise (fun a b => ¬ R b a) := by
  induction l with
  | nil => simp [insertBy]
  | cons y ys ih =>
    unfold insertBy
    rw [List.pairwise_cons] at hl
    have hxy := hx y (by simp)
    split
    · rename_i hlt
      rw [hxy] at hlt
      have rxy : R x y := of_decide_eq_true hlt
      rw [List.pairwise_cons]
      refine ⟨?_, List.pairwise_cons.mpr hl⟩
      intro z hz
      rcases List.mem_cons.mp hz with rfl | hz
      · exact R_asymm rxy
      · intro rzx; exact hl.1 z hz (R_trans rzx rxy)
    · rename_i hlt
      rw [hxy] at hlt
      have nrxy : ¬ R x y := by simpa using hlt
      rw [List.pairwise_cons]
      refine ⟨?_, ih hl.2 (fun z hz => hx z (List.mem_cons_of_mem _ hz))⟩
      intro z hz
      have hz' := (insertBy_perm Value.less x ys).mem_iff.mp hz
      rcases List.mem_cons.mp hz' with rfl | hz'
      · exact nrxy
      · exact hl.1 z hz'

theorem sortValues_sorted_le (l : List Value) (h : LessIsR l) :
    (sortValues l).Pairwise (fun a b => ¬ R b a) := by
  induction l with
  | nil => simp [sortValues]
  | cons x xs ih =>
    show (insertBy Value.less x (sortValues xs)).Pairwise _
    apply insertBy_sorted
    · exact ih (fun a ha b hb => h a (List.mem_cons_of_mem _ ha) b (List.mem_cons_of_mem _ hb))
    · intro y hy
      exact h x (by simp) y (List.mem_cons_of_mem _ (mem_sortValues.mp hy))

/-- with pairwise distinct names the sorted list is strictly ascending in (value, name) -/
theorem sortValues_sorted (l : List Value) (h : LessIsR l) (hn : (l.map (·.name)).Nodup) :
    (sortValues l).Pairwise R := by
  have h1 := sortValues_sorted_le l h
  have h2 : ((sortValues l).map (·.name)).Nodup := ((sortValues_perm l).map _).nodup_iff.mpr hn
  rw [List.Nodup, List.pairwise_map] at h2
  exact (h1.and h2).imp (fun {a b} ⟨hab, hne⟩ => by
    apply Classical.byContradiction; intro hr
    exact hne (R_total hr hab).2)

/-! ### de-duplication -/

/-- `o` is the primary entry of its value among `l`: the first live name, else the first name -/
def PrimaryIn (l : List Value) (o : Value) : Prop :=
  o ∈ l ∧
  ((o.deprecated = false ∧ ∀ c ∈ l, c.val = o.val → c.deprecated = false → o.name ≤ c.name) ∨
   ((∀ c ∈ l, c.val = o.val → c.deprecated = true) ∧ ∀ c ∈ l, c.val = o.val → o.name ≤ c.name))

/-- equality of the uint64 images is equality of the values (true within one integer type) -/
def ValueFaithful (l : List Value) : Prop := ∀ a ∈ l, ∀ b ∈ l, (a.value = b.value ↔ a.val = b.val)

theorem ValueFaithful.mono {l l' : List Value} (h : ValueFaithful l) (hs : ∀ a ∈ l', a ∈ l) : ValueFaithful l' :=
  fun a ha b hb => h a (hs a ha) b (hs b hb)

theorem PrimaryIn.append_right {l1 l2 : List Value} {o : Value} (h : PrimaryIn l1 o)
    (hne : ∀ c ∈ l2, c.val ≠ o.val) : PrimaryIn (l1 ++ l2) o := by
  obtain ⟨hm, h⟩ := h
  refine ⟨List.mem_append_left _ hm, ?_⟩
  rcases h with ⟨hd, h⟩ | ⟨h1, h2⟩
  · left; refine ⟨hd, ?_⟩
    intro c hc hv hdc
    rcases List.mem_append.mp hc with hc | hc
    · exact h c hc hv hdc
    · exact absurd hv (hne c hc)
  · right; constructor
    · intro c hc hv
      rcases List.mem_append.mp hc with hc | hc
      · exact h1 c hc hv
      · exact absurd hv (hne c hc)
    · intro c hc hv
      rcases List.mem_append.mp hc with hc | hc
      · exact h2 c hc hv
      · exact absurd hv (hne c hc)

theorem PrimaryIn.append_left {l1 l2 : List Value} {o : Value} (h : PrimaryIn l2 o)
    (hne : ∀ c ∈ l1, c.val ≠ o.val) : PrimaryIn (l1 ++ l2) o := by
  obtain ⟨hm, h⟩ := h
  refine ⟨List.mem_append_right _ hm, ?_⟩
  rcases h with ⟨hd, h⟩ | ⟨h1, h2⟩
  · left; refine ⟨hd, ?_⟩
    intro c hc hv hdc
    rcases List.mem_append.mp hc with hc | hc
    · exact absurd hv (hne c hc)
    · exact h c hc hv hdc
  · right; constructor
    · intro c hc hv
      rcases List.mem_append.mp hc with hc | hc
      · exact absurd hv (hne c hc)
      · exact h1 c hc hv
    · intro c hc hv
      rcases List.mem_append.mp hc with hc | hc
      · exact absurd hv (hne c hc)
      · exact h2 c hc hv

theorem PrimaryIn.single (x : Value) : PrimaryIn [x] x := by
  refine ⟨by simp, ?_⟩
  cases hd : x.deprecated
  · left; refine ⟨rfl, ?_⟩
    intro c hc _ _
    rw [List.mem_singleton.mp hc]; exact String.le_refl _
  · right; constructor
    · intro c hc _; rw [List.mem_singleton.mp hc]; exact hd
    · intro c hc _; rw [List.mem_singleton.mp hc]; exact String.le_refl _

theorem R.val_le {a b : Value} (h : R a b) : a.val ≤ b.val := by
  unfold R at h; omega

theorem dedupLoop_primary (xs : List Value) : ∀ (seen : List Value) (cur : Value),
    cur ∈ seen → (∀ c ∈ seen, c.val = cur.val) → PrimaryIn seen cur →
    (seen ++ xs).Pairwise R → ValueFaithful (seen ++ xs) →
    ∀ o ∈ dedupLoop cur cur.deprecated xs, PrimaryIn (seen ++ xs) o := by
  induction xs with
  | nil =>
    intro seen cur _ _ hp _ _ o ho
    simp [dedupLoop] at ho
    subst ho; simpa using hp
  | cons x xs ih =>
    intro seen cur hcs hsame hp hsort hf o ho
    have hpa := List.pairwise_append.mp hsort
    have hx_mem : x ∈ seen ++ x :: xs := List.mem_append_right _ (by simp)
    have hcur_mem : cur ∈ seen ++ x :: xs := List.mem_append_left _ hcs
    have rcx : R cur x := hpa.2.2 cur hcs x (by simp)
    have hfx := hf cur hcur_mem x hx_mem
    have hxs_sorted := List.pairwise_cons.mp hpa.2.1
    have eassoc : seen ++ x :: xs = (seen ++ [x]) ++ xs := by simp
    unfold dedupLoop at ho
    by_cases hv : cur.value = x.value
    · -- same value: the entry may be replaced, the group grows by x
      have hval : cur.val = x.val := hfx.mp hv
      have hname : cur.name < x.name := by
        unfold R at rcx
        rcases rcx with h | ⟨_, h⟩
        · omega
        · exact h
      have hsame' : ∀ c ∈ seen ++ [x], c.val = x.val := by
        intro c hc
        rcases List.mem_append.mp hc with hc | hc
        · rw [hsame c hc, hval]
        · rw [List.mem_singleton.mp hc]
      have hne : (cur.value != x.value) = false := by simp [hv]
      rw [if_neg (by simp [hne])] at ho
      by_cases hrep : (cur.deprecated && !x.deprecated) = true
      · rw [if_pos hrep] at ho
        simp at hrep
        have hxd : x.deprecated = false := hrep.2
        -- all of `seen` is deprecated, x is the first live name
        have hall : ∀ c ∈ seen, c.val = cur.val → c.deprecated = true := by
          rcases hp.2 with ⟨hd, _⟩ | ⟨h1, _⟩
          · rw [hrep.1] at hd; cases hd
          · exact h1
        have hpx : PrimaryIn (seen ++ [x]) x := by
          refine ⟨by simp, Or.inl ⟨hxd, ?_⟩⟩
          intro c hc _ hcd
          rcases List.mem_append.mp hc with hc | hc
          · have := hall c hc (hsame c hc); rw [this] at hcd; cases hcd
          · rw [List.mem_singleton.mp hc]; exact String.le_refl _
        rw [eassoc]
        rw [← hxd] at ho
        exact ih (seen ++ [x]) x (by simp) hsame' hpx (eassoc ▸ hsort) (eassoc ▸ hf) o ho
      · rw [if_neg hrep] at ho
        have hpc : PrimaryIn (seen ++ [x]) cur := by
          refine ⟨List.mem_append_left _ hcs, ?_⟩
          rcases hp.2 with ⟨hd, h⟩ | ⟨h1, h2⟩
          · left; refine ⟨hd, ?_⟩
            intro c hc hcv hcd
            rcases List.mem_append.mp hc with hc | hc
            · exact h c hc hcv hcd
            · rw [List.mem_singleton.mp hc]; exact String.le_of_lt' hname
          · have hcd : cur.deprecated = true := h1 cur hcs rfl
            have hxd : x.deprecated = true := by
              cases hxd : x.deprecated
              · exact absurd (by simp [hcd, hxd]) hrep
              · rfl
            right; constructor
            · intro c hc hcv
              rcases List.mem_append.mp hc with hc | hc
              · exact h1 c hc hcv
              · rw [List.mem_singleton.mp hc]; exact hxd
            · intro c hc hcv
              rcases List.mem_append.mp hc with hc | hc
              · exact h2 c hc hcv
              · rw [List.mem_singleton.mp hc]; exact String.le_of_lt' hname
        have hsame'' : ∀ c ∈ seen ++ [x], c.val = cur.val := fun c hc => by rw [hsame' c hc, hval]
        rw [eassoc]
        exact ih (seen ++ [x]) cur (List.mem_append_left _ hcs) hsame'' hpc (eassoc ▸ hsort) (eassoc ▸ hf) o ho
    · -- a new value starts
      have hvne : cur.val ≠ x.val := fun e => hv (hfx.mpr e)
      have hlt : cur.val < x.val := by have := rcx.val_le; omega
      have hne : (cur.value != x.value) = true := by simp [hv]
      rw [if_pos hne] at ho
      have hge : ∀ c ∈ x :: xs, x.val ≤ c.val := by
        intro c hc
        rcases List.mem_cons.mp hc with rfl | hc
        · exact Int.le_refl _
        · exact (hxs_sorted.1 c hc).val_le
      rcases List.mem_cons.mp ho with rfl | ho
      · exact hp.append_right (fun c hc => by have := hge c hc; omega)
      · have hsub : ∀ a ∈ [x] ++ xs, a ∈ seen ++ x :: xs := fun a ha => List.mem_append_right _ (by simpa using ha)
        have := ih [x] x (by simp) (by simp) (PrimaryIn.single x) (by simpa using hpa.2.1) (hf.mono hsub) o ho
        have hox : x.val ≤ o.val := hge o (by simpa using this.1)
        have := this.append_left (l1 := seen) (fun c hc => by rw [hsame c hc]; omega)
        simpa using this

theorem dedupLoop_vals (xs : List Value) : ∀ (cur : Value) (ad : Bool),
    (∀ x ∈ xs, cur.val ≤ x.val) → xs.Pairwise (fun a b => a.val ≤ b.val) → ValueFaithful (cur :: xs) →
    ((dedupLoop cur ad xs).map (·.val)).Pairwise (· < ·) ∧
    (∀ e, e ∈ (dedupLoop cur ad xs).map (·.val) ↔ e = cur.val ∨ ∃ x ∈ xs, x.val = e) := by
  induction xs with
  | nil => intro cur ad _ _ _; simp [dedupLoop]
  | cons x xs ih =>
    intro cur ad hle hs hf
    have hs' := List.pairwise_cons.mp hs
    have hfx := hf cur (by simp) x (by simp)
    have hcx : cur.val ≤ x.val := hle x (by simp)
    unfold dedupLoop
    by_cases hv : cur.value = x.value
    · have hval : cur.val = x.val := hfx.mp hv
      have hne : (cur.value != x.value) = false := by simp [hv]
      rw [if_neg (by simp [hne])]
      have hmem : ∀ e, (e = cur.val ∨ ∃ y ∈ x :: xs, y.val = e) ↔ (e = cur.val ∨ ∃ y ∈ xs, y.val = e) := by
        intro e; constructor
        · rintro (h | ⟨y, hy, h⟩)
          · exact Or.inl h
          · rcases List.mem_cons.mp hy with rfl | hy
            · left; rw [← h, hval]
            · exact Or.inr ⟨y, hy, h⟩
        · rintro (h | ⟨y, hy, h⟩)
          · exact Or.inl h
          · exact Or.inr ⟨y, List.mem_cons_of_mem _ hy, h⟩
      split
      · have := ih x false (fun y hy => hs'.1 y hy) hs'.2 (hf.mono (fun a ha => List.mem_cons_of_mem _ ha))
        refine ⟨this.1, fun e => ?_⟩
        rw [this.2 e, hmem e, hval]
      · have := ih cur ad (fun y hy => hle y (List.mem_cons_of_mem _ hy)) hs'.2
          (hf.mono (fun a ha => by
            rcases List.mem_cons.mp ha with rfl | ha
            · simp
            · exact List.mem_cons_of_mem _ (List.mem_cons_of_mem _ ha)))
        refine ⟨this.1, fun e => ?_⟩
        rw [this.2 e, hmem e]
    · have hvne : cur.val ≠ x.val := fun e => hv (hfx.mpr e)
      have hne : (cur.value != x.value) = true := by simp [hv]
      rw [if_pos hne]
      have := ih x x.deprecated (fun y hy => hs'.1 y hy) hs'.2 (hf.mono (fun a ha => List.mem_cons_of_mem _ ha))
      rw [List.map_cons, List.pairwise_cons]
      refine ⟨⟨?_, this.1⟩, fun e => ?_⟩
      · intro e he
        rcases (this.2 e).mp he with rfl | ⟨y, hy, rfl⟩
        · omega
        · have := hs'.1 y hy; omega
      · rw [List.mem_cons, this.2 e]
        constructor
        · rintro (h | h | ⟨y, hy, h⟩)
          · exact Or.inl h
          · exact Or.inr ⟨x, by simp, h.symm⟩
          · exact Or.inr ⟨y, List.mem_cons_of_mem _ hy, h⟩
        · rintro (h | ⟨y, hy, h⟩)
          · exact Or.inl h
          · rcases List.mem_cons.mp hy with rfl | hy
            · exact Or.inr (Or.inl h.symm)
            · exact Or.inr (Or.inr ⟨y, hy, h⟩)

theorem Pairwise_R_val_le {l : List Value} (h : l.Pairwise R) : l.Pairwise (fun a b => a.val ≤ b.val) :=
  h.imp (fun r => r.val_le)

/-- the table of a sorted value list: ascending distinct values, exactly those of the list -/
theorem dedup_vals (s : List Value) (hs : s.Pairwise R) (hf : ValueFaithful s) :
    ((dedup s).map (·.val)).Pairwise (· < ·) ∧ ∀ e, e ∈ (dedup s).map (·.val) ↔ ∃ x ∈ s, x.val = e := by
  unfold dedup
  match s, hs, hf with
  | [], _, _ => simp
  | [v], _, _ => simp; intro e; exact eq_comm
  | v :: w :: rest, hs, hf =>
    have hlen : ¬ (v :: w :: rest).length < 2 := by simp
    rw [if_neg hlen]
    have hs' := List.pairwise_cons.mp hs
    have := dedupLoop_vals (w :: rest) v v.deprecated (fun x hx => (hs'.1 x hx).val_le) (Pairwise_R_val_le hs'.2) hf
    refine ⟨this.1, fun e => ?_⟩
    rw [this.2 e]
    constructor
    · rintro (h | ⟨y, hy, h⟩)
      · exact ⟨v, by simp, h.symm⟩
      · exact ⟨y, List.mem_cons_of_mem _ hy, h⟩
    · rintro ⟨y, hy, h⟩
      rcases List.mem_cons.mp hy with rfl | hy
      · exact Or.inl h.symm
      · exact Or.inr ⟨y, hy, h⟩

/-- every row of the table is the primary entry of its value -/
theorem dedup_primary (s : List Value) (hs : s.Pairwise R) (hf : ValueFaithful s) :
    ∀ o ∈ dedup s, PrimaryIn s o := by
  unfold dedup
  match s, hs, hf with
  | [], _, _ => simp
  | [v], _, _ =>
    intro o ho
    simp at ho; subst ho; exact PrimaryIn.single _
  | v :: w :: rest, hs, hf =>
    have hlen : ¬ (v :: w :: rest).length < 2 := by simp
    rw [if_neg hlen]
    intro o ho
    have := dedupLoop_primary (w :: rest) [v] v (by simp) (by simp) (PrimaryIn.single v) (by simpa using hs) (by simpa using hf) o ho
    simpa using this

/-! ### `slices.BinarySearch` on a strictly ascending table -/

theorem getD_eq_getElem' (x : List Int) (i : Nat) (h : i < x.length) : x.getD i 0 = x[i] :=
  Eq.symm (List.getElem_eq_getD 0)

theorem getD_mono {x : List Int} (hs : x.Pairwise (· < ·)) {i j : Nat} (hij : i ≤ j) (hj : j < x.length) :
    x.getD i 0 ≤ x.getD j 0 := by
  have hi : i < x.length := by omega
  rw [getD_eq_getElem' _ _ hi, getD_eq_getElem' _ _ hj]
  by_cases e : i = j
  · subst e; exact Int.le_refl _
  · have := List.pairwise_iff_getElem.mp hs i j hi hj (by omega)
    omega

theorem bsLoop_spec (x : List Int) (t : Int) (hs : x.Pairwise (· < ·)) :
    ∀ (fuel i j : Nat), j - i ≤ fuel → i ≤ j → j ≤ x.length →
    (∀ k, k < i → x.getD k 0 < t) → (∀ k, j ≤ k → k < x.length → t ≤ x.getD k 0) →
    bsLoop x t fuel i j ≤ x.length ∧ (∀ k, k < bsLoop x t fuel i j → x.getD k 0 < t) ∧
      (∀ k, bsLoop x t fuel i j ≤ k → k < x.length → t ≤ x.getD k 0) := by
  intro fuel
  induction fuel with
  | zero =>
    intro i j h1 h2 h3 h4 h5
    have : i = j := by omega
    subst this
    exact ⟨h3, h4, h5⟩
  | succ fuel ih =>
    intro i j h1 h2 h3 h4 h5
    unfold bsLoop
    by_cases hij : i < j
    · rw [if_pos hij]
      simp only
      have hh1 : i ≤ (i + j) / 2 := by omega
      have hh2 : (i + j) / 2 < j := by omega
      split
      · rename_i hlt
        apply ih ((i + j) / 2 + 1) j (by omega) (by omega) h3
        · intro k hk
          have := getD_mono hs (i := k) (j := (i + j) / 2) (by omega) (by omega)
          omega
        · exact h5
      · rename_i hlt
        apply ih i ((i + j) / 2) (by omega) hh1 (by omega) h4
        intro k hk hkl
        have := getD_mono hs (i := (i + j) / 2) (j := k) hk hkl
        omega
    · rw [if_neg hij]
      have : i = j := by omega
      subst this
      exact ⟨h3, h4, h5⟩

theorem binarySearch_iff (x : List Int) (t : Int) (hs : x.Pairwise (· < ·)) :
    (binarySearch x t).2 = true ↔ t ∈ x := by
  unfold binarySearch
  simp only
  have ⟨h1, h2, h3⟩ := bsLoop_spec x t hs x.length 0 x.length (by omega) (by omega) (Nat.le_refl _)
    (fun k hk => by omega) (fun k hk hk' => by omega)
  generalize bsLoop x t x.length 0 x.length = r at *
  constructor
  · intro h
    rw [Bool.and_eq_true, decide_eq_true_eq, beq_iff_eq] at h
    obtain ⟨hr, he⟩ := h
    rw [getD_eq_getElem' _ _ hr] at he
    rw [← he]; exact List.getElem_mem hr
  · intro h
    obtain ⟨k, hk, hkt⟩ := List.getElem_of_mem h
    have hkd : x.getD k 0 = t := by rw [getD_eq_getElem' _ _ hk]; exact hkt
    have hrk : r ≤ k := by
      apply Classical.byContradiction; intro hn
      have := h2 k (by omega); omega
    have hr : r < x.length := by omega
    have := h3 r (Nat.le_refl _) hr
    have := getD_mono hs hrk hk
    rw [Bool.and_eq_true, decide_eq_true_eq, beq_iff_eq]
    exact ⟨hr, by omega⟩

theorem any_eq_iff_mem (x : List Int) (t : Int) : x.any (fun v => v == t) = true ↔ t ∈ x := by
  simp [List.any_eq_true]

/-! ### from the definition file to the sorted value list -/

/-- the sorted `Values` of type `t` (`g.Values[i]` after `sort.Sort`) -/
def sortedValues (f : FileDef) (t : String) : List Value := sortValues ((collect f t).map Value.ofConst)

theorem mem_collect {f : FileDef} {t : String} {c : Const} : c ∈ collect f t ↔ c ∈ f.consts ∧ c.ty = t := by
  unfold collect; simp [List.mem_filter]

theorem mem_sortedValues {f : FileDef} {t : String} {v : Value} :
    v ∈ sortedValues f t ↔ ∃ c ∈ f.consts, c.ty = t ∧ Value.ofConst c = v := by
  unfold sortedValues
  rw [mem_sortValues, List.mem_map]
  constructor
  · rintro ⟨c, hc, rfl⟩; exact ⟨c, (mem_collect.mp hc).1, (mem_collect.mp hc).2, rfl⟩
  · rintro ⟨c, hc, ht, rfl⟩; exact ⟨c, mem_collect.mpr ⟨hc, ht⟩, rfl⟩

theorem collect_names_nodup {f : FileDef} (t : String) (h : NamesDistinct f) :
    ((collect f t).map (·.name)).Nodup := by
  unfold NamesDistinct at h
  unfold collect
  exact h.sublist (List.Sublist.map _ List.filter_sublist)

/-- distinct names: a constant is determined by its name -/
theorem const_eq_of_name {f : FileDef} (h : NamesDistinct f) {a b : Const}
    (ha : a ∈ f.consts) (hb : b ∈ f.consts) (e : a.name = b.name) : a = b := by
  unfold NamesDistinct at h
  generalize f.consts = l at *
  induction l with
  | nil => cases ha
  | cons x xs ih =>
    rw [List.map_cons, List.nodup_cons] at h
    rcases List.mem_cons.mp ha with ea | ha' <;> rcases List.mem_cons.mp hb with eb | hb'
    · rw [ea, eb]
    · subst ea; exact absurd (show a.name ∈ xs.map (·.name) from List.mem_map.mpr ⟨b, hb', e.symm⟩) h.1
    · subst eb; exact absurd (show b.name ∈ xs.map (·.name) from List.mem_map.mpr ⟨a, ha', e⟩) h.1
    · exact ih h.2 ha' hb'

theorem sortedValues_facts {f : FileDef} {t : String} {k : IntKind} (h : Accepted f t k) :
    (sortedValues f t).Pairwise R ∧ ValueFaithful (sortedValues f t) := by
  have compat : ∀ a ∈ collect f t, ∀ b ∈ collect f t, Compat a.val b.val := fun a ha b hb =>
    compat_of_inRange h.kind (h.inRange a (mem_collect.mp ha).1 (mem_collect.mp ha).2)
      (h.inRange b (mem_collect.mp hb).1 (mem_collect.mp hb).2)
  constructor
  · unfold sortedValues
    apply sortValues_sorted
    · intro a ha b hb
      obtain ⟨ca, hca, rfl⟩ := List.mem_map.mp ha
      obtain ⟨cb, hcb, rfl⟩ := List.mem_map.mp hb
      exact less_ofConst ca cb (compat ca hca cb hcb)
    · rw [List.map_map]
      exact collect_names_nodup t h.names
  · intro a ha b hb
    obtain ⟨ca, hca, hta, rfl⟩ := mem_sortedValues.mp ha
    obtain ⟨cb, hcb, htb, rfl⟩ := mem_sortedValues.mp hb
    exact value_eq_iff ca cb (compat ca (mem_collect.mpr ⟨hca, hta⟩) cb (mem_collect.mpr ⟨hcb, htb⟩))

theorem defined_iff {f : FileDef} {t : String} {e : Int} :
    Defined f t e ↔ ∃ v ∈ sortedValues f t, v.val = e := by
  unfold Defined
  constructor
  · rintro ⟨c, hc, ht, he⟩
    exact ⟨Value.ofConst c, mem_sortedValues.mpr ⟨c, hc, ht, rfl⟩, he⟩
  · rintro ⟨v, hv, he⟩
    obtain ⟨c, hc, ht, rfl⟩ := mem_sortedValues.mp hv
    exact ⟨c, hc, ht, he⟩

/-- in a table with pairwise distinct values the `String` switch finds the row itself -/
theorem find_self (l : List Value) (hd : (l.map (·.val)).Pairwise (· < ·)) :
    ∀ v ∈ l, l.find? (fun w => w.val == v.val) = some v := by
  induction l with
  | nil => intro v hv; cases hv
  | cons x xs ih =>
    intro v hv
    rw [List.map_cons, List.pairwise_cons] at hd
    rcases List.mem_cons.mp hv with rfl | hv
    · simp
    · have : x.val < v.val := hd.1 v.val (List.mem_map.mpr ⟨v, hv, rfl⟩)
      have hne : (x.val == v.val) = false := by
        rw [beq_eq_false_iff_ne]; omega
      rw [List.find?_cons, hne]
      exact ih hd.2 v hv

end Genum

import Driver.Util
import Driver.BitSet
import Driver.Set
import Driver.Gogenproto
/-! Line-protocol driver: one request per line on stdin, one answer per line on stdout.
Core-only so that it links as a native executable. -/
open Drv

structure DState where
  set : Drv.Set.St := none
  gp : Drv.Gogenproto.St := {}

def step (st : DState) (line : String) : DState × String :=
  match words line with
  | "bs" :: rest => (st, BitSet.handle rest)
  | "set" :: rest => let r := Drv.Set.handle st.set rest; ({ st with set := r.1 }, r.2)
  | "gp" :: rest => let r := Drv.Gogenproto.handle st.gp rest; ({ st with gp := r.1 }, r.2)
  | "case" :: rest => ({}, joinSp ("case" :: rest))
  | "echo" :: rest => (st, joinSp rest)
  | _ => (st, "bad-op")

partial def loop (hin hout : IO.FS.Stream) (st : DState) : IO Unit := do
  let line ← hin.getLine
  if line.isEmpty then return ()
  let (st', out) := step st ((line.dropEndWhile (fun c => c == '\n' || c == '\r')).toString)
  hout.putStrLn out
  loop hin hout st'

def main : IO Unit := do
  let hin ← IO.getStdin
  let hout ← IO.getStdout
  loop hin hout {}
  hout.flush

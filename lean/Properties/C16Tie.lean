import Properties.C03Reduce
import Properties.C16
/-!
# C16, tie A by translation: the translated `parseTemplatedElements` = `EnvTmpl.resolveTemplatesWith`

`Properties/C03Reduce.lean` proves the translated traversal equal to `tmplY`, the pointwise lift of
the templates over the document type `GConfig.Y`.  The C16 model (`Model/EnvTmpl.lean`) has its own
document type `EnvTmpl.Doc` (strings as `List Char`, one scalar kind, switches of one dimension made
explicit).  `toY` embeds it (a switch is just a Go map under any naming `nm` of its keys), and
`tmplY_toY` shows that `tmplY` with the single template `MatchAndResolve = rs` is
`EnvTmpl.resolveTemplatesWith rs` through the embedding; `go_parseTemplated_doc` composes the two:
for EVERY `Doc` (whose maps have distinct keys under the embedding) the translated Go traversal
returns the embedded result of the C16 model, or an error exactly when the model fails.
-/
set_option linter.unusedSimpArgs false
namespace C16Tie
open GConfig EnvTmpl C03Reduce GoAny

/-- `MatchAndResolve` as the translated code sees it, from the model's `Res` -/
def tmplOf (rs : Str → Res) : String → String × Bool × Err := fun s =>
  match rs s.toList with
  | .untouched => (s, false, none)
  | .replaced v => (String.ofList v, true, none)
  | .error => ("", false, some ())

mutual
  def toY (nm : Option Nat → String) : Doc → Y
    | .str s => Y.str (String.ofList s)
    | .num n => Y.int n
    | .list xs => Y.list (toYList nm xs)
    | .map kvs => Y.map (toYKvs nm kvs)
    | .switch bs => Y.map (toYBs nm bs)
  def toYList (nm : Option Nat → String) : List Doc → List Y
    | [] => []
    | x :: xs => toY nm x :: toYList nm xs
  def toYKvs (nm : Option Nat → String) : List (String × Doc) → List (String × Y)
    | [] => []
    | (k, x) :: xs => (k, toY nm x) :: toYKvs nm xs
  def toYBs (nm : Option Nat → String) : List (Option Nat × Doc) → List (String × Y)
    | [] => []
    | (k, x) :: xs => (nm k, toY nm x) :: toYBs nm xs
end

def okOpt {α β : Type} (f : α → β) : Except LoadErr α → Option β
  | .ok a => some (f a)
  | .error _ => none

theorem tmplStr_single (rs : Str → Res) (s : Str) :
    tmplStr [tmplOf rs] (String.ofList s) = (match rs s with
      | .untouched => some (String.ofList s)
      | .replaced v => some (String.ofList v)
      | .error => none) := by
  simp only [tmplStr, tmplOf, String.toList_ofList]
  cases rs s <;> simp

mutual
  theorem tmplY_toY (nm : Option Nat → String) (rs : Str → Res) : ∀ (d : Doc),
      tmplY [tmplOf rs] (toY nm d) = okOpt (toY nm) (resolveTemplatesWith rs d)
    | .str s => by
      simp only [toY, tmplY, tmplStr_single, resolveTemplatesWith]
      cases rs s <;> simp [okOpt, toY]
    | .num n => by simp [toY, tmplY, resolveTemplatesWith, okOpt]
    | .list xs => by
      simp only [toY, tmplY, resolveTemplatesWith, tmplList_toY nm rs xs]
      cases resolveListWith rs xs <;> simp [okOpt, toY]
    | .map kvs => by
      simp only [toY, tmplY, resolveTemplatesWith, tmplKVs_toY nm rs kvs]
      cases resolveKvsWith rs kvs <;> simp [okOpt, toY]
    | .switch bs => by
      simp only [toY, tmplY, resolveTemplatesWith, tmplBs_toY nm rs bs]
      cases resolveBsWith rs bs <;> simp [okOpt, toY]
  theorem tmplList_toY (nm : Option Nat → String) (rs : Str → Res) : ∀ (xs : List Doc),
      tmplList [tmplOf rs] (toYList nm xs) = okOpt (toYList nm) (resolveListWith rs xs)
    | [] => by simp [toYList, tmplList, resolveListWith, okOpt]
    | x :: xs => by
      simp only [toYList, tmplList, resolveListWith, tmplY_toY nm rs x, tmplList_toY nm rs xs]
      cases resolveTemplatesWith rs x <;> cases resolveListWith rs xs <;> simp [okOpt, toYList]
  theorem tmplKVs_toY (nm : Option Nat → String) (rs : Str → Res) : ∀ (kvs : List (String × Doc)),
      tmplKVs [tmplOf rs] (toYKvs nm kvs) = okOpt (toYKvs nm) (resolveKvsWith rs kvs)
    | [] => by simp [toYKvs, tmplKVs, resolveKvsWith, okOpt]
    | (k, x) :: xs => by
      simp only [toYKvs, tmplKVs, resolveKvsWith, tmplY_toY nm rs x, tmplKVs_toY nm rs xs]
      cases resolveTemplatesWith rs x <;> cases resolveKvsWith rs xs <;> simp [okOpt, toYKvs]
  theorem tmplBs_toY (nm : Option Nat → String) (rs : Str → Res) : ∀ (bs : List (Option Nat × Doc)),
      tmplKVs [tmplOf rs] (toYBs nm bs) = okOpt (toYBs nm) (resolveBsWith rs bs)
    | [] => by simp [toYBs, tmplKVs, resolveBsWith, okOpt]
    | (k, x) :: xs => by
      simp only [toYBs, tmplKVs, resolveBsWith, tmplY_toY nm rs x, tmplBs_toY nm rs xs]
      cases resolveTemplatesWith rs x <;> cases resolveBsWith rs xs <;> simp [okOpt, toYBs]
end

/-- **tie A**: on every document of the C16 model the translated `parseTemplatedElements`, run with
the one template `rs`, returns the (embedded) result of `EnvTmpl.resolveTemplatesWith rs`, and an
error exactly when the model fails -/
theorem go_parseTemplated_doc (nm : Option Nat → String) (rs : Str → Res) (d : Doc) (fuel : Nat)
    (hn : need (toY nm d) ≤ fuel) (hnk : NK (toY nm d) = true) :
    Generated.GoGConfigReduce.parseTemplatedElements ⟨[tmplOf rs]⟩ fuel (toY nm d)
      = pure (ofOptE (okOpt (toY nm) (resolveTemplatesWith rs d))) := by
  rw [go_parseTemplated_eq ⟨[tmplOf rs]⟩ fuel (toY nm d) hn hnk, tmplY_toY]

/-- the same for the code's own resolver under environment `env` -/
theorem go_parseTemplated_env (nm : Option Nat → String) (env : EnvTmpl.Env) (d : Doc) (fuel : Nat)
    (hn : need (toY nm d) ≤ fuel) (hnk : NK (toY nm d) = true) :
    Generated.GoGConfigReduce.parseTemplatedElements ⟨[tmplOf (resolveStr env)]⟩ fuel (toY nm d)
      = pure (ofOptE (okOpt (toY nm) (resolveTemplates env d))) :=
  go_parseTemplated_doc nm (resolveStr env) d fuel hn hnk

end C16Tie

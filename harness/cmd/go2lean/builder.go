// go2lean -spec gconfigbuilder: translation of two leaf functions of gconfig/builder.go that the
// dimension resolution (C03) rests on:
//
//	keySet(in)      the non-`default` keys of a map and whether `default` is present
//	lookupEnv(key)  the environment variable under its exact, upper-case and lower-case spelling
//
// keySet calls set.Set.Add - the translation calls the TRANSLATED Set.Add of Generated/GoSet.lean,
// so the two translations compose.  os.LookupEnv, strings.ToUpper and strings.ToLower are
// parameters (`Env`).
package main

import (
	"fmt"
	"go/ast"
	"go/parser"
	"go/token"
	"os"
	"path/filepath"
	"strings"
)

type bt struct {
	env    map[string]string // variable -> kind: amap | sset | bool | str
	consts map[string]string // package-level string constants
	out    strings.Builder
	n      int
}

func (t *bt) line(ind int, s string) { t.out.WriteString(strings.Repeat("  ", ind) + s + "\n") }

func (t *bt) kindOf(e ast.Expr) string {
	switch x := e.(type) {
	case *ast.ParenExpr:
		return t.kindOf(x.X)
	case *ast.Ident:
		if x.Name == "true" || x.Name == "false" {
			return "bool"
		}
		if _, ok := t.consts[x.Name]; ok {
			return "str"
		}
		if k, ok := t.env[x.Name]; ok {
			return k
		}
	case *ast.BasicLit:
		if x.Kind == token.STRING {
			return "str"
		}
	case *ast.BinaryExpr:
		if x.Op == token.EQL || x.Op == token.NEQ {
			return "bool"
		}
	case *ast.CallExpr:
		switch src(x.Fun) {
		case "strings.ToUpper", "strings.ToLower":
			return "str"
		case "len":
			return "int"
		case "make":
			if len(x.Args) >= 1 && src(x.Args[0]) == "set.Set[string]" {
				return "sset"
			}
		}
	}
	fail("gconfigbuilder: %s: expression `%s` is outside the translated fragment", at(e), src(e))
	return ""
}

func (t *bt) expr(e ast.Expr) string {
	switch x := e.(type) {
	case *ast.ParenExpr:
		return t.expr(x.X)
	case *ast.Ident:
		if x.Name == "true" || x.Name == "false" {
			return x.Name
		}
		if _, ok := t.consts[x.Name]; ok {
			return x.Name
		}
		if _, ok := t.env[x.Name]; ok {
			return name(x.Name)
		}
	case *ast.BasicLit:
		if x.Kind == token.STRING {
			return x.Value // Go's interpreted string literals of printable ASCII are Lean's
		}
	case *ast.BinaryExpr:
		if (x.Op == token.EQL || x.Op == token.NEQ) && t.kindOf(x.X) == "str" && t.kindOf(x.Y) == "str" {
			op := " == "
			if x.Op == token.NEQ {
				op = " != "
			}
			return "(" + t.expr(x.X) + op + t.expr(x.Y) + ")"
		}
	case *ast.CallExpr:
		switch src(x.Fun) {
		case "strings.ToUpper":
			if len(x.Args) == 1 && t.kindOf(x.Args[0]) == "str" {
				return "(env.toUpper " + t.expr(x.Args[0]) + ")"
			}
		case "strings.ToLower":
			if len(x.Args) == 1 && t.kindOf(x.Args[0]) == "str" {
				return "(env.toLower " + t.expr(x.Args[0]) + ")"
			}
		case "len":
			if len(x.Args) == 1 && t.kindOf(x.Args[0]) == "amap" {
				return "(List.length " + t.expr(x.Args[0]) + ")"
			}
		case "make":
			if len(x.Args) == 2 && src(x.Args[0]) == "set.Set[string]" {
				return "(Go.mapMake " + t.expr(x.Args[1]) + ")"
			}
		}
	}
	fail("gconfigbuilder: %s: expression `%s` is outside the translated fragment", at(e), src(e))
	return ""
}

func (t *bt) ret(x *ast.ReturnStmt, kinds []string) string {
	if len(x.Results) != len(kinds) {
		fail("gconfigbuilder: %s: `%s`", at(x), src(x))
	}
	var vs []string
	for i, r := range x.Results {
		if t.kindOf(r) != kinds[i] {
			fail("gconfigbuilder: %s: result %d of `%s`", at(x), i, src(x))
		}
		vs = append(vs, t.expr(r))
	}
	return "(" + strings.Join(vs, ", ") + ")"
}

func (t *bt) stmt(ind int, s ast.Stmt, rets []string) {
	switch x := s.(type) {
	case *ast.AssignStmt:
		if len(x.Lhs) == 1 && len(x.Rhs) == 1 {
			id, ok := x.Lhs[0].(*ast.Ident)
			if ok && x.Tok == token.DEFINE {
				k := t.kindOf(x.Rhs[0])
				v := t.expr(x.Rhs[0])
				t.env[id.Name] = k
				ty := map[string]string{"bool": "Bool", "str": "String", "sset": "Go.GMap String"}[k]
				if ty == "" {
					fail("gconfigbuilder: %s: `%s`", at(x), src(x))
				}
				t.line(ind, "let mut "+name(id.Name)+" : "+ty+" := "+v)
				return
			}
			if ok && x.Tok == token.ASSIGN && t.env[id.Name] != "" && t.env[id.Name] == t.kindOf(x.Rhs[0]) {
				t.line(ind, name(id.Name)+" := "+t.expr(x.Rhs[0]))
				return
			}
		}
	case *ast.ExprStmt:
		// result.Add(k) on a set.Set[string]: the translated Set.Add (its boolean result is dropped)
		if c, ok := x.X.(*ast.CallExpr); ok && len(c.Args) == 1 && !c.Ellipsis.IsValid() {
			if sel, ok := c.Fun.(*ast.SelectorExpr); ok && sel.Sel.Name == "Add" {
				if id, ok := sel.X.(*ast.Ident); ok && t.env[id.Name] == "sset" && t.kindOf(c.Args[0]) == "str" {
					t.n++
					r := fmt.Sprintf("r%d", t.n)
					t.line(ind, "let "+r+" ← Generated.GoSet.Set.Add "+name(id.Name)+" ["+t.expr(c.Args[0])+"]")
					t.line(ind, name(id.Name)+" := "+r+".1")
					return
				}
			}
		}
	case *ast.IfStmt:
		// `if s, ok := os.LookupEnv(e); ok { return s, ok }`
		if x.Init != nil {
			as, ok := x.Init.(*ast.AssignStmt)
			if ok && as.Tok == token.DEFINE && len(as.Lhs) == 2 && len(as.Rhs) == 1 && x.Else == nil && len(x.Body.List) == 1 {
				a, b := as.Lhs[0].(*ast.Ident), as.Lhs[1].(*ast.Ident)
				call, okc := as.Rhs[0].(*ast.CallExpr)
				r, okr := x.Body.List[0].(*ast.ReturnStmt)
				if okc && okr && src(call.Fun) == "os.LookupEnv" && len(call.Args) == 1 && t.kindOf(call.Args[0]) == "str" && src(x.Cond) == b.Name {
					t.n++
					p := fmt.Sprintf("p%d", t.n)
					t.line(ind, "let "+p+" := env.lookupEnv "+t.expr(call.Args[0]))
					sa, sb := t.env[a.Name], t.env[b.Name]
					t.env[a.Name], t.env[b.Name] = "str", "bool"
					t.line(ind, "let "+name(a.Name)+" : String := "+p+".1")
					t.line(ind, "let "+name(b.Name)+" : Bool := "+p+".2")
					t.line(ind, "if "+name(b.Name)+" then")
					t.line(ind+1, "return "+t.ret(r, rets))
					if sa == "" {
						delete(t.env, a.Name)
					}
					if sb == "" {
						delete(t.env, b.Name)
					}
					return
				}
			}
			break
		}
		if t.kindOf(x.Cond) == "bool" {
			t.line(ind, "if "+t.expr(x.Cond)+" then")
			for _, b := range x.Body.List {
				t.stmt(ind+1, b, rets)
			}
			if e, ok := x.Else.(*ast.BlockStmt); ok {
				t.line(ind, "else")
				for _, b := range e.List {
					t.stmt(ind+1, b, rets)
				}
				return
			}
			if x.Else == nil {
				return
			}
		}
	case *ast.RangeStmt:
		// `for k := range in` over the map[string]any: its keys in walk order
		if k, ok := x.Key.(*ast.Ident); ok && x.Value == nil && x.Tok == token.DEFINE && t.kindOf(x.X) == "amap" {
			t.env[k.Name] = "str"
			t.line(ind, "for "+name(k.Name)+" in List.map Prod.fst "+t.expr(x.X)+" do")
			for _, b := range x.Body.List {
				t.stmt(ind+1, b, rets)
			}
			delete(t.env, k.Name)
			return
		}
	case *ast.ReturnStmt:
		t.line(ind, "return "+t.ret(x, rets))
		return
	}
	fail("gconfigbuilder: %s: statement `%s` is outside the translated fragment", at(s), src(s))
}

func runGConfigBuilder(repo, out string) {
	file, err := parser.ParseFile(fset, filepath.Join(repo, "gconfig/builder.go"), nil, 0)
	if err != nil {
		fail("%v", err)
	}
	t := &bt{consts: map[string]string{}}
	decls := map[string]*ast.FuncDecl{}
	for _, d := range file.Decls {
		switch x := d.(type) {
		case *ast.GenDecl:
			if x.Tok == token.CONST {
				for _, sp := range x.Specs {
					vs := sp.(*ast.ValueSpec)
					if len(vs.Names) == 1 && len(vs.Values) == 1 {
						if lit, ok := vs.Values[0].(*ast.BasicLit); ok && lit.Kind == token.STRING {
							t.consts[vs.Names[0].Name] = lit.Value
						}
					}
				}
			}
		case *ast.FuncDecl:
			if x.Recv == nil {
				decls[x.Name.Name] = x
			}
		}
	}
	var b strings.Builder
	b.WriteString("import Model.GoAny\nimport Generated.GoSet\n")
	b.WriteString("/-! REGENERATED on every run by harness/cmd/go2lean -spec gconfigbuilder from gconfig/builder.go (keySet,\nlookupEnv).  Do not edit.  `keySet` calls the TRANSLATED `set.Set.Add` (Generated/GoSet.lean); os.LookupEnv,\nstrings.ToUpper and strings.ToLower are parameters (`Env`). -/\nnamespace Generated.GoGConfigBuilder\n\n")
	b.WriteString("/-- the process environment and the two case mappings -/\nstructure Env where\n  lookupEnv : String → String × Bool\n  toUpper : String → String\n  toLower : String → String\n\n")
	for n, v := range t.consts {
		if n == "defaultKey" {
			fmt.Fprintf(&b, "def %s : String := %s\n\n", n, v)
		}
	}
	if _, ok := t.consts["defaultKey"]; !ok {
		fail("gconfigbuilder: constant defaultKey not found")
	}
	t.consts = map[string]string{"defaultKey": t.consts["defaultKey"]}
	type fn struct {
		name, params, sig string
		env              map[string]string
		rets             []string
		retTy            string
	}
	for _, f := range []fn{
		{"keySet", "in map[string]any", "(«in» : List (String × GConfig.Y))", map[string]string{"in": "amap"}, []string{"sset", "bool"}, "Go.GMap String × Bool"},
		{"lookupEnv", "key string", "(env : Env) (key : String)", map[string]string{"key": "str"}, []string{"str", "bool"}, "String × Bool"},
	} {
		fd := decls[f.name]
		if fd == nil {
			fail("gconfigbuilder: func %s not found", f.name)
		}
		var ps []string
		for _, p := range fd.Type.Params.List {
			for _, n := range p.Names {
				ps = append(ps, n.Name+" "+src(p.Type))
			}
		}
		if strings.Join(ps, ", ") != f.params {
			fail("gconfigbuilder: %s has parameters (%s), the translation assumes (%s)", f.name, strings.Join(ps, ", "), f.params)
		}
		if fd.Type.Results == nil || len(fd.Type.Results.List) != 2 || len(fd.Type.Results.List[0].Names) > 0 {
			fail("gconfigbuilder: %s: results", f.name)
		}
		t.env, t.n = f.env, 0
		t.out.Reset()
		for _, s := range fd.Body.List {
			t.stmt(1, s, f.rets)
		}
		if n := len(fd.Body.List); n == 0 || !endsInReturn(fd.Body.List[n-1]) {
			fail("gconfigbuilder: %s can fall off its end", f.name)
		}
		fmt.Fprintf(&b, "/-- `%s` -/\ndef %s %s : Go.M (%s) := do\n%s\n", src(&ast.FuncDecl{Name: fd.Name, Type: fd.Type}), f.name, f.sig, f.retTy, t.out.String())
	}
	b.WriteString("end Generated.GoGConfigBuilder\n")
	if err := os.WriteFile(out, []byte(b.String()), 0o644); err != nil {
		fail("%v", err)
	}
	fmt.Printf("go2lean gconfigbuilder: keySet, lookupEnv -> %s\n", out)
}

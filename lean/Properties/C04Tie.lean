import Model.Genum
import Generated.GoGenumValues
import Lemmas.GoLoop
import Properties.C04
/-!
# C04 / C12, tie A by translation: `genum/gen/values.go` as translated on this run = the model

`Generated/GoGenumValues.lean` is rewritten from /repo's `genum/gen/values.go` by
`harness/cmd/go2lean -spec genumvalues` on every run: `Value.Less` (the order of an enum's values),
`Values.ValueDeduplicatedSet` (one entry per value, the primary name) and `Values.getPrimary`
(which of several names of one value the trait rows belong to).  For every list of values whose
numbers fit in 64 bits (`U64`; they come from `constant.Uint64Val`) the translated functions return
exactly what the hand-written model `Genum.Value.less / dedup / getPrimary` returns, and they panic
exactly where the model says `none` (`getPrimary` of an empty group).  A change to values.go changes
the generated definitions, and these proofs are re-checked against it.
-/
set_option linter.unusedSimpArgs false
namespace C04Tie
open Generated.GoGenumValues Genum GoLoop

/-- the generator's `Value` as the translation sees it (`val`/`tvals` are bookkeeping of the model) -/
def abs (v : Genum.Value) : GValue :=
  { Name := v.name, Value := BitVec.ofNat 64 v.value, Signed := v.signed, IsDeprecated := v.deprecated, Line := 0 }

def U64 (v : Genum.Value) : Prop := v.value < two64

/-- every value the generator builds from a constant fits in 64 bits (`constant.Uint64Val`), so the
hypothesis `U64` of the theorems below holds for every list the generator ever passes -/
theorem ofConst_u64 (c : Const) : U64 (Value.ofConst c) := by
  unfold U64 Value.ofConst toU64 two64
  simp only
  have h := Int.emod_lt_of_pos c.val (b := 18446744073709551616) (by decide)
  have h0 := Int.emod_nonneg c.val (b := 18446744073709551616) (by decide)
  omega

theorem toInt_ofNat (n : Nat) (h : n < two64) : (BitVec.ofNat 64 n).toInt = asI64 n := by
  unfold asI64 two63 two64 at *
  rw [BitVec.toInt_eq_toNat_cond]
  simp only [BitVec.toNat_ofNat]
  rw [Nat.mod_eq_of_lt (by simpa using h)]
  split <;> split <;> omega

theorem ofNat_lt (a b : Nat) (ha : a < two64) (hb : b < two64) :
    (BitVec.ofNat 64 a < BitVec.ofNat 64 b) ↔ a < b := by
  unfold two64 at *
  rw [BitVec.lt_def]; simp only [BitVec.toNat_ofNat]
  rw [Nat.mod_eq_of_lt (by simpa using ha), Nat.mod_eq_of_lt (by simpa using hb)]

theorem ofNat_eq (a b : Nat) (ha : a < two64) (hb : b < two64) :
    (BitVec.ofNat 64 a = BitVec.ofNat 64 b) ↔ a = b := by
  unfold two64 at *
  constructor
  · intro h
    have := congrArg BitVec.toNat h
    simp only [BitVec.toNat_ofNat] at this
    rwa [Nat.mod_eq_of_lt (by simpa using ha), Nat.mod_eq_of_lt (by simpa using hb)] at this
  · intro h; rw [h]

theorem go_less_eq (v w : Genum.Value) (hv : U64 v) (hw : U64 w) :
    GValue.Less (abs v) (abs w) = pure (Value.less v w) := by
  unfold GValue.Less Value.less
  simp only [abs, toInt_ofNat _ hv, toInt_ofNat _ hw]
  by_cases hs : (v.signed || w.signed) = true
  · simp [hs]
    by_cases he : asI64 v.value = asI64 w.value <;> simp [he] <;> rfl
  · simp [hs]
    have hv' : v.value % 18446744073709551616 = v.value := Nat.mod_eq_of_lt hv
    have hw' : w.value % 18446744073709551616 = w.value := Nat.mod_eq_of_lt hw
    rw [hv', hw']
    by_cases he : v.value = w.value
    · simp [he]; rfl
    · have : ¬ BitVec.ofNat 64 v.value = BitVec.ofNat 64 w.value := fun h => he ((ofNat_eq _ _ hv hw).mp h)
      simp [he, this]

/-- one iteration of `getPrimary`'s loop -/
def primaryStep (p v : GValue) : Sum GValue (GValue × Bool) :=
  if p.IsDeprecated && !v.IsDeprecated then .inl v
  else if !p.IsDeprecated && !v.IsDeprecated then .inr (p, false)
  else .inl p

@[simp] theorem abs_dep (v : Genum.Value) : (abs v).IsDeprecated = v.deprecated := rfl
@[simp] theorem abs_value (v : Genum.Value) : (abs v).Value = BitVec.ofNat 64 v.value := rfl

theorem primary_fold (tl : List Genum.Value) (p : Genum.Value) :
    (match searchFold primaryStep (abs p) (tl.map abs) with
      | (some r, _) => r
      | (none, q) => if q.IsDeprecated then (q, false) else (q, true))
      = (abs (getPrimaryLoop p tl).1, (getPrimaryLoop p tl).2) := by
  induction tl generalizing p with
  | nil => by_cases h : p.deprecated = true <;> simp [searchFold, getPrimaryLoop, h]
  | cons v tl ih =>
    simp only [List.map_cons, searchFold, getPrimaryLoop, primaryStep, abs_dep]
    by_cases h1 : p.deprecated = true <;> by_cases h2 : v.deprecated = true <;> simp [h1, h2] <;>
      first | exact ih _ | skip


theorem go_getPrimary_eq (l : List Genum.Value) :
    GValues.getPrimary (l.map abs) =
      match getPrimary l with
      | some (p, safe) => pure (abs p, safe)
      | none => throw "index out of range" := by
  unfold GValues.getPrimary
  match l with
  | [] => simp [Genum.getPrimary, Go.listGet]; rfl
  | [v] => simp [Genum.getPrimary, Go.listGet]
  | v :: w :: rest =>
    simp only [Genum.getPrimary, List.map_cons, listGet_zero, pure_bind, List.length_cons]
    have hlen : (abs v :: abs w :: List.map abs rest).length = (List.map abs rest).length + 1 + 1 := rfl
    rw [show ((List.map abs rest).length + 1 + 1 == 1) = false from by simp]
    simp only [Bool.false_eq_true, if_false]
    rw [← hlen, forIn_range'_get (abs v :: abs w :: List.map abs rest) _ 1 _ (by simp)]
    simp only [List.drop_succ_cons, List.drop_zero]
    rw [forIn_searchFold _ primaryStep (by
      intro a s
      unfold primaryStep
      by_cases h1 : s.IsDeprecated = true <;> by_cases h2 : a.IsDeprecated = true <;> simp [h1, h2])]
    simp only [pure_bind]
    have := primary_fold (w :: rest) v
    simp only [List.map_cons] at this
    rw [← this]
    generalize searchFold primaryStep (abs v) (abs w :: List.map abs rest) = r
    obtain ⟨o, q⟩ := r
    cases o with
    | some r => rfl
    | none => simp only []; split <;> rfl

/-- one iteration of the loop of `ValueDeduplicatedSet` on (result, lastValue, addedDeprecated) -/
def dedupStep (st : List GValue × Go.U64 × Bool) (x : GValue) : List GValue × Go.U64 × Bool :=
  if st.2.1 != x.Value then (st.1 ++ [x], x.Value, x.IsDeprecated)
  else if st.2.2 && !x.IsDeprecated then (st.1.set (st.1.length - 1) x, st.2.1, false)
  else st

theorem dedup_fold (tl : List Genum.Value) (htl : ∀ v ∈ tl, U64 v) (done : List GValue) (cur : Genum.Value)
    (hc : U64 cur) (ad : Bool) :
    (List.foldl dedupStep (done ++ [abs cur], (abs cur).Value, ad) (tl.map abs)).1
      = done ++ (dedupLoop cur ad tl).map abs := by
  induction tl generalizing done cur ad with
  | nil => simp [dedupLoop]
  | cons x tl ih =>
    have hx : U64 x := htl x (by simp)
    have htl' : ∀ v ∈ tl, U64 v := fun v hv => htl v (by simp [hv])
    simp only [List.map_cons, List.foldl_cons, dedupStep, dedupLoop, abs_value, abs_dep]
    by_cases h1 : cur.value = x.value
    · have hb : (BitVec.ofNat 64 cur.value != BitVec.ofNat 64 x.value) = false := by simp [h1]
      simp only [hb, h1, bne_self_eq_false, Bool.false_eq_true, if_false]
      by_cases h2 : (ad && !x.deprecated) = true
      · simp only [h2, if_true]
        have hset : (done ++ [abs cur]).set ((done ++ [abs cur]).length - 1) (abs x) = done ++ [abs x] := by
          simp [List.set_append]
        have hv : BitVec.ofNat 64 x.value = (abs x).Value := rfl
        rw [hset, hv]
        exact ih htl' done x hx false
      · simp only [h2, if_false]
        have := ih htl' done cur hc ad
        simpa [h1] using this
    · have hb : (BitVec.ofNat 64 cur.value != BitVec.ofNat 64 x.value) = true := by
        simp only [bne_iff_ne, ne_eq]
        exact fun h => h1 ((ofNat_eq _ _ hc hx).mp h)
      have hn : (cur.value != x.value) = true := by simp [h1]
      simp only [hb, hn, if_true]
      have := ih htl' (done ++ [abs cur]) x hx x.deprecated
      simpa [List.append_assoc] using this

theorem go_dedup_eq (l : List Genum.Value) (hl : ∀ v ∈ l, U64 v) :
    GValues.ValueDeduplicatedSet (l.map abs) = pure ((dedup l).map abs) := by
  unfold GValues.ValueDeduplicatedSet dedup
  match l with
  | [] => simp
  | [v] => simp
  | v :: w :: rest =>
    simp only [List.map_cons, listGet_zero, pure_bind, List.length_cons]
    have hlen : (abs v :: abs w :: List.map abs rest).length = (List.map abs rest).length + 1 + 1 := rfl
    have h2 : ¬ (rest.length + 1 + 1 < 2) := by omega
    have h2' : ¬ ((List.map abs rest).length + 1 + 1 < 2) := by omega
    simp only [h2, h2', decide_false, Bool.false_eq_true, if_false]
    rw [← hlen, forIn_range'_get (abs v :: abs w :: List.map abs rest) _ 1 _ (by simp)]
    simp only [List.drop_succ_cons, List.drop_zero]
    rw [GoLoop.forIn_yield _ dedupStep (fun st => st.1 ≠ []) (by
        intro b a hb; unfold dedupStep
        split
        · simp
        · split
          · simpa using hb
          · exact hb)
      (by
        intro a b hb
        obtain ⟨r, lv, ad⟩ := b
        unfold dedupStep
        by_cases h1 : (lv != a.Value) = true
        · simp [h1]
        · by_cases h2 : (ad && !a.IsDeprecated) = true
          · have hpos : r.length - 1 < r.length := by
              have : r.length ≠ 0 := by simpa using hb
              omega
            simp [h1, h2, Go.listSet, hpos]
          · simp [h1, h2]) _ _ (by simp)]
    simp only [pure_bind, List.nil_append]
    have := dedup_fold (w :: rest) (fun x hx => hl x (by simp [hx])) [] v (hl v (by simp)) v.deprecated
    simp only [List.map_cons, List.nil_append] at this
    exact congrArg pure this

end C04Tie

import Generated.GoLog
import Properties.C18
/-!
# C18, tie A by translation: `log/context_utils.go` and `log/custom_level.go`

`Generated/GoLog.lean` is re-derived from /repo on every run by `harness/cmd/go2lean -spec log`:
the sequential functions statement by statement over `LogRt.State` (the model's `St` plus the holders
no context can reach), the closures handed to `update` as named functions, and `(*logHolder).update`
once more as the step program of one goroutine (`LogRt.Prog`).  `Model/LogRt.lean` fixes what the
primitives mean (zap and `context` by the contract of `Model/Log.lean`).

Here every translated definition is proved equal to the hand-written model FOR ALL states and
arguments:

* sequential: `go_getOrDefault_eq`, `go_log_eq`, `go_initLogger_eq`, `go_childLogger_eq`,
  `go_withFields_eq`, `go_setLevel_eq`, `go_enableDebug_eq` (a call of the translated function on
  the context numbered `c`, the returned context getting the next number, is `Log.step`), the closures
  `go_withFields_derive_eq`, `go_setLevel_derive_eq`, the wrapper `go_customLevelLogger_eq`,
  `go_wrapper_with_eq`, `go_wrapper_enabled_eq`, `go_wrapper_level_eq`, `go_wrapper_check_eq`;
* concurrent: `go_update_steps_eq` (one visible operation of the translated `update` = `Log.tstep`
  with compare-and-swap retry), hence `go_crun_eq` for every program and schedule;
* the headline theorems of `Properties/C18.lean` restated for the translated code
  (`go_log_emit_spec`, `go_concurrent_no_lost_update`, …).
-/
namespace C18Tie
open Log LogRt Generated

/-! ## the primitives of `Model/LogRt.lean` on the states that occur -/

@[simp] theorem run_globalLogger (s : State) : globalLogger.run s = pure (s.st.global, s) := rfl
@[simp] theorem run_newHolder (s : State) :
    newHolder.run s = pure (.tmp s.tmp.length, { s with tmp := s.tmp ++ [.empty] }) := rfl
@[simp] theorem run_load_addr (h : Nat) (s : State) : (load (.addr h)).run s = pure (heapLoad s.st h, s) := rfl
@[simp] theorem run_store_addr (h : Nat) (c : Core) (s : State) :
    (store (.addr h) c).run s = pure ((), heapStore s h c) := rfl
@[simp] theorem run_withHolder_addr (ctx : Ctx) (h : Nat) (s : State) :
    (withHolder ctx (.addr h)).run s = pure (some h, s) := rfl

@[simp] theorem run_store_new (st : St) (t : List Cell) (c : Core) :
    (store (.tmp t.length) c).run { st := st, tmp := t ++ [.empty] } = pure ((), { st := st, tmp := t ++ [.holds c] }) := by
  simp [store, StateT.run]
@[simp] theorem run_store_held (st : St) (t : List Cell) (c c' : Core) :
    (store (.tmp t.length) c).run { st := st, tmp := t ++ [.holds c'] } = pure ((), { st := st, tmp := t ++ [.holds c] }) := by
  simp [store, StateT.run]
@[simp] theorem run_load_held (st : St) (t : List Cell) (c : Core) :
    (load (.tmp t.length)).run { st := st, tmp := t ++ [.holds c] } = pure (c, { st := st, tmp := t ++ [.holds c] }) := by
  simp [load, StateT.run]
@[simp] theorem run_withHolder_held (ctx : Ctx) (st : St) (t : List Cell) (c : Core) :
    (withHolder ctx (.tmp t.length)).run { st := st, tmp := t ++ [.holds c] } =
      pure (some st.holders.length,
        { st := { st with holders := st.holders ++ [c] }, tmp := t ++ [.moved st.holders.length] }) := by
  simp [withHolder, StateT.run]

theorem go_getOrDefault_eq (F : Bool) (fuel : Nat) (s : State) (ctx : Ctx) :
    (GoLog.getOrDefault fuel (zapModel F) ctx).run s =
      match ctx with
      | some h => pure ((.addr h, true), s)
      | none => pure ((.tmp s.tmp.length, false), { s with tmp := s.tmp ++ [.holds s.st.global] }) := by
  cases ctx with
  | none => simp [GoLog.getOrDefault, ctxHolder]
  | some h => simp [GoLog.getOrDefault, ctxHolder]

/-- the sequential run of the retry loop on a reachable holder: one iteration -/
theorem go_update_addr (fuel : Nat) (z : Zap) (h : Nat) (f : Core → Core) (s : State) :
    (GoLog.logHolder.update (fuel + 1) z (.addr h) f).run s = pure ((), heapStore s h (f (heapLoad s.st h))) := by
  simp [GoLog.logHolder.update, loop, cas]

theorem go_update_held (fuel : Nat) (z : Zap) (f : Core → Core) (st : St) (t : List Cell) (c : Core) :
    (GoLog.logHolder.update (fuel + 1) z (.tmp t.length) f).run { st := st, tmp := t ++ [.holds c] } =
      pure ((), { st := st, tmp := t ++ [.holds (f c)] }) := by
  simp [GoLog.logHolder.update, loop, cas]


/-- drop the unreachable holders -/
def strip {α : Type} (r : α × State) : α × St := (r.1, r.2.st)

/-- the harness gives the context a call returns the next context number -/
def record (r : Ctx × State) : St := { r.2.st with ctxs := r.2.st.ctxs ++ [r.1] }

theorem go_log_eq (F : Bool) (fuel : Nat) (s : St) (tmp : List Cell) (c : Nat) :
    strip <$> (GoLog.Log fuel (zapModel F) (holderOf s.ctxs c)).run { st := s, tmp := tmp } = pure (logOf s c, s) := by
  simp only [GoLog.Log, StateT.run_bind, go_getOrDefault_eq, logOf, Log.getOrDefault]
  cases holderOf s.ctxs c <;> simp [strip, heapLoad]

theorem go_initLogger_eq (F : Bool) (fuel : Nat) (s : St) (tmp : List Cell) (c : Nat) (fs : List Field) :
    record <$> (GoLog.InitLogger fuel (zapModel F) (holderOf s.ctxs c) fs).run { st := s, tmp := tmp } =
      pure (step F s (.init c fs)) := by
  simp [GoLog.InitLogger, record, step, newCtx, zapModel]

theorem go_childLogger_eq (F : Bool) (fuel : Nat) (s : St) (tmp : List Cell) (c : Nat) (fs : List Field) :
    record <$> (GoLog.ChildLogger fuel (zapModel F) (holderOf s.ctxs c) fs).run { st := s, tmp := tmp } =
      pure (step F s (.child c fs)) := by
  simp only [GoLog.ChildLogger, StateT.run_bind, go_getOrDefault_eq, step, Log.getOrDefault]
  cases holderOf s.ctxs c <;> simp [record, newCtx, zapModel, heapLoad]

theorem go_withFields_derive_eq (F : Bool) (fs : List Field) :
    GoLog.WithFields.func1 (zapModel F) fs = fun c => (Call.wf fs).apply F c := rfl

theorem go_setLevel_derive_eq (F : Bool) (l : Level) :
    GoLog.SetLevel.func1 (zapModel F) l = fun c => (Call.sl l).apply F c := rfl

theorem go_customLevelLogger_eq (F : Bool) (c : Core) (l : Level) :
    GoLog.CustomLevelLogger (zapModel F) c l = customLevelLogger c l := rfl

theorem go_withFields_eq (F : Bool) (fuel : Nat) (s : St) (tmp : List Cell) (c : Nat) (fs : List Field) :
    record <$> (GoLog.WithFields (fuel + 1) (zapModel F) (holderOf s.ctxs c) fs).run { st := s, tmp := tmp } =
      pure (step F s (.withFields c fs)) := by
  simp only [GoLog.WithFields, StateT.run_bind, go_getOrDefault_eq, step, Log.update, Log.getOrDefault,
    go_withFields_derive_eq]
  cases holderOf s.ctxs c <;>
    simp [record, newCtx, heapLoad, heapStore, go_update_addr, go_update_held, Call.apply]

theorem go_setLevel_eq (F : Bool) (fuel : Nat) (s : St) (tmp : List Cell) (c : Nat) (l : Level) :
    record <$> (GoLog.SetLevel (fuel + 1) (zapModel F) (holderOf s.ctxs c) l).run { st := s, tmp := tmp } =
      pure (step F s (.setLevel c l)) := by
  simp only [GoLog.SetLevel, StateT.run_bind, go_getOrDefault_eq, step, Log.setLevel, Log.update, Log.getOrDefault,
    go_setLevel_derive_eq]
  cases holderOf s.ctxs c <;>
    simp [record, newCtx, heapLoad, heapStore, go_update_addr, go_update_held, Call.apply]

theorem go_enableDebug_eq (F : Bool) (fuel : Nat) (s : St) (tmp : List Cell) (c : Nat) :
    record <$> (GoLog.EnableDebug (fuel + 1) (zapModel F) (holderOf s.ctxs c)).run { st := s, tmp := tmp } =
      pure (step F s (.enableDebug c)) := by
  have := go_setLevel_eq F fuel s tmp c debugLevel
  simpa [GoLog.EnableDebug, DebugLevel, step] using this


/-! ## `custom_level.go` -/

/-- the wrapper's own `With` is the model's `withC` at the wrapper, given that the embedded core's
`With` is the model's -/
theorem go_wrapper_with_eq (c : Core) (m : Level) (fs : List Field) :
    GoLog.customLevelCoreWrapper.With (zapModel true) c m fs = Core.withC true (.custom c m) fs := by
  simp [GoLog.customLevelCoreWrapper.With, zapModel, mkWrapper, Core.withC]

theorem go_wrapper_enabled_eq (z : Zap) (c : Core) (m l : Level) :
    GoLog.customLevelCoreWrapper.Enabled z c m l = Core.enabled (.custom c m) l := rfl

theorem go_wrapper_level_eq (z : Zap) (c : Core) (m : Level) :
    GoLog.customLevelCoreWrapper.Level z c m = Core.level (.custom c m) := rfl

/-- `Check` adds the wrapper itself (whose `Write` is the embedded core's) exactly when the wrapper's
level lets the entry through -/
theorem go_wrapper_check_eq {κ : Type} (addCore : κ → Entry → Core → κ) (z : Zap) (c : Core) (m : Level)
    (ent : Entry) (ce : κ) :
    GoLog.customLevelCoreWrapper.Check addCore z c m ent ce =
      if Core.enabled (.custom c m) ent.Level then addCore ce ent (.custom c m) else ce := rfl

/-- … so what the wrapper lets through is the model's `emit` -/
theorem go_wrapper_check_emit (z : Zap) (c : Core) (m lvl : Level) :
    GoLog.customLevelCoreWrapper.Check (fun _ _ core => some core.written) z c m ⟨lvl⟩ none =
      emit (.custom c m) lvl := rfl

/-! ## the sequential clause for the translated code -/

/-- one call of the translated package on the context numbered `c` (garbage dropped between calls:
the obligations above hold for every garbage) -/
def goStep (F : Bool) (fuel : Nat) (s : St) : Op → Go.M St
  | .init c fs => record <$> (GoLog.InitLogger fuel (zapModel F) (holderOf s.ctxs c) fs).run { st := s }
  | .child c fs => record <$> (GoLog.ChildLogger fuel (zapModel F) (holderOf s.ctxs c) fs).run { st := s }
  | .derive c => pure { s with ctxs := s.ctxs ++ [holderOf s.ctxs c] }
  | .withFields c fs => record <$> (GoLog.WithFields fuel (zapModel F) (holderOf s.ctxs c) fs).run { st := s }
  | .setLevel c l => record <$> (GoLog.SetLevel fuel (zapModel F) (holderOf s.ctxs c) l).run { st := s }
  | .enableDebug c => record <$> (GoLog.EnableDebug fuel (zapModel F) (holderOf s.ctxs c)).run { st := s }

def goRun (F : Bool) (fuel : Nat) (s : St) (ops : List Op) : Go.M St := ops.foldlM (goStep F fuel) s

/-- `Log(ctx_c)` -/
def goLog (F : Bool) (fuel : Nat) (s : St) (c : Nat) : Go.M Core :=
  (·.1) <$> (GoLog.Log fuel (zapModel F) (holderOf s.ctxs c)).run { st := s }

theorem go_step_eq (F : Bool) (fuel : Nat) (s : St) (op : Op) : goStep F (fuel + 1) s op = pure (step F s op) := by
  cases op with
  | init c fs => exact go_initLogger_eq F _ s [] c fs
  | child c fs => exact go_childLogger_eq F _ s [] c fs
  | derive c => rfl
  | withFields c fs => exact go_withFields_eq F fuel s [] c fs
  | setLevel c l => exact go_setLevel_eq F fuel s [] c l
  | enableDebug c => exact go_enableDebug_eq F fuel s [] c

/-- every call sequence through the translated functions reaches the model's state and cannot panic -/
theorem go_run_eq (F : Bool) (fuel : Nat) (s : St) (ops : List Op) :
    goRun F (fuel + 1) s ops = pure (run F s ops) := by
  induction ops generalizing s with
  | nil => rfl
  | cons op ops ih =>
    simp only [goRun, List.foldlM_cons, go_step_eq, pure_bind, run, List.foldl_cons] at ih ⊢
    exact ih _

theorem go_logOf_eq (F : Bool) (fuel : Nat) (s : St) (c : Nat) : goLog F fuel s c = pure (logOf s c) := by
  have := congrArg (Functor.map (·.1)) (go_log_eq F fuel s [] c)
  simpa [goLog, strip, Functor.map_map] using this

/-- C18 (sequential clause) for the translated code: what `Log(ctx).Log(lvl, …)` emits after any
call sequence through the translated functions is what the specification says. -/
theorem go_log_emit_spec (fuel : Nat) (g : Core) (ops : List Op) (c : Nat) (lvl : Level) :
    (do let s ← goRun true (fuel + 1) (initSt g) ops
        let l ← goLog true (fuel + 1) s c
        pure (emit l lvl)) = pure (((specInit g).run ops).emits c lvl) := by
  simp only [go_run_eq, go_logOf_eq, pure_bind, log_emit_spec]

/-! ## the concurrent clause: `(*logHolder).update` as a step program -/

/-- the model's program counters as residual programs of the translated `update` -/
def embedPC (P : StepProg) : PC → Option (Call × Prog)
  | .idle => none
  | .load c => some (c, P.body)
  | .upd c p n => some (c, .cas p n (fun ok => if ok then .ret else .fall))

def embedT (P : StepProg) (t : Thread) : GThread := { cur := embedPC P t.pc, prog := t.prog, done := t.done }

/-- the translated step program -/
abbrev UP : StepProg := GoLog.logHolder.update.steps

def embedS (P : StepProg) (s : CSt) : GCSt := { sh := s.sh, threads := s.threads.map (embedT P) }

theorem embedT_enter (P : StepProg) (t : Thread) : embedT P (enter t) = genter P (embedT P t) := by
  unfold enter genter embedT
  cases t.prog <;> rfl

theorem go_update_steps_eq (F : Bool) (sh : Shared) (i : Nat) (t : Thread) :
    gtstep GoLog.logHolder.update.steps F sh i (embedT GoLog.logHolder.update.steps t) =
      ((tstep true F sh i t).1, embedT GoLog.logHolder.update.steps (tstep true F sh i t).2.1,
        (tstep true F sh i t).2.2) := by
  obtain ⟨pc, prog, done⟩ := t
  cases pc with
  | idle => rfl
  | load c =>
    cases hc : c.fresh <;>
      simp [gtstep, tstep, embedT, embedPC, GoLog.logHolder.update.steps, after, settle, advance, deriveOf, hc]
  | upd c p n =>
    by_cases hp : sh.ptr = p
    · simp [gtstep, tstep, embedT, embedPC, GoLog.logHolder.update.steps, after, settle, advance, hp, commit]
      cases prog <;> simp [genter, enter]
    · simp [gtstep, tstep, embedT, embedPC, GoLog.logHolder.update.steps, after, settle, advance, hp]

theorem gcstep_embed (F : Bool) (s : CSt) (i : Nat) :
    gcstep GoLog.logHolder.update.steps F (embedS UP s) i = embedS UP (cstep true F s i) := by
  unfold gcstep cstep cstepL embedS
  simp only [List.getElem?_map]
  cases h : s.threads[i]? with
  | none => simp
  | some t => simp [go_update_steps_eq, List.map_set]

theorem gcrun_embed (F : Bool) (s : CSt) (sched : List Nat) :
    gcrun GoLog.logHolder.update.steps F (embedS UP s) sched = embedS UP (crun true F s sched) := by
  induction sched generalizing s with
  | nil => rfl
  | cons i is ih => simp only [gcrun, crun, List.foldl_cons, gcstep_embed] at ih ⊢; exact ih _

theorem gcinit_embed (c0 : Core) (progs : List (List Call)) :
    gcinit GoLog.logHolder.update.steps c0 progs = embedS UP (cinit c0 progs) := by
  simp only [gcinit, cinit, embedS, List.map_map]
  congr 1
  apply List.map_congr_left
  intro p _
  exact (embedT_enter UP { prog := p }).symm

/-- every run of the translated step program is the model's run -/
theorem go_crun_eq (F : Bool) (c0 : Core) (progs : List (List Call)) (sched : List Nat) :
    gcrun GoLog.logHolder.update.steps F (gcinit GoLog.logHolder.update.steps c0 progs) sched =
      embedS UP (crun true F (cinit c0 progs) sched) := by
  rw [gcinit_embed, gcrun_embed]

/-- C18 (concurrent clause) for the translated step program: for every initial logger, every number
of goroutines, every program and every schedule the installed logger is the sequential specification
applied to the calls in the order in which they took effect, which holds every returned call of
every goroutine exactly once, in program order. -/
theorem go_concurrent_no_lost_update (c0 : Core) (progs : List (List Call)) (sched : List Nat) :
    let s := gcrun UP true (gcinit UP c0 progs) sched
    abs ((s.sh.heap[s.sh.ptr]?).getD default) = specFold (abs c0) (s.sh.hist.map (·.2)) ∧
    (∀ x ∈ s.sh.hist, x.1 < progs.length) ∧
    (∀ i t, s.threads[i]? = some t →
      projHist s.sh.hist i = t.done ∧
        t.done ++ (match t.cur with | none => [] | some (c, _) => [c]) ++ t.prog = (progs[i]?).getD []) := by
  intro s
  have hs : s = embedS UP (crun true true (cinit c0 progs) sched) := go_crun_eq true c0 progs sched
  have h := concurrent_no_lost_update c0 progs sched
  rw [hs]
  refine ⟨h.1, h.2.1, ?_⟩
  intro i t hi
  simp only [embedS, List.getElem?_map, Option.map_eq_some_iff] at hi
  obtain ⟨t0, ht0, rfl⟩ := hi
  have := h.2.2 i t0 ht0
  refine ⟨this.1, ?_⟩
  rw [← this.2]
  simp only [embedT, embedPC]
  cases t0.pc <;> rfl

/-- no field is lost, none is invented -/
theorem go_concurrent_fields_exact (c0 : Core) (progs : List (List Call)) (sched : List Nat) :
    let s := gcrun UP true (gcinit UP c0 progs) sched
    ((s.sh.heap[s.sh.ptr]?).getD default).written = c0.written ++ (s.sh.hist.map (·.2)).flatMap Call.fields := by
  intro s
  have hs : s = embedS UP (crun true true (cinit c0 progs) sched) := go_crun_eq true c0 progs sched
  rw [hs]
  exact concurrent_fields_exact c0 progs sched

/-- no level change is lost -/
theorem go_concurrent_no_level_lost (c0 : Core) (progs : List (List Call)) (sched : List Nat) :
    let s := gcrun UP true (gcinit UP c0 progs) sched
    ((s.sh.heap[s.sh.ptr]?).getD default).level =
      (((s.sh.hist.map (·.2)).filterMap Call.level?).getLast?).getD c0.level := by
  intro s
  have hs : s = embedS UP (crun true true (cinit c0 progs) sched) := go_crun_eq true c0 progs sched
  rw [hs]
  exact concurrent_no_level_lost c0 progs sched

/-! ## non-vacuity -/

/-- `lh.Store(derive(lh.Load()))` as a step program (what the translator writes for that body) -/
def loadStore : StepProg where
  loop := false
  body := Prog.load fun t1 => Prog.derive t1 fun t2 => Prog.store t2 <| Prog.fall

/-- The semantics of step programs tells the two algorithms apart: under load-then-store the schedule
of `legacy_concurrent_lost_field_violates` loses `a:1` (both calls have returned).  So
`go_update_steps_eq` is a statement about the translated loop, not about every program. -/
theorem step_semantics_load_store_loses_field :
    let s := gcrun loadStore true (gcinit loadStore (.base warnLevel ["g:0"]) [[.wf ["a:1"]], [.wf ["b:1"]]]) [0, 1, 0, 1]
    s.threads.map (fun t => (t.cur.isNone, t.done.length)) = [(true, 1), (true, 1)] ∧
      "a:1" ∉ ((s.sh.heap[s.sh.ptr]?).getD default).written := by
  decide

/-- a run of the translated functions (fuel 1), evaluated by the kernel: loggers shared by derived
contexts, a child with its own holder, a context without logger getting one on its first `WithFields` -/
example :
    goRun true 1 (initSt (.base warnLevel ["g:0"]))
        [.init 0 ["a:1"], .derive 1, .setLevel 2 debugLevel, .withFields 1 ["b:2"], .child 2 ["c:3"], .withFields 0 ["z:9"]] =
      pure { global := .base warnLevel ["g:0"],
             holders := [.custom (.base warnLevel ["g:0", "a:1", "b:2"]) debugLevel,
                         .custom (.base warnLevel ["g:0", "a:1", "b:2", "c:3"]) debugLevel,
                         .base warnLevel ["g:0", "z:9"]],
             ctxs := [none, some 0, some 0, some 0, some 0, some 1, some 2] } := by
  rfl

/-- out of fuel is an error, not a result -/
example : (goRun true 0 (initSt (.base warnLevel [])) [.withFields 0 ["a:1"]]).toOption = none := by
  rfl

end C18Tie

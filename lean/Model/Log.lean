/-!
# Model of `log/context_utils.go` and `log/custom_level.go`

zap is taken by contract (DESIGN.md §6 C18, "Not modelled"):

* a `*zap.Logger` is its `zapcore.Core` (every other logger option is constant here);
* `Logger.With(fields...)` returns the receiver itself when `fields` is empty, otherwise a fresh
  logger whose core is `core.With(fields)`;
* `Logger.WithOptions(zap.WrapCore(f))` returns a fresh logger whose core is `f core`;
* `Logger.Log(lvl, msg)` (for `lvl` below `DPanic`) writes an entry iff `core.Enabled(lvl)`, through
  `core.Check` / `core.Write`; the entry carries the context accumulated by the core that finally
  writes it.

The *base* core is the in-memory observer core of the correspondence harness (any leaf core:
`Enabled(l) = (level ≤ l)`, `With` appends to its context, `Write` records context ++ call fields).
`customLevelCoreWrapper` is `Core.custom`.  The flag `F` selects the wrapper's `With`:

* `F = true`  — the wrapper has its own `With` that re-wraps the inner core's result (the tree's
  current code after the repair);
* `F = false` — the algorithm at the pinned commit: the wrapper has no `With`, so Go promotes the
  embedded `zapcore.Core`'s method and `With` returns the INNER core's result — the wrapper, and
  with it the level, is gone.

Part 1 is the sequential heap model (holders shared by contexts).  Part 2 is the interleaving
transition system of `WithFields` / `SetLevel` on one shared holder at the granularity of single
`atomic.Pointer` operations; the flag `A` selects compare-and-swap retry (`true`, current code)
or load-then-store (`false`, pinned commit).
-/
namespace Log

abbrev Field := String
abbrev Level := Int

def debugLevel : Level := -1
def infoLevel : Level := 0
def warnLevel : Level := 1
def errorLevel : Level := 2

/-- `zapcore.Core` values that can occur -/
inductive Core where
  | base (lvl : Level) (ctx : List Field)
  | custom (inner : Core) (min : Level)
  deriving DecidableEq, Repr, Inhabited

namespace Core

/-- `core.With(fields)` -/
def withC (F : Bool) : Core → List Field → Core
  | .base l fs, g => .base l (fs ++ g)
  | .custom c m, g => if F then .custom (c.withC F g) m else c.withC F g

/-- `core.Enabled(lvl)`: the wrapper overrides it, ignoring the inner core -/
def enabled : Core → Level → Bool
  | .base l _, x => decide (l ≤ x)
  | .custom _ m, x => decide (m ≤ x)

/-- the context an entry written through this core carries (`Write` is promoted down to the leaf) -/
def written : Core → List Field
  | .base _ fs => fs
  | .custom c _ => c.written

/-- the minimum level at which this core logs -/
def level : Core → Level
  | .base l _ => l
  | .custom _ m => m

end Core

/-- `logger.With(fields...)` -/
def loggerWith (F : Bool) (c : Core) (fs : List Field) : Core :=
  if fs.isEmpty then c else c.withC F fs

/-- `CustomLevelLogger(logger, level)` -/
def customLevelLogger (c : Core) (l : Level) : Core := .custom c l

/-- `logger.Log(lvl, "…")` as seen by the observer: `none` = nothing emitted -/
def emit (c : Core) (lvl : Level) : Option (List Field) :=
  if c.enabled lvl then some c.written else none

/-! ## Part 1: sequential model — holders and contexts -/

/-- `global` is `zap.L()`; `holders` are the `logHolder`s allocated so far (their current logger);
`ctxs[c]` is the holder found by `ctx.Value(logHolderKey)` (`none`: a context without logger).
Context 0 is `context.Background()`. -/
structure St where
  global : Core
  holders : List Core := []
  ctxs : List (Option Nat) := [none]
  deriving DecidableEq, Repr

inductive Op where
  | init (c : Nat) (fs : List Field)        -- InitLogger(ctx_c, fs...)
  | child (c : Nat) (fs : List Field)       -- ChildLogger(ctx_c, fs...)
  | derive (c : Nat)                        -- context.WithValue(ctx_c, otherKey, …): shares the logger
  | withFields (c : Nat) (fs : List Field)  -- WithFields(ctx_c, fs...)
  | setLevel (c : Nat) (l : Level)          -- SetLevel(ctx_c, l)
  | enableDebug (c : Nat)                   -- EnableDebug(ctx_c)
  deriving DecidableEq, Repr

/-- `ctx.Value(logHolderKey).(*logHolder)` -/
def holderOf (ctxs : List (Option Nat)) (c : Nat) : Option Nat := (ctxs[c]?).join

/-- `getOrDefault`: the holder's logger, or a fresh holder around `zap.L()` -/
def getOrDefault (s : St) (c : Nat) : Core × Option Nat :=
  match holderOf s.ctxs c with
  | some h => ((s.holders[h]?).getD s.global, some h)
  | none => (s.global, none)

/-- `lh = &logHolder{}; lh.Store(core); context.WithValue(ctx, logHolderKey, lh)` -/
def newCtx (s : St) (core : Core) : St :=
  { s with holders := s.holders ++ [core], ctxs := s.ctxs ++ [some s.holders.length] }

/-- `lh.Store(f(lh.Load()))`, then return `ctx` itself (or a new context if it had no holder) -/
def update (s : St) (c : Nat) (f : Core → Core) : St :=
  match getOrDefault s c with
  | (core, some h) => { s with holders := s.holders.set h (f core), ctxs := s.ctxs ++ [some h] }
  | (core, none) => newCtx s (f core)

def setLevel (s : St) (c : Nat) (l : Level) : St := update s c (fun core => customLevelLogger core l)

/-- one call; every call yields a context, which gets the next context number -/
def step (F : Bool) (s : St) : Op → St
  | .init _ fs => newCtx s (loggerWith F s.global fs)
  | .child c fs => newCtx s (loggerWith F (getOrDefault s c).1 fs)
  | .derive c => { s with ctxs := s.ctxs ++ [holderOf s.ctxs c] }
  | .withFields c fs => update s c (fun core => loggerWith F core fs)
  | .setLevel c l => setLevel s c l
  | .enableDebug c => setLevel s c debugLevel

def run (F : Bool) (s : St) (ops : List Op) : St := ops.foldl (step F) s

/-- `Log(ctx_c)` -/
def logOf (s : St) (c : Nat) : Core := (getOrDefault s c).1

def initSt (g : Core) : St := { global := g }

/-! ### specification, written from the property text

A logger is its accumulated fields and its level.  `InitLogger` creates a logger from the global
one, `ChildLogger` from the context's logger, each with the extra fields; `WithFields` adds fields
to, and `SetLevel`/`EnableDebug` set the level of, the logger of the context (shared by every
context that has it); a context without logger uses the global logger and gets a logger of its own
on its first `WithFields`/`SetLevel`. -/

structure LSpec where
  fields : List Field
  level : Level
  deriving DecidableEq, Repr

structure Spec where
  global : LSpec
  loggers : List LSpec := []
  ctxs : List (Option Nat) := [none]
  deriving DecidableEq, Repr

namespace Spec

def loggerOf (sp : Spec) (c : Nat) : LSpec :=
  match holderOf sp.ctxs c with
  | some h => (sp.loggers[h]?).getD sp.global
  | none => sp.global

def create (sp : Spec) (l : LSpec) : Spec :=
  { sp with loggers := sp.loggers ++ [l], ctxs := sp.ctxs ++ [some sp.loggers.length] }

def modify (sp : Spec) (c : Nat) (f : LSpec → LSpec) : Spec :=
  match holderOf sp.ctxs c with
  | some h => { sp with loggers := sp.loggers.set h (f (sp.loggerOf c)), ctxs := sp.ctxs ++ [some h] }
  | none => sp.create (f sp.global)

def step (sp : Spec) : Op → Spec
  | .init _ fs => sp.create { sp.global with fields := sp.global.fields ++ fs }
  | .child c fs => sp.create { sp.loggerOf c with fields := (sp.loggerOf c).fields ++ fs }
  | .derive c => { sp with ctxs := sp.ctxs ++ [holderOf sp.ctxs c] }
  | .withFields c fs => sp.modify c (fun l => { l with fields := l.fields ++ fs })
  | .setLevel c lv => sp.modify c (fun l => { l with level := lv })
  | .enableDebug c => sp.modify c (fun l => { l with level := debugLevel })

def run (sp : Spec) (ops : List Op) : Spec := ops.foldl step sp

/-- what `Log(ctx_c).Log(lvl, …)` must emit: an entry exactly when `lvl` is at or above the
logger's level, carrying exactly the logger's fields -/
def emits (sp : Spec) (c : Nat) (lvl : Level) : Option (List Field) :=
  if (sp.loggerOf c).level ≤ lvl then some (sp.loggerOf c).fields else none

end Spec

/-- abstraction of a core: what the property can observe of it -/
def abs (c : Core) : LSpec := ⟨c.written, c.level⟩

def absSt (s : St) : Spec := ⟨abs s.global, s.holders.map abs, s.ctxs⟩

/-! ## Part 2: concurrent `WithFields` / `SetLevel` on one shared holder -/

inductive Call where
  | wf (fs : List Field)
  | sl (l : Level)
  deriving DecidableEq, Repr

/-- the logger a call derives from the one it loaded -/
def Call.apply (F : Bool) (c : Core) : Call → Core
  | .wf fs => loggerWith F c fs
  | .sl l => customLevelLogger c l

/-- does the derivation allocate a fresh `*zap.Logger`? (`With()` without fields returns the receiver) -/
def Call.fresh : Call → Bool
  | .wf fs => !fs.isEmpty
  | .sl _ => true

/-- the sequential effect of a call on a logger, per the specification -/
def Call.spec (l : LSpec) : Call → LSpec
  | .wf fs => { l with fields := l.fields ++ fs }
  | .sl lv => { l with level := lv }

inductive PC where
  | idle
  | load (c : Call)                    -- `lh.Load()`
  | upd (c : Call) (old new : Nat)     -- `lh.CompareAndSwap(old, new)` (current) / `lh.Store(new)` (pinned)
  deriving DecidableEq, Repr

structure Thread where
  pc : PC := .idle
  prog : List Call := []      -- calls not started yet
  done : List Call := []      -- ghost: calls returned, oldest first
  deriving DecidableEq, Repr

/-- loggers are heap objects identified by their allocation number; `ptr` is the holder's pointer.
Ghost: `hist` lists the calls in the order in which their pointer update took effect. -/
structure Shared where
  ptr : Nat := 0
  heap : List Core
  hist : List (Nat × Call) := []
  deriving DecidableEq, Repr

structure CSt where
  sh : Shared
  threads : List Thread := []
  deriving DecidableEq, Repr

inductive Label where
  | none | ptrRead | ptrUpdate
  deriving DecidableEq, Repr

/-- thread-local: begin the next call (or become idle) -/
def enter (t : Thread) : Thread :=
  match t.prog with
  | [] => { t with pc := .idle }
  | c :: p => { t with pc := .load c, prog := p }

/-- the pointer update of call `c` by thread `i` takes effect; the call returns -/
def commit (sh : Shared) (i : Nat) (t : Thread) (c : Call) (n : Nat) : Shared × Thread :=
  ({ sh with ptr := n, hist := sh.hist ++ [(i, c)] }, enter { t with done := t.done ++ [c] })

/-- one visible operation of thread `i` (then thread-local code up to the next one) -/
def tstep (A F : Bool) (sh : Shared) (i : Nat) (t : Thread) : Shared × Thread × Label :=
  match t.pc with
  | .idle => (sh, t, .none)
  | .load c =>
    let p := sh.ptr
    if c.fresh then
      ({ sh with heap := sh.heap ++ [c.apply F ((sh.heap[p]?).getD default)] },
        { t with pc := .upd c p sh.heap.length }, .ptrRead)
    else (sh, { t with pc := .upd c p p }, .ptrRead)
  | .upd c p n =>
    if A && sh.ptr != p then (sh, { t with pc := .load c }, .ptrUpdate)
    else let r := commit sh i t c n; (r.1, r.2, .ptrUpdate)

def cstepL (A F : Bool) (s : CSt) (i : Nat) : CSt × Label :=
  match s.threads[i]? with
  | none => (s, .none)
  | some t =>
    let r := tstep A F s.sh i t
    ({ sh := r.1, threads := s.threads.set i r.2.1 }, r.2.2)

def cstep (A F : Bool) (s : CSt) (i : Nat) : CSt := (cstepL A F s i).1

def crun (A F : Bool) (s : CSt) (sched : List Nat) : CSt := sched.foldl (cstep A F) s

/-- every goroutine has begun its first call; the holder holds logger 0 = `c0` -/
def cinit (c0 : Core) (progs : List (List Call)) : CSt :=
  { sh := { heap := [c0] }, threads := progs.map (fun p => enter { prog := p }) }

/-- the logger currently installed in the holder -/
def cur (s : CSt) : Core := (s.sh.heap[s.sh.ptr]?).getD default

/-- the sequential specification applied to a list of calls -/
def specFold (l : LSpec) (calls : List Call) : LSpec := calls.foldl Call.spec l

def quiescent (s : CSt) : Bool := s.threads.all (fun t => t.pc == .idle)

end Log

/-!
# Model of `genum/gen` (the enum generator) and of the code it generates

Part 1 (property C04).  Mirrors, in order:

* `Generate.Parse` (`generate.go:55-86`): walk every constant of the file in source order, keep the
  ones whose type is the enum type, encode each as `Value{Name, Value uint64, Signed, IsDeprecated}`
  with `constant.Uint64Val` (`Value` = two's complement image, `Signed` = "the constant is
  negative"), `sort.Sort` by `Value.Less`;
* `Value.Less` (`values.go:87-102`): compare as `int64` as soon as one side is flagged `Signed`,
  else as `uint64`; ties by name;
* `Values.ValueDeduplicatedSet` (`values.go:24-44`): one entry per numeric value, a deprecated
  first entry is replaced by the first non-deprecated one (`dedup`; the pinned algorithm, which
  forgot to clear `addedDeprecated` after the replacement, is kept as `dedupLegacy`);
* the template (`enumTemplate.gotmpl:25-131`): value table, `IsValid` (linear scan, or
  `slices.BinarySearch` when the number of constants exceeds 15), `Values`, `StringValues`,
  `String`, the `Parse<T>` switch on an `any` and its lower-case fallback.

The meaning of the generated code is a second set of definitions (`GenOut.isValid`, `.string`,
`.parse`, …) over Go values of the enum type, represented as `Int`.

The SPEC (`Defined`, `IsAscDistinctOf`, `IsPrimary`, `undefinedString`, `EqFold`) mirrors the
property text and is stated on the *definition*, not on the generator's intermediate data.

Not modelled: go/packages and go/types constant evaluation (`iota`, expressions): the model is
given the constants with their values. Identifiers are ASCII.
-/
namespace Genum

/-! ## definitions as the generator reads them -/

/-- underlying integer type of an enum: width and signedness (`int`/`uint` are 64 bit here) -/
structure IntKind where
  bits : Nat
  signed : Bool
  deriving DecidableEq, Repr

def IntKind.minVal (k : IntKind) : Int := if k.signed then -((2 : Int) ^ (k.bits - 1)) else 0
def IntKind.maxVal (k : IntKind) : Int := if k.signed then (2 : Int) ^ (k.bits - 1) - 1 else (2 : Int) ^ k.bits - 1

/-- `v` is a value of the Go type -/
def IntKind.InRange (k : IntKind) (v : Int) : Prop := k.minVal ≤ v ∧ v ≤ k.maxVal

instance (k : IntKind) (v : Int) : Decidable (k.InRange v) := by unfold IntKind.InRange; exact inferInstance

/-- the widths Go has -/
def IntKind.WF (k : IntKind) : Prop := 1 ≤ k.bits ∧ k.bits ≤ 64

instance (k : IntKind) : Decidable k.WF := by unfold IntKind.WF; exact inferInstance

/-- a dynamically typed Go scalar, as stored in an `any`: `==` on two `any`s is equality of the
dynamic type AND of the value -/
inductive Scalar where
  | str (s : String)
  | int (i : Int)
  | bool (b : Bool)
  | other (repr : String)
  deriving DecidableEq, Repr

structure Dyn where
  ty : String
  v : Scalar
  deriving DecidableEq, Repr

/-- a Go `string` in an `any` -/
def Dyn.ofString (s : String) : Dyn := ⟨"string", .str s⟩

/-- how a trait type declares one of `UnmarshalJSON([]byte) error`, `UnmarshalYAML(*yaml.Node) error`,
`UnmarshalText([]byte) error`: not at all, on the pointer receiver (what genum itself generates and
what a hand-written unmarshaler that stores its result has to use), on the value receiver -/
inductive Recv where
  | no
  | ptr
  | val
  deriving DecidableEq, Repr

/-- the unmarshal methods in the declared method list of a (named) trait type -/
structure Methods where
  json : Recv := .no
  yaml : Recv := .no
  text : Recv := .no
  deriving DecidableEq, Repr

inductive Codec where
  | json
  | yaml
  | text
  deriving DecidableEq, Repr

/-- `implementsJSONUnmarshaler`, `implementsYAMLUnmarshaler`, `implementsTextUnmarshaler`
(`traits.go`). The first two ask `gencommon.TypeImplements`, which walks the DECLARED methods of
the named type and compares names and signatures "with out checking receivers"; the third asks
`types.Implements(td.Type, iface)`, i.e. the method set of the VALUE type, which a pointer-receiver
`UnmarshalText` is not part of. -/
def Methods.implements (m : Methods) : Codec → Bool
  | .json => m.json != .no
  | .yaml => m.yaml != .no
  | .text => m.text == .val

/-- the unmarshal methods of an enum that genum generated under `-json=j -yaml=y -text=t`: each
switch that is on gives the type that codec's unmarshaler, on the pointer receiver -/
def Methods.ofSwitches (j y t : Bool) : Methods :=
  ⟨if j then .ptr else .no, if y then .ptr else .no, if t then .ptr else .no⟩

/-- how `traits.go` classifies the type of a trait column (`extractUnderlying`): a string-kinded
named type (`types.String`; an UNTYPED string constant is not in the switch and needs no cast),
a signed / unsigned integer kind of some width, or nothing the template has a decoder branch for
(bool, untyped rune, …) -/
inductive Family where
  | ustr
  | nstr
  | sint (bits : Nat)
  | uint (bits : Nat)
  /-- an integer-kinded named type of the package that declares unmarshal methods of its own `m`:
  another enum whose generated code already exists when the generator runs (it has exactly the
  methods its own `-json`, `-yaml`, `-text` switches gave it), or a hand-written type; `inner` names the
  type, `signed`/`bits` its underlying kind (`extractUnderlying` looks through the name) -/
  | self (inner : String) (signed : Bool) (bits : Nat) (m : Methods)
  | none
  deriving DecidableEq, Repr

/-- the trait type brings its own unmarshaler for codec `c`, as `traits.go` sees it. Basic kinds,
method-less named types and `time.Duration` bring none. -/
def Family.implements (fam : Family) (c : Codec) : Bool :=
  match fam with
  | .self _ _ _ m => m.implements c
  | _ => false

/-- `types.BasicKind` of the underlying type of a trait column, as far as `extractUnderlying`
(`traits.go`) distinguishes kinds -/
inductive BasicKind where
  | untypedInt
  | int (bits : Nat)
  | uint (bits : Nat)
  | untypedRune
  | untypedString
  | string
  | bool
  | other
  deriving DecidableEq, Repr

/-- `TraitDesc.extractUnderlying`. An untyped rune constant has default type `rune` = `int32` and
is in the int64 family (current tree); the pinned switch did not list `types.UntypedRune`
(`legacyRune`). Untyped strings are deliberately not in the switch (they need no cast), bool has
no family; float kinds are not modelled (`other`). -/
def extractUnderlyingQ (legacyRune : Bool) : BasicKind → Family
  | .untypedInt => .sint 64
  | .int b => .sint b
  | .uint b => .uint b
  | .untypedRune => if legacyRune then .none else .sint 32
  | .untypedString => .ustr
  | .string => .nstr
  | .bool => .none
  | .other => .none

def extractUnderlying : BasicKind → Family := extractUnderlyingQ false

/-- a trait column as declared on the line of the lowest value: trait name (leading `_`
trimmed), dynamic type of its constants, family -/
structure TraitCol where
  name : String
  ty : String
  fam : Family
  deriving DecidableEq, Repr

/-- one constant of the definition file: `name Ty = val`, with or without a `Deprecated:` doc
line; `tvals` are the trait constants written on the same line (column order; empty = none) -/
structure Const where
  name : String
  ty : String
  val : Int
  deprecated : Bool
  tvals : List Scalar := []
  deriving DecidableEq, Repr

structure TypeDecl where
  name : String
  kind : IntKind
  cols : List TraitCol := []
  deriving DecidableEq, Repr

/-- a definition file: the enum types named by `-types` and ALL its constants in source order -/
structure FileDef where
  types : List TypeDecl
  consts : List Const
  deriving Repr

structure Options where
  caseInsensitive : Bool := false
  json : Bool := true
  yaml : Bool := true
  text : Bool := true
  /-- `-parsableByTraits` -/
  parsable : List String := []
  deriving DecidableEq, Repr

/-! ## the generator -/

/-- `gen.Value`. `val` is what the identifier `name` denotes in the generated package; the
generator's own algorithm never looks at it (it works on `value`/`signed`). -/
structure Value where
  name : String
  value : Nat        -- uint64
  signed : Bool
  deprecated : Bool
  val : Int
  /-- the trait expressions of `astLine` (column order) -/
  tvals : List Scalar := []
  deriving DecidableEq, Repr

def two64 : Nat := 18446744073709551616
def two63 : Nat := 9223372036854775808

/-- Go's `uint64(x)` for an integer `x` -/
def toU64 (v : Int) : Nat := (v % (two64 : Int)).toNat

/-- Go's `int64(u)` for a `uint64` -/
def asI64 (u : Nat) : Int := if u < two63 then (u : Int) else (u : Int) - (two64 : Int)

/-- `constant.Uint64Val(v.Val())` and the fields around it (`generate.go:72-80`) -/
def Value.ofConst (c : Const) : Value :=
  { name := c.name, value := toU64 c.val, signed := decide (c.val < 0), deprecated := c.deprecated, val := c.val, tvals := c.tvals }

/-- `Value.Less` -/
def Value.less (v w : Value) : Bool :=
  if v.signed || w.signed then
    let v1 := asI64 v.value
    let v2 := asI64 w.value
    if v1 == v2 then decide (v.name < w.name) else decide (v1 < v2)
  else
    if v.value == w.value then decide (v.name < w.name) else decide (v.value < w.value)

/-- the constants of enum type `t`, in source order (`generate.go:57-84`) -/
def collect (f : FileDef) (t : String) : List Const := f.consts.filter (fun c => c.ty == t)

/-- insert `x` before the first element it is `Less` than -/
def insertBy (less : Value → Value → Bool) (x : Value) : List Value → List Value
  | [] => [x]
  | y :: ys => if less x y then x :: y :: ys else y :: insertBy less x ys

/-- `sort.Sort(values)`. Contract of `sort.Sort`: a permutation sorted by `Less`; `Less` is a
strict total order on the constants of one type (distinct names), so that permutation is unique
and any sorting algorithm yields it; written here as an insertion sort. -/
def sortValues (l : List Value) : List Value := l.foldr (insertBy Value.less) []

/-- loop of `ValueDeduplicatedSet` from index 1 on: `cur` is `result[len(result)-1]`
(`lastValue` is always `cur.value`), `ad` is `addedDeprecated`; the returned list is the final
`result` from `cur` on. -/
def dedupLoop (cur : Value) (ad : Bool) : List Value → List Value
  | [] => [cur]
  | x :: xs =>
    if cur.value != x.value then cur :: dedupLoop x x.deprecated xs
    else if ad && !x.deprecated then dedupLoop x false xs
    else dedupLoop cur ad xs

/-- `Values.ValueDeduplicatedSet` (current tree) -/
def dedup (s : List Value) : List Value :=
  if s.length < 2 then s else
  match s with
  | [] => []
  | v :: rest => dedupLoop v v.deprecated rest

/-- the pinned loop: `addedDeprecated` stays set after the replacement -/
def dedupLoopLegacy (cur : Value) (ad : Bool) : List Value → List Value
  | [] => [cur]
  | x :: xs =>
    if cur.value != x.value then cur :: dedupLoopLegacy x x.deprecated xs
    else if ad && !x.deprecated then dedupLoopLegacy x ad xs
    else dedupLoopLegacy cur ad xs

def dedupLegacy (s : List Value) : List Value :=
  if s.length < 2 then s else
  match s with
  | [] => []
  | v :: rest => dedupLoopLegacy v v.deprecated rest

/-- `strings.ToLower` on ASCII text (identifiers and inputs are ASCII, see the header) -/
def asciiLower (s : String) : String := String.ofList (s.toList.map Char.toLower)

/-- one `case c1, c2, …: return Target, nil` of the `Parse<T>` switch -/
structure ParseCase where
  consts : List Dyn
  target : Value
  deriving Repr

/-- what the template renders for one enum type -/
structure GenOut where
  tname : String
  /-- `_<T>Values`, also the rows of `StringValues` and of the `String` switch -/
  table : List Value
  /-- `len $values`: the number of constants, duplicates included (binary-search threshold) -/
  nAll : Nat
  /-- the `Parse<T>` switch, one case per constant (duplicates and deprecated ones included) -/
  cases : List ParseCase
  /-- the `strings.ToLower` switch in the default branch; `none` without `-caseInsensitive` -/
  lowerCases : Option (List (String × Value))
  deriving Repr

def renderWith (dd : List Value → List Value) (o : Options) (tname : String) (vs : List Value) : GenOut :=
  { tname := tname
    table := dd vs
    nAll := vs.length
    cases := vs.map (fun v => ⟨[Dyn.ofString v.name], v⟩)
    lowerCases := if o.caseInsensitive then some (vs.map (fun v => (asciiLower v.name, v))) else none }

/-- generator + template for enum type `t` of file `f` -/
def genType (o : Options) (f : FileDef) (t : String) : GenOut :=
  renderWith dedup o t (sortValues ((collect f t).map Value.ofConst))

def genTypeLegacy (o : Options) (f : FileDef) (t : String) : GenOut :=
  renderWith dedupLegacy o t (sortValues ((collect f t).map Value.ofConst))

/-- a compile-time condition of the generated file the model can see: two `case` constants of
the lower-case switch are equal (names that differ only in case, under `-caseInsensitive`) -/
def GenOut.dupLowerCase (g : GenOut) : Bool :=
  match g.lowerCases with
  | none => false
  | some lc => !(lc.map (·.1)).Nodup

/-! ## meaning of the generated code -/

/-- `Values()` -/
def GenOut.values (g : GenOut) : List Int := g.table.map (·.val)

/-- the loop of `slices.BinarySearch` (`i, j := 0, n; for i < j { h := (i+j)/2; if x[h] < t
{ i = h+1 } else { j = h } }`), with fuel ≥ `j - i` -/
def bsLoop (x : List Int) (t : Int) : Nat → Nat → Nat → Nat
  | 0, i, _ => i
  | fuel + 1, i, j =>
    if i < j then
      let h := (i + j) / 2
      if x.getD h 0 < t then bsLoop x t fuel (h + 1) j else bsLoop x t fuel i h
    else i

/-- `slices.BinarySearch(x, t)`: `(i, i < n && x[i] == t)` -/
def binarySearch (x : List Int) (t : Int) : Nat × Bool :=
  let i := bsLoop x t x.length 0 x.length
  (i, decide (i < x.length) && x.getD i 0 == t)

/-- number of constants above which the template switches `IsValid` to binary search -/
def bsThreshold : Nat := 15

/-- `IsValid()` -/
def GenOut.isValid (g : GenOut) (e : Int) : Bool :=
  if g.nAll > bsThreshold then (binarySearch g.values e).2
  else g.values.any (fun v => v == e)

/-- `fmt.Sprintf("Undefined<T>:%d", e)` -/
def undefinedString (tname : String) (e : Int) : String := "Undefined" ++ tname ++ ":" ++ toString e

/-- `String()`: the first `case` of the switch equal to `e` -/
def GenOut.string (g : GenOut) (e : Int) : String :=
  match g.table.find? (fun v => v.val == e) with
  | some v => v.name
  | none => undefinedString g.tname e

/-- `StringValues()` -/
def GenOut.stringValues (g : GenOut) : List String := g.table.map (·.name)

/-- `Parse<T>(input any)`: first case holding a constant equal to `input`; otherwise, with
`-caseInsensitive` and a `string` input, the first case of the lower-case switch;
`none` = the error return -/
def GenOut.parse (g : GenOut) (input : Dyn) : Option Int :=
  match g.cases.find? (fun c => c.consts.contains input) with
  | some c => some c.target.val
  | none =>
    match g.lowerCases, input with
    | some lc, ⟨"string", .str s⟩ =>
      match lc.find? (fun p => p.1 == asciiLower s) with
      | some p => some p.2.val
      | none => none
    | _, _ => none

/-- `ParseString(text)` = `Parse<T>(text)` -/
def GenOut.parseString (g : GenOut) (s : String) : Option Int := g.parse (Dyn.ofString s)

/-! ## specification (mirrors the property text) -/

/-- `e` is a defined value of enum type `t` -/
def Defined (f : FileDef) (t : String) (e : Int) : Prop := ∃ c ∈ f.consts, c.ty = t ∧ c.val = e

/-- `l` is the ascending list of the distinct defined values -/
def IsAscDistinctOf (f : FileDef) (t : String) (l : List Int) : Prop :=
  l.Pairwise (· < ·) ∧ ∀ e, e ∈ l ↔ Defined f t e

/-- `n` is the primary name of value `e`: the alphabetically first non-deprecated name of `e`,
or the alphabetically first name when all names of `e` are deprecated -/
def IsPrimary (f : FileDef) (t : String) (e : Int) (n : String) : Prop :=
  ∃ c ∈ f.consts, c.ty = t ∧ c.val = e ∧ c.name = n ∧
    ((c.deprecated = false ∧ ∀ c' ∈ f.consts, c'.ty = t → c'.val = e → c'.deprecated = false → n ≤ c'.name) ∨
     ((∀ c' ∈ f.consts, c'.ty = t → c'.val = e → c'.deprecated = true) ∧
       ∀ c' ∈ f.consts, c'.ty = t → c'.val = e → n ≤ c'.name))

/-- equal up to ASCII case -/
def EqFold (a b : String) : Prop := asciiLower a = asciiLower b

/-- what Go's declaration rules give: constant names of a file are pairwise distinct -/
def NamesDistinct (f : FileDef) : Prop := (f.consts.map (·.name)).Nodup

/-- names of type `t` stay distinct when folded to lower case (otherwise the file generated
with `-caseInsensitive` does not compile) -/
def NamesDistinctFold (f : FileDef) (t : String) : Prop := ((collect f t).map (fun c => asciiLower c.name)).Nodup

/-- every constant of type `t` is a value of the underlying Go type -/
def InRangeConsts (f : FileDef) (t : String) (k : IntKind) : Prop := ∀ c ∈ f.consts, c.ty = t → k.InRange c.val

instance (f : FileDef) (t : String) (e : Int) : Decidable (Defined f t e) := by unfold Defined; exact inferInstance
instance (f : FileDef) : Decidable (NamesDistinct f) := by unfold NamesDistinct; exact inferInstance
instance (f : FileDef) (t : String) : Decidable (NamesDistinctFold f t) := by unfold NamesDistinctFold; exact inferInstance
instance (f : FileDef) (t : String) (k : IntKind) : Decidable (InRangeConsts f t k) := by
  unfold InRangeConsts; exact inferInstance

/-- "every enum definition genum accepts": what Go's type checker guarantees for a definition
file that compiles — the underlying type is a Go integer type, every constant of the type is one
of its values, constant names are distinct -/
structure Accepted (f : FileDef) (t : String) (k : IntKind) : Prop where
  kind : k.WF
  inRange : InRangeConsts f t k
  names : NamesDistinct f

/-! # Part 2 (properties C05, C12): traits and codecs

Mirrors `extractTraitDescs`, the per-line instance loop, `processDuplicates`,
`validateParsableTraits`, `sort.Sort(traits)` (`generate.go:88-287`), the family selection of
`traits.go`, and the template: accessor switch (lines 31-44), trait constants inside the `Parse`
switch (99-108), `Marshal*`/`Unmarshal*` (132-355). Current tree = all `Quirks` off; the pinned
algorithms are the `Quirks` switched on, kept for the witness theorems.

Not modelled: float families, import aliasing. Types that bring their own unmarshalers ("native
parsing") are modelled for integer-kinded types of the same package (`Family.self`): enums
generated in an EARLIER run under any subset of `-json`, `-yaml`, `-text` (each switch gives the type
that codec's pointer-receiver unmarshaler) and hand-written types with any subset of the three
methods. PER CODEC such a type is either in its integer family (`numericTraits c`) or in the native
block (`nativeTry c`), never both. A trait whose type is an enum generated IN THE SAME RUN has no
methods yet when the generator inspects it and is in its integer family for every codec. -/

/-- deviations of the pinned commit from the current tree -/
structure Quirks where
  /-- YAML numeric fallbacks guarded by `err != nil` -/
  yamlGuardInverted : Bool := false
  /-- `processDuplicates` drops the non-primary trait rows only for groups it warns about -/
  dropRowsOnlyUnsafe : Bool := false
  /-- the `Parse` switch takes `index $trait.Traits $j` instead of the row of the value's own line -/
  parseRowsByIndex : Bool := false
  /-- numeric fallbacks convert `T(x)` without checking that `x` fits `T` -/
  noRangeGuard : Bool := false
  /-- `validateParsableTraits` marks a repeated constant TEXT whatever the two traits' types
  (/repo 7793249, before 42de8c1) -/
  repeatIgnoresType : Bool := false
  deriving DecidableEq, Repr

/-- one `case Owner: return <constant>` row of a trait -/
structure TraitRow where
  owner : Value
  dyn : Dyn
  deriving DecidableEq, Repr

/-- `gen.TraitDesc` -/
structure TraitDesc where
  name : String
  ty : String
  fam : Family
  parsable : Bool
  rows : List TraitRow
  deriving Repr

inductive GenFailure where
  /-- generator: "has inconsistent trait definitions" / "has invalid trait definitions" -/
  | inconsistentTraits
  /-- generator: "parsableByTrait values must be unique within the enum" -/
  | parsableNotUnique
  /-- template execution: `index $trait.Traits $j` out of range -/
  | templateIndex
  /-- the generated file does not compile: duplicate constant in a `switch` -/
  | dupCase
  deriving DecidableEq, Repr

/-- `Values.getPrimary`: the first non-deprecated entry (else the first), and whether the group
is "safe" (a single entry, or all others deprecated) -/
def getPrimaryLoop (primary : Value) : List Value → Value × Bool
  | [] => (primary, !primary.deprecated)
  | v :: rest =>
    if primary.deprecated && !v.deprecated then getPrimaryLoop v rest
    else if !primary.deprecated && !v.deprecated then (primary, false)
    else getPrimaryLoop primary rest

def getPrimary : List Value → Option (Value × Bool)
  | [] => none
  | [v] => some (v, true)
  | v :: rest => some (getPrimaryLoop v rest)

/-- the rows of trait column `j`: every value (sorted order) whose line has a `j`-th trait
expression (`extractTraitDescs` takes the first, the instance loop appends and re-sorts the others) -/
def rowsOf (vs : List Value) (j : Nat) (ty : String) : List TraitRow :=
  vs.filterMap (fun v => (v.tvals[j]?).map (fun s => ⟨v, ⟨ty, s⟩⟩))

/-- the validation at the end of `extractTraitDescs` -/
def traitsConsistent (vs : List Value) (n : Nat) : Bool :=
  let found := (vs.filter (fun v => v.tvals.length == n)).map (·.value)
  vs.all (fun v => found.contains v.value || !(v.tvals.length > 0))

/-- `processDuplicates`: which rows survive -/
def keepRow (q : Quirks) (vs : List Value) (r : TraitRow) : Bool :=
  match getPrimary (vs.filter (fun v => v.value == r.owner.value)) with
  | none => true
  | some (primary, safe) =>
    if q.dropRowsOnlyUnsafe && safe then true
    else !(r.owner.value == primary.value && r.owner.name != primary.name)

/-- constants of these column types are written as bare literals (untyped constants) -/
def untypedTok (ty : String) : Bool :=
  ty == "string" || ty == "int" || ty == "bool" || ty == "rune" || ty == "float"

/-- a literal as written in the definition file (strings of the documented shape need no escapes) -/
def scalarLit : Scalar → String
  | .str s => "\"" ++ s ++ "\""
  | .int i => toString i
  | .bool b => if b then "true" else "false"
  | .other r => r

/-- the `value` text `validateParsableTraits` compares: `v.Val().ExactString()` for the instance
taken from the first value's line (the bare value, whatever the column type), `types.ExprString`
of the expression for every other line (a conversion `T(lit)` in a typed column, the literal in
an untyped one) -/
def rowText (ty : String) (isFirst : Bool) (sc : Scalar) : String :=
  if isFirst || untypedTok ty then scalarLit sc else ty ++ "(" ++ scalarLit sc ++ ")"

/-- `validateParsableTraits`: the TEXT of a parsable trait constant may belong to one value only
(the check is by text, across all parsable traits, whatever their types) -/
def parsableUnique (first : Value) (ts : List TraitDesc) : Bool :=
  let rows := (ts.filter (·.parsable)).flatMap (fun t =>
    t.rows.map (fun r => (rowText t.ty (r.owner.name == first.name) r.dyn.v, r.owner.name)))
  rows.all (fun r => rows.all (fun r' => !(r.1 == r'.1) || r.2 == r'.2))

/-! ### begin: repeated Parse keys (second job of `validateParsableTraits`; /repo 7793249, 42de8c1, 20f316d)

While it walks the parsable traits (in the order of the list it is given) and their rows, the function also
records, per enum value and constant value, under which TYPES that constant already is a key of the value's
`case` in the `Parse` switch, and marks (`repeatsParseKey`) a row whose own written constant - its exact value
and (default) type - was already walked for the same enum value: `InstanceOf` then leaves that row out of the
`case` (the same constant twice in one `case` does not compile).  An equal constant of ANOTHER type (`Tint(0)`
next to `0`) is a different key of a switch on an `any` and is not marked.  In the model the written constant
of a row is its `dyn` (type name and value), so a row is marked exactly when an earlier walked row of a
parsable trait has the same owner name and an equal `dyn`.  On the property's domain (pairwise distinct
parsable constants) no row is marked.  The Parse switch of the model (`traitCaseOne`) consults the same rule in
closed form, `repeatsParseKey` below (an earlier parsable trait in NAME order - the order of the list
`validateParsableTraits` is given, `processDuplicates` having sorted it - has a row with the same owner name and
an equal `dyn`); `repeatMarks` is the walk the translated code is tied to. -/

/-- the rows of one parsable trait walked after the (owner name, constant) pairs `seen`: which rows are marked,
and the pairs walked afterwards -/
def markRows : List (String × Dyn) → List TraitRow → List Bool × List (String × Dyn)
  | seen, [] => ([], seen)
  | seen, r :: rs =>
    let rest := markRows (seen ++ [(r.owner.name, r.dyn)]) rs
    (seen.contains (r.owner.name, r.dyn) :: rest.1, rest.2)

/-- `repeatsParseKey` of every row of every trait, in the order `validateParsableTraits` walks them -/
def repeatMarksFrom : List (String × Dyn) → List TraitDesc → List (List Bool)
  | _, [] => []
  | seen, t :: ts =>
    if t.parsable then
      (markRows seen t.rows).1 :: repeatMarksFrom (markRows seen t.rows).2 ts
    else t.rows.map (fun _ => false) :: repeatMarksFrom seen ts

def repeatMarks (ts : List TraitDesc) : List (List Bool) := repeatMarksFrom [] ts

/-! ### end: repeated Parse keys -/

/-- insertion sort of the trait descriptions by name (`sort.Sort(traits)`; names are distinct) -/
def insertTrait (t : TraitDesc) : List TraitDesc → List TraitDesc
  | [] => [t]
  | u :: us => if t.name < u.name then t :: u :: us else u :: insertTrait t us

def sortTraits (ts : List TraitDesc) : List TraitDesc := ts.foldr insertTrait []

/-- the trait part of `Generate.Parse` for one type -/
def genTraits (q : Quirks) (o : Options) (cols : List TraitCol) (vs : List Value) : Except GenFailure (List TraitDesc) :=
  match vs with
  | [] => .ok []
  | first :: _ =>
    let cols := cols.take first.tvals.length
    if !traitsConsistent vs cols.length then .error .inconsistentTraits
    else if cols.isEmpty then .ok []
    else
      let ts := (List.range cols.length).zip cols |>.map (fun (j, c) =>
        ({ name := c.name, ty := c.ty, fam := c.fam, parsable := o.parsable.contains c.name,
           rows := (rowsOf vs j c.ty).filter (keepRow q vs) } : TraitDesc))
      if !parsableUnique first ts then .error .parsableNotUnique
      else .ok (sortTraits ts)

/-- everything the template renders for one enum type -/
structure GenFull where
  base : GenOut
  traits : List TraitDesc
  deriving Repr

/-- `TraitDesc.InstanceOf` -/
def TraitDesc.instanceOf (t : TraitDesc) (v : Value) : Option TraitRow :=
  t.rows.find? (fun r => r.owner.name == v.name)

/-- BEGIN repeat marking (`TraitInstance.repeatsParseKey`, set by `validateParsableTraits`).
The instance `r` of parsable trait `t` is left out of its value's `case` in the `Parse` switch
(`TraitDesc.InstanceOf` returns nil) when a parsable trait EARLIER IN THE WALK carries, on the same
enum value, an equal constant of an identical (default) type: it already is a key of that value.
The walk is in NAME order: `processDuplicates`, which runs just before, ends with
`sort.Sort(traits)` on the shared slice (trait names are distinct). The key is the constant as it is
WRITTEN on the line (`keyType` / `keyValue`: the declared constant on the first line, the type and
value of the expression on later lines) — in the model a constant IS its dynamic type and scalar, so
the test is equality of `Dyn`. A constant of ANOTHER type with the same value (`Tint(0)` next to
`0`) is a different key of the switch on an `any` and stays. The rule of /repo 7793249
(`repeatIgnoresType`) compared the value TEXTS only and dropped such a key. -/
def repeatsParseKey (q : Quirks) (ts : List TraitDesc) (first : Option Value) (t : TraitDesc) (r : TraitRow) : Bool :=
  ts.any (fun t' => t'.parsable && decide (t'.name < t.name) && t'.rows.any (fun r' =>
    r'.owner.name == r.owner.name &&
      (if q.repeatIgnoresType then
        let isFirst := first.any (fun f => f.name == r.owner.name)
        rowText t'.ty isFirst r'.dyn.v == rowText t.ty isFirst r.dyn.v
       else r'.dyn == r.dyn)))
/- END repeat marking -/

/-- the constant a parsable trait contributes to the `case` of the `j`-th value -/
def traitCaseOne (q : Quirks) (ts : List TraitDesc) (first : Option Value) (j : Nat) (v : Value) (t : TraitDesc) : Except GenFailure (List Dyn) :=
  if q.parseRowsByIndex then
    match t.rows[j]? with
    | some r => .ok [r.dyn]
    | none => .error .templateIndex
  else
    match t.instanceOf v with
    | some r => if repeatsParseKey q ts first t r then .ok [] else .ok [r.dyn]
    | none => .ok []

/-- the trait constants of the `case` of the `j`-th value -/
def traitCaseConsts (q : Quirks) (ts : List TraitDesc) (first : Option Value) (j : Nat) (v : Value) : Except GenFailure (List Dyn) :=
  ((ts.filter (fun t => t.parsable)).mapM (traitCaseOne q ts first j v)).map List.flatten

def parseCases (q : Quirks) (ts : List TraitDesc) (vs : List Value) : Except GenFailure (List ParseCase) :=
  ((List.range vs.length).zip vs).mapM (fun (j, v) =>
    (traitCaseConsts q ts vs.head? j v).map (fun cs => (⟨Dyn.ofString v.name :: cs, v⟩ : ParseCase)))

/-- duplicate constants among the cases of one generated `switch` = compile error -/
def hasDupCase (g : GenFull) : Bool :=
  !(g.base.cases.flatMap (·.consts)).Nodup ||
  g.traits.any (fun t => !(t.rows.map (·.owner.val)).Nodup) ||
  g.base.dupLowerCase

/-- generator + template + compiler for enum type `t` of file `f` -/
def genFullQ (q : Quirks) (o : Options) (f : FileDef) (t : TypeDecl) : Except GenFailure GenFull := do
  let vs := sortValues ((collect f t.name).map Value.ofConst)
  let ts ← genTraits q o t.cols vs
  let cases ← parseCases q ts vs
  let g : GenFull := { base := { renderWith dedup o t.name vs with cases := cases }, traits := ts }
  if hasDupCase g then .error .dupCase else .ok g

def genFull (o : Options) (f : FileDef) (t : TypeDecl) : Except GenFailure GenFull := genFullQ {} o f t

/-! ## meaning of the generated accessors and codecs -/

/-- `*new(T)` -/
def zeroOf (ty : String) (fam : Family) (sample : Option Scalar) : Dyn :=
  match fam, sample with
  | .ustr, _ | .nstr, _ => ⟨ty, .str ""⟩
  | .sint _, _ | .uint _, _ | .self .., _ => ⟨ty, .int 0⟩
  | .none, some (.bool _) => ⟨ty, .bool false⟩
  | .none, some (.int _) => ⟨ty, .int 0⟩
  | .none, some (.str _) => ⟨ty, .str ""⟩
  | .none, _ => ⟨ty, .other "zero"⟩

/-- the trait accessor: first row whose owner equals `e`, else the zero value -/
def TraitDesc.get (t : TraitDesc) (e : Int) : Dyn :=
  match t.rows.find? (fun r => r.owner.val == e) with
  | some r => r.dyn
  | none => zeroOf t.ty t.fam (t.rows.head?.map (·.dyn.v))

/-- `strconv.ParseUint(s, 10, 64)`: digits only (no sign, no underscore), value below 2^64 -/
def parseUintLit (s : String) : Option Int :=
  let cs := s.toList
  if cs.isEmpty then none
  else if cs.all Char.isDigit then
    let n : Nat := cs.foldl (fun acc c => acc * 10 + (c.toNat - 48)) 0
    if n < two64 then some (n : Int) else none
  else none

/-- `strconv.ParseInt(s, 10, 64)`: optional sign, digits, int64 range -/
def parseIntLit (s : String) : Option Int :=
  let cs := s.toList
  let p : Bool × List Char := match cs with
    | '-' :: r => (true, r)
    | '+' :: r => (false, r)
    | r => (false, r)
  if p.2.isEmpty then none
  else if p.2.all Char.isDigit then
    let n : Nat := p.2.foldl (fun acc c => acc * 10 + (c.toNat - 48)) 0
    let v : Int := if p.1 then -(n : Int) else (n : Int)
    if v < -(two63 : Int) || v ≥ (two63 : Int) then none else some v
  else none

/-- Go's conversion of an `int64`/`uint64` to an integer type of `bits` bits -/
def wrapTo (signed : Bool) (bits : Nat) (x : Int) : Int :=
  let m : Int := (2 : Int) ^ bits
  let r := x % m
  if signed && r ≥ m / 2 then r - m else r

/-- a scalar JSON document (non-null): a string, an integer literal, anything else -/
inductive JDoc where
  | str (s : String)
  | num (i : Int)
  | other
  deriving DecidableEq, Repr

def firstSome {α : Type} : List (Option α) → Option α
  | [] => none
  | some a :: _ => some a
  | none :: r => firstSome r

/-- `hasUnderlying(int64Underlying)` (`signed`) / `hasUnderlying(uint64Underlying)`: the kind of
the underlying basic type, whatever methods the named type declares -/
def Family.isNumeric (fam : Family) (signed : Bool) : Bool :=
  match fam with
  | .sint _ => signed
  | .uint _ => !signed
  | .self _ sg _ _ => sg == signed
  | _ => false

/-- width of the trait type a numeric fallback converts to -/
def Family.bitsOf (fam : Family) : Nat :=
  match fam with
  | .sint b => b
  | .uint b => b
  | .self _ _ b _ => b
  | _ => 64

/-- `GetParsableUnderlyingInt64For<C>` (`signed`) / `GetParsableUnderlyingUint64For<C>`: the
parsable traits of that underlying kind, EXCLUDING those whose type brings its own unmarshaler for
codec `c` (`getParsableUnderlying(u, implements<C>Unmarshaler)`). One numeric fallback block ranges
over, and is guarded by, this list. -/
def GenFull.numericTraits (g : GenFull) (c : Codec) (signed : Bool) : List TraitDesc :=
  g.traits.filter (fun t => t.parsable && t.fam.isNumeric signed && !t.fam.implements c)

/-- the numeric fallback of one family: `if v := T(x); int64(v) == x { Parse(v) }` per trait -/
def numericTry (q : Quirks) (g : GenFull) (c : Codec) (signed : Bool) (x : Int) : Option Int :=
  firstSome ((g.numericTraits c signed).map (fun t =>
    let v := wrapTo signed t.fam.bitsOf x
    if q.noRangeGuard || v == x then g.base.parse ⟨t.ty, .int v⟩ else none))

/-- the string fallbacks: `Parse(s)`, then `Parse(T(s))` for every parsable string-kinded trait -/
def stringTry (g : GenFull) (s : String) : Option Int :=
  match g.base.parse (Dyn.ofString s) with
  | some v => some v
  | none => firstSome ((g.traits.filter (fun t => t.parsable && t.fam == .nstr)).map (fun t =>
      g.base.parse ⟨t.ty, .str s⟩))

/-- `UnmarshalJSON` -/
def GenFull.unmarshalJSON (q : Quirks) (g : GenFull) : JDoc → Option Int
  | .str s => stringTry g s
  | .num i =>
    let u := if 0 ≤ i ∧ i < (two64 : Int) then numericTry q g .json false i else none
    match u with
    | some v => some v
    | none => if -(two63 : Int) ≤ i ∧ i < (two63 : Int) then numericTry q g .json true i else none
  | .other => none

/-- `UnmarshalText` -/
def GenFull.unmarshalText (g : GenFull) (text : String) : Option Int := stringTry g text

/-- `UnmarshalYAML` on a scalar node with `Value = text` -/
def GenFull.unmarshalYAML (q : Quirks) (g : GenFull) (text : String) : Option Int :=
  match stringTry g text with
  | some v => some v
  | none =>
    let hasU := !(g.numericTraits .yaml false).isEmpty   -- the block exists only if ITS list is non-empty
    let hasS := !(g.numericTraits .yaml true).isEmpty
    let u :=
      if !hasU then none
      else match parseUintLit text, q.yamlGuardInverted with
        | some x, false => numericTry q g .yaml false x
        | none, true => numericTry q g .yaml false 0      -- `uinter64` is 0 when ParseUint failed
        | _, _ => none
    match u with
    | some v => some v
    | none =>
      if !hasS then none
      else match parseIntLit text, q.yamlGuardInverted with
        | some x, false => numericTry q g .yaml true x
        | none, true => numericTry q g .yaml true 0
        | _, _ => none

/-- the "native parsing" block of the decoder for codec `c` (`GetParsable<C>Unmarshalable`): for
every parsable trait whose type brings its own unmarshaler for `c`, let that unmarshaler read the
document (`dec inner`), then `Parse<T>` of the decoded value -/
def GenFull.nativeTry (g : GenFull) (c : Codec) (dec : String → Option Int) : Option Int :=
  firstSome ((g.traits.filter (fun t => t.parsable)).map (fun t =>
    match t.fam with
    | .self inner _ _ m =>
      if m.implements c then
        match dec inner with
        | some v => g.base.parse ⟨t.ty, .int v⟩
        | none => none
      else none
    | _ => none))

/-- the whole `UnmarshalJSON`: the string / uint64 / int64 branches, then the native block, which
hands the document to the `UnmarshalJSON` of each trait type that has one (`env`) -/
def GenFull.unmarshalJSONFull (q : Quirks) (env : String → JDoc → Option Int) (g : GenFull) (doc : JDoc) : Option Int :=
  match g.unmarshalJSON q doc with
  | some v => some v
  | none => g.nativeTry .json (fun inner => env inner doc)

/-- the whole `UnmarshalYAML` -/
def GenFull.unmarshalYAMLFull (q : Quirks) (env : String → String → Option Int) (g : GenFull) (text : String) : Option Int :=
  match g.unmarshalYAML q text with
  | some v => some v
  | none => g.nativeTry .yaml (fun inner => env inner text)

/-- the whole `UnmarshalText`: the string branches (there is no numeric one), then the native block
over the types that `implementsTextUnmarshaler` accepts (value-receiver `UnmarshalText` only) -/
def GenFull.unmarshalTextFull (env : String → String → Option Int) (g : GenFull) (text : String) : Option Int :=
  match g.unmarshalText text with
  | some v => some v
  | none => g.nativeTry .text (fun inner => env inner text)

/-- `MarshalJSON` / `MarshalText` / `MarshalYAML`: all three emit `String()` -/
def GenFull.marshal (g : GenFull) (e : Int) : String := g.base.string e

/-! ## specification for C05 / C12 -/

/-- the documented trait shape: the line of the lowest value (its alphabetically first name)
declares every trait column of the type -/
def FirstLineDeclares (f : FileDef) (t : TypeDecl) : Prop :=
  ∀ c ∈ f.consts, c.ty = t.name →
    (∀ c' ∈ f.consts, c'.ty = t.name → c.val < c'.val ∨ (c.val = c'.val ∧ c.name ≤ c'.name)) →
    c.tvals.length = t.cols.length

instance (f : FileDef) (t : TypeDecl) : Decidable (FirstLineDeclares f t) := by
  unfold FirstLineDeclares; exact inferInstance

/-- the trait constant written on the PRIMARY definition line of value `e`, column `j` -/
def DeclaredTrait (f : FileDef) (t : TypeDecl) (j : Nat) (e : Int) (d : Dyn) : Prop :=
  ∃ c ∈ f.consts, c.ty = t.name ∧ c.val = e ∧ IsPrimary f t.name e c.name ∧
    ∃ col, t.cols[j]? = some col ∧ ∃ s, c.tvals[j]? = some s ∧ d = ⟨col.ty, s⟩

end Genum

import Model.GoAny
/-! REGENERATED on every run by harness/cmd/go2lean -spec gconfigextract from gconfig/config.go (func extract).
Do not edit.  The definition follows the Go function statement by statement; `map[string]any` is an
association list (nil = no keys), `any` is the document type `GConfig.Y` (nil interface = `Y.null`); the
comma-ok forms are `GoAny.amapGet` / `GoAny.asMap` (Model/GoAny.lean). -/
namespace Generated.GoGConfigExtract

/-- `func extract(m map[string]any, keys []string) (any, bool)` -/
def extract (m : List (String × GConfig.Y)) (keys : List String) : Go.M (GConfig.Y × Bool) := do
  let mut m := m
  let mut last : GConfig.Y := GConfig.Y.null
  let mut ok : Bool := false
  let mut i : Nat := 0
  for k in keys do
    (last, ok) := GoAny.amapGet m k
    if (!ok) then
      return (GConfig.Y.null, false)
    let mut mOK : Bool := false
    (m, mOK) := GoAny.asMap last
    if ((!mOK) && (decide (i < ((List.length keys) - 1)))) then
      return (GConfig.Y.null, false)
    i := i + 1
  return (last, ok)

end Generated.GoGConfigExtract

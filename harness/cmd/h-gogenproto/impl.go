package main

import (
	"bufio"
	"fmt"
	"os"
	"os/exec"
	"path/filepath"
	"sort"
	"strings"

	"github.com/drshriveer/gtools/gogenproto/gen"
)

// gpImpl interprets the `gp` protocol on the real gogenproto code.  Every case builds its
// directory tree below a fresh temp directory that the protocol calls /T; protoc is a recording
// shell script handed over through Generate.ProtocPath (or -protoc-path for the CLI).
type gpImpl struct {
	base    string // scratch directory of this harness run
	cli     string // path of the gogenproto CLI built from /repo ("" = not built yet)
	cliErr  string
	homeDir string // cwd of the harness process at start
	n       int
	modSet  bool
	root    string // the current case's /T
	rec     string // record file written by the stub
	stub    string
}

func newImpl() *gpImpl {
	base, err := os.MkdirTemp("", "h-gogenproto-")
	if err != nil {
		panic(err)
	}
	if p, err := filepath.EvalSymlinks(base); err == nil {
		base = p
	}
	wd, _ := os.Getwd()
	gen.Logger.SetOutput(discard{})
	return &gpImpl{base: base, homeDir: wd}
}

type discard struct{}

func (discard) Write(p []byte) (int, error) { return len(p), nil }

func (g *gpImpl) Close() {
	os.Chdir(g.homeDir)
	os.RemoveAll(g.base)
}

func (g *gpImpl) Reset() {
	os.Chdir(g.homeDir)
	if g.root != "" {
		os.RemoveAll(filepath.Dir(g.root))
	}
	g.n++
	g.modSet = false
	cdir := filepath.Join(g.base, fmt.Sprintf("c%d", g.n))
	g.root = filepath.Join(cdir, "T")
	g.rec = filepath.Join(cdir, "record")
	g.stub = filepath.Join(cdir, "protoc-stub")
	os.MkdirAll(g.root, 0o755)
	script := "#!/bin/sh\n{ printf 'cwd=%s\\n' \"$(pwd -P)\"; for a in \"$@\"; do printf 'arg=%s\\n' \"$a\"; done; printf 'end\\n'; } >> '" + g.rec + "'\n"
	os.WriteFile(g.stub, []byte(script), 0o755)
}

// real maps a protocol path (/T/...) to the real one.
func (g *gpImpl) real(p string) string {
	p = unesc(p)
	if p == "/T" {
		return g.root
	}
	if strings.HasPrefix(p, "/T/") {
		return g.root + p[2:]
	}
	return p
}

// inTree: a protocol path strictly below /T
func (g *gpImpl) inTree(p string) bool {
	p = unesc(p)
	return strings.HasPrefix(p, "/T/") && filepath.Clean(p) == p
}

func unesc(s string) string { return strings.ReplaceAll(s, "%20", " ") }
func esc(s string) string   { return strings.ReplaceAll(s, " ", "%20") }

func (g *gpImpl) canon(s string) string {
	return esc(strings.ReplaceAll(s, g.root, "/T"))
}

const protoHead = "syntax = \"proto3\";\npackage p;\n"
const protoTail = "message M { string a = 1; }\n"

func protoContent(flag string) string {
	decl := "option go_package = \"example.com/declared/pkg\";\n"
	switch flag {
	case "g0":
		return protoHead + protoTail
	case "g1":
		return protoHead + decl + protoTail
	// the canonical spelling at other legal positions of a .proto file (file options may stand
	// anywhere at top level), and with other line shapes - all in-domain
	case "g1:trailer":
		return protoHead + protoTail + decl
	case "g1:middle":
		return protoHead + protoTail + "enum E { E0 = 0; }\n" + decl + "message N { int32 b = 1; }\n"
	case "g1:aftercomment":
		return protoHead + "/* a licence header\n * of several lines\n */\n// and a line comment\n" + decl + protoTail
	case "g1:indent":
		return protoHead + "\t  " + decl + protoTail
	case "g1:crlf":
		return strings.ReplaceAll(protoHead+decl+protoTail, "\n", "\r\n")
	case "g1:noeol":
		return protoHead + protoTail + strings.TrimSuffix(decl, "\n")
	case "g1:first":
		return decl + protoHead + protoTail
	case "g1:nospace": // declares it, the line scan does not see it
		return protoHead + "option go_package=\"example.com/declared/pkg\";\n" + protoTail
	case "g1:twospace":
		return protoHead + "option  go_package = \"example.com/declared/pkg\";\n" + protoTail
	case "g1:longline": // a line beyond bufio.Scanner's token limit before the declaration
		return protoHead + "// " + strings.Repeat("x", 70000) + "\n" + decl + protoTail
	case "g0:commented": // does not declare it, the line scan says it does
		return protoHead + "// " + decl + protoTail
	case "g0:block":
		return protoHead + "/*\n" + decl + "*/\n" + protoTail
	}
	return "not a proto file\n"
}

func (g *gpImpl) Exec(line string) string {
	ws := strings.Fields(line)
	if len(ws) >= 2 && ws[0] == "case" && ws[1] == "gogenproto" {
		return line
	}
	if len(ws) < 2 || ws[0] != "gp" {
		return "bad-op"
	}
	switch ws[1] {
	case "mod":
		if len(ws) != 3 {
			return "bad-op"
		}
		if err := os.WriteFile(filepath.Join(g.root, "go.mod"), []byte("module "+ws[2]+"\n\ngo 1.23\n"), 0o644); err != nil {
			return "bad-op"
		}
		g.modSet = true
		return "ok"
	case "d":
		if len(ws) != 3 || !g.inTree(ws[2]) {
			return "bad-op"
		}
		if err := os.Mkdir(g.real(ws[2]), 0o755); err != nil {
			return "bad-op"
		}
		return "ok"
	case "f":
		if len(ws) != 4 || !g.inTree(ws[2]) {
			return "bad-op"
		}
		p := g.real(ws[2])
		if _, err := os.Lstat(p); err == nil {
			return "bad-op"
		}
		var content string
		if strings.HasSuffix(p, ".go") {
			content = "package x\n"
		} else {
			content = protoContent(ws[3])
		}
		if err := os.WriteFile(p, []byte(content), 0o644); err != nil {
			return "bad-op"
		}
		return "ok"
	case "s":
		if len(ws) != 4 || !g.inTree(ws[2]) {
			return "bad-op"
		}
		if err := os.Symlink(g.real(ws[3]), g.real(ws[2])); err != nil {
			return "bad-op"
		}
		return "ok"
	case "run":
		if !g.modSet {
			return "bad-op"
		}
		return g.run(ws[2:])
	}
	return "bad-op"
}

func (g *gpImpl) buildCLI() {
	if g.cli != "" || g.cliErr != "" {
		return
	}
	out := filepath.Join(g.base, "gogenproto-cli")
	dirs := []string{g.homeDir}
	if exe, err := os.Executable(); err == nil {
		dirs = append(dirs, filepath.Join(filepath.Dir(exe), "..", "harness"))
	}
	msg := ""
	for _, d := range dirs {
		cmd := exec.Command("go", "build", "-o", out, "github.com/drshriveer/gtools/gogenproto/cmd/gogenproto")
		cmd.Dir = d
		b, err := cmd.CombinedOutput()
		if err == nil {
			g.cli = out
			return
		}
		msg = strings.Join(strings.Fields(string(b)), " ")
	}
	g.cliErr = "cli-build-failed: " + msg
}

func (g *gpImpl) run(kv []string) string {
	via, cwd, in := "api", "/T", ""
	var recurse, vt, grpc bool
	var incs []string
	for _, w := range kv {
		k, v, _ := strings.Cut(w, "=")
		switch k {
		case "via":
			via = v
		case "cwd":
			cwd = v
		case "in":
			in = v
		case "recurse":
			recurse = v == "1"
		case "vt":
			vt = v == "1"
		case "grpc":
			grpc = v == "1"
		case "inc":
			incs = append(incs, v)
		default:
			return "bad-op"
		}
	}
	realCwd := g.real(cwd)
	realIn := g.real(in)
	realIncs := make([]string, len(incs))
	for i, s := range incs {
		// dir[=prefix]: only the directory half is a path
		d, pre, has := strings.Cut(s, "=")
		realIncs[i] = g.real(d)
		if has {
			realIncs[i] += "=" + unesc(pre)
		}
	}
	if st, err := os.Stat(realCwd); err != nil || !st.IsDir() {
		return "bad-op"
	}
	os.Remove(g.rec)
	var runErr error
	switch via {
	case "api":
		if err := os.Chdir(realCwd); err != nil {
			return "bad-op"
		}
		runErr = gen.Generate{InputDir: realIn, ProtocPath: g.stub, Recurse: recurse, VTProto: vt, GRPC: grpc, Include: realIncs}.Run()
		os.Chdir(g.homeDir)
	case "cli", "clipwd":
		g.buildCLI()
		if g.cli == "" {
			return g.cliErr
		}
		args := []string{"-protoc-path", g.stub}
		if via == "cli" {
			args = append(args, "-input-dir", realIn)
		}
		// booleans: mix the spellings the flag package accepts
		if recurse {
			args = append(args, "-recurse")
		}
		args = append(args, fmt.Sprintf("-vt-proto=%v", vt))
		if grpc {
			args = append(args, "--grpc=true")
		}
		if len(realIncs) > 1 && grpc {
			// the flag may be repeated …
			for _, ic := range realIncs {
				args = append(args, "-include", ic)
			}
		} else if len(realIncs) > 0 {
			// … or hold a comma-separated list
			args = append(args, "-include", strings.Join(realIncs, ","))
		}
		cmd := exec.Command(g.cli, args...)
		cmd.Dir = realCwd
		env := []string{}
		for _, e := range os.Environ() {
			if !strings.HasPrefix(e, "PWD=") {
				env = append(env, e)
			}
		}
		// go:generate and shells export PWD; the tool takes its default input directory from it
		cmd.Env = append(env, "PWD="+realCwd)
		runErr = cmd.Run()
	default:
		return "bad-op"
	}
	recs := g.readRecords()
	if runErr != nil {
		return fmt.Sprintf("err n=%d", len(recs))
	}
	if len(recs) != 1 {
		return fmt.Sprintf("ok n=%d", len(recs))
	}
	r := recs[0]
	args := make([]string, 0, len(r.args))
	for _, a := range r.args {
		if !strings.HasPrefix(a, "-") {
			// a file operand: what matters is WHICH file is named, not how the path is spelled
			if !filepath.IsAbs(a) {
				a = filepath.Join(r.cwd, a)
			}
			a = "file:" + filepath.Clean(a)
		}
		args = append(args, g.canon(a))
	}
	sort.Strings(args)
	return "ok n=1 cwd=" + g.canon(r.cwd) + " argv: " + strings.Join(args, " ")
}

type record struct {
	cwd  string
	args []string
}

func (g *gpImpl) readRecords() []record {
	f, err := os.Open(g.rec)
	if err != nil {
		return nil
	}
	defer f.Close()
	var res []record
	var cur *record
	sc := bufio.NewScanner(f)
	sc.Buffer(make([]byte, 1<<20), 1<<26)
	for sc.Scan() {
		t := sc.Text()
		switch {
		case strings.HasPrefix(t, "cwd="):
			cur = &record{cwd: t[4:]}
		case strings.HasPrefix(t, "arg=") && cur != nil:
			cur.args = append(cur.args, t[4:])
		case t == "end" && cur != nil:
			res = append(res, *cur)
			cur = nil
		}
	}
	return res
}

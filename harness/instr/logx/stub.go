// Package log here is a placeholder: `check` builds h-log with `go build -overlay`, which replaces
// this file by an instrumented copy of /repo/log's current sources (cmd/instrument).
// Built without the overlay, every entry point panics.
package log

import (
	"context"
	"testing"

	"go.uber.org/zap"
	"go.uber.org/zap/zapcore"
)

func InitLogger(ctx context.Context, fields ...zap.Field) context.Context  { panic("not instrumented") }
func ChildLogger(ctx context.Context, fields ...zap.Field) context.Context { panic("not instrumented") }
func Log(ctx context.Context) *zap.Logger                                  { panic("not instrumented") }
func TestContext(t *testing.T) context.Context                             { panic("not instrumented") }
func EnableDebug(ctx context.Context) context.Context                      { panic("not instrumented") }
func SetLevel(ctx context.Context, level zapcore.Level) context.Context    { panic("not instrumented") }
func WithFields(ctx context.Context, fields ...zap.Field) context.Context  { panic("not instrumented") }
func CustomLevelLogger(logger *zap.Logger, level zapcore.Level) *zap.Logger {
	panic("not instrumented")
}

// Package xt holds the fixed set of gerror extension types used by the C06 correspondence.
// The *.gerror.go files next to this one are REGENERATED on every ./check run by
// cmd/regen-gerroris with the gerror CLI built from /repo's current tree, so they always reflect
// the current template.
package xt

import (
	"github.com/drshriveer/gtools/gerror"
)

//go:generate gerror --types=PlainErr,FieldErr

// PlainErr only embeds GError.
type PlainErr struct {
	gerror.GError
}

// FieldErr has printed, cloned and private fields (one of them not comparable).
type FieldErr struct {
	gerror.GError
	Code   int    `gerror:"_,print,clone"`
	Note   string `gerror:"note,print"`
	Tenant string `gerror:"_,clone"`
	hidden []string
}

// Hidden keeps the private field used.
func (e *FieldErr) Hidden() []string { return e.hidden }

import Model.Log
import Lemmas.LogSeq
/-!
# The inductive invariant of the current `WithFields` / `SetLevel` (compare-and-swap retry)

`Inv c0 progs s` holds in the initial state of every client program and is preserved by every
step of every thread (`A = true`, `F = true`).  Loggers on the heap are immutable, so what a
thread knows about the loggers it loaded and derived survives the steps of all other threads.
-/
namespace Log

/-- the calls of thread `i` in the order in which their pointer update took effect -/
def projHist (hist : List (Nat × Call)) (i : Nat) : List Call :=
  (hist.filter (fun x => x.1 == i)).map (·.2)

/-- the call a thread is inside of -/
def inflight : PC → List Call
  | .idle => []
  | .load c => [c]
  | .upd c _ _ => [c]

def heapAt (sh : Shared) (n : Nat) : Core := (sh.heap[n]?).getD default

structure TInv (sh : Shared) (i : Nat) (t : Thread) (prog : List Call) : Prop where
  /-- the logger about to be installed was derived from the logger that was loaded -/
  upd : ∀ c p n, t.pc = .upd c p n →
    p < sh.heap.length ∧ n < sh.heap.length ∧ abs (heapAt sh n) = c.spec (abs (heapAt sh p))
  hist : projHist sh.hist i = t.done
  prog : t.done ++ inflight t.pc ++ t.prog = prog
  /-- a goroutine is idle only when it has no call left -/
  idle : t.pc = .idle → t.prog = []

structure SInv (c0 : Core) (n : Nat) (sh : Shared) : Prop where
  ptr_lt : sh.ptr < sh.heap.length
  /-- the installed logger is the specification applied to the calls that took effect, in order -/
  cur : abs (heapAt sh sh.ptr) = specFold (abs c0) (sh.hist.map (·.2))
  tids : ∀ x ∈ sh.hist, x.1 < n

structure Inv (c0 : Core) (progs : List (List Call)) (s : CSt) : Prop where
  sh : SInv c0 progs.length s.sh
  len : s.threads.length = progs.length
  th : ∀ i t, s.threads[i]? = some t → TInv s.sh i t ((progs[i]?).getD [])

/-- what a step of thread `i` guarantees to the other threads -/
structure Frame (sh sh' : Shared) (i : Nat) : Prop where
  heap : ∃ ext, sh'.heap = sh.heap ++ ext
  hist : ∀ j, j ≠ i → projHist sh'.hist j = projHist sh.hist j

theorem heapAt_ext (sh sh' : Shared) (ext : List Core) (h : sh'.heap = sh.heap ++ ext) (n : Nat)
    (hn : n < sh.heap.length) : heapAt sh' n = heapAt sh n := by
  simp [heapAt, h, List.getElem?_append_left hn]

theorem tinv_stable {sh sh' : Shared} {i j : Nat} {u : Thread} {prog : List Call}
    (hf : Frame sh sh' i) (hji : j ≠ i) (hu : TInv sh j u prog) : TInv sh' j u prog := by
  obtain ⟨ext, hext⟩ := hf.heap
  refine ⟨?_, by rw [hf.hist j hji]; exact hu.hist, hu.prog, hu.idle⟩
  intro c p n hpc
  obtain ⟨h1, h2, h3⟩ := hu.upd c p n hpc
  refine ⟨by simp [hext]; omega, by simp [hext]; omega, ?_⟩
  rw [heapAt_ext sh sh' ext hext n h2, heapAt_ext sh sh' ext hext p h1]
  exact h3

theorem abs_apply (c : Core) (call : Call) : abs (call.apply true c) = call.spec (abs c) := by
  cases call with
  | wf fs => exact abs_loggerWith c fs
  | sl l => rfl

theorem spec_not_fresh (call : Call) (l : LSpec) (h : call.fresh = false) : call.spec l = l := by
  cases call with
  | wf fs =>
    have : fs = [] := by simpa [Call.fresh] using h
    subst this
    simp [Call.spec]
  | sl l => simp [Call.fresh] at h

theorem projHist_append (hist : List (Nat × Call)) (i j : Nat) (c : Call) :
    projHist (hist ++ [(i, c)]) j = if i = j then projHist hist j ++ [c] else projHist hist j := by
  unfold projHist
  by_cases h : i = j
  · subst h; simp [List.filter_append]
  · simp [List.filter_append, h]

theorem specFold_append (l : LSpec) (cs : List Call) (c : Call) :
    specFold l (cs ++ [c]) = c.spec (specFold l cs) := by
  simp [specFold, List.foldl_append]

theorem enter_inflight (t : Thread) : inflight (enter t).pc ++ (enter t).prog = t.prog := by
  unfold enter; split <;> simp_all [inflight]

theorem enter_done (t : Thread) : (enter t).done = t.done := by
  unfold enter; split <;> rfl

theorem enter_idle (t : Thread) (h : (enter t).pc = .idle) : (enter t).prog = [] := by
  unfold enter at h ⊢; split <;> simp_all

theorem enter_not_upd (t : Thread) (c : Call) (p n : Nat) : (enter t).pc ≠ .upd c p n := by
  unfold enter; split <;> simp

/-- the step of thread `i` itself -/
theorem tstep_local (c0 : Core) (n : Nat) (sh : Shared) (i : Nat) (hi : i < n) (t : Thread) (prog : List Call)
    (hs : SInv c0 n sh) (ht : TInv sh i t prog) :
    SInv c0 n (tstep true true sh i t).1 ∧ TInv (tstep true true sh i t).1 i (tstep true true sh i t).2.1 prog ∧
      Frame sh (tstep true true sh i t).1 i := by
  cases hp : t.pc with
  | idle =>
    simp only [tstep, hp]
    exact ⟨hs, ht, ⟨[], by simp⟩, fun _ _ => rfl⟩
  | load c =>
    simp only [tstep, hp]
    have hprog : t.done ++ [c] ++ t.prog = prog := by simpa [hp, inflight] using ht.prog
    by_cases hf : c.fresh = true
    · simp only [hf, if_true]
      refine ⟨⟨by simp; have := hs.ptr_lt; omega, ?_, hs.tids⟩, ⟨?_, ht.hist, by simpa [inflight] using hprog, by simp⟩,
        ⟨⟨_, rfl⟩, fun _ _ => rfl⟩⟩
      · have := hs.cur
        simp only [heapAt] at this ⊢
        simp only [List.getElem?_append_left hs.ptr_lt]
        exact this
      · intro c' p n' hpc
        simp only [PC.upd.injEq] at hpc
        obtain ⟨rfl, rfl, rfl⟩ := hpc
        refine ⟨by simp; have := hs.ptr_lt; omega, by simp, ?_⟩
        simp only [heapAt, List.getElem?_append_left hs.ptr_lt]
        simp only [List.getElem?_append_right (Nat.le_refl _), Nat.sub_self, List.getElem?_cons_zero,
          Option.getD_some]
        exact abs_apply _ _
    · have hf' : c.fresh = false := by simpa using hf
      simp only [hf', Bool.false_eq_true, if_false]
      refine ⟨hs, ⟨?_, ht.hist, by simpa [inflight] using hprog, by simp⟩, ⟨⟨[], by simp⟩, fun _ _ => rfl⟩⟩
      intro c' p n' hpc
      simp only [PC.upd.injEq] at hpc
      obtain ⟨rfl, rfl, rfl⟩ := hpc
      exact ⟨hs.ptr_lt, hs.ptr_lt, (spec_not_fresh _ _ hf').symm⟩
  | upd c p m =>
    simp only [tstep, hp, Bool.true_and]
    obtain ⟨hpl, hml, habs⟩ := ht.upd c p m hp
    have hprog : t.done ++ [c] ++ t.prog = prog := by simpa [hp, inflight] using ht.prog
    by_cases hne : (sh.ptr != p) = true
    · simp only [hne, if_true]
      refine ⟨hs, ⟨?_, ht.hist, by simpa [inflight] using hprog, by simp⟩, ⟨⟨[], by simp⟩, fun _ _ => rfl⟩⟩
      intro c' p' n' hpc; simp at hpc
    · have heq : sh.ptr = p := by simpa using hne
      have hb : (sh.ptr != p) = false := by simpa using hne
      simp only [hb, Bool.false_eq_true, if_false, commit]
      refine ⟨⟨hml, ?_, ?_⟩, ⟨?_, ?_, ?_, enter_idle _⟩, ⟨⟨[], by simp⟩, ?_⟩⟩
      · have h1 : heapAt { sh with ptr := m, hist := sh.hist ++ [(i, c)] } m = heapAt sh m := rfl
        simp only [h1, List.map_append, List.map_cons, List.map_nil, specFold_append]
        rw [habs, ← heq, hs.cur]
      · intro x hx
        simp only [List.mem_append, List.mem_singleton] at hx
        rcases hx with hx | rfl
        · exact hs.tids x hx
        · exact hi
      · intro c' p' n' hpc
        exact absurd hpc (enter_not_upd _ _ _ _)
      · rw [projHist_append, enter_done]; simp [ht.hist]
      · rw [enter_done, List.append_assoc, enter_inflight]
        simpa using hprog
      · intro j hj
        rw [projHist_append]
        have : ¬ i = j := fun e => hj e.symm
        simp [this]

/-! ## the invariant is inductive -/

theorem step_inv (c0 : Core) (progs : List (List Call)) (s : CSt) (i : Nat) (h : Inv c0 progs s) :
    Inv c0 progs (cstep true true s i) := by
  unfold cstep cstepL
  cases ht : s.threads[i]? with
  | none => simpa [ht] using h
  | some t =>
    simp only
    have hi : i < s.threads.length := (List.getElem?_eq_some_iff.1 ht).1
    obtain ⟨h1, h2, h3⟩ := tstep_local c0 progs.length s.sh i (by rw [← h.len]; exact hi) t _ h.sh (h.th i t ht)
    refine ⟨h1, by simp [h.len], ?_⟩
    intro j u hj
    simp only [List.getElem?_set] at hj
    by_cases hji : i = j
    · subst hji
      simp [hi] at hj
      subst hj; exact h2
    · simp [hji] at hj
      exact tinv_stable h3 (fun e => hji e.symm) (h.th j u hj)

theorem init_inv (c0 : Core) (progs : List (List Call)) : Inv c0 progs (cinit c0 progs) := by
  refine ⟨⟨by simp [cinit], by simp [cinit, heapAt, specFold], by simp [cinit]⟩, by simp [cinit], ?_⟩
  intro i t ht
  simp only [cinit, List.getElem?_map] at ht
  cases hp : progs[i]? with
  | none => simp [hp] at ht
  | some p =>
    simp [hp] at ht
    subst ht
    refine ⟨fun c p' n hpc => absurd hpc (enter_not_upd _ _ _ _), by simp [projHist, enter_done, cinit], ?_, enter_idle _⟩
    rw [enter_done, List.append_assoc, enter_inflight]
    simp

/-- Every state reachable from any client program under any schedule satisfies the invariant. -/
theorem run_inv (c0 : Core) (progs : List (List Call)) (s : CSt) (sched : List Nat) (h : Inv c0 progs s) :
    Inv c0 progs (crun true true s sched) := by
  induction sched generalizing s with
  | nil => simpa [crun] using h
  | cons a rest ih =>
    have := ih (cstep true true s a) (step_inv c0 progs s a h)
    simpa [crun] using this

theorem reachable_inv (c0 : Core) (progs : List (List Call)) (sched : List Nat) :
    Inv c0 progs (crun true true (cinit c0 progs) sched) :=
  run_inv c0 progs _ sched (init_inv c0 progs)

/-! ## closed forms of the sequential specification of a call list -/

def Call.fields : Call → List Field
  | .wf fs => fs
  | .sl _ => []

def Call.level? : Call → Option Level
  | .wf _ => none
  | .sl l => some l

theorem specFold_fields (l : LSpec) (cs : List Call) :
    (specFold l cs).fields = l.fields ++ cs.flatMap Call.fields := by
  induction cs generalizing l with
  | nil => simp [specFold]
  | cons c cs ih =>
    simp only [specFold, List.foldl_cons] at ih ⊢
    rw [ih]
    cases c <;> simp [Call.spec, Call.fields]

theorem getLast?_cons_getD (x : Level) (xs : List Level) (d : Level) :
    ((x :: xs).getLast?).getD d = (xs.getLast?).getD x := by
  cases xs with
  | nil => simp
  | cons y ys =>
    rw [List.getLast?_cons_cons]
    cases h : (y :: ys).getLast? with
    | none => simp at h
    | some z => rfl

/-- the level after a call list is the level of its last `SetLevel`, else the initial one -/
theorem specFold_level (l : LSpec) (cs : List Call) :
    (specFold l cs).level = ((cs.filterMap Call.level?).getLast?).getD l.level := by
  induction cs generalizing l with
  | nil => simp [specFold]
  | cons c cs ih =>
    simp only [specFold, List.foldl_cons] at ih ⊢
    rw [ih]
    cases c with
    | wf fs => simp [Call.spec, Call.level?]
    | sl lv =>
      have : List.filterMap Call.level? (Call.sl lv :: cs) = lv :: List.filterMap Call.level? cs := rfl
      rw [this, getLast?_cons_getD]
      rfl

theorem mem_projHist (hist : List (Nat × Call)) (i : Nat) (c : Call) (h : c ∈ projHist hist i) :
    c ∈ hist.map (·.2) := by
  simp only [projHist, List.mem_map, List.mem_filter] at h ⊢
  obtain ⟨x, ⟨hx, _⟩, rfl⟩ := h
  exact ⟨x, hx, rfl⟩

end Log

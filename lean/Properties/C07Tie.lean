import Model.SetM
import Generated.GoSet
import Lemmas.GoLoop
import Properties.C07
/-!
# C07, tie A by translation: `set/set.go` as translated on this run = the model

`Generated/GoSet.lean` is rewritten from /repo's `set/set.go` by `harness/cmd/go2lean` on every
run.  The theorems `go_*_eq` prove, for every element type, every receiver (nil, empty, filled; in
every key order a map walk may produce) and every argument list, that the translated function
returns exactly what the hand-written model `SetM` returns - in particular that it cannot panic
(no write to a nil map, no index out of range in `Slice`).  `go_*_spec` restate the property for
the translated code itself.  A change to `set.go` changes the generated definitions, and these
proofs are re-checked against it.

Outside the translated fragment (and therefore not covered by this tie): `s.AddSet(s)` /
`s.RemoveSet(s)` with the receiver itself as the argument (the translation treats the two maps as
separate values), and the four Marshal/Unmarshal methods (C17; `SetM.Codec`).
-/
set_option linter.unusedSectionVars false
set_option linter.unusedSimpArgs false
namespace C07Tie
open Generated.GoSet SetM

variable {α : Type} [DecidableEq α] [Inhabited α]

@[simp] theorem mapElems_eq (s : S α) : Go.mapElems s = elems s := by cases s <;> rfl
@[simp] theorem mapLen_eq (s : S α) : Go.mapLen s = (elems s).length := by simp [Go.mapLen]
@[simp] theorem mapHas_eq (s : S α) (k : α) : Go.mapHas s k = decide (k ∈ elems s) := by simp [Go.mapHas]
@[simp] theorem mapKeys_eq (s : S α) : Go.mapKeys s = elems s := by simp [Go.mapKeys]

theorem go_has_eq (s : S α) (items : List α) : Set.Has s items = pure (has s items) := by
  unfold Set.Has has
  by_cases hl : (elems s).length = 0
  · simp [hl]
  · simp only [mapLen_eq, mapHas_eq]
    rw [GoLoop.forIn_search _ (fun a => !decide (a ∈ elems s)) (some false, ()) (none, ())
      (by intro a; by_cases h : a ∈ elems s <;> simp [h])]
    have hne : elems s ≠ [] := by intro h; simp [h] at hl
    simp only [hl, if_false]
    by_cases h : items.any (fun a => !decide (a ∈ elems s)) = true
    · rw [if_pos h]
      have : (items.all fun x => decide (x ∈ elems s)) = false := by
        simpa [List.all_eq_false, List.any_eq_true] using h
      simp [this, hne]
    · rw [if_neg h]
      have : (items.all fun x => decide (x ∈ elems s)) = true := by
        simpa [List.all_eq_true, List.any_eq_true] using h
      simp [this, hne]

theorem go_hasAny_eq (s : S α) (items : List α) : Set.HasAny s items = pure (hasAny s items) := by
  unfold Set.HasAny hasAny
  by_cases hl : (elems s).length = 0
  · simp [hl]
  · have hne : elems s ≠ [] := by intro h; simp [h] at hl
    simp only [mapLen_eq, mapHas_eq]
    rw [GoLoop.forIn_search _ (fun a => decide (a ∈ elems s)) (some true, ()) (none, ())
      (by intro a; by_cases h : a ∈ elems s <;> simp [h])]
    simp only [hl, if_false]
    by_cases h : items.any (fun a => decide (a ∈ elems s)) = true
    · rw [if_pos h]; simp [h, hne]
    · rw [if_neg h]; simp [h, hne]

/-- the state of the `Remove` loop after each item -/
private def rmStep (st : S α × Bool) (x : α) : S α × Bool :=
  (Go.mapDelete st.1 x, st.2 || decide (x ∈ elems st.1))

private theorem rm_fold (items : List α) (l : List α) (b : Bool) :
    items.foldl rmStep (some l, b) = (some (items.foldl removeStep (l, b)).1, (items.foldl removeStep (l, b)).2) := by
  induction items generalizing l b with
  | nil => rfl
  | cons a as ih => simp only [List.foldl_cons, rmStep, removeStep, Go.mapDelete, elems, ih]; rfl

theorem go_remove_eq (s : S α) (items : List α) : Set.Remove s items = pure (remove s items) := by
  unfold Set.Remove remove
  by_cases hl : (elems s).length = 0
  · simp [hl]
  · simp only [mapLen_eq, mapHas_eq]
    rw [GoLoop.forIn_yield _ rmStep (fun _ => True) (fun _ _ _ => trivial)
      (by intro a b _; obtain ⟨m, r⟩ := b; cases r <;> by_cases h : a ∈ elems m <;> simp [rmStep, h]) _ _ trivial]
    cases s with
    | none => simp [elems] at hl
    | some l =>
      have hne : l ≠ [] := by intro h; simp [h, elems] at hl
      simp [rm_fold, elems, hne]

theorem go_removeSet_eq (s items : S α) : Set.RemoveSet s items = pure (remove s (elems items)) := by
  unfold Set.RemoveSet remove
  by_cases hl : (elems s).length = 0
  · simp [hl]
  · simp only [mapLen_eq, mapHas_eq, mapKeys_eq]
    rw [GoLoop.forIn_yield _ rmStep (fun _ => True) (fun _ _ _ => trivial)
      (by intro a b _; obtain ⟨m, r⟩ := b; cases r <;> by_cases h : a ∈ elems m <;> simp [rmStep, h]) _ _ trivial]
    cases s with
    | none => simp [elems] at hl
    | some l =>
      have hne : l ≠ [] := by intro h; simp [h, elems] at hl
      simp [rm_fold, elems, hne]

/-- the state of the `Add` loop after each item (on an allocated map) -/
private def adStep (st : S α × Bool) (x : α) : S α × Bool :=
  (some (insert (elems st.1) x), st.2 || !decide (x ∈ elems st.1))

private theorem ad_fold (items : List α) (l : List α) (b : Bool) :
    items.foldl adStep (some l, b) = (some (items.foldl addStep (l, b)).1, (items.foldl addStep (l, b)).2) := by
  induction items generalizing l b with
  | nil => rfl
  | cons a as ih => simp only [List.foldl_cons, adStep, addStep, elems, ih]; rfl

private theorem mapSet_some (l : List α) (x : α) : Go.mapSet (some l) x = pure (some (insert l x)) := rfl

theorem go_add_eq (s : S α) (items : List α) : Set.Add s items = pure (add s items) := by
  unfold Set.Add add
  have key : ∀ (l : List α) (body : α → S α × Bool → Go.M (ForInStep (S α × Bool))),
      (∀ a b, b.1.isSome → body a b = pure (.yield (adStep b a))) →
      forIn items ((some l : S α), false) body
        = pure (some (items.foldl addStep (l, false)).1, (items.foldl addStep (l, false)).2) := by
    intro l body h
    rw [GoLoop.forIn_yield body adStep (fun st => st.1.isSome) (by intro b a _; rfl) h _ _ rfl, ad_fold]
  cases s with
  | none =>
    simp [Go.mapIsNil, Go.mapMake]
    rw [key]
    · simp [elems]
    · intro a b hb; obtain ⟨m, r⟩ := b
      cases m with
      | none => simp at hb
      | some l => cases r <;> by_cases h : a ∈ l <;> simp [adStep, mapSet_some, elems, h]
  | some l =>
    simp [Go.mapIsNil]
    rw [key]
    · simp [elems]
    · intro a b hb; obtain ⟨m, r⟩ := b
      cases m with
      | none => simp at hb
      | some l => cases r <;> by_cases h : a ∈ l <;> simp [adStep, mapSet_some, elems, h]

theorem go_addSet_eq (s items : S α) : Set.AddSet s items = pure (add s (elems items)) := by
  unfold Set.AddSet add
  have key : ∀ (l : List α) (body : α → S α × Bool → Go.M (ForInStep (S α × Bool))),
      (∀ a b, b.1.isSome → body a b = pure (.yield (adStep b a))) →
      forIn (elems items) ((some l : S α), false) body
        = pure (some ((elems items).foldl addStep (l, false)).1, ((elems items).foldl addStep (l, false)).2) := by
    intro l body h
    rw [GoLoop.forIn_yield body adStep (fun st => st.1.isSome) (by intro b a _; rfl) h _ _ rfl, ad_fold]
  cases s with
  | none =>
    simp [Go.mapIsNil, Go.mapMake]
    rw [key]
    · simp [elems]
    · intro a b hb; obtain ⟨m, r⟩ := b
      cases m with
      | none => simp at hb
      | some l => cases r <;> by_cases h : a ∈ l <;> simp [adStep, mapSet_some, elems, h]
  | some l =>
    simp [Go.mapIsNil]
    rw [key]
    · simp [elems]
    · intro a b hb; obtain ⟨m, r⟩ := b
      cases m with
      | none => simp at hb
      | some l => cases r <;> by_cases h : a ∈ l <;> simp [adStep, mapSet_some, elems, h]

theorem go_make_eq (items : List α) : Make items = pure (make items) := by
  unfold Make make
  have key : ∀ (l : List α), List.foldlM (fun b a => Go.mapSet b a) (some l : S α) items
      = (pure (some (items.foldl insert l)) : Go.M _) := by
    intro l
    induction items generalizing l with
    | nil => rfl
    | cons a as ih => simp [List.foldlM_cons, mapSet_some, ih]
  simp [Go.mapMake, key]

private theorem set_at_length (pre : List α) (x a : α) (ys : List α) :
    (pre ++ x :: ys).set pre.length a = pre ++ a :: ys := by
  induction pre with
  | nil => rfl
  | cons p ps ih => simp [ih]

private theorem sliceSet_at (pre : List α) (x a : α) (ys : List α) :
    Go.sliceSet (some (pre ++ x :: ys)) pre.length a = pure (some (pre ++ a :: ys)) := by
  simp [Go.sliceSet, set_at_length]

private theorem slice_loop (rest pre : List α) :
    List.foldlM (fun (b : Go.Slice α × Nat) a => (fun c => (c, b.snd + 1)) <$> Go.sliceSet b.fst b.snd a)
        (some (pre ++ List.replicate rest.length default), pre.length) rest
      = (pure (some (pre ++ rest), (pre ++ rest).length) : Go.M _) := by
  induction rest generalizing pre with
  | nil => simp
  | cons a as ih =>
    have := ih (pre ++ [a])
    simp only [List.append_assoc, List.singleton_append, List.length_append, List.length_cons, List.length_nil] at this
    rw [List.foldlM_cons, List.length_cons, List.replicate_succ, sliceSet_at]
    simpa using this

theorem go_slice_eq (s : S α) : Set.Slice s = pure (slice s) := by
  unfold Set.Slice slice
  by_cases hl : (elems s).length = 0
  · simp [hl, Go.sliceNil]
  · have := slice_loop (elems s) []
    simp only [List.nil_append, List.length_nil] at this
    have hne : elems s ≠ [] := by intro h; simp [h] at hl
    simp [hl, Go.sliceMake, this, hne]


/-! ## The property, stated for the translated code -/

/-- `Add`/`AddSet` on the translated code: no panic; afterwards exactly the old members and the
arguments are members; the result is true exactly when some argument was not a member before. -/
theorem go_add_spec (s : S α) (items : List α) :
    ∃ s' r, Set.Add s items = pure (s', r) ∧
      (∀ y, y ∈ elems s' ↔ y ∈ elems s ∨ y ∈ items) ∧ (r = true ↔ ∃ x ∈ items, x ∉ elems s) :=
  ⟨_, _, go_add_eq s items, mem_add s items, add_true_iff s items⟩

theorem go_addSet_spec (s items : S α) :
    ∃ s' r, Set.AddSet s items = pure (s', r) ∧
      (∀ y, y ∈ elems s' ↔ y ∈ elems s ∨ y ∈ elems items) ∧ (r = true ↔ ∃ x ∈ elems items, x ∉ elems s) :=
  ⟨_, _, go_addSet_eq s items, mem_add s (elems items), add_true_iff s (elems items)⟩

/-- `Remove`/`RemoveSet` on the translated code. -/
theorem go_remove_spec (s : S α) (items : List α) (h : Inv s) :
    ∃ s' r, Set.Remove s items = pure (s', r) ∧
      (∀ y, y ∈ elems s' ↔ y ∈ elems s ∧ y ∉ items) ∧ (r = true ↔ ∃ x ∈ items, x ∈ elems s) :=
  ⟨_, _, go_remove_eq s items, mem_remove s items h, remove_true_iff s items h⟩

theorem go_removeSet_spec (s items : S α) (h : Inv s) :
    ∃ s' r, Set.RemoveSet s items = pure (s', r) ∧
      (∀ y, y ∈ elems s' ↔ y ∈ elems s ∧ y ∉ elems items) ∧ (r = true ↔ ∃ x ∈ elems items, x ∈ elems s) :=
  ⟨_, _, go_removeSet_eq s items, mem_remove s (elems items) h, remove_true_iff s (elems items) h⟩

/-- `Make`, `Has`, `HasAny`, `Slice` on the translated code. -/
theorem go_queries_spec (s : S α) (items : List α) (hs : Inv s) :
    (∃ m, Make items = pure m ∧ Inv m ∧ ∀ y, y ∈ elems m ↔ y ∈ items) ∧
    (∃ r, Set.Has s items = pure r ∧ (items ≠ [] → (r = true ↔ ∀ x ∈ items, x ∈ elems s))) ∧
    (∃ r, Set.HasAny s items = pure r ∧ (r = true ↔ ∃ x ∈ items, x ∈ elems s)) ∧
    (∃ r, Set.Slice s = pure r ∧ (r = none ↔ ∀ x, x ∉ elems s) ∧
      ∀ l, r = some l → l.Nodup ∧ ∀ x, x ∈ l ↔ x ∈ elems s) :=
  ⟨⟨_, go_make_eq items, inv_make items, mem_make items⟩,
    ⟨_, go_has_eq s items, has_iff_all_mem s items⟩,
    ⟨_, go_hasAny_eq s items, hasAny_iff_some_mem s items⟩,
    ⟨_, go_slice_eq s, slice_nodup_members s hs⟩⟩

/-- the translator covered every function of the model -/
theorem go_translated_complete :
    translated = ["Make", "Set.Add", "Set.AddSet", "Set.Has", "Set.HasAny", "Set.Remove", "Set.RemoveSet", "Set.Slice"] := by
  decide

end C07Tie

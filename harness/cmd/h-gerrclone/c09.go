package main

import (
	"fmt"
	"os"

	"verif/harness/internal/hx"
)

func runC09(f *hx.Flags) {
	fmt.Fprintln(os.Stderr, "C09 not built yet")
	os.Exit(2)
}

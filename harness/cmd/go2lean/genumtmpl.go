// go2lean -spec genumtmpl: the per-type part of genum's template, section by section, as terms of the
// template-AST datatype of lean/Model/TmplX.lean.
//
// The template file is the one genum/gen/generate.go embeds (`//go:embed <file>`).  It is parsed with
// text/template/parse (through text/template, as the generator does), so the `{{-` / `-}}` trimming and the
// comments are resolved exactly as the generator's own parse resolves them: the tree is translated, not
// the raw text.
//
// Read from the tree:
//
//	the one top-level `range $i, $T := .Types`;
//	prelude    the variable declarations at the head of its body (`$values := index $.Values $i`);
//	sections   the rest of the body cut after every text `\n}` at column 0 (the end of a top-level Go
//	           declaration).  A piece is named after the `func` / `var` line of its top-level text
//	           (table, IsValid, Values, StringValues, String, ParseString, Parse, ParseGeneric); a piece
//	           that is one `range` block writing `func (e T) Name() Type {` per element is the trait accessor.  The codec blocks
//	           (`if $.GenJSON` …) are counted, not translated.
//
// Fragment: text; `{{pipeline}}`; `{{$x := pipeline}}`; if / else; with / else; range [$i,] [$x :=] / else;
// a pipeline is ONE command: `.A.B`, `$x.A.B`, `(pipeline).A`, a method with arguments `$x.M a b`, the
// functions len / index / gt, string, integer and boolean literals, parentheses.  Anything else (`|`,
// `=`, break, continue, template, define, other functions, nil, floats) makes the extractor FAIL, as does
// a missing or repeated section.
package main

import (
	"fmt"
	"go/ast"
	"go/parser"
	"os"
	"path/filepath"
	"strings"
	"text/template"
	"text/template/parse"
)

func init() { register("genumtmpl", "../lean/Generated/GenumTmpl.lean", runGenumTmpl) }

var genumTmplFuncs = map[string]bool{"len": true, "index": true, "gt": true}

func gtFail(format string, a ...any) { fail("genumtmpl: "+format, a...) }

// chain: e.A.B.C
func gtChain(e string, idents []string) string {
	for _, f := range idents {
		e = "(.field " + e + " " + leanStrLit(f) + ")"
	}
	return e
}

func gtArgs(ns []parse.Node) string {
	var out []string
	for _, n := range ns {
		out = append(out, gtOperand(n))
	}
	return "[" + strings.Join(out, ", ") + "]"
}

// receiver and identifiers of a field / variable / chain node
func gtRecv(n parse.Node) (string, []string, bool) {
	switch a := n.(type) {
	case *parse.FieldNode:
		return ".dot", a.Ident, true
	case *parse.VariableNode:
		return "(.var " + leanStrLit(a.Ident[0]) + ")", a.Ident[1:], true
	case *parse.ChainNode:
		p, ok := a.Node.(*parse.PipeNode)
		if !ok {
			gtFail("chain `%s` on something that is not a parenthesised pipeline", a)
		}
		return gtPipe(p), a.Field, true
	}
	return "", nil, false
}

// an operand of a command
func gtOperand(n parse.Node) string {
	if recv, ids, ok := gtRecv(n); ok {
		return gtChain(recv, ids)
	}
	switch a := n.(type) {
	case *parse.DotNode:
		return ".dot"
	case *parse.PipeNode:
		return gtPipe(a)
	case *parse.StringNode:
		return "(.str " + leanStrLit(a.Text) + ")"
	case *parse.BoolNode:
		return fmt.Sprintf("(.bool %v)", a.True)
	case *parse.NumberNode:
		if !a.IsInt || a.IsFloat && !a.IsInt || a.IsComplex && !a.IsInt {
			gtFail("number `%s` is not an integer literal", a)
		}
		if strings.HasPrefix(a.Text, "'") {
			gtFail("character constant `%s` is outside the translated fragment", a)
		}
		if a.Int64 < 0 {
			return fmt.Sprintf("(.int (%d))", a.Int64)
		}
		return fmt.Sprintf("(.int %d)", a.Int64)
	}
	gtFail("operand `%s` (%T) is outside the translated fragment", n, n)
	return ""
}

func gtCmd(c *parse.CommandNode) string {
	if len(c.Args) == 0 {
		gtFail("empty command")
	}
	first, rest := c.Args[0], c.Args[1:]
	if id, ok := first.(*parse.IdentifierNode); ok {
		if !genumTmplFuncs[id.Ident] {
			gtFail("function `%s` in `%s` is outside the translated fragment (len, index, gt)", id.Ident, c)
		}
		if len(rest) == 0 {
			gtFail("function `%s` without arguments", id.Ident)
		}
		return "(.fn " + leanStrLit(id.Ident) + " " + gtArgs(rest) + ")"
	}
	if len(rest) == 0 {
		return gtOperand(first)
	}
	recv, ids, ok := gtRecv(first)
	if !ok || len(ids) == 0 {
		gtFail("command `%s`: arguments given to something that is not a method", c)
	}
	return "(.call " + gtChain(recv, ids[:len(ids)-1]) + " " + leanStrLit(ids[len(ids)-1]) + " " + gtArgs(rest) + ")"
}

// a pipeline without declarations: one command
func gtPipe(p *parse.PipeNode) string {
	if p == nil || len(p.Cmds) != 1 {
		gtFail("pipeline `%s` is outside the translated fragment (exactly one command, no `|`)", p)
	}
	if len(p.Decl) != 0 {
		gtFail("pipeline `%s` declares variables where the fragment has none", p)
	}
	return gtCmd(p.Cmds[0])
}

func gtValue(p *parse.PipeNode) string {
	if p == nil || len(p.Cmds) != 1 {
		gtFail("pipeline `%s` is outside the translated fragment (exactly one command, no `|`)", p)
	}
	return gtCmd(p.Cmds[0])
}

func gtOptVar(v *parse.VariableNode) string {
	if len(v.Ident) != 1 {
		gtFail("declared variable `%s`", v)
	}
	return "(some " + leanStrLit(v.Ident[0]) + ")"
}

func gtList(l *parse.ListNode) string {
	if l == nil {
		return "[]"
	}
	return gtNodes(l.Nodes)
}

func gtNodes(ns []parse.Node) string {
	var out []string
	for _, n := range ns {
		switch x := n.(type) {
		case *parse.TextNode:
			out = append(out, ".text "+leanStrLit(string(x.Text)))
		case *parse.CommentNode:
		case *parse.ActionNode:
			switch {
			case len(x.Pipe.Decl) == 0:
				out = append(out, ".action "+gtPipe(x.Pipe))
			case len(x.Pipe.Decl) == 1 && !x.Pipe.IsAssign && len(x.Pipe.Decl[0].Ident) == 1:
				out = append(out, ".assign "+leanStrLit(x.Pipe.Decl[0].Ident[0])+" "+gtValue(x.Pipe))
			default:
				gtFail("action `%s` is outside the translated fragment (`$x := pipeline` or a pipeline)", x)
			}
		case *parse.IfNode:
			out = append(out, ".ite "+gtPipe(x.Pipe)+" "+gtList(x.List)+" "+gtList(x.ElseList))
		case *parse.WithNode:
			out = append(out, ".withN "+gtPipe(x.Pipe)+" "+gtList(x.List)+" "+gtList(x.ElseList))
		case *parse.RangeNode:
			if x.Pipe.IsAssign {
				gtFail("range `%s` assigns to an existing variable", x.Pipe)
			}
			iv, xv := "none", "none"
			switch len(x.Pipe.Decl) {
			case 0:
			case 1:
				xv = gtOptVar(x.Pipe.Decl[0])
			case 2:
				iv, xv = gtOptVar(x.Pipe.Decl[0]), gtOptVar(x.Pipe.Decl[1])
			default:
				gtFail("range `%s`", x.Pipe)
			}
			out = append(out, ".range "+iv+" "+xv+" "+gtValue(x.Pipe)+" "+gtList(x.List)+" "+gtList(x.ElseList))
		default:
			gtFail("template node `%s` (%T) is outside the translated fragment", n, n)
		}
	}
	return "[" + strings.Join(out, ", ") + "]"
}

// the file named by the single //go:embed directive of a Go file
func embeddedFileOf(repo, rel string) string {
	f, err := parser.ParseFile(fset, filepath.Join(repo, rel), nil, parser.ParseComments)
	if err != nil {
		fail("%v", err)
	}
	var files []string
	for _, d := range f.Decls {
		gd, ok := d.(*ast.GenDecl)
		if !ok {
			continue
		}
		docs := []*ast.CommentGroup{gd.Doc}
		for _, sp := range gd.Specs {
			if vs, ok := sp.(*ast.ValueSpec); ok {
				docs = append(docs, vs.Doc)
			}
		}
		for _, cg := range docs {
			if cg == nil {
				continue
			}
			for _, c := range cg.List {
				if strings.HasPrefix(c.Text, "//go:embed ") {
					files = append(files, strings.TrimSpace(strings.TrimPrefix(c.Text, "//go:embed ")))
				}
			}
		}
	}
	if len(files) != 1 || strings.ContainsAny(files[0], " *?[") {
		gtFail("%s: expected exactly one //go:embed directive naming one file, found %q", rel, files)
	}
	return filepath.Join(filepath.Dir(rel), files[0])
}

type gtSection struct {
	name  string
	nodes []parse.Node
}

// the `func` / `var` line of the top-level text of a piece, actions written as `@`
func gtHeader(ns []parse.Node) []string {
	var b strings.Builder
	for _, n := range ns {
		switch x := n.(type) {
		case *parse.TextNode:
			b.Write(x.Text)
		case *parse.ActionNode:
			b.WriteString("@")
		default:
			b.WriteString("\n#block\n")
		}
	}
	var hs []string
	for _, l := range strings.Split(b.String(), "\n") {
		if strings.HasPrefix(l, "func ") || strings.HasPrefix(l, "var ") || strings.HasPrefix(l, "type ") || strings.HasPrefix(l, "const ") {
			hs = append(hs, l)
		}
	}
	return hs
}

var genumTmplKinds = []struct{ name, has string }{
	{"Table", "var _@Values = "},
	{"IsValid", ") IsValid("},
	{"Values", ") Values("},
	{"StringValues", ") StringValues("},
	{"String", ") String("},
	{"ParseString", ") ParseString("},
	{"ParseGeneric", ") ParseGeneric("},
	{"Parse", "func Parse@("},
}

func runGenumTmpl(repo, out string) {
	rel := embeddedFileOf(repo, "genum/gen/generate.go")
	raw, err := os.ReadFile(filepath.Join(repo, rel))
	if err != nil {
		fail("%v", err)
	}
	tm, err := template.New("genum").Parse(string(raw))
	if err != nil {
		gtFail("%s: %v", rel, err)
	}
	if len(tm.Templates()) != 1 {
		gtFail("%s: the template defines further templates", rel)
	}
	// the range over the enum types
	var rng *parse.RangeNode
	for _, n := range tm.Tree.Root.Nodes {
		if r, ok := n.(*parse.RangeNode); ok && len(r.Pipe.Cmds) == 1 && (r.Pipe.Cmds[0].String() == ".Types" || r.Pipe.Cmds[0].String() == "$.Types") {
			if rng != nil {
				gtFail("%s: more than one top-level range over .Types", rel)
			}
			rng = r
		}
	}
	if rng == nil || len(rng.Pipe.Decl) != 2 || rng.Pipe.IsAssign || rng.ElseList != nil {
		gtFail("%s: expected one `range $i, $T := .Types` at the top level", rel)
	}
	ivar, tvar := rng.Pipe.Decl[0].Ident[0], rng.Pipe.Decl[1].Ident[0]
	body := rng.List.Nodes
	// prelude: declarations at the head of the body
	var prelude []parse.Node
	for len(body) > 0 {
		a, ok := body[0].(*parse.ActionNode)
		if !ok || len(a.Pipe.Decl) == 0 {
			break
		}
		prelude = append(prelude, a)
		body = body[1:]
	}
	// cut after every `\n}` at column 0 of the top-level text
	var pieces [][]parse.Node
	var cur []parse.Node
	flush := func() {
		if len(cur) > 0 {
			pieces = append(pieces, cur)
			cur = nil
		}
	}
	for _, n := range body {
		switch x := n.(type) {
		case *parse.TextNode:
			s := string(x.Text)
			for s != "" {
				cut := -1
				for from := 0; ; {
					i := strings.Index(s[from:], "\n}")
					if i < 0 {
						break
					}
					end := from + i + 2
					if end == len(s) || s[end] == '\n' {
						cut = end
						break
					}
					from = end
				}
				if cut < 0 {
					cur = append(cur, &parse.TextNode{NodeType: parse.NodeText, Text: []byte(s)})
					break
				}
				cur = append(cur, &parse.TextNode{NodeType: parse.NodeText, Text: []byte(s[:cut])})
				flush()
				s = s[cut:]
			}
		case *parse.ActionNode:
			if len(x.Pipe.Decl) != 0 {
				gtFail("%s: `%s` declares a variable in the middle of the per-type body (only at its head)", rel, x)
			}
			cur = append(cur, n)
		case *parse.CommentNode:
		case *parse.RangeNode, *parse.IfNode, *parse.WithNode:
			if len(cur) == 0 {
				pieces = append(pieces, []parse.Node{n})
			} else {
				cur = append(cur, n)
			}
		default:
			gtFail("%s: template node `%s` (%T) at the top level of the per-type body", rel, n, n)
		}
	}
	// a last declaration that is not closed by a brace on its own line (a one-liner)
	flush()
	var secs []gtSection
	seen := map[string]bool{}
	skipped := 0
	var skippedNames []string
	for _, p := range pieces {
		name := ""
		if len(p) == 1 {
			switch x := p[0].(type) {
			case *parse.RangeNode:
				// a range that writes one niladic method `func (e T) Name() Type {` per element: the trait accessors
				if hs := gtHeader(x.List.Nodes); len(hs) == 1 && strings.HasPrefix(hs[0], "func (e @) @() @ {") && x.ElseList == nil {
					name = "Accessor"
				}
			case *parse.IfNode, *parse.WithNode:
			}
			if name == "" {
				if _, isText := p[0].(*parse.TextNode); !isText {
					skipped++
					skippedNames = append(skippedNames, "{{"+strings.SplitN(p[0].String(), "}}", 2)[0][2:]+"}}")
					continue
				}
			}
		}
		if name == "" {
			hs := gtHeader(p)
			if len(hs) != 1 {
				gtFail("%s: a piece of the per-type body has %d top-level declaration lines %q (one expected)", rel, len(hs), hs)
			}
			for _, k := range genumTmplKinds {
				if strings.Contains(hs[0], k.has) {
					name = k.name
					break
				}
			}
			if name == "" {
				skipped++
				skippedNames = append(skippedNames, hs[0])
				continue
			}
		}
		if seen[name] {
			gtFail("%s: section %s occurs twice", rel, name)
		}
		seen[name] = true
		secs = append(secs, gtSection{name, p})
	}
	for _, want := range []string{"Table", "Accessor", "IsValid", "Values", "StringValues", "String", "ParseString", "Parse"} {
		if !seen[want] {
			gtFail("%s: section %s was not found in the per-type body", rel, want)
		}
	}
	var b strings.Builder
	b.WriteString("import Model.TmplX\n")
	fmt.Fprintf(&b, "/-! REGENERATED on every run by harness/cmd/go2lean -spec genumtmpl from %s (text/template/parse). Do not edit.\n"+
		"The body of `{{range %s, %s := %s}}` cut into the top-level Go declarations it writes; `prelude` are the\n"+
		"variable declarations at its head.  Not translated (%d pieces): %s.  See Model/TmplX.lean. -/\n",
		rel, ivar, tvar, rng.Pipe.Cmds[0], skipped, strings.Join(skippedNames, "; "))
	b.WriteString("namespace Generated.GenumTmpl\nopen TmplX\n\n")
	fmt.Fprintf(&b, "/-- the variables of the range over the enum types: index, type name -/\ndef idxVar : String := %s\ndef typeVar : String := %s\n\n", leanStrLit(ivar), leanStrLit(tvar))
	fmt.Fprintf(&b, "/-- what that range ranges over -/\ndef typesExpr : Expr := %s\n\n", gtValue(rng.Pipe))
	fmt.Fprintf(&b, "def prelude : List Node :=\n  %s\n\n", gtNodes(prelude))
	var order []string
	for _, s := range secs {
		fmt.Fprintf(&b, "def sec%s : List Node :=\n  %s\n\n", s.name, gtNodes(s.nodes))
		order = append(order, leanStrLit(s.name))
	}
	fmt.Fprintf(&b, "/-- the translated sections in template order -/\ndef order : List String := [%s]\n\n", strings.Join(order, ", "))
	b.WriteString("end Generated.GenumTmpl\n")
	if err := os.WriteFile(out, []byte(b.String()), 0o644); err != nil {
		fail("%v", err)
	}
	fmt.Printf("go2lean genumtmpl: %d section(s) of %s -> %s (%d piece(s) not translated)\n", len(secs), rel, out, skipped)
}

#!/bin/bash
# Offline build of the Lean project and of the harness binaries (MANIFEST.setup_cmd).
set -e
cd "$(dirname "$0")"
export GOPROXY=off GOSUMDB=off GOTOOLCHAIN=local GOFLAGS=
./check --extract
(cd lean && lake build)
mkdir -p bin evidence replays
./check --build
echo setup done

import Model.GErrorIs
/-!
# C06 — gerror: errors.Is identifies exactly the originating factory, never panics
-/
namespace GErrorIs

/-! ### the pinned code violates the property (kernel-checked witnesses, replayed from corpus/C06) -/

/-- `F := FactoryOf(&GError{})`, `r := F.Convert(sliceErr{…})`: on the pinned code
`errors.Is(r, sliceErr{…})` panics (`e.srcError == err` on two values of one non-comparable type);
on the repaired code it is `false`. -/
theorem legacy_is_panics :
    let e := Val.foreign (.noncmp 0) 0 .nil
    let w := runLegacy [.newBase true, .call 0 .Convert (.foreign e)]
    errorsIsLegacy w.h 8 (w.val 1) e = .panic ∧
    errorsIs (run [.newBase true, .call 0 .Convert (.foreign e)]).h 8 (w.val 1) e = .f := by
  decide

/-- `F.Convert(e₁).Convert(e₂)` on the pinned code keeps only `e₁` (`clone.srcError == nil &&`):
`errors.Is(result, e₂)` is `false` although `e₂` was just converted; the repaired code keeps both. -/
theorem legacy_reconvert_violates :
    let e1 := Val.foreign (.cmp 0) 0 .nil
    let e2 := Val.foreign (.cmp 0) 1 .nil
    let cmds := [Cmd.newBase true, .call 0 .Convert (.foreign e1), .call 1 .Convert (.foreign e2)]
    errorsIsLegacy (runLegacy cmds).h 8 ((runLegacy cmds).val 2) e2 = .f ∧
    specIsForeign cmds 2 e2 = true ∧
    errorsIs (run cmds).h 8 ((run cmds).val 2) e2 = .t ∧
    errorsIs (run cmds).h 8 ((run cmds).val 2) e1 = .t := by
  decide

end GErrorIs

import Model.EnvTmpl
/-!
# C16 — gconfig: env templates resolve exactly and only on selected branches

Part 1 (strings): the hand-written matcher that denotes the anchored pattern accepts exactly the
documented grammar, with exactly the documented captures — for ALL strings (`match_iff_grammar`);
hence `MatchAndResolve` does what the property says in each of its four cases.
Part 2 (documents): `parseTemplatedElements` is the pointwise lift of `MatchAndResolve`, and its
composition with the dimension reduction looks only at the selected branches.
-/
namespace EnvTmpl

/-! ### list lemmas -/

theorem stripPrefix_eq_some (p s r : Str) : stripPrefix p s = some r ↔ s = p ++ r := by
  induction p generalizing s with
  | nil => simp [stripPrefix, eq_comm]
  | cons a p ih =>
    cases s with
    | nil => simp [stripPrefix]
    | cons c cs =>
      by_cases h : a = c
      · subst h; simp [stripPrefix, ih]
      · simp [stripPrefix, h]; intro e; exact absurd e.symm h

theorem stripSuffix_eq_some (suf l body : Str) : stripSuffix suf l = some body ↔ l = body ++ suf := by
  unfold stripSuffix
  constructor
  · intro h
    cases hs : stripPrefix suf.reverse l.reverse with
    | none => simp [hs] at h
    | some r =>
      simp [hs] at h
      have := (stripPrefix_eq_some _ _ _).1 hs
      have h2 := congrArg List.reverse this
      simp at h2
      rw [h2, h]
  · intro h
    have : stripPrefix suf.reverse l.reverse = some body.reverse := by
      rw [stripPrefix_eq_some, h]; simp
    simp [this]

/-- a run of `p`-characters followed by a text that does not start with one is split uniquely -/
theorem span_append (p : Char → Bool) (a b : Str) (ha : ∀ c ∈ a, p c = true)
    (hb : ∀ c, b.head? = some c → p c = false) :
    (a ++ b).dropWhile p = b ∧ (a ++ b).takeWhile p = a := by
  induction a with
  | nil =>
    cases b with
    | nil => simp
    | cons c t => have := hb c rfl; simp [this]
  | cons x a ih =>
    have hx : p x = true := ha x (by simp)
    have := ih (fun c hc => ha c (by simp [hc]))
    simp [hx, this]

theorem span_self (p : Char → Bool) (l : Str) :
    (∀ c ∈ l.takeWhile p, p c = true) ∧ l = l.takeWhile p ++ l.dropWhile p ∧
      (∀ c, (l.dropWhile p).head? = some c → p c = false) := by
  refine ⟨?_, (List.takeWhile_append_dropWhile).symm, ?_⟩
  · induction l with
    | nil => simp
    | cons x l ih =>
      by_cases hx : p x = true
      · intro c hc; simp [List.takeWhile, hx] at hc
        rcases hc with hc | hc
        · subst hc; exact hx
        · exact ih c hc
      · simp [List.takeWhile, hx]
  · induction l with
    | nil => simp
    | cons x l ih =>
      by_cases hx : p x = true
      · simpa [List.dropWhile, hx] using ih
      · intro c; simp [List.dropWhile, hx]; intro e; subst e; simpa using hx

theorem trimRight_spec (p : Char → Bool) (l : Str) :
    ∃ t, (∀ c ∈ t, p c = true) ∧ l = trimRight p l ++ t ∧
      (∀ c, (trimRight p l).getLast? = some c → p c = false) := by
  obtain ⟨h1, h2, h3⟩ := span_self p l.reverse
  refine ⟨(l.reverse.takeWhile p).reverse, ?_, ?_, ?_⟩
  · intro c hc; exact h1 c (by simpa using hc)
  · have : l.reverse.reverse = (l.reverse.takeWhile p ++ l.reverse.dropWhile p).reverse := by
      rw [List.takeWhile_append_dropWhile]
    rw [List.reverse_reverse, List.reverse_append] at this
    exact this
  · intro c hc
    apply h3 c
    simpa [trimRight, List.getLast?_reverse] using hc

theorem trimRight_unique (p : Char → Bool) (d t : Str) (ht : ∀ c ∈ t, p c = true)
    (hd : ∀ c, d.getLast? = some c → p c = false) : trimRight p (d ++ t) = d := by
  unfold trimRight
  have := (span_append p t.reverse d.reverse (by intro c hc; exact ht c (by simpa using hc))
    (by intro c hc; exact hd c (by simpa [List.head?_reverse] using hc))).1
  simp [this]

/-! ### character facts -/

theorem ws_not_word (c : Char) (h : isWs c = true) : isWord c = false := by
  simp [isWs] at h
  rcases h with (((h | h) | h) | h) | h <;> subst h <;> decide

theorem allWs_head_not_word (w rest : Str) (hw : AllWs w)
    (hr : ∀ c, rest.head? = some c → isWord c = false) :
    ∀ c, (w ++ rest).head? = some c → isWord c = false := by
  intro c hc
  cases w with
  | nil => exact hr c (by simpa using hc)
  | cons x w => simp at hc; subst hc; exact ws_not_word _ (hw _ (by simp))

theorem head?_append_of_ne_nil (d rest : Str) (h : d ≠ []) : (d ++ rest).head? = d.head? := by
  cases d with
  | nil => exact absurd rfl h
  | cons x d => rfl

/-! ### the tail of the pattern -/

theorem matchTail_none_iff (r5 : Str) :
    matchTail r5 = some none ↔ ∃ w3, AllWs w3 ∧ r5 = w3 ++ closeB := by
  constructor
  · intro h
    unfold matchTail at h
    split at h
    · split at h
      · simp at h
      · dsimp only at h
        split at h <;> simp at h
    · rename_i r6 _
      split at h
      · rename_i hc
        obtain ⟨h1, h2, _⟩ := span_self isWs r5
        exact ⟨r5.takeWhile isWs, h1, by rw [← hc]; exact h2⟩
      · simp at h
  · rintro ⟨w3, hw, rfl⟩
    have := (span_append isWs w3 closeB hw (by intro c hc; simp [closeB] at hc; subst hc; decide)).1
    unfold matchTail
    rw [this]
    simp [closeB]

theorem matchTail_some_iff (r5 d : Str) :
    matchTail r5 = some (some d) ↔ IsDefault d ∧ ∃ w3 w4 w5, AllWs w3 ∧ AllWs w4 ∧ AllWs w5 ∧
      r5 = w3 ++ '|' :: (w4 ++ (d ++ (w5 ++ closeB))) := by
  constructor
  · intro h
    unfold matchTail at h
    split at h
    · rename_i r7 hr
      split at h
      · simp at h
      · rename_i body hb
        rw [stripSuffix_eq_some] at hb
        dsimp only at h
        split at h
        · simp at h
        · rename_i hcond
          simp at h
          simp at hcond
          obtain ⟨hne, hnl⟩ := hcond
          obtain ⟨t, ht, hbody, hlast⟩ := trimRight_spec isWs body
          obtain ⟨h1, h2, _⟩ := span_self isWs r5
          obtain ⟨k1, k2, k3⟩ := span_self isWs r7
          rw [h] at hne hnl hbody hlast
          refine ⟨⟨hne, ?_, ?_, hlast⟩, r5.takeWhile isWs, r7.takeWhile isWs, t, h1, k1, ht, ?_⟩
          · intro c hc e; subst e; exact hnl hc
          · intro c hc
            apply k3 c
            rw [hb, hbody, List.append_assoc, head?_append_of_ne_nil _ _ hne]; exact hc
          · rw [hr] at h2
            rw [h2]
            congr 2
            rw [← List.append_assoc d, ← hbody, ← hb]
            exact k2
    · split at h <;> simp at h
  · rintro ⟨⟨hne, hnl, hhead, hlast⟩, w3, w4, w5, h3, h4, h5, rfl⟩
    have e1 := (span_append isWs w3 ('|' :: (w4 ++ (d ++ (w5 ++ closeB)))) h3
      (by intro c hc; simp at hc; subst hc; decide)).1
    have e2 := (span_append isWs w4 (d ++ (w5 ++ closeB)) h4
      (by intro c hc
          rw [head?_append_of_ne_nil _ _ hne] at hc; exact hhead c hc)).1
    have e3 : stripSuffix closeB (d ++ (w5 ++ closeB)) = some (d ++ w5) := by
      rw [stripSuffix_eq_some, List.append_assoc]
    have e4 := trimRight_unique isWs d w5 h5 hlast
    have e5 : (d.isEmpty || d.contains '\n') = false := by
      simp [hne]; intro hc; exact hnl _ hc rfl
    unfold matchTail
    rw [e1]
    simp only [e2, e3, e4, e5]
    simp

/-! ### the head of the pattern -/

theorem word_not_ws (c : Char) (h : isWord c = true) : isWs c = false := by
  cases hw : isWs c with
  | false => rfl
  | true => rw [ws_not_word c hw] at h; exact absurd h (by simp)

theorem matchWith_eq_some_iff (tail : Str → Option (Option Str)) (s n : Str) (d : Option Str) :
    matchWith tail s = some (n, d) ↔
      IsName n ∧ ∃ w1 w2 r5, AllWs w1 ∧ AllWs w2 ∧ (∀ c, r5.head? = some c → isWord c = false) ∧
        s = openB ++ (w1 ++ (envKw ++ (w2 ++ (n ++ r5)))) ∧ tail r5 = some d := by
  constructor
  · intro h
    unfold matchWith at h
    split at h
    · simp at h
    · rename_i r1 h1
      rw [stripPrefix_eq_some] at h1
      split at h
      · simp at h
      · rename_i r3 h3
        rw [stripPrefix_eq_some] at h3
        dsimp only at h
        split at h
        · simp at h
        · rename_i hne
          split at h
          · simp at h
          · rename_i d' ht
            simp at h
            obtain ⟨hn, hd⟩ := h
            obtain ⟨a1, a2, _⟩ := span_self isWs r1
            obtain ⟨b1, b2, _⟩ := span_self isWs r3
            obtain ⟨c1, c2, c3⟩ := span_self isWord (r3.dropWhile isWs)
            rw [hn] at c1 c2 hne
            subst hd
            refine ⟨⟨by simpa using hne, c1⟩, r1.takeWhile isWs, r3.takeWhile isWs,
              (r3.dropWhile isWs).dropWhile isWord, a1, b1, c3, ?_, ht⟩
            rw [h1]; congr 1
            rw [← c2, ← b2, ← h3]; exact a2
  · rintro ⟨⟨hne, hword⟩, w1, w2, r5, h1, h2, h5, rfl, ht⟩
    have e1 : stripPrefix openB (openB ++ (w1 ++ (envKw ++ (w2 ++ (n ++ r5))))) =
        some (w1 ++ (envKw ++ (w2 ++ (n ++ r5)))) := by rw [stripPrefix_eq_some]
    have e2 := (span_append isWs w1 (envKw ++ (w2 ++ (n ++ r5))) h1
      (by intro c hc; simp [envKw] at hc; subst hc; decide)).1
    have e3 : stripPrefix envKw (envKw ++ (w2 ++ (n ++ r5))) = some (w2 ++ (n ++ r5)) := by
      rw [stripPrefix_eq_some]
    have e4 := (span_append isWs w2 (n ++ r5) h2
      (by intro c hc
          rw [head?_append_of_ne_nil _ _ hne] at hc
          exact word_not_ws c (hword c (List.mem_of_mem_head? hc)))).1
    have e5 := span_append isWord n r5 hword h5
    have e6 : n.isEmpty = false := by simpa using hne
    unfold matchWith
    simp only [e1, e2, e3, e4, e5.1, e5.2, e6, ht]
    simp

/-! ### main theorem: the matcher is sound and complete for the documented grammar -/

theorem isWord_pipe : isWord '|' = false := by decide
theorem isWord_close : isWord '}' = false := by decide

/-- **C16, matcher.** For every string: the matcher captures `(n, d)` exactly when the string is
`${{env:n}}` (`d = none`) resp. `${{env:n | d}}` with optional inner whitespace. In particular a
string that is not of one of these two forms is not matched (completeness), which is the direction
an optional `|` in the pattern violates (`legacy_matcher_violates_grammar`). -/
theorem match_iff_grammar (s n : Str) (d : Option Str) :
    matchTemplate s = some (n, d) ↔ IsTemplate s n d := by
  unfold matchTemplate
  rw [matchWith_eq_some_iff]
  unfold IsTemplate
  constructor
  · rintro ⟨hn, w1, w2, r5, h1, h2, _, rfl, ht⟩
    refine ⟨hn, ?_⟩
    cases d with
    | none =>
      obtain ⟨w3, h3, rfl⟩ := (matchTail_none_iff r5).1 ht
      exact ⟨w1, w2, w3, h1, h2, h3, by simp [List.append_assoc]⟩
    | some d =>
      obtain ⟨hd, w3, w4, w5, h3, h4, h5, rfl⟩ := (matchTail_some_iff r5 d).1 ht
      exact ⟨hd, w1, w2, w3, w4, w5, h1, h2, h3, h4, h5, by simp [List.append_assoc]⟩
  · rintro ⟨hn, h⟩
    refine ⟨hn, ?_⟩
    cases d with
    | none =>
      obtain ⟨w1, w2, w3, h1, h2, h3, rfl⟩ := h
      refine ⟨w1, w2, w3 ++ closeB, h1, h2, ?_, by simp [List.append_assoc],
        (matchTail_none_iff _).2 ⟨w3, h3, rfl⟩⟩
      exact allWs_head_not_word w3 closeB h3 (by intro c hc; simp [closeB] at hc; subst hc; decide)
    | some d =>
      obtain ⟨hd, w1, w2, w3, w4, w5, h1, h2, h3, h4, h5, rfl⟩ := h
      refine ⟨w1, w2, w3 ++ '|' :: (w4 ++ (d ++ (w5 ++ closeB))), h1, h2, ?_,
        by simp [List.append_assoc], (matchTail_some_iff _ d).2 ⟨hd, w3, w4, w5, h3, h4, h5, rfl⟩⟩
      exact allWs_head_not_word w3 _ h3 (by intro c hc; simp at hc; subst hc; decide)

end EnvTmpl

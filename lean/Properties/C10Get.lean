import Generated.GoGConfigGet
import Properties.C10Tie
/-!
# C10, tie A by translation: the whole request path of gconfig/config.go

`Generated/GoGConfigGet.lean` is rewritten from /repo's gconfig/config.go by
`harness/cmd/go2lean -spec gconfigget` on every run: `extractAndConvert`, `getFromCache` (memo key,
xsync `Compute` with its fill callback, the error / nil / type-assertion tail), `Get`, `MustGet`,
`GetOrDefault`.  The theorems below prove FOR EVERY configuration, memo table, result type, key and
environment (`Env`: strings.Split, yaml.Marshal, yaml.Unmarshal, zero values - arbitrary functions)
that the translated `getFromCache` is exactly the model's `GConfigCache.get` under the pair memo key,
with the conversion `convOf` that the translated `extractAndConvert` computes; the headline theorems
of `Properties/C10.lean` are then restated for the translated code (`go_get_history_independent`,
`go_get_no_panic`).
-/
set_option linter.unusedSimpArgs false
set_option linter.unusedVariables false
namespace C10Get
open GConfigCache GoXsync Generated.GoGConfigGet GConfig

/-- the request of the model that a call `getFromCache[T](cfg, key)` is -/
def reqOf (T : TyDesc) (key : String) : Req := ⟨key, T.name, T.iface⟩
def tyOf (r : Req) : TyDesc := ⟨r.ty, r.iface⟩

/-- `extractAndConvert` in closed form: (result, err != nil) -/
def extractAndConvertM (env : Env) (T : TyDesc) (m : List (String × Y)) (key : String) : TV × Bool :=
  match GConfig.extract m (env.split key) with
  | none => (env.zero T, true)
  | some y =>
    if (env.marshal y).2 then (env.zero T, true)
    else env.unmarshal T (env.marshal y).1 (env.zero T)

theorem go_extractAndConvert_eq (env : Env) (T : TyDesc) (m : List (String × Y)) (key : String) :
    extractAndConvert env T m key = pure (extractAndConvertM env T m key) := by
  unfold extractAndConvert extractAndConvertM
  simp only [C10Tie.go_extract_eq, pure_bind]
  cases h : GConfig.extract m (env.split key) with
  | none => simp [C10Tie.ofOpt]
  | some y =>
    simp only [C10Tie.ofOpt, Bool.not_true, Bool.false_eq_true, if_false]
    by_cases hm : (env.marshal y).2 = true
    · simp [hm]
    · simp only [hm, Bool.false_eq_true, if_false]
      have key : ∀ u : TV × Bool, (if u.2 = true then (pure (u.1, true) : Go.M (TV × Bool)) else pure (u.1, false)) = pure u := by
        intro u; obtain ⟨a, b⟩ := u; cases b <;> simp
      exact key _

/-- the conversion the model is parametric in, as the code computes it: extract, re-marshal,
unmarshal into the zero value of T; `none` = an error is returned -/
def convOf (env : Env) (data : List (String × Y)) (r : Req) : Option TV :=
  let p := extractAndConvertM env (tyOf r) data r.key
  if p.2 then none else some p.1

/-- what `getFromCache` returns for an outcome of the model (`Out.ok .nil` stands for "the zero
value of T"; a panic is a panic) -/
def outToGo (env : Env) (T : TyDesc) : Out → Go.M (TV × Bool)
  | .ok .nil => pure (env.zero T, false)
  | .ok v => pure (v, false)
  | .err => pure (env.zero T, true)
  | .panic => throw "interface conversion"

theorem replaceFirst_same {κ : Type} [DecidableEq κ] (c : Cache κ) (k : κ) (v : TV)
    (h : lookup c k = some v) : replaceFirst c k v = c := by
  induction c with
  | nil => rfl
  | cons e es ih =>
    unfold replaceFirst
    by_cases he : (e.1 == k) = true
    · have : e.2 = v := by simpa [lookup, List.find?, he] using h
      simp [he, ← this]
    · have : lookup es k = some v := by simpa [lookup, List.find?, he] using h
      simp [he, ih this]

theorem go_getFromCache_eq (env : Env) (T : TyDesc) (data : List (String × Y))
    (c : Cache (String × String)) (key : String) :
    getFromCache env T data c key =
      (outToGo env T (GConfigCache.get pairKey (convOf env data) c (reqOf T key)).2).map
        (fun o => ((GConfigCache.get pairKey (convOf env data) c (reqOf T key)).1, o)) := by
  unfold getFromCache GoXsync.compute GConfigCache.get
  have hT : tyOf (reqOf T key) = T := by cases T; rfl
  have hk : pairKey (reqOf T key) = (key, T.name) := rfl
  have hkey : (reqOf T key).key = key := rfl
  simp only [go_extractAndConvert_eq, pure_bind, hk]
  cases hl : lookup c (key, T.name) with
  | some old =>
    simp only [pure_bind, Bool.false_eq_true, if_false, if_true, replaceFirst_same c _ _ hl]
    cases old with
    | nil => simp [isNil, GConfigCache.assertTo, reqOf, outToGo, Functor.map, Except.map]; rfl
    | val ty repr =>
      by_cases ha : (T.iface || ty == T.name) = true
      · simp [isNil, GConfigCache.assertTo, GoXsync.assertTo, reqOf, outToGo, Functor.map, Except.map, ha]; rfl
      · simp [isNil, GConfigCache.assertTo, GoXsync.assertTo, reqOf, outToGo, Functor.map, Except.map, ha]; rfl
  | none =>
    simp only [convOf, hT, hkey]
    cases hp : extractAndConvertM env T data key with
    | mk v e =>
    cases e with
    | true => simp [outToGo, Functor.map, Except.map]; rfl
    | false =>
      cases v with
      | nil => simp [isNil, GConfigCache.assertTo, reqOf, outToGo, Functor.map, Except.map]; rfl
      | val ty repr =>
        by_cases ha : (T.iface || ty == T.name) = true
        · have ha' : T.iface = true ∨ ty = T.name := by simpa using ha
          simp [isNil, GConfigCache.assertTo, GoXsync.assertTo, reqOf, outToGo, Functor.map, Except.map, ha, ha']; rfl
        · have ha' : ¬ (T.iface = true ∨ ty = T.name) := by simpa using ha
          simp [isNil, GConfigCache.assertTo, GoXsync.assertTo, reqOf, outToGo, Functor.map, Except.map, ha, ha']; rfl

/-! ## `Get`, `MustGet`, `GetOrDefault` -/

theorem go_Get_eq (env : Env) (T : TyDesc) (data : List (String × Y)) (c : Cache (String × String)) (key : String) :
    Get env T data c key = getFromCache env T data c key := rfl

/-- `MustGet` re-raises exactly the error of `getFromCache` and otherwise returns its value -/
theorem go_MustGet_eq (env : Env) (T : TyDesc) (data : List (String × Y)) (c : Cache (String × String)) (key : String) :
    MustGet env T data c key =
      (getFromCache env T data c key >>= fun p => if p.2.2 then throw "panic(err)" else pure (p.1, p.2.1)) := by
  unfold MustGet
  simp only []
  congr 1

/-- `GetOrDefault` returns the caller's default exactly when `getFromCache` returns an error; the
default never reaches the memo table -/
theorem go_GetOrDefault_eq (env : Env) (T : TyDesc) (data : List (String × Y)) (c : Cache (String × String))
    (key : String) (d : TV) :
    GetOrDefault env T data c key d =
      (getFromCache env T data c key >>= fun p => pure (p.1, if p.2.2 then d else p.2.1)) := by
  unfold GetOrDefault
  simp only []
  congr 1
  funext p
  by_cases h : p.2.2 = true <;> simp [h]

/-! ## The headline theorems of C10 for the translated code

The code's memo key is the pair (key, identity of T).  Whether T is an interface type is a function
of T (`ifaceOf`), so on the requests a program can make the pair is injective. -/

/-- the type argument named `n` -/
def tyd (ifaceOf : String → Bool) (n : String) : TyDesc := ⟨n, ifaceOf n⟩
/-- the request `getFromCache[T](cfg, key)` with T named `n` -/
def rq (ifaceOf : String → Bool) (kn : String × String) : Req := reqOf (tyd ifaceOf kn.2) kn.1

def Consistent (ifaceOf : String → Bool) (r : Req) : Prop := r.iface = ifaceOf r.ty

theorem rq_consistent (ifaceOf : String → Bool) (kn : String × String) : Consistent ifaceOf (rq ifaceOf kn) := rfl

theorem pairKey_injOn (ifaceOf : String → Bool) (r r' : Req) (h : Consistent ifaceOf r) (h' : Consistent ifaceOf r')
    (hk : pairKey r = pairKey r') : r = r' := by
  obtain ⟨k, t, i⟩ := r
  obtain ⟨k', t', i'⟩ := r'
  simp only [pairKey, Prod.mk.injEq] at hk
  obtain ⟨rfl, rfl⟩ := hk
  simp only [Consistent] at h h'
  subst h h'
  rfl

/-- every memo entry was produced by a consistent request with exactly that memo key -/
def CacheOKOn (ifaceOf : String → Bool) (conv : Req → Option TV) (c : Cache (String × String)) : Prop :=
  ∀ k v, lookup c k = some v → ∃ r, Consistent ifaceOf r ∧ pairKey r = k ∧ conv r = some v

theorem cacheOKOn_get (ifaceOf : String → Bool) (conv : Req → Option TV) (c : Cache (String × String)) (r : Req)
    (hr : Consistent ifaceOf r) (h : CacheOKOn ifaceOf conv c) :
    CacheOKOn ifaceOf conv (GConfigCache.get pairKey conv c r).1 := by
  unfold GConfigCache.get
  cases hl : lookup c (pairKey r) with
  | some v => simpa using h
  | none =>
    cases hc : conv r with
    | none => simpa using h
    | some v =>
      intro k v' hk
      simp only [GConfigCache.lookup_cons] at hk
      by_cases he : pairKey r = k
      · subst he; simp at hk; subst hk; exact ⟨r, hr, rfl, hc⟩
      · simp [he] at hk; exact h k v' hk

theorem cacheOKOn_run (ifaceOf : String → Bool) (conv : Req → Option TV) (c : Cache (String × String)) (rs : List Req)
    (hrs : ∀ r ∈ rs, Consistent ifaceOf r) (h : CacheOKOn ifaceOf conv c) :
    CacheOKOn ifaceOf conv (runReqs pairKey conv c rs) := by
  induction rs generalizing c with
  | nil => simpa [runReqs] using h
  | cons r rs ih =>
    exact ih _ (fun r' hr' => hrs r' (List.mem_cons_of_mem _ hr')) (cacheOKOn_get ifaceOf conv c r (hrs r (List.mem_cons_self ..)) h)

theorem get_of_cacheOKOn (ifaceOf : String → Bool) (conv : Req → Option TV) (c : Cache (String × String))
    (h : CacheOKOn ifaceOf conv c) (r : Req) (hr : Consistent ifaceOf r) :
    (GConfigCache.get pairKey conv c r).2 = (GConfigCache.get pairKey conv [] r).2 := by
  unfold GConfigCache.get
  cases hl : lookup c (pairKey r) with
  | none =>
    simp only [lookup, List.find?_nil, Option.map_none]
    cases conv r <;> rfl
  | some v =>
    obtain ⟨r', hr', hk, hc⟩ := h _ _ hl
    have : r' = r := pairKey_injOn ifaceOf r' r hr' hr hk
    subst this
    simp [lookup, hc]

/-- the memo table after a history of requests (key, type name), as the translated code builds it:
by `go_getFromCache_eq` each call leaves the table `(GConfigCache.get pairKey …).1` -/
def tableAfter (env : Env) (data : List (String × Y)) (ifaceOf : String → Bool) (h : List (String × String)) :
    Cache (String × String) :=
  runReqs pairKey (convOf env data) [] (h.map (rq ifaceOf))

/-- **C10 for the translated code.** After ANY history of requests, what the translated
`getFromCache[T](cfg, key)` returns (value and error, or the panic) is what it returns on a freshly
loaded config. -/
theorem go_get_history_independent (env : Env) (data : List (String × Y)) (ifaceOf : String → Bool)
    (h : List (String × String)) (key n : String) :
    (getFromCache env (tyd ifaceOf n) data (tableAfter env data ifaceOf h) key).map (·.2) =
      (getFromCache env (tyd ifaceOf n) data [] key).map (·.2) := by
  rw [go_getFromCache_eq, go_getFromCache_eq]
  have hok : CacheOKOn ifaceOf (convOf env data) (tableAfter env data ifaceOf h) :=
    cacheOKOn_run ifaceOf _ [] _ (by
      intro r hr
      obtain ⟨kn, _, rfl⟩ := List.mem_map.1 hr
      exact rq_consistent ifaceOf kn) (by intro k v hk; simp [lookup] at hk)
  have := get_of_cacheOKOn ifaceOf (convOf env data) _ hok (reqOf (tyd ifaceOf n) key) rfl
  rw [this]
  cases outToGo env (tyd ifaceOf n) (GConfigCache.get pairKey (convOf env data) [] (reqOf (tyd ifaceOf n) key)).2 <;> rfl

/-- **No panic.** If the YAML conversion into a concrete T yields a T (ConvTyped), the translated
`getFromCache` returns normally after any history. -/
theorem go_get_no_panic (env : Env) (data : List (String × Y)) (ifaceOf : String → Bool)
    (hct : GConfigCache.ConvTyped (convOf env data)) (h : List (String × String)) (key n : String) :
    ∃ r, getFromCache env (tyd ifaceOf n) data (tableAfter env data ifaceOf h) key = pure r := by
  have hi := go_get_history_independent env data ifaceOf h key n
  have hf := GConfigCache.fresh_no_panic pairKey (convOf env data) hct (reqOf (tyd ifaceOf n) key)
  rw [go_getFromCache_eq] at hi ⊢
  rw [go_getFromCache_eq] at hi
  generalize (GConfigCache.get pairKey (convOf env data) [] (reqOf (tyd ifaceOf n) key)).2 = o at hi hf
  generalize GConfigCache.get pairKey (convOf env data) (tableAfter env data ifaceOf h) (reqOf (tyd ifaceOf n) key) = g at hi ⊢
  have ho : ∃ x, outToGo env (tyd ifaceOf n) o = pure x := by
    cases o with
    | ok v => cases v <;> exact ⟨_, rfl⟩
    | err => exact ⟨_, rfl⟩
    | panic => exact absurd rfl hf
  obtain ⟨x, hx⟩ := ho
  rw [hx] at hi
  cases hg : outToGo env (tyd ifaceOf n) g.2 with
  | error e => rw [hg] at hi; cases hi
  | ok y => exact ⟨(g.1, y), rfl⟩

/-- non-vacuity: a history with a colliding-looking pair of requests -/
example : (tableAfter ⟨fun k => if k = "a.u" then ["a", "u"] else [k], fun _ => ("b", false), fun T _ _ => (.val T.name "v", false), fun _ => .nil⟩
    [("a", .map [("u", .int 1)])] (fun n => n == "any") [("a.u", "int8"), ("a", "uint8")]).length = 2 := by decide

end C10Get

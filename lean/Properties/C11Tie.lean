import Model.BitSetM
import Generated.GoBitSet
import Lemmas.GoLoop
import Properties.C11
/-!
# C11, tie A by translation: `set/bit_set.go` as translated on this run = the model

`Generated/GoBitSet.lean` is rewritten from /repo's `set/bit_set.go` by `harness/cmd/go2lean` on
every run.  The theorems `go_*_eq` prove, for every stored value and every list of flags, that the
translated function returns exactly what the hand-written model `BitSetM` returns (and does not
panic); the theorems `go_*_spec` restate the property for the translated code itself.  A change to
`bit_set.go` changes the generated definitions, and these proofs are re-checked against it.
-/
namespace C11Tie
open Generated.GoBitSet BitSetM

theorem go_make_eq (items : List BS) : MakeBitSet items = pure (make items) := by
  unfold MakeBitSet make
  simp

theorem go_maskOf_eq (s f : BS) : BitSet.MaskOf s f = pure (maskOf s f) := by
  simp [BitSet.MaskOf, maskOf]

theorem go_has_eq (s f : BS) : BitSet.Has s f = pure (has s f) := by
  simp [BitSet.Has, has]

theorem go_add_eq (s : BS) (items : List BS) : BitSet.Add s items = pure (add s items) := by
  unfold BitSet.Add add
  simp
  refine congrArg pure (GoLoop.foldl_map_state (fun b : Bool × BS => (b.2, b.1)) _ addStep ?_ items (false, s))
  intro st a; simp [addStep]

theorem go_remove_eq (s : BS) (items : List BS) : BitSet.Remove s items = pure (remove s items) := by
  unfold BitSet.Remove remove
  simp
  refine congrArg pure (GoLoop.foldl_map_state (fun b : Bool × BS => (b.2, b.1)) _ removeStep ?_ items (false, s))
  intro st a; simp [removeStep]

theorem go_hasAny_eq (s : BS) (fs : List BS) : BitSet.HasAny s fs = pure (hasAny s fs) := by
  unfold BitSet.HasAny hasAny
  simp only [go_has_eq]
  induction fs with
  | nil => simp
  | cons f fs ih =>
    by_cases h : has s f = true
    · simp [h]
    · simp [h]
      simpa using ih

/-! ## The property, stated for the translated code -/

/-- `Add` on the translated code: no panic, the stored value becomes the union, and the result is
true exactly when the stored value changed. -/
theorem go_add_spec (s : BS) (items : List BS) :
    ∃ s' r, BitSet.Add s items = pure (s', r) ∧
      (∀ i, mem s' i = (mem s i || items.any (fun f => mem f i))) ∧ (r = true ↔ s' ≠ s) :=
  ⟨(add s items).1, (add s items).2, go_add_eq s items, add_is_union s items, add_true_iff_changed s items⟩

/-- `Remove` on the translated code: the stored value becomes the difference, and the result is
true exactly when the stored value changed. -/
theorem go_remove_spec (s : BS) (items : List BS) :
    ∃ s' r, BitSet.Remove s items = pure (s', r) ∧
      (∀ i, mem s' i = (mem s i && !items.any (fun f => mem f i))) ∧ (r = true ↔ s' ≠ s) :=
  ⟨(remove s items).1, (remove s items).2, go_remove_eq s items, remove_is_diff s items,
    remove_true_iff_changed s items⟩

/-- `MakeBitSet`, `MaskOf`, `Has`, `HasAny` on the translated code. -/
theorem go_queries_spec (s f : BS) (fs : List BS) :
    (∃ m, MakeBitSet fs = pure m ∧ ∀ i, mem m i = fs.any (fun g => mem g i)) ∧
    (∃ m, BitSet.MaskOf s f = pure m ∧ ∀ i, mem m i = (mem s i && mem f i)) ∧
    (∃ r, BitSet.Has s f = pure r ∧ (r = true ↔ ∀ i, mem f i = true → mem s i = true)) ∧
    (∃ r, BitSet.HasAny s fs = pure r ∧ (r = true ↔ ∃ g ∈ fs, ∀ i, mem g i = true → mem s i = true)) :=
  ⟨⟨_, go_make_eq fs, make_is_union fs⟩, ⟨_, go_maskOf_eq s f, maskOf_is_inter s f⟩,
    ⟨_, go_has_eq s f, has_iff_subset s f⟩, ⟨_, go_hasAny_eq s fs, hasAny_iff s fs⟩⟩

/-- the translator covered every function of the model -/
theorem go_translated_complete :
    translated = ["BitSet.Add", "BitSet.Has", "BitSet.HasAny", "BitSet.MaskOf", "BitSet.Remove", "MakeBitSet"] := by
  decide

end C11Tie

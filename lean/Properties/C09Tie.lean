import Model.GErrClone
import Generated.GoGerrorGen
import Generated.GerrorTmplBody
import Lemmas.GoLoop
import Lemmas.GErrClone
import Properties.C07Tie
import Properties.C09
/-!
# C09, tie A by translation: the generator's field handling, the base `Error()`, and the template's
# `Error()` / `toPrimaryType` bodies as read on this run = the model

`Generated/GoGerrorGen.lean` is rewritten by `harness/cmd/go2lean -spec gerrorgen` from
gerror/gen/generate.go (`createField`, `createErrorDesc` from its field loop on), error_types.go
(`filter`, `FieldsToPrint`, `FieldsToClone`), error_types.gsort.go (`Fields.Less`) and gerror.go
(`(*GError).Error`); `Generated/GerrorTmplBody.lean` by `harness/cmd/extract-gerrtmpl` from
gerror.gotmpl (the body of the generated `Error()` and the literal of `toPrimaryType`, as data in the
syntax of `Model/GErrTmpl.lean`).  For ALL struct definitions, tag-library answers, field values and
base errors:

* `go_createField_eq` — translated `createField` = the model's field parser (`parseRaw`: skip / refuse /
  `GErrClone.createField`); `go_createErrorDesc_eq` — the field loop, the `GError` test, the sort;
* `go_filter_eq`, `go_less_eq`, `go_sort_eq`, `go_fieldsToPrint_eq`, `go_fieldsToClone_eq`, `go_pipeline_eq`;
* `go_error_eq` — translated `(*GError).Error()` = `errorFull`;
* `tmpl_error_eq` — the extracted template `Error()` evaluates to `extErrorFull`;
  `tmpl_error_via_embedded` — every GError member is read through `e.GError.`;
* `tmpl_toPrimary_eq`, `tmpl_toPrimary_copies_exactly_clone_fields`;
* `go_error_lists_print_fields` — the property's `Error()` clause for the translated / extracted code.

`structtag.Parse`, `Tags.Get`, `sort.Sort` (contract `SortOK`), `Stack.String` and `len` of a stack are
parameters.  A change to any of the translated functions or to the template bodies changes the
generated files, and these proofs are re-checked against them.
-/
set_option linter.unusedSectionVars false
set_option linter.unusedSimpArgs false
set_option linter.unusedVariables false
namespace C09Tie
open Generated GErrClone

variable {τ σ : Type}

/-! ## `createField` -/

/-- what `createField` can say about a struct field -/
inductive Parsed where
  | skip | bad | field (f : FieldDef)
  deriving DecidableEq, Repr

def validOpts : List Str := [Go.str "clone", Go.str "print"]

/-- the model's field parser (`GErrClone.createField`) together with the two outcomes the model
leaves out: no `gerror` tag → the field is skipped; an option other than `clone`/`print` → the
generator stops with an error -/
def parseRaw (r : RawField) : Parsed :=
  match r.tagName with
  | none => .skip
  | some _ => if r.opts.all (fun o => decide (o ∈ validOpts)) then .field (createField r) else .bad

/-- the struct field as the library calls present it -/
def rawOf (env : GoGerrorGen.Env τ σ) (v : GoGerrorGen.Var) (tagLine zero : Str) : RawField :=
  let p := env.structtagParse tagLine
  let q := env.tagsGet p.1 (Go.str "gerror")
  { name := v.Name, embedded := v.Embedded,
    tagName := if p.2 || q.2 then none else some q.1.Name,
    opts := q.1.Options, zero := zero }

/-- a model field as the generator's `Field` (the generator does not know the zero value) -/
def absF (f : FieldDef) : GoGerrorGen.Field := ⟨f.name, f.printAs, f.clone, f.print⟩

def badOptions : GoGerrorGen.GoError := ⟨Go.str "field %s has unsupported options; vald=%+v found=%+v"⟩

def parsedResult : Parsed → Option GoGerrorGen.Field × Option GoGerrorGen.GoError
  | .skip => (none, none)
  | .bad => (none, some badOptions)
  | .field f => (some (absF f), none)

theorem str_clone : Go.str "clone" = "clone".toList := rfl
theorem str_print : Go.str "print" = "print".toList := rfl
theorem str_us : Go.str "_" = ['_'] := by decide

theorem has_valid (opts : List Str) :
    SetM.has (SetM.make [Go.str "clone", Go.str "print"]) opts = opts.all (fun o => decide (o ∈ validOpts)) := by
  have h : SetM.make [Go.str "clone", Go.str "print"] = some validOpts := by decide
  rw [h]; simp [SetM.has, SetM.elems, validOpts]

theorem go_createField_eq (env : GoGerrorGen.Env τ σ) (v : GoGerrorGen.Var) (tagLine zero : Str) :
    GoGerrorGen.createField env v tagLine = pure (parsedResult (parseRaw (rawOf env v tagLine zero))) := by
  unfold GoGerrorGen.createField
  rw [C07Tie.go_make_eq]
  simp only [pure_bind, C07Tie.go_has_eq, has_valid]
  unfold parseRaw rawOf
  simp only []
  generalize env.structtagParse tagLine = p
  obtain ⟨tags, e1⟩ := p
  generalize env.tagsGet tags (Go.str "gerror") = q
  obtain ⟨⟨n, opts⟩, e2⟩ := q
  cases e1 <;> cases e2 <;> simp only [Bool.or_true, Bool.or_false, Bool.false_eq_true, if_true, if_false, parsedResult] <;> try rfl
  by_cases hv : (opts.all fun o => decide (o ∈ validOpts)) = true
  · by_cases hn : n = ['_']
    · subst hn
      simp [hv, str_us, createField, absF, badOptions, str_clone, str_print, List.contains_iff_mem]
    · simp [hv, hn, str_us, createField, absF, badOptions, str_clone, str_print, List.contains_iff_mem]
  · simp [hv, badOptions]

/-! ## `filter`, `Fields.Less`, `sort.Sort` -/

theorem go_filter_eq {α : Type} (xs : List α) (p : α → Bool) : GoGerrorGen.filter xs p = pure (xs.filter p) := by
  unfold GoGerrorGen.filter
  simp only [bind_pure_comp]
  rw [GoLoop.forIn_yield _ (fun (acc : List α) a => if p a then acc ++ [a] else acc) (fun _ => True) (fun _ _ _ => trivial)
    (by intro a b _; by_cases h : p a <;> simp [h]) _ _ trivial]
  have key : ∀ (acc : List α), xs.foldl (fun acc a => if p a then acc ++ [a] else acc) acc = acc ++ xs.filter p := by
    induction xs with
    | nil => intro acc; simp
    | cons a as ih =>
      intro acc
      by_cases h : p a <;> simp [List.foldl_cons, ih, h, List.filter_cons]
  simp [key]

/-- what the generated `Less` says about two elements -/
def nameLt (a b : GoGerrorGen.Field) : Bool := decide (a.Name < b.Name)

/-- `Fields.Less(i, j)` compares the names of the i-th and j-th element, and cannot panic in range -/
theorem go_less_eq (s : List GoGerrorGen.Field) (i j : Nat) (hi : i < s.length) (hj : j < s.length) :
    GoGerrorGen.Fields.Less s i j = pure (nameLt s[i] s[j]) := by
  unfold GoGerrorGen.Fields.Less Go.listGet nameLt
  simp [hi, hj]

theorem char_lt_iff (a b : Char) : a < b ↔ a.toNat < b.toNat := by
  rw [Char.lt_def, UInt32.lt_iff_toNat_lt]; rfl

theorem char_eq_iff (a b : Char) : a = b ↔ a.toNat = b.toNat := by
  constructor
  · intro h; rw [h]
  · intro h; exact Char.ext (UInt32.toNat_inj.mp h)

/-- Go's `<` on strings is the strict part of the model's `strLe` -/
theorem lt_iff_strLe : ∀ (a b : Str), a < b ↔ strLe b a = false
  | [], [] => by simp [strLe]
  | [], b :: bs => by simp [strLe]
  | a :: as, [] => by simp [strLe]
  | a :: as, b :: bs => by
    rw [List.cons_lt_cons_iff, strLe, char_lt_iff, char_eq_iff, lt_iff_strLe as bs]
    by_cases h1 : b.toNat < a.toNat
    · simp [h1]; omega
    · by_cases h2 : a.toNat < b.toNat
      · simp [h1, h2]
      · have : a.toNat = b.toNat := by omega
        simp [h1, h2, this]

theorem nameLt_false_iff (a b : FieldDef) : nameLt (absF b) (absF a) = false ↔ strLe a.name b.name = true := by
  unfold nameLt absF
  simp only [decide_eq_false_iff_not, lt_iff_strLe]
  cases strLe a.name b.name <;> simp

/-- The contract of `sort.Sort` (package sort: "Sort sorts data in ascending order as determined by
the Less method … not guaranteed to be stable"), for a `Less(i, j)` that compares the names of the
elements at `i` and `j` (what the translated `Fields.Less` does, `go_less_eq`): the result is a
rearrangement of the input in which no element's name is smaller than an earlier one's. -/
def SortOK (env : GoGerrorGen.Env τ σ) : Prop :=
  ∀ (less : List GoGerrorGen.Field → Nat → Nat → Go.M Bool),
    (∀ s i j (hi : i < s.length) (hj : j < s.length), less s i j = pure (nameLt s[i] s[j])) →
    ∀ l, (env.sortSort less l).Perm l ∧ (env.sortSort less l).Pairwise (fun a b => nameLt b a = false)

theorem nameLt_false_iff' (a b : GoGerrorGen.Field) : nameLt b a = false ↔ strLe a.Name b.Name = true := by
  unfold nameLt
  simp only [decide_eq_false_iff_not, lt_iff_strLe]
  cases strLe a.Name b.Name <;> simp

/-- non-vacuity: merge sort by name meets the contract -/
example : SortOK (τ := Unit) (σ := Unit)
    ⟨fun _ => ((), false), fun _ _ => (default, false), fun _ l => l.mergeSort (fun a b => strLe a.Name b.Name),
     fun _ => 0, fun _ => []⟩ := by
  intro less _ l
  refine ⟨List.mergeSort_perm l _, ?_⟩
  have := List.pairwise_mergeSort (le := fun (a b : GoGerrorGen.Field) => strLe a.Name b.Name)
    (fun a b c h1 h2 => strLe_trans _ _ _ h1 h2) (fun a b => strLe_total _ _) l
  exact this.imp (fun {a b} h => (nameLt_false_iff' a b).mpr h)

theorem strLe_antisymm : ∀ (a b : Str), strLe a b = true → strLe b a = true → a = b
  | [], [], _, _ => rfl
  | [], b :: bs, _, h => by simp [strLe] at h
  | a :: as, [], h, _ => by simp [strLe] at h
  | a :: as, b :: bs, h1, h2 => by
    unfold strLe at h1 h2
    by_cases h : a.toNat < b.toNat
    · have h' : ¬ b.toNat < a.toNat := by omega
      simp [h, h'] at h2
    · by_cases h' : b.toNat < a.toNat
      · simp [h, h'] at h1
      · simp [h, h'] at h1 h2
        have : a = b := (char_eq_iff a b).mpr (by omega)
        rw [this, strLe_antisymm as bs h1 h2]

theorem eq_of_nodup_map {α β : Type} (f : α → β) : ∀ (l : List α), (l.map f).Nodup →
    ∀ a ∈ l, ∀ b ∈ l, f a = f b → a = b
  | [], _, a, ha, _, _, _ => by cases ha
  | x :: xs, hd, a, ha, b, hb, hab => by
    simp only [List.map_cons, List.nodup_cons] at hd
    rcases List.mem_cons.mp ha with rfl | ha' <;> rcases List.mem_cons.mp hb with rfl | hb'
    · rfl
    · exact absurd (hab ▸ List.mem_map_of_mem hb') hd.1
    · exact absurd (hab ▸ List.mem_map_of_mem ha') hd.1
    · exact eq_of_nodup_map f xs hd.2 a ha' b hb' hab

/-- **Sorting with the translated `Less` is the model's `sortFields`** whenever the field names are
distinct (they are the field names of one struct): every algorithm that meets the contract of
`sort.Sort` yields the same list. -/
theorem go_sort_eq (env : GoGerrorGen.Env τ σ) (hs : SortOK env) (l : List FieldDef) (hd : (l.map (·.name)).Nodup) :
    env.sortSort GoGerrorGen.Fields.Less (l.map absF) = (sortFields l).map absF := by
  obtain ⟨hperm, hsorted⟩ := hs GoGerrorGen.Fields.Less go_less_eq (l.map absF)
  have hperm2 : ((sortFields l).map absF).Perm (l.map absF) := (sortFields_perm l).map absF
  have hnames : ∀ a ∈ l, ∀ b ∈ l, a.name = b.name → a = b := by
    intro a ha b hb hab
    exact eq_of_nodup_map (·.name) l hd a ha b hb hab
  apply List.Perm.eq_of_pairwise (le := fun a b => nameLt b a = false) _ hsorted _ (hperm.trans hperm2.symm)
  · intro a b ha hb h1 h2
    obtain ⟨a', ha', rfl⟩ := List.mem_map.mp (hperm.mem_iff.mp ha)
    obtain ⟨b', hb', rfl⟩ := List.mem_map.mp (hperm2.mem_iff.mp hb)
    rw [nameLt_false_iff] at h1 h2
    rw [hnames a' ha' b' hb' (strLe_antisymm _ _ h1 h2)]
  · rw [List.pairwise_map]
    exact (sortFields_sorted l).imp (fun {a b} h => (nameLt_false_iff a b).mpr h)

/-! ## `FieldsToPrint`, `FieldsToClone` -/

theorem filter_map_absF (fs : List FieldDef) (p : GoGerrorGen.Field → Bool) :
    (fs.map absF).filter p = (fs.filter (fun f => p (absF f))).map absF := by
  induction fs with
  | nil => rfl
  | cons a as ih => by_cases h : p (absF a) <;> simp [List.filter_cons, h, ih]

theorem nodup_names_filter (fs : List FieldDef) (p : FieldDef → Bool) (hd : (fs.map (·.name)).Nodup) :
    ((fs.filter p).map (·.name)).Nodup :=
  ((List.filter_sublist (p := p) (l := fs)).map _).nodup hd

/-- **The translated `FieldsToPrint` is the model's `fieldsToPrint`**, for every list of fields with
distinct names and every sorting algorithm that meets the contract of `sort.Sort`. -/
theorem go_fieldsToPrint_eq (env : GoGerrorGen.Env τ σ) (hs : SortOK env) (tn : Str) (fs : List FieldDef)
    (hd : (fs.map (·.name)).Nodup) :
    GoGerrorGen.ErrorDesc.FieldsToPrint env ⟨tn, fs.map absF⟩ = pure ((fieldsToPrint fs).map absF) := by
  unfold GoGerrorGen.ErrorDesc.FieldsToPrint fieldsToPrint
  simp only [go_filter_eq, pure_bind, filter_map_absF]
  rw [go_sort_eq env hs _ (nodup_names_filter fs _ hd)]
  rfl

theorem go_fieldsToClone_eq (env : GoGerrorGen.Env τ σ) (hs : SortOK env) (tn : Str) (fs : List FieldDef)
    (hd : (fs.map (·.name)).Nodup) :
    GoGerrorGen.ErrorDesc.FieldsToClone env ⟨tn, fs.map absF⟩ = pure ((fieldsToClone fs).map absF) := by
  unfold GoGerrorGen.ErrorDesc.FieldsToClone fieldsToClone
  simp only [go_filter_eq, pure_bind, filter_map_absF]
  rw [go_sort_eq env hs _ (nodup_names_filter fs _ hd)]
  rfl

/-! ## the field loop of `createErrorDesc` -/

section
variable {α ρ ς : Type}
theorem forIn_idx_searchFold2 [Inhabited α] (xs : List α)
    (f : Nat → Option ρ × ς → Go.M (ForInStep (Option ρ × ς))) (step : ς → α → Sum ς (ρ × ς))
    (h : ∀ i (hi : i < xs.length) s, f i (none, s) = pure (match step s xs[i] with
      | .inl s' => ForInStep.yield (none, s') | .inr (r, s') => ForInStep.done (some r, s'))) :
    ∀ (k : Nat) (s : ς), k ≤ xs.length →
      forIn (List.range' k (xs.length - k)) (none, s) f = pure (GoLoop.searchFold2 step s (xs.drop k)) := by
  intro k
  generalize hn : xs.length - k = n
  induction n generalizing k with
  | zero =>
    intro s hk
    have : xs.drop k = [] := List.drop_eq_nil_of_le (by omega)
    simp [this, GoLoop.searchFold2]
  | succ n ih =>
    intro s hk
    have hlt : k < xs.length := by omega
    have hd : xs.drop k = xs[k] :: xs.drop (k + 1) := List.drop_eq_getElem_cons hlt
    rw [hd, List.range'_succ, List.forIn_cons, h k hlt s]
    unfold GoLoop.searchFold2
    cases step s xs[k] with
    | inl s' => simpa using ih (k + 1) (by omega) s' (by omega)
    | inr r => obtain ⟨r, s'⟩ := r; simp

theorem forIn_idx_searchFold2_zero [Inhabited α] (xs : List α)
    (f : Nat → Option ρ × ς → Go.M (ForInStep (Option ρ × ς))) (step : ς → α → Sum ς (ρ × ς))
    (h : ∀ i (hi : i < xs.length) s, f i (none, s) = pure (match step s xs[i] with
      | .inl s' => ForInStep.yield (none, s') | .inr (r, s') => ForInStep.done (some r, s'))) (s : ς) :
    forIn (List.range' 0 xs.length) (none, s) f = pure (GoLoop.searchFold2 step s xs) := by
  have := forIn_idx_searchFold2 xs f step h 0 s (Nat.zero_le _)
  simpa using this
end

/-- the fields of the struct as the parser sees them (`z`: how `%v` prints each field's zero value) -/
def raws (env : GoGerrorGen.Env τ σ) (z : GoGerrorGen.Var × Str → Str) (strukt : List (GoGerrorGen.Var × Str)) :
    List RawField := strukt.map (fun p => rawOf env p.1 p.2 (z p))

def tagged (r : RawField) : Bool := r.tagName.isSome
def isBad (r : RawField) : Bool := match parseRaw r with | .bad => true | _ => false
def isGErr (p : GoGerrorGen.Var × Str) : Bool := p.1.Embedded && p.1.Name == Go.str "GError"

abbrev LoopSt := List GoGerrorGen.Field × Bool
abbrev LoopRet := Option GoGerrorGen.ErrorDesc × Option GoGerrorGen.GoError

/-- one iteration of the field loop on (fields, embedsGError) -/
def descStep (env : GoGerrorGen.Env τ σ) (z : GoGerrorGen.Var × Str → Str) (s : LoopSt) (p : GoGerrorGen.Var × Str) :
    Sum LoopSt (LoopRet × LoopSt) :=
  match parseRaw (rawOf env p.1 p.2 (z p)) with
  | .bad => .inr ((none, some badOptions), s)
  | .skip => .inl (s.1, s.2 || isGErr p)
  | .field f => .inl (s.1 ++ [absF f], s.2 || isGErr p)

theorem descStep_at (env : GoGerrorGen.Env τ σ) (z : GoGerrorGen.Var × Str → Str) (s : LoopSt) (p : GoGerrorGen.Var × Str) :
    descStep env z s p = match parseRaw (rawOf env p.1 p.2 (z p)) with
      | .bad => .inr ((none, some badOptions), s)
      | .skip => .inl (s.1, s.2 || isGErr p)
      | .field f => .inl (s.1 ++ [absF f], s.2 || isGErr p) := rfl

theorem parseRaw_skip_iff (r : RawField) : parseRaw r = .skip ↔ tagged r = false := by
  unfold parseRaw tagged
  cases r.tagName with
  | none => simp
  | some n => simp; split <;> simp

theorem parseRaw_field (r : RawField) (f : FieldDef) (h : parseRaw r = .field f) :
    tagged r = true ∧ f = createField r := by
  revert h
  unfold parseRaw tagged
  cases r.tagName with
  | none => simp
  | some n => simp; split <;> simp; intro h; exact h.symm

theorem descStep_fold (env : GoGerrorGen.Env τ σ) (z : GoGerrorGen.Var × Str → Str) :
    ∀ (xs : List (GoGerrorGen.Var × Str)) (s : LoopSt), ∃ s',
    GoLoop.searchFold2 (descStep env z) s xs =
      if (raws env z xs).any isBad then (some (none, some badOptions), s')
      else (none, (s.1 ++ (parseFields ((raws env z xs).filter tagged)).map absF, s.2 || xs.any isGErr))
  | [], s => ⟨s, by simp [GoLoop.searchFold2, raws, parseFields]⟩
  | p :: xs, s => by
    have ih := descStep_fold env z xs
    rw [GoLoop.searchFold2, descStep_at]
    simp only [raws, List.map_cons, List.any_cons, List.filter_cons]
    cases hp : parseRaw (rawOf env p.1 p.2 (z p)) with
    | bad =>
      have hbad : isBad (rawOf env p.1 p.2 (z p)) = true := by unfold isBad; rw [hp]
      exact ⟨s, by simp [hbad]⟩
    | skip =>
      have := (parseRaw_skip_iff _).mp hp
      obtain ⟨s', h⟩ := ih (s.1, s.2 || isGErr p)
      refine ⟨s', ?_⟩
      have hbad : isBad (rawOf env p.1 p.2 (z p)) = false := by unfold isBad; rw [hp]
      simp only [hp, this, hbad, Bool.false_or]
      rw [h]
      by_cases hany : (raws env z xs).any isBad = true
      · simp only [raws] at hany; simp [raws, hany]
      · simp only [raws] at hany; simp [raws, hany, Bool.or_assoc]
    | field f =>
      obtain ⟨h1, h2⟩ := parseRaw_field _ f hp
      obtain ⟨s', h⟩ := ih (s.1 ++ [absF f], s.2 || isGErr p)
      refine ⟨s', ?_⟩
      have hbad : isBad (rawOf env p.1 p.2 (z p)) = false := by unfold isBad; rw [hp]
      simp only [hp, h1, hbad, Bool.false_or]
      rw [h]
      by_cases hany : (raws env z xs).any isBad = true
      · simp only [raws] at hany; simp [raws, hany]
      · simp only [raws] at hany; simp [raws, hany, Bool.or_assoc, parseFields, h2]

/-- **The translated field loop of `createErrorDesc`** (with the sort and the result after it) is the
model's `parseFields` on the tagged fields, sorted by name — or one of the generator's two refusals -/
theorem go_createErrorDesc_eq (env : GoGerrorGen.Env τ σ) (hs : SortOK env) (z : GoGerrorGen.Var × Str → Str)
    (strukt : List (GoGerrorGen.Var × Str)) (tn : Str)
    (hd : ((parseFields ((raws env z strukt).filter tagged)).map (·.name)).Nodup) :
    GoGerrorGen.createErrorDesc env strukt tn = pure (
      if (raws env z strukt).any isBad then (none, some badOptions)
      else if !strukt.any isGErr then (none, some ⟨tn ++ Go.str " does not embed GError"⟩)
      else (some ⟨tn, (sortFields (parseFields ((raws env z strukt).filter tagged))).map absF⟩, none)) := by
  unfold GoGerrorGen.createErrorDesc
  simp only [bind_pure_comp, pure_bind]
  obtain ⟨s', hfold⟩ := descStep_fold env z strukt ([], false)
  rw [forIn_idx_searchFold2_zero strukt _ (descStep env z), pure_bind, hfold]
  rotate_left
  · intro i hi s
    simp only [Go.listGet, hi, if_true, pure_bind, List.getD_eq_getElem?_getD, List.getElem?_eq_getElem, Option.getD_some,
      go_createField_eq env _ _ (z strukt[i])]
    unfold descStep isGErr
    cases parseRaw (rawOf env strukt[i].1 strukt[i].2 (z strukt[i])) <;>
      by_cases hg : (strukt[i].1.Embedded && strukt[i].1.Name == Go.str "GError") = true <;>
      simp [parsedResult, hg]
  by_cases hb : (raws env z strukt).any isBad = true
  · simp [hb]
  · simp only [hb, Bool.false_eq_true, if_false, List.nil_append, Bool.false_or]
    by_cases hg : strukt.any isGErr = true
    · simp only [hg, Bool.not_true, Bool.false_eq_true, if_false]
      rw [go_sort_eq env hs _ hd]
    · simp [hg]

/-! ## `(*GError).Error()` -/

/-- the five fields C15/C09 talk about -/
def projE (g : GoGerrorGen.GError (List Str)) : E :=
  { name := g.Name, msg := g.Message, src := g.Source, dtag := g.detailTag, stack := g.stack }

/-- **The translated `(*GError).Error()` is the model's `errorFull`**: name, detail tag, source — each
only when non-empty, each followed by `", "` — the message, and the stack text when there is a stack;
for every error value and every rendering of the stack. -/
theorem go_error_eq (env : GoGerrorGen.Env τ (List Str)) (hl : ∀ s, env.stackLen s = s.length)
    (g : GoGerrorGen.GError (List Str)) :
    GoGerrorGen.GError.Error env g = pure (errorFull (projE g) (env.stackString g.stack)) := by
  unfold GoGerrorGen.GError.Error errorFull errorHead errorTail errorStackPart projE
  simp only [hl]
  by_cases h1 : g.Name = [] <;> by_cases h2 : g.detailTag = [] <;> by_cases h3 : g.Source = [] <;>
    by_cases h4 : g.stack.length > 0 <;>
    simp [h1, h2, h3, h4, Go.str, List.append_assoc]

/-! ## the template's `Error()` and `toPrimaryType` -/
open GErrTmpl in
theorem rangeLoop_acc (step : Locals → FieldDef → Outcome) (g : FieldDef → Str) (n : String) (rest : Locals)
    (h : ∀ cur f, step ((n, .str cur) :: rest) f = some ((n, .str (cur ++ g f)) :: rest, none)) :
    ∀ (fs : List FieldDef) (cur : Str),
      rangeLoop step fs ((n, .str cur) :: rest) = some ((n, .str (cur ++ fs.flatMap g)) :: rest, none)
  | [], cur => by simp [rangeLoop]
  | f :: fs, cur => by
    rw [rangeLoop, h]
    simp only []
    rw [rangeLoop_acc step g n rest h fs]
    simp [List.append_assoc]

open GErrTmpl in
/-- the one `{{range}}` line of `Error()`: `<n> += fmt.Sprintf(<format>, e.<field>) + <sep>` per field -/
theorem exec_range_append (c : Ctx) (w : Which) (n sep : String) (fmt : List FmtPiece) (cur sepv : Str)
    (rest : Locals) (fld : Option FieldDef) (hn : (sep == n) = false)
    (hsep : Locals.get rest sep = some (.str sepv)) (hrest : rest.filter (fun p => p.1 != n) = rest) :
    exec c (.range w (.append n (.cat (.sprintfField fmt) (.sel (.loc sep))))) ((n, .str cur) :: rest) fld
      = some ((n, .str (cur ++ (whichFields c.d w).flatMap (fun f => evalFmt f (c.x.val f.name) fmt ++ sepv))) :: rest, none) := by
  rw [exec]
  apply rangeLoop_acc
  intro cur f
  have h1 : Locals.get ((n, Val.str cur) :: rest) n = some (.str cur) := by simp [Locals.get]
  have h2 : Locals.get ((n, Val.str cur) :: rest) sep = some (.str sepv) := by
    unfold Locals.get at hsep ⊢
    have : (n == sep) = false := by rw [Bool.eq_false_iff] at hn ⊢; intro h; apply hn; simp at h ⊢; exact h.symm
    simp only [List.find?_cons, this, hsep]
  simp only [exec, evalExpr, evalSel, h1, h2, Locals.set, List.filter_cons, bne_self_eq_false, Bool.false_eq_true, if_false, hrest]

open GErrTmpl in
theorem exec_range_append2 (c : Ctx) (w : Which) (n sep : String) (fmt : List FmtPiece) (cur sepv : Str)
    (fld : Option FieldDef) (hn : (sep == n) = false) :
    exec c (.range w (.append n (.cat (.sprintfField fmt) (.sel (.loc sep))))) [(n, .str cur), (sep, .str sepv)] fld
      = some ([(n, .str (cur ++ (whichFields c.d w).flatMap (fun f => evalFmt f (c.x.val f.name) fmt ++ sepv))), (sep, .str sepv)], none) := by
  apply exec_range_append c w n sep fmt cur sepv [(sep, .str sepv)] fld hn
  · simp [Locals.get]
  · have : (sep != n) = true := by simp [bne, hn]
    simp [List.filter_cons, this]

open GErrTmpl in
theorem ite_L (c : Prop) [Decidable c] (a b : Str) (rest : Locals) (r : Option Val) :
    (if c then some ((("result", Val.str a) :: rest), r) else some ((("result", Val.str b) :: rest), r))
      = some (("result", Val.str (if c then a else b)) :: rest, r) := by split <;> rfl

open GErrTmpl in
/-- **The extracted `Error()` of the template, run on any extension value, returns the model's
`extErrorFull`** — the base rendering with the print fields between source and message. -/
theorem tmpl_error_eq (d : ExtDef) (x : X) (stackText : List Str → Str) :
    GErrTmpl.run ⟨GerrorTmplBody.accessors, d, x, stackText⟩ GerrorTmplBody.errorBody
      = some (extErrorFull d x (stackText x.base.stack)) := by
  unfold GErrTmpl.run GerrorTmplBody.errorBody
  obtain ⟨⟨name, msg, src, dtag, stack⟩, vals⟩ := x
  have hr := fun c w fmt cur sepv fld => exec_range_append2 c w "result" "separator" fmt cur sepv fld (by decide)
  simp [exec.eq_1, exec.eq_2, exec.eq_3, exec.eq_4, exec.eq_5, exec.eq_7, hr, ite_L,
    evalExpr, evalSel, baseMember, baseField, GerrorTmplBody.accessors, Locals.get, Locals.set]
  have hflat : ∀ (x : X) (fs : List FieldDef), fs.flatMap (fun f => evalFmt f (x.val f.name) [.printAs, .text ": ", .verbV] ++ [',', ' '])
      = fs.flatMap (printField x) := by
    intro x fs; congr 1; funext f; simp [evalFmt, printField]
  rw [hflat]
  unfold extErrorFull extError errorHead errorTail errorStackPart whichFields
  rcases name with _ | ⟨n0, ns⟩ <;> rcases dtag with _ | ⟨d0, ds⟩ <;> rcases src with _ | ⟨s0, ss⟩ <;>
    rcases stack with _ | ⟨k0, ks⟩ <;> simp

/-- **Every member of `GError` that the template's `Error()` reads goes through the embedded field**
(`e.GError.Name`, never `e.Name`): an extension field called `Name`, `Source`, `Message`, … cannot
capture it.  Re-checked against the extracted body on every run. -/
theorem tmpl_error_via_embedded : GerrorTmplBody.errorBody.viaEmbedded = true := by decide

/-- what the repaired defect looked like: `"Message: " + e.Message` (no `.GError`) … -/
def legacyMessageLine : GErrTmpl.Stmt :=
  .seq (.decl "result" (.lit "")) (.seq (.append "result" (.cat (.lit "Message: ") (.sel (.own "Message" false)))) (.ret "result"))

/-- … an extension field named `Message` captures the selector: the rendering shows the field, not
the error's message (witness kept from /repo commit 3087b5b) -/
theorem legacy_own_selector_captured :
    legacyMessageLine.viaEmbedded = false ∧
    GErrTmpl.run ⟨GerrorTmplBody.accessors, [], ⟨⟨[], "real".toList, [], [], []⟩, [("Message".toList, "field".toList)]⟩, fun _ => []⟩
      legacyMessageLine = some "Message: field".toList := by decide

/-- **The extracted `toPrimaryType` literal builds the model's `toPrimary`**: the embedded `GError` is the
clone handed in, exactly the clone fields come from the receiver, every other field is zero. -/
theorem tmpl_toPrimary_eq (d : ExtDef) (x : X) (gerr : E) :
    GErrTmpl.evalPrimary GerrorTmplBody.toPrimary d x gerr = toPrimary d x gerr := by
  simp [GErrTmpl.evalPrimary, GerrorTmplBody.toPrimary, toPrimary, GErrTmpl.whichFields]

/-- `toPrimaryType` copies exactly the clone fields (restated from C09 for the extracted literal) -/
theorem tmpl_toPrimary_copies_exactly_clone_fields (d : ExtDef) (hd : GErrClone.WellFormed d) (x : X) (gerr : E)
    (f : FieldDef) (hf : f ∈ d) :
    (GErrTmpl.evalPrimary GerrorTmplBody.toPrimary d x gerr).base = gerr ∧
    (GErrTmpl.evalPrimary GerrorTmplBody.toPrimary d x gerr).val f.name = if f.clone then x.val f.name else f.zero := by
  rw [tmpl_toPrimary_eq]
  refine ⟨rfl, ?_⟩
  unfold toPrimary
  rw [GErrClone.val_map d hd _ f hf]
  by_cases hc : f.clone = true <;> simp [GErrClone.mem_fieldsToClone, hf, hc]

/-! ## the property for the translated and extracted code -/

/-- **`Error()` of an extension value = the base `Error()` with the print fields spliced in**: the
translated `(*GError).Error()` returns `head ++ tail`, the extracted template body returns
`head ++ <print fields> ++ tail` — `head` = name/detail tag/source, `tail` = message and stack — where
the print fields are exactly the fields tagged `print`, under their print names, sorted by field name. -/
theorem go_error_lists_print_fields (env : GoGerrorGen.Env τ (List Str)) (hl : ∀ s, env.stackLen s = s.length)
    (g : GoGerrorGen.GError (List Str)) (d : ExtDef) (vals : List (Str × Str)) :
    let x : X := ⟨projE g, vals⟩
    let head := errorHead (projE g)
    let tail := errorTail (projE g) ++ errorStackPart (projE g) (env.stackString g.stack)
    GoGerrorGen.GError.Error env g = pure (head ++ tail) ∧
    GErrTmpl.run ⟨GerrorTmplBody.accessors, d, x, env.stackString⟩ GerrorTmplBody.errorBody
      = some (head ++ (fieldsToPrint d).flatMap (printField x) ++ tail) ∧
    (fieldsToPrint d).Perm (d.filter (·.print)) ∧
    (fieldsToPrint d).Pairwise (fun a b => strLe a.name b.name = true) := by
  refine ⟨?_, ?_, GErrClone.print_fields_exact d⟩
  · rw [go_error_eq env hl g]; simp [errorFull, List.append_assoc]
  · rw [tmpl_error_eq]; simp [extErrorFull, extError, List.append_assoc, projE]

theorem sortFields_eq_of_perm (l1 l2 : List FieldDef) (hp : l1.Perm l2) (hd : (l1.map (·.name)).Nodup) :
    sortFields l1 = sortFields l2 := by
  apply List.Perm.eq_of_pairwise (le := fun a b => strLe a.name b.name = true) _ (sortFields_sorted l1) (sortFields_sorted l2)
    ((sortFields_perm l1).trans (hp.trans (sortFields_perm l2).symm))
  intro a b ha hb h1 h2
  have ha' : a ∈ l1 := (sortFields_perm l1).mem_iff.mp ha
  have hb' : b ∈ l1 := hp.mem_iff.mpr ((sortFields_perm l2).mem_iff.mp hb)
  exact eq_of_nodup_map (·.name) l1 hd a ha' b hb' (strLe_antisymm _ _ h1 h2)

theorem filter_parse_tagged (rs : List RawField) (p : FieldDef → Bool) (hp : ∀ r, tagged r = false → p (createField r) = false) :
    (parseFields (rs.filter tagged)).filter p = (parseFields rs).filter p := by
  unfold parseFields
  induction rs with
  | nil => rfl
  | cons r rs ih =>
    by_cases ht : tagged r = true
    · simp only [List.filter_cons, ht, if_true, List.map_cons]; split <;> simp [ih]
    · have := hp r (by simpa using ht)
      simp only [List.filter_cons, ht, List.map_cons, this]; simpa using ih

theorem untagged_flags (r : RawField) (h : tagged r = false) :
    (createField r).print = false ∧ (createField r).clone = false := by
  unfold tagged at h
  unfold createField
  cases hn : r.tagName with
  | none => simp
  | some n => simp [hn] at h

/-- **From the struct to the printed and cloned fields, all translated**: when the generator accepts
the struct, the translated `createErrorDesc` yields a description on which the translated
`FieldsToPrint` / `FieldsToClone` return the model's `fieldsToPrint` / `fieldsToClone` of the model's
`parseFields` — for every struct with distinct field names, every behaviour of the tag library and
every sorting algorithm within the contract of `sort.Sort`. -/
theorem go_pipeline_eq (env : GoGerrorGen.Env τ σ) (hs : SortOK env) (z : GoGerrorGen.Var × Str → Str)
    (strukt : List (GoGerrorGen.Var × Str)) (tn : Str)
    (hd : ((parseFields (raws env z strukt)).map (·.name)).Nodup)
    (hok : (raws env z strukt).any isBad = false) (hg : strukt.any isGErr = true) :
    ∃ desc, GoGerrorGen.createErrorDesc env strukt tn = pure (some desc, none) ∧
      GoGerrorGen.ErrorDesc.FieldsToPrint env desc = pure ((fieldsToPrint (parseFields (raws env z strukt))).map absF) ∧
      GoGerrorGen.ErrorDesc.FieldsToClone env desc = pure ((fieldsToClone (parseFields (raws env z strukt))).map absF) := by
  have hsub : ((parseFields ((raws env z strukt).filter tagged)).map (·.name)).Nodup := by
    unfold parseFields at hd ⊢
    exact (((List.filter_sublist (p := tagged) (l := raws env z strukt)).map _).map _).nodup hd
  refine ⟨⟨tn, (sortFields (parseFields ((raws env z strukt).filter tagged))).map absF⟩, ?_, ?_, ?_⟩
  · rw [go_createErrorDesc_eq env hs z strukt tn hsub]; simp only [hok, hg, Bool.false_eq_true, if_false, Bool.not_true]
  · have hd2 : ((sortFields (parseFields ((raws env z strukt).filter tagged))).map (·.name)).Nodup :=
      ((sortFields_perm _).map _).nodup_iff.mpr hsub
    rw [go_fieldsToPrint_eq env hs tn _ hd2]
    congr 2
    unfold fieldsToPrint
    rw [← filter_parse_tagged _ _ (fun r h => (untagged_flags r h).1)]
    exact (sortFields_eq_of_perm _ _ ((sortFields_perm _).filter _)
      (nodup_names_filter _ _ hd2))
  · have hd2 : ((sortFields (parseFields ((raws env z strukt).filter tagged))).map (·.name)).Nodup :=
      ((sortFields_perm _).map _).nodup_iff.mpr hsub
    rw [go_fieldsToClone_eq env hs tn _ hd2]
    congr 2
    unfold fieldsToClone
    rw [← filter_parse_tagged _ _ (fun r h => (untagged_flags r h).2)]
    exact (sortFields_eq_of_perm _ _ ((sortFields_perm _).filter _)
      (nodup_names_filter _ _ hd2))

end C09Tie

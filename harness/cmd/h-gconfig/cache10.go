package main

import (
	"fmt"
	"math/rand"
	"reflect"
	"runtime"
	"sort"
	"strings"
	"sync"
	"time"

	"github.com/drshriveer/gtools/gconfig"
	"verif/harness/internal/hx"
)

type cacheState struct{}

type pairT struct {
	A int    `yaml:"a"`
	B string `yaml:"b"`
}

// canonical rendering of a typed result: dynamic type and value (pointers dereferenced, maps in
// key order as fmt prints them)
func renderTyped(v any) string {
	if v == nil {
		return "ok:nil"
	}
	rv := reflect.ValueOf(v)
	if rv.Kind() == reflect.Pointer {
		if rv.IsNil() {
			return fmt.Sprintf("ok:%T:nil", v)
		}
		return fmt.Sprintf("ok:%T:&%s", v, esc(fmt.Sprintf("%+v", rv.Elem().Interface())))
	}
	return fmt.Sprintf("ok:%T:%s", v, esc(fmt.Sprintf("%+v", v)))
}

func doReq[T any](cfg *gconfig.Config, op, key string) (out string) {
	defer func() {
		if r := recover(); r != nil {
			if op == "must" {
				_, isRT := r.(runtime.Error)
				if _, isErr := r.(error); isErr && !isRT {
					out = "err" // MustGet reporting an error
					return
				}
			}
			out = "panic"
		}
	}()
	switch op {
	case "get":
		v, err := gconfig.Get[T](cfg, key)
		if err != nil {
			return "err"
		}
		return renderTyped(any(v))
	case "must":
		return renderTyped(any(gconfig.MustGet[T](cfg, key)))
	case "ordef", "ordefnz":
		var def T
		if op == "ordefnz" {
			// a NON-ZERO default (every field, element and entry set): whatever GetOrDefault does with
			// the default must not show in this or any later result for the key
			def = nonZero[T]()
		}
		v := gconfig.GetOrDefault[T](cfg, key, def)
		// GetOrDefault hides the error: compare through Get's classification
		if _, err := gconfig.Get[T](cfg, key); err != nil {
			return "err"
		}
		return renderTyped(any(v))
	}
	return "bad-op"
}

// nonZero builds a value of T with nothing left at its zero value (numbers 7, strings "dflt",
// true, one-element slices and maps, every struct field set, non-nil pointers).
func nonZero[T any]() T {
	var v T
	fillNonZero(reflect.ValueOf(&v).Elem(), 0)
	return v
}

func fillNonZero(v reflect.Value, depth int) {
	if depth > 4 || !v.CanSet() {
		return
	}
	switch v.Kind() {
	case reflect.Bool:
		v.SetBool(true)
	case reflect.Int, reflect.Int8, reflect.Int16, reflect.Int32, reflect.Int64:
		v.SetInt(7)
	case reflect.Uint, reflect.Uint8, reflect.Uint16, reflect.Uint32, reflect.Uint64:
		v.SetUint(7)
	case reflect.Float32, reflect.Float64:
		v.SetFloat(7.5)
	case reflect.String:
		v.SetString("dflt")
	case reflect.Pointer:
		p := reflect.New(v.Type().Elem())
		fillNonZero(p.Elem(), depth+1)
		v.Set(p)
	case reflect.Slice:
		s := reflect.MakeSlice(v.Type(), 1, 1)
		fillNonZero(s.Index(0), depth+1)
		v.Set(s)
	case reflect.Map:
		m := reflect.MakeMap(v.Type())
		k := reflect.New(v.Type().Key()).Elem()
		fillNonZero(k, depth+1)
		e := reflect.New(v.Type().Elem()).Elem()
		fillNonZero(e, depth+1)
		m.SetMapIndex(k, e)
		v.Set(m)
	case reflect.Struct:
		for i := 0; i < v.NumField(); i++ {
			fillNonZero(v.Field(i), depth+1)
		}
	case reflect.Interface:
		v.Set(reflect.ValueOf("dflt"))
	}
}

// two DISTINCT types that print the same name (`main.settings`): function-local types of
// different functions. A memo table keyed by the type's name would confuse them.
func localSettingsA() func(cfg *gconfig.Config, op, key string) string {
	type settings struct {
		A int `yaml:"a"`
	}
	return doReq[settings]
}

func localSettingsB() func(cfg *gconfig.Config, op, key string) string {
	type settings struct {
		B string `yaml:"b"`
	}
	return doReq[settings]
}

var typeTable = map[string]func(cfg *gconfig.Config, op, key string) string{
	"settingsA":      localSettingsA(),
	"settingsB":      localSettingsB(),
	"int":            doReq[int],
	"int8":           doReq[int8],
	"int16":          doReq[int16],
	"int32":          doReq[int32],
	"int64":          doReq[int64],
	"uint":           doReq[uint],
	"uint8":          doReq[uint8],
	"uint16":         doReq[uint16],
	"uint32":         doReq[uint32],
	"uint64":         doReq[uint64],
	"float32":        doReq[float32],
	"float64":        doReq[float64],
	"string":         doReq[string],
	"bool":           doReq[bool],
	"*int":           doReq[*int],
	"*string":        doReq[*string],
	"[]int":          doReq[[]int],
	"[]string":       doReq[[]string],
	"[]any":          doReq[[]any],
	"map[string]int": doReq[map[string]int],
	"map[int]int":    doReq[map[int]int],
	"map[bool]string": doReq[map[bool]string],
	"map[int]pair":   doReq[map[int]pairT],
	"map[string]any": doReq[map[string]any],
	"pair":           doReq[pairT],
	"*pair":          doReq[*pairT],
	"duration":       doReq[time.Duration],
	"any":            doReq[any],
}

// %T of the zero value of each result type (what the pinned commit appended to the key)
var goTypeName = map[string]string{
	"int": "int", "int8": "int8", "int16": "int16", "int32": "int32", "int64": "int64",
	"uint": "uint", "uint8": "uint8", "uint16": "uint16", "uint32": "uint32", "uint64": "uint64",
	"float32": "float32", "float64": "float64", "string": "string", "bool": "bool",
	"*int": "*int", "*string": "*string", "[]int": "[]int", "[]string": "[]string", "[]any": "[]interface {}",
	"map[string]int": "map[string]int", "map[string]any": "map[string]interface {}",
	"map[int]int": "map[int]int", "map[bool]string": "map[bool]string", "map[int]pair": "map[int]main.pairT",
	"pair": "main.pairT", "*pair": "*main.pairT", "duration": "time.Duration", "any": "<nil>",
	"settingsA": "main.settings", "settingsB": "main.settings",
}

// collidingPairs: all ((key1,type1),(key2,type2)) over c10Keys x types with
// key1+%T1 == key2+%T2 although (key1,type1) != (key2,type2)
func collidingPairs() [][4]string {
	by := map[string][][2]string{}
	for _, k := range c10Keys {
		for _, t := range typeNames {
			by[k+goTypeName[t]] = append(by[k+goTypeName[t]], [2]string{k, t})
		}
	}
	var out [][4]string
	var ks []string
	for k := range by {
		ks = append(ks, k)
	}
	sort.Strings(ks)
	for _, k := range ks {
		g := by[k]
		for i := 0; i < len(g); i++ {
			for j := 0; j < len(g); j++ {
				if i != j {
					out = append(out, [4]string{g[i][0], g[i][1], g[j][0], g[j][1]})
				}
			}
		}
	}
	return out
}

var typeNames = func() []string {
	var n []string
	for k := range typeTable {
		n = append(n, k)
	}
	sort.Strings(n)
	return n
}()

// keys include prefixes/extensions of each other and keys ending in fragments of Go type names
// (so that `key + "%T"` collides for different (key, type) pairs)
var c10Docs = []string{
	`{ a i:5 au i:7 aui i:9 a* i:11 a[] [ i:1 i:2 ] amap[string] { x i:1 } s s:str n n b b:t l [ s:x s:y ] m { x i:1 y i:2 } d s:1m0s f s:1.5 p { a i:3 b s:bb } x { y { z i:42 } y2 n } amain.pairT i:1 atime. s:1s afloat i:3 a[]interface%20 [ i:1 ] mi { #500 i:1 #503 i:2 } mb { #true s:yes #false s:no } mp { #1 { a i:1 b s:x } #2 { a i:2 b s:y } } }`,
	`{ a s:hello au s:7 aui n a* [ ] a[] { a i:1 } s i:12 n s:null b s:true l { x [ i:1 ] } m [ { x i:1 } ] d i:90 p [ i:1 ] x { y s:deep } ax i:1 a.x i:2 }`,
	`{ a { x i:1 au i:2 } au { int8 i:3 } s s: n n b b:f l [ ] m { } d s:2h p { a s:notint b i:5 } u i:-1 big i:4000000000 }`,
}

var c10Keys = []string{"a", "au", "aui", "a*", "a[]", "amap[string]", "s", "n", "b", "l", "m", "d", "f", "p", "x", "x.y", "x.y.z", "x.y2", "a.x", "a.au", "au.int8", "amain.pairT", "a*", "atime.", "u", "big", "zz", "ax", "", "afloat", "a[]interface ", "mi", "mi.503", "mi.500", "mb", "mb.true", "mp", "mp.1", "mp.1.a", "mp.2.b"}

// wantOf: the result of one request on a FRESH Config built from the document (memoized per
// (document, op, key, type); every entry is computed on its own new Config).
var (
	wantMu   sync.Mutex
	wantMemo = map[string]string{}
)

func wantOf(docBytes []byte, op, key, ty string) string {
	if op == "ordefnz" {
		// when the key resolves, GetOrDefault's value is Get's value on a fresh config, whatever the
		// default was; when it does not, both are classified "err"
		op = "get"
	}
	k := string(docBytes) + "\x00" + op + "\x00" + key + "\x00" + ty
	wantMu.Lock()
	w, ok := wantMemo[k]
	wantMu.Unlock()
	if ok {
		return w
	}
	c, err := gconfig.NewBuilder().FromBytes(docBytes)
	if err != nil {
		return "noconfig"
	}
	w = typeTable[ty](c, op, key)
	wantMu.Lock()
	wantMemo[k] = w
	wantMu.Unlock()
	return w
}

// hang watchdog: generous until a request has hung once in this process (then the tree is known to
// be broken and re-executions for shrinking should not cost half a minute each)
var (
	hungCfg *gconfig.Config
	hangs   int
)

func hangAfter() time.Duration {
	if hangs > 0 {
		return 3 * time.Second
	}
	return 30 * time.Second
}

func (g *gcImpl) execCache(ws []string) (string, bool) {
	if len(ws) >= 2 && ws[1] == "req" {
		// gc req <op> <key> <type> <fresh>
		if len(ws) != 6 || g.cfg == nil {
			return "bad-op", true
		}
		f, ok := typeTable[ws[4]]
		if !ok {
			return "bad-op", true
		}
		// a request that never returns (e.g. a memo bucket left locked by an earlier panic inside
		// the fill callback) is reported as "hang" instead of stopping the whole run
		if hungCfg == g.cfg {
			return "hang", true // this config's memo table is already stuck
		}
		done := make(chan string, 1)
		go func() { done <- f(g.cfg, ws[2], unesc(ws[3])) }()
		select {
		case out := <-done:
			return out, true
		case <-time.After(hangAfter()):
			hungCfg, hangs = g.cfg, hangs+1
			return "hang", true
		}
	}
	if len(ws) == 4 && ws[1] == "conc" {
		// gc conc <seed> <goroutines>: concurrent mix on the case's config, each result compared
		// with the same request on a fresh config
		if g.cfg == nil {
			return "bad-op", true
		}
		if hungCfg == g.cfg {
			return "hang", true
		}
		var seed int64
		var n int
		fmt.Sscan(ws[2], &seed)
		fmt.Sscan(ws[3], &n)
		var mu sync.Mutex
		bad := ""
		var wg sync.WaitGroup
		for i := 0; i < n; i++ {
			wg.Add(1)
			go func(i int) {
				defer wg.Done()
				rng := rand.New(rand.NewSource(seed*1000 + int64(i)))
				for j := 0; j < 60; j++ {
					key := c10Keys[rng.Intn(len(c10Keys))]
					ty := typeNames[rng.Intn(len(typeNames))]
					op := []string{"get", "must", "ordef", "ordefnz"}[rng.Intn(4)]
					got := typeTable[ty](g.cfg, op, key)
					want := wantOf(g.bytes, op, key, ty)
					if got != want {
						mu.Lock()
						if bad == "" {
							bad = fmt.Sprintf("mismatch:%s:%s:%s:got=%s:want=%s", op, esc(key), ty, got, want)
						}
						mu.Unlock()
					}
				}
			}(i)
		}
		// a panic inside the memo table's fill callback leaves its bucket locked and every later
		// request for that bucket waits forever: report that as "hang" instead of deadlocking the run
		done := make(chan struct{})
		go func() { wg.Wait(); close(done) }()
		select {
		case <-done:
		case <-time.After(hangAfter() * 3 / 2):
			hungCfg, hangs = g.cfg, hangs+1
			mu.Lock()
			b := bad
			mu.Unlock()
			if b != "" {
				return "hang:" + b, true
			}
			return "hang", true
		}
		if bad != "" {
			return bad, true
		}
		return "ok", true
	}
	return "", false
}

func runC10(f *hx.Flags) {
	impl := &gcImpl{}
	r := hx.NewRunner(f, "h-gconfig", impl, "request histories (<=200 requests of Get/MustGet/GetOrDefault over 29 keys incl. prefixes/extensions of each other and keys ending in fragments of Go type names, 26 result types: sized ints, floats, string, bool, pointers, slices, maps, structs, time.Duration, any, error) on three documents with scalars, nulls, lists and maps; every request's result (value with dynamic type / error / panic) is compared with the same request on a FRESH Config built from the same bytes (passed to the Lean cache model as the conversion oracle); plus concurrent mixes of 16 goroutines. non-trivial: a history with at least one repeated (key,type) and one pair of colliding concatenations; distinct by request lines")
	r.KeyOf = func(d *hx.Disagreement) string {
		ws := strings.Fields(d.Request)
		if len(ws) >= 6 && ws[1] == "req" {
			cls := "differs"
			if d.Impl == "panic" {
				cls = "panic"
			}
			return "C10:req:" + cls
		}
		return "C10:" + ws[1]
	}
	if r.HandleReplay() {
		return
	}
	r.RunCorpus()
	n := r.N(600)
	if f.Tier == "thorough" {
		n = r.N(40000)
	}
	collisions := collidingPairs()
	r.Res.Extra["colliding_concatenation_pairs"] = len(collisions)
	for i := 0; i < n; i++ {
		doc := c10Docs[r.Rng.Intn(len(c10Docs))]
		lines := []string{"case gc", "gc load " + doc}
		// the oracle: the same request on a fresh config
		fresh := &gcImpl{}
		fresh.Exec("case gc")
		fresh.Exec("gc load " + doc)
		L := 1 + r.Rng.Intn(200)
		if r.Rng.Intn(3) == 0 {
			L = 1 + r.Rng.Intn(12)
		}
		// bias towards a small working set so that hits and collisions happen
		nk, nt := 2+r.Rng.Intn(8), 2+r.Rng.Intn(8)
		ks := make([]string, nk)
		for j := range ks {
			ks[j] = c10Keys[r.Rng.Intn(len(c10Keys))]
		}
		ts := make([]string, nt)
		for j := range ts {
			ts[j] = typeNames[r.Rng.Intn(len(typeNames))]
		}
		seen := map[string]bool{}
		repeated := false
		var pending [][2]string
		// shaped: a request BELOW a container first, then the container itself under several
		// types (a lookup must not change what a later request for the parent sees)
		if r.Rng.Intn(3) == 0 {
			pairs := [][2]string{{"mi.503", "mi"}, {"mi.500", "mi"}, {"mb.true", "mb"}, {"mp.1", "mp"}, {"mp.1.a", "mp"}, {"mp.2.b", "mp.2"}, {"x.y.z", "x"}, {"x.y", "x"}, {"a.x", "a"}, {"au.int8", "au"}, {"m.x", "m"}, {"p.a", "p"}}
			pr := pairs[r.Rng.Intn(len(pairs))]
			childTypes := []string{"int", "string", "any", "pair", "map[string]any"}
			parentTypes := []string{"any", "map[string]any", "map[int]int", "map[bool]string", "map[int]pair", "map[string]int", "pair", "[]any"}
			pending = append(pending, [2]string{pr[0], childTypes[r.Rng.Intn(len(childTypes))]})
			for _, pt := range parentTypes {
				if r.Rng.Intn(2) == 0 {
					pending = append(pending, [2]string{pr[1], pt})
				}
			}
		}
		for j := 0; j < L; j++ {
			key, ty := ks[r.Rng.Intn(nk)], ts[r.Rng.Intn(nt)]
			if len(pending) > 0 && r.Rng.Intn(3) == 0 {
				key, ty = pending[0][0], pending[0][1]
				pending = pending[1:]
			} else if r.Rng.Intn(10) == 0 {
				// two requests whose key+%T concatenations coincide
				cp := collisions[r.Rng.Intn(len(collisions))]
				key, ty = cp[0], cp[1]
				pending = append(pending, [2]string{cp[2], cp[3]})
			}
			if key == "" {
				key = "s"
			}
			op := []string{"get", "must", "ordef", "ordefnz"}[r.Rng.Intn(4)]
			want := wantOf(fresh.bytes, op, key, ty)
			lines = append(lines, "gc req "+op+" "+esc(key)+" "+ty+" "+want)
			if seen[key+"|"+ty] {
				repeated = true
			}
			seen[key+"|"+ty] = true
		}
		if r.Rng.Intn(4) == 0 {
			lines = append(lines, fmt.Sprintf("gc conc %d 16", r.Rng.Intn(1000)))
		}
		r.Add(hx.Case{Domain: true, Nontrivial: repeated, Lines: lines, Tags: []string{fmt.Sprintf("len<=%d", (L/50+1)*50)}})
	}
	r.Finish()
}

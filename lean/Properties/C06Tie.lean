import Lemmas.GoCloneBase
import Generated.GoGErrorIs
import Lemmas.GoGErrorIs
import Generated.GerrorBase
import Model.GErrorIs
import Properties.C06
/-!
# C06, tie A by translation: the reference bookkeeping of `gerror.CloneBase`

The C06 heap model keeps, per error object, `isFactory`, `factoryRef` and `srcErrors`; its
`cloneBase` was written by hand from factory.go.  Here the same three fields of the TRANSLATED
`CloneBase` (regenerated from /repo on every run) are proved equal to what the model allocates -
for every heap, receiver and source error, and whatever the string arguments, the stack type and
the stack-capture functions are.  (`baseRef`, the interface value `factoryOf(base)`, is `.base a`
for the object at address `a`; the nil interface value is `.nil`.)
-/
set_option linter.unusedSectionVars false
namespace C06Tie
open Generated.GoCloneBase GoCloneBase GErrorIs

variable {σ : Type}

/-- the C06 fields of a translated record -/
def toObj (g : GError Val σ) : Obj :=
  { extTy := none, isFactory := g.isFactory, factoryRef := g.factoryRef, srcErrors := g.srcErrors }

theorem toObj_phSource (c : GError Val σ) (s : Go.Str) : toObj (phSource c s) = toObj c := by
  unfold phSource; split <;> rfl
theorem toObj_phDTag (c : GError Val σ) (s : Go.Str) : toObj (phDTag c s) = toObj c := by
  unfold phDTag; (repeat' split) <;> rfl
theorem toObj_phMsg (c : GError Val σ) (s : Go.Str) : toObj (phMsg c s) = toObj c := by
  unfold phMsg; (repeat' split) <;> rfl
theorem toObj_stack (env : Env σ) (c : GError Val σ) (st : Nat) :
    toObj (if skipStack env c st then c else phStack env c st) = toObj c := by
  unfold phStack
  simp only []
  (repeat' split) <;> rfl

/-- The reference bookkeeping of the translated `CloneBase` is the C06 model's `cloneBase`. -/
theorem go_cloneBase_refs (env : Env σ) (h : Heap) (recv : Val) (a : Nat) (srcError : Val)
    (base : GError Val σ) (hb : toObj base = { obj h a with extTy := none })
    (st : Nat) (dTag source extMsg : Go.Str) :
    (fun g => alloc h (toObj g)) <$> CloneBase env .nil recv base (.base a) st dTag source extMsg srcError
      = pure (GErrorIs.cloneBase h recv a srcError) := by
  rw [go_cloneBase_pure]
  simp only [map_pure]
  congr 1
  unfold pureCB GErrorIs.cloneBase
  simp only []
  rw [toObj_stack]
  have hf : base.factoryRef = (obj h a).factoryRef := by have := congrArg Obj.factoryRef hb; simpa [toObj] using this
  have hs : base.srcErrors = (obj h a).srcErrors := by have := congrArg Obj.srcErrors hb; simpa [toObj] using this
  have hi : base.isFactory = (obj h a).isFactory := by have := congrArg Obj.isFactory hb; simpa [toObj] using this
  congr 1
  generalize hm : phMsg (phDTag (phSource (phInit Val.nil base (Val.base a)) source) dTag) (env.trimSpace extMsg) = m
  have hm' : toObj m = toObj (phInit Val.nil base (Val.base a)) := by
    rw [← hm, toObj_phMsg, toObj_phDTag, toObj_phSource]
  have h1 : m.factoryRef = (if base.factoryRef != Val.nil then base.factoryRef else Val.base a) := by
    have := congrArg Obj.factoryRef hm'; simpa [toObj, phInit] using this
  have h2 : m.srcErrors = base.srcErrors := by have := congrArg Obj.srcErrors hm'; simpa [toObj, phInit] using this
  have h3 : m.isFactory = false := by have := congrArg Obj.isFactory hm'; simpa [toObj, phInit] using this
  unfold phSrcErr phRef toObj
  by_cases hF : (obj h a).factoryRef = Val.nil <;> by_cases hI : (obj h a).isFactory = true <;>
    by_cases hS : srcError = Val.nil <;>
    simp [hF, hI, hS, h1, h2, h3, hf, hs, hi]

/-- non-vacuity: a record whose reference fields are those of a heap object -/
example : toObj (σ := Unit) ⟨[], [], [], [], (), .nil, [], true⟩ = { obj [{ isFactory := true }] 0 with extTy := none } := by
  decide

end C06Tie

/-!
# C06, tie A by translation: `Is`, `Unwrap`, `isComparable`, `ExtractFactoryReference`, `Convert`, `ConvertS`, `FactoryOf`

`Generated/GoGErrorIs.lean` is rewritten from /repo's gerror/gerror.go and gerror/factory.go on every run
(`go2lean -spec gerroris`; primitives in `Model/GoIface.lean`).  The translated functions run on a memory
of full `GError` records (`Go.Mem`); `Rel m h` says that this memory represents the model heap `h` (same
size, and every record has the `isFactory`/`factoryRef`/`srcErrors` of the heap object at its address).
For every memory and heap so related, every receiver, argument and fuel, each translated function returns
exactly what the hand-written model function returns (`go_*_eq`), panics and fuel exhaustion included;
the functions that allocate or write return a memory that again represents the model's new heap.
-/
namespace C06Tie
open Generated.GoCloneBase GoCloneBase GErrorIs Generated.GoGErrorIs GoGErrorIs

variable {σ : Type}

/-- the memory of the translated code represents the model heap -/
structure Rel (m : Go.Mem (GError Val σ)) (h : Heap) : Prop where
  next : m.next = h.length
  cell : ∀ a, toObj (m.cell a) = { obj h a with extTy := none }

variable {m : Go.Mem (GError Val σ)} {h : Heap}

theorem Rel.isFactory (hr : Rel m h) (a : Nat) : (m.cell a).isFactory = (obj h a).isFactory := by
  have := congrArg Obj.isFactory (hr.cell a); simpa [toObj] using this
theorem Rel.factoryRef (hr : Rel m h) (a : Nat) : (m.cell a).factoryRef = (obj h a).factoryRef := by
  have := congrArg Obj.factoryRef (hr.cell a); simpa [toObj] using this
theorem Rel.srcErrors (hr : Rel m h) (a : Nat) : (m.cell a).srcErrors = (obj h a).srcErrors := by
  have := congrArg Obj.srcErrors (hr.cell a); simpa [toObj] using this

theorem go_embeded_eq (e : Nat) : _embededGError e = pure e := rfl

theorem go_unwrap_eq (hr : Rel m h) (e : Nat) : Unwrap m e = pure (unwrap h (.base e)) := by
  unfold Unwrap
  simp only [hr.factoryRef, unwrap]
  split <;> simp_all

theorem go_isComparable_eq (err : Val) :
    Generated.GoGErrorIs.isComparable err = pure (err != .nil && GErrorIs.isComparable err) := by
  unfold Generated.GoGErrorIs.isComparable
  cases err with
  | foreign ty i w => cases ty <;> rfl
  | _ => rfl

theorem go_extractFactoryRef_eq (hr : Rel m h) (err : Val) :
    ExtractFactoryReference m err = pure (extractFactoryRef h err) := by
  unfold ExtractFactoryReference extractFactoryRef
  cases err <;> simp [Go.assertError, embedded, Go.method, go_embeded_eq, hr.isFactory, hr.factoryRef] <;>
    split <;> rfl

theorem go_is_eq (hr : Rel m h) : ∀ (fuel e : Nat) (err : Val), Is m fuel e err = Go.ofRes (gIs h fuel e err)
  | 0, _, _ => rfl
  | n + 1, e, err => by
    rw [Is, gIs]
    simp only [go_extractFactoryRef_eq hr, pure_bind, hr.isFactory, hr.factoryRef, hr.srcErrors, Go.ifaceEq,
      land_pure_ofRes, go_isComparable_eq, lor_ofRes, slicesContains_eq]
    generalize Res.guard (obj h e).isFactory (ifaceEq (Val.base e) (extractFactoryRef h err)) = r1
    cases r1 <;> try rfl
    generalize ((ifaceEq (Val.base e) err).or
                (Res.guard ((obj h e).factoryRef != Val.nil) (ifaceEq (obj h e).factoryRef err))).or
            (Res.guard (err != Val.nil && GErrorIs.isComparable err) (containsErr (obj h e).srcErrors err)) = r2
    cases r2 <;> try rfl
    simp only [Go.ofRes, pure_bind]
    cases err <;> simp [Go.assertError, embedded, Go.method, go_unwrap_eq hr, unwrap] <;>
      split <;> simp_all [Go.ofRes, go_is_eq hr n e]

theorem Rel.new (hr : Rel m h) (c : GError Val σ) : Rel (m.new c).1 (h ++ [toObj c]) := by
  constructor
  · simp [Go.Mem.new, hr.next]
  · intro a
    simp only [Go.Mem.new, hr.next]
    by_cases ha : a = h.length
    · subst ha; simp only [if_pos, obj_append_len]; rfl
    · simp only [if_neg ha]
      by_cases hl : a < h.length
      · rw [obj_append_lt _ hl]; exact hr.cell a
      · rw [obj_ge (h := h ++ [toObj c]) (by simp; omega), hr.cell a, obj_ge (by omega)]

theorem obj_set {h : Heap} {a : Nat} (ha : a < h.length) (o : Obj) (b : Nat) :
    obj (h.set a o) b = if b = a then o else obj h b := by
  unfold obj
  by_cases hb : b = a
  · subst hb; simp [ha]
  · simp [hb, Ne.symm hb]

theorem Rel.store_isFactory (hr : Rel m h) {a : Nat} (ha : a < h.length) :
    Rel (m.store a { m.cell a with isFactory := true }) (h.set a { obj h a with isFactory := true }) := by
  constructor
  · simp [Go.Mem.store, hr.next]
  · intro b
    simp only [Go.Mem.store, obj_set ha]
    by_cases hb : b = a
    · subst hb
      simp only [if_pos]
      have := hr.cell b
      simp only [toObj, Obj.mk.injEq] at this ⊢
      simp [this]
    · simp only [if_neg hb]; exact hr.cell b

/-- the CloneBase call of Convert/ConvertS: the translated CloneBase returns a record whose allocation is the model's cloneBase -/
theorem clone_step (cenv : Generated.GoCloneBase.Env σ) (hr : Rel m h) (e : Nat) (err : Val) (st : Nat) (dTag source msg : Go.Str) :
    ∃ c, CloneBase cenv Val.nil (Val.base e) (m.cell e) (Val.base e) st dTag source msg err = pure c ∧
      GErrorIs.cloneBase h (.base e) e err = (h ++ [toObj c], h.length) := by
  have hc := go_cloneBase_refs cenv h (.base e) e err (m.cell e) (hr.cell e) st dTag source msg
  rw [go_cloneBase_pure] at hc
  simp only [map_pure] at hc
  exact ⟨_, go_cloneBase_pure .., (Except.ok.inj hc).symm⟩

theorem go_convert_eq (env : Generated.GoGErrorIs.Env σ) (hr : Rel m h) (e : Nat) (err : Val) :
    ∃ m', Convert env m e err = pure (m', (call h (.base e) .Convert err).2) ∧ Rel m' (call h (.base e) .Convert err).1 := by
  unfold Convert
  simp only [call, callWith, Meth.isConvert, Bool.true_and, Meth.srcArg, if_true, go_embeded_eq, pure_bind]
  cases he : embedded err with
  | some a =>
    have hA : Go.assertError err = (err, true) := by simp [Go.assertError, he]
    exact ⟨m, by simp [hA], by simpa using hr⟩
  | none =>
    have hA : Go.assertError err = (.nil, false) := by simp [Go.assertError, he]
    obtain ⟨c, h1, h2⟩ := clone_step env.clone hr e err SourceStack (Go.str "") (Go.str "") (env.sprintf (Go.str "originalError: %+v") [err])
    refine ⟨(m.new c).1, by simp [hA, h1, h2, Go.Mem.new, hr.next], ?_⟩
    simp only [Option.isSome_none, Bool.false_eq_true, if_false, h2]
    exact hr.new c


theorem go_convertS_eq (env : Generated.GoGErrorIs.Env σ) (hr : Rel m h) (e : Nat) (err : Val) :
    ∃ m', ConvertS env m e err = pure (m', (call h (.base e) .ConvertS err).2) ∧ Rel m' (call h (.base e) .ConvertS err).1 := by
  unfold ConvertS
  simp only [call, callWith, Meth.isConvert, Bool.true_and, Meth.srcArg, if_true, go_embeded_eq, pure_bind]
  cases he : embedded err with
  | some a =>
    have hA : Go.assertError err = (err, true) := by simp [Go.assertError, he]
    exact ⟨m, by simp [hA], by simpa using hr⟩
  | none =>
    have hA : Go.assertError err = (.nil, false) := by simp [Go.assertError, he]
    obtain ⟨c, h1, h2⟩ := clone_step env.clone hr e err DefaultStack (Go.str "") (Go.str "") (env.sprintf (Go.str "originalError: %+v") [err])
    refine ⟨(m.new c).1, by simp [hA, h1, h2, Go.Mem.new, hr.next], ?_⟩
    simp only [Option.isSome_none, Bool.false_eq_true, if_false, h2]
    exact hr.new c

/-- `FactoryOf(err)` for a value of a gerror type (the type parameter's constraint) that points into the heap -/
theorem go_factoryOf_eq (hr : Rel m h) (v : Val) {a : Nat} (hv : embedded v = some a) (ha : a < h.length) :
    ∃ m', FactoryOf m v = pure (m', v) ∧ Rel m' (factoryOf h v) := by
  unfold FactoryOf factoryOf
  simp only [Go.method, hv, go_embeded_eq, pure_bind, if_pos ha]
  exact ⟨_, rfl, hr.store_isFactory ha⟩

/-- a method of `*GError` called through an interface value (directly, or promoted through the embedded GError) -/
theorem go_unwrap_method_eq (hr : Rel m h) (v : Val) {a : Nat} (hv : embedded v = some a) :
    Go.method v (fun p => Unwrap m p) = pure (unwrap h v) := by
  simp only [Go.method, hv, go_unwrap_eq hr]
  cases v <;> simp_all [embedded, unwrap]

/-! ### the headline property for the translated code -/

/-- `errors.Is` of the standard library (the documented loop, as in `GErrorIs.errorsIs`) calling the
TRANSLATED `Is` method of gerror values -/
def goErrorsIs (m : Go.Mem (GError Val σ)) (h : Heap) (fuel : Nat) (err target : Val) : Res :=
  if err = .nil ∨ target = .nil then .ofBool (err == target)
  else errorsIsLoop (fun n a t => Go.toRes (Is m n a t)) h fuel err target (GErrorIs.isComparable target)

theorem go_errorsIs_eq (hr : Rel m h) (fuel : Nat) (x y : Val) : goErrorsIs m h fuel x y = errorsIs h fuel x y := by
  have : (fun n a t => Go.toRes (Is m n a t)) = gIs h := by
    funext n a t; rw [go_is_eq hr, toRes_ofRes]
  unfold goErrorsIs errorsIs
  rw [this]

/-- errors.Is over the translated `Is`: true exactly when the two values come from the same factory -/
theorem go_is_iff_same_factory {cmds : List Cmd} (hd : inDomain 0 cmds = true) (hr : Rel m (run cmds).h) {i j : Nat}
    (hi : i < (run cmds).vals.length) (hj : j < (run cmds).vals.length) (n : Nat) :
    goErrorsIs m (run cmds).h (n + 3) ((run cmds).val i) ((run cmds).val j) = .ofBool (specIs cmds i j) := by
  rw [go_errorsIs_eq hr]; exact is_iff_same_factory hd hi hj n

/-- … for any foreign target: true exactly when that comparable error was converted on the way -/
theorem go_is_foreign_iff_converted {cmds : List Cmd} (hd : inDomain 0 cmds = true) (hr : Rel m (run cmds).h) {i : Nat}
    (hi : i < (run cmds).vals.length) (e : Val) (he : isForeign e = true) (n : Nat) :
    goErrorsIs m (run cmds).h (n + 2) ((run cmds).val i) e = .ofBool (GErrorIs.isComparable e && specIsForeign cmds i e) := by
  rw [go_errorsIs_eq hr]; exact is_foreign_iff_converted hd hi e he n

/-- the translated `Is` never panics on the heap of an in-domain history, whatever the receiver,
the target (gerror value, foreign error of any type, nil) and the fuel -/
theorem go_is_no_panic {cmds : List Cmd} (hd : inDomain 0 cmds = true) (hr : Rel m (run cmds).h) (fuel e : Nat) (err : Val) :
    Is m fuel e err ≠ throw Go.panicMsg := by
  rw [go_is_eq hr]
  intro hp
  exact gIs_ne_panic (good_run hd).wf fuel e err (ofRes_inj (b := .panic) hp)

/-! ### the 17 derivation methods

`Generated/GerrorBase.lean` (rewritten by harness/cmd/extract-gerror on every run) lists what each of the 19
factory methods of `*GError` hands to `CloneBase`.  The C06 model only needs the `srcError` column and the
leading `if gerr, ok := err.(Error); ok { return gerr }`: `Meth.srcArg` / `Meth.isConvert`. -/

/-- the method of the C15 wiring table -/
def _root_.GErrorIs.Meth.wiring : Meth → GErrClone.Method
  | .Base => .base | .SourceOnly => .sourceOnly | .Stack => .stack | .Src => .src | .DTag => .dTag | .Msg => .msg
  | .SrcDTagMsg => .srcDTagMsg | .SrcDTag => .srcDTag | .SrcMsg => .srcMsg | .DTagMsg => .dTagMsg | .SrcS => .srcS
  | .DTagS => .dTagS | .MsgS => .msgS | .SrcDTagMsgS => .srcDTagMsgS | .SrcDTagS => .srcDTagS | .SrcMsgS => .srcMsgS
  | .DTagMsgS => .dTagMsgS | .Convert => .convert | .ConvertS => .convertS

/-- In the code as it is now: exactly Convert/ConvertS pass their argument on to `CloneBase` as `srcError` (and
return a gerror argument unchanged); the 17 derivations pass `nil` - what `Meth.srcArg` and `callWith` assume. -/
theorem method_srcArg_wiring : ∀ mth ∈ Meth.all,
    (GErrClone.rowOf Generated.GerrorBase.rows mth.wiring).map (fun r => (r.err, r.shortCircuit)) =
      some (if mth.isConvert then (GErrClone.ErrArg.param 0, true) else (GErrClone.ErrArg.nil, false)) := by
  decide

/-- non-vacuity: every heap is represented by a memory -/
def memOf (h : Heap) : Go.Mem (GError Val Unit) :=
  { cell := fun a => ⟨[], [], [], [], (), (obj h a).factoryRef, (obj h a).srcErrors, (obj h a).isFactory⟩, next := h.length }

theorem rel_memOf (h : Heap) : Rel (memOf h) h := ⟨rfl, fun _ => rfl⟩

example : Go.toRes (Is (memOf (run [.newBase true, .call 0 .Msg .none]).h) 3 0 (.base 1)) = .t := by decide

end C06Tie

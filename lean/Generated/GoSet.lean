import Model.GoPrelude
/-! REGENERATED on every run by harness/cmd/go2lean -spec set from set/set.go. Do not edit.
Each definition follows the Go function of the same name statement by statement (see Model/GoPrelude.lean
for the meaning of the primitives).
`Set[T]` is `Go.GMap α` (nil or allocated, keys in walk order), `[]T` is `Go.Slice α`, a variadic
`...T` is a `List α`.  A method that writes through its receiver (pointer receiver, or a map receiver
it inserts into / deletes from) returns the receiver's new value next to its result.
Not translated: the four Marshal/Unmarshal methods (they call encoding/json and yaml.v3; modelled in
`SetM.Codec` with the codec as a parameter). -/
namespace Generated.GoSet

variable {α : Type} [DecidableEq α] [Inhabited α]

/-- `func Make[T comparable](items ...T) Set[T]` -/
def Make (items : List α) : Go.M (Go.GMap α) := do
  let mut s : Go.GMap α := (Go.mapMake (List.length items))
  for item in items do
    s ← Go.mapSet s item
  return s

/-- `func (s Set[T]) Slice() []T` -/
def Set.Slice (s : Go.GMap α) : Go.M (Go.Slice α) := do
  if ((Go.mapLen s) == 0) then
    return Go.sliceNil
  let mut result : Go.Slice α := (Go.sliceMake (Go.mapLen s))
  let mut i : Nat := 0
  for v in Go.mapKeys s do
    result ← Go.sliceSet result i v
    i := i + 1
  return result

/-- `func (s *Set[T]) Add(items ...T) bool` -/
def Set.Add (s : Go.GMap α) (items : List α) : Go.M (Go.GMap α × Bool) := do
  let mut s := s
  if (Go.mapIsNil s) then
    s := (Go.mapMake (List.length items))
  let mut added : Bool := false
  for item in items do
    if (!added) then
      let mut ok := Go.mapHas s item
      if (!ok) then
        added := true
    s ← Go.mapSet s item
  return (s, added)

/-- `func (s *Set[T]) AddSet(items Set[T]) bool` -/
def Set.AddSet (s : Go.GMap α) (items : Go.GMap α) : Go.M (Go.GMap α × Bool) := do
  let mut s := s
  if (Go.mapIsNil s) then
    s := (Go.mapMake (Go.mapLen items))
  let mut added : Bool := false
  for item in Go.mapKeys items do
    if (!added) then
      let mut ok := Go.mapHas s item
      if (!ok) then
        added := true
    s ← Go.mapSet s item
  return (s, added)

/-- `func (s Set[T]) Remove(items ...T) bool` -/
def Set.Remove (s : Go.GMap α) (items : List α) : Go.M (Go.GMap α × Bool) := do
  let mut s := s
  if ((Go.mapLen s) == 0) then
    return (s, false)
  let mut removed : Bool := false
  for item in items do
    if (!removed) then
      let mut ok := Go.mapHas s item
      if ok then
        removed := true
    s := Go.mapDelete s item
  return (s, removed)

/-- `func (s Set[T]) RemoveSet(items Set[T]) bool` -/
def Set.RemoveSet (s : Go.GMap α) (items : Go.GMap α) : Go.M (Go.GMap α × Bool) := do
  let mut s := s
  if ((Go.mapLen s) == 0) then
    return (s, false)
  let mut removed : Bool := false
  for item in Go.mapKeys items do
    if (!removed) then
      let mut ok := Go.mapHas s item
      if ok then
        removed := true
    s := Go.mapDelete s item
  return (s, removed)

/-- `func (s Set[T]) Has(items ...T) bool` -/
def Set.Has (s : Go.GMap α) (items : List α) : Go.M (Bool) := do
  if ((Go.mapLen s) == 0) then
    return false
  for item in items do
    let mut ok := Go.mapHas s item
    if (!ok) then
      return false
  return true

/-- `func (s Set[T]) HasAny(items ...T) bool` -/
def Set.HasAny (s : Go.GMap α) (items : List α) : Go.M (Bool) := do
  if ((Go.mapLen s) == 0) then
    return false
  for item in items do
    let mut ok := Go.mapHas s item
    if ok then
      return true
  return false

/-- the translated functions -/
def translated : List String := ["Make", "Set.Add", "Set.AddSet", "Set.Has", "Set.HasAny", "Set.Remove", "Set.RemoveSet", "Set.Slice"]

end Generated.GoSet

// h-gsort: correspondence runner for /repo/gsort (property C08).
//
// Tie B twice over (DESIGN.md section 6, C08): for every generated struct definition the real
// gsort CLI (built from /repo's current tree) is run, then
//  1. the body of every generated Less is parsed (go/parser) into the S-expression notation of
//     the Lean model and compared with the model's chain for that definition, and
//  2. the generated code is compiled with a probe program; Less on all pairs of the value space,
//     sort.Sort, sort.Stable, Swap and Len are compared with the model's evaluation.
package main

import (
	"flag"
	"fmt"
	"math/rand"
	"os"
	"path/filepath"
	"strconv"
	"strings"

	"verif/harness/internal/hx"
)

func harnessDirDefault() string {
	if wd, err := os.Getwd(); err == nil {
		if _, err := os.Stat(filepath.Join(wd, "go.work")); err == nil {
			return wd
		}
	}
	if exe, err := os.Executable(); err == nil {
		d := filepath.Join(filepath.Dir(exe), "..", "harness")
		if _, err := os.Stat(filepath.Join(d, "go.work")); err == nil {
			return d
		}
	}
	return "."
}

func main() {
	hdir := flag.String("harness-dir", "", "directory holding the harness go.work (default: cwd or <exe>/../harness)")
	f := hx.ParseFlags()
	if f.Prop != "C08" {
		fmt.Fprintln(os.Stderr, "h-gsort: unknown property", f.Prop)
		os.Exit(2)
	}
	if *hdir == "" {
		*hdir = harnessDirDefault()
	}
	w, err := newWorld(*hdir)
	if err != nil {
		fmt.Fprintln(os.Stderr, err)
		os.Exit(3)
	}
	defer w.close()
	code := run(f, w)
	w.close()
	os.Exit(code)
}

func firstWords(s string, n int) string {
	w := strings.Fields(s)
	if len(w) > n {
		w = w[:n]
	}
	return strings.Join(w, " ")
}

const rule = "non-trivial = the sorter under test has at least two keys (nested if-chain), or a bool key, or an accessor key"

func run(f *hx.Flags, w *world) int {
	m := &impl{w: w}
	r := hx.NewRunner(f, "h-gsort", m, rule)
	r.KeyOf = keyOf
	// the text of the generated Less is a prediction about the template's shape; the property's
	// observables are the compiled Less/sort results
	r.KindOf = func(d *hx.Disagreement) string {
		if ws := strings.Fields(d.Request); len(ws) >= 2 && ws[1] == "chain" {
			return "tie-broken"
		}
		return ""
	}
	// a regeneration history (layout, previous definition, edited definition) is the failing input
	// as a whole: the shrinker only drops query lines after it
	r.ShrinkKeep = func(lines []string, i int) bool {
		hist := false
		for _, l := range lines {
			hist = hist || strings.HasPrefix(l, "gso regen")
		}
		return hist && (strings.HasPrefix(lines[i], "gso layout") || strings.HasPrefix(lines[i], "gso def") || strings.HasPrefix(lines[i], "gso regen"))
	}
	if r.HandleReplay() {
		return 0
	}
	r.RunCorpus()
	g := &gen{r: r, w: w, rng: r.Rng, thorough: f.Tier == "thorough"}
	g.systematic()
	nRandom, batch := 5, 40
	if g.thorough {
		nRandom = 40
	}
	for b := 0; b < r.N(nRandom); b++ {
		var defs []*Def
		for i := 0; i < batch; i++ {
			defs = append(defs, g.randomDef())
		}
		g.emit(defs, true)
	}
	g.histories()
	g.outOfDomain()
	r.Res.Exhaustive = true
	r.Res.Notes["exhaustive"] = "Less is compared on ALL pairs of the value space (2-3 values per field) of every definition; sort/stable on all slices of length <= 4 for value spaces up to the tier's bound, random slices (length <= 200, 5 values per field) otherwise"
	r.Res.Extra["definitions"] = g.nDefs
	r.Res.Extra["sorters"] = g.nSorters
	r.Res.Extra["generator_runs"] = w.genRuns
	r.Res.Extra["go_builds"] = w.goBuilds
	r.Res.Extra["chains_compared"] = g.nChains
	r.Res.Extra["less_pairs_compared"] = g.nPairs
	r.Res.Extra["sort_queries"] = g.nSorts
	r.Res.Extra["regeneration_histories"] = g.nHist
	r.Res.Notes["histories"] = "regeneration histories: layout (struct in the directive file / in another file of the package, -in-file / $GOFILE, default / named output) x edit of the struct's tags (" + strings.Join(editKinds, ", ") + "), second generation over the previous output; all queries go to the code of the second generation"
	r.Finish()
	return 0
}

// keyOf: canonical class of a failing input.
func keyOf(d *hx.Disagreement) string {
	var def *Def
	history := false
	for _, l := range d.Case.Lines {
		if strings.HasPrefix(l, "gso def") || strings.HasPrefix(l, "gso regen") {
			def, _ = parseDefLine(l) // the CURRENT definition is the last one
		}
		history = history || strings.HasPrefix(l, "gso regen")
	}
	ws := strings.Fields(d.Request)
	if len(ws) < 2 {
		return "C08:protocol"
	}
	op := ws[1]
	if op == "def" {
		return "C08:generate:" + d.Impl
	}
	if op == "regen" {
		return "C08:regenerate:" + firstWords(d.Impl, 1)
	}
	if history {
		return "C08:after-regeneration:" + op
	}
	if def != nil && len(ws) >= 3 && def.lastKeyIsBool(ws[2]) {
		return "C08:bool-last-key"
	}
	return "C08:" + op
}

type gen struct {
	r        *hx.Runner
	w        *world
	rng      *rand.Rand
	thorough bool
	serial   int
	nDefs    int
	nSorters int
	nChains  int
	nPairs   int
	nSorts   int
	nHist    int
}

func (g *gen) nextSerial() int { g.serial++; return g.serial }

func identityView() []int { return []int{0, 1, 2, 3, 4} }

func (g *gen) randView() []int { return g.rng.Perm(nValues("named")) }

// systematic: every field type alone (value and pointer form), then all ordered pairs over a
// reduced type list in both priority orders — the smallest definitions come first so that the
// first disagreement of a class is a small one.
func (g *gen) systematic() {
	var defs []*Def
	for _, ty := range basicTypes {
		for _, ptr := range []bool{false, true} {
			n := g.nextSerial()
			name := fmt.Sprintf("S%dx", n)
			if ptr {
				name = "*" + name
			}
			f := FieldDef{Name: "F0", Ty: ty, Tags: []string{name + ",1"}}
			if ty == "named" {
				f.View = []int{2, 0, 4, 1, 3}
				f.Tags = []string{name + ",1,String()"}
			}
			defs = append(defs, &Def{Fields: []FieldDef{f}})
		}
	}
	// a named type compared directly (no accessor)
	defs = append(defs, &Def{Fields: []FieldDef{{Name: "F0", Ty: "named", View: []int{2, 0, 4, 1, 3}, Tags: []string{fmt.Sprintf("S%dx,1", g.nextSerial())}}}})
	red := []string{"string", "int", "uint8", "float64", "bool", "named"}
	for _, t0 := range red {
		for _, t1 := range red {
			for _, swap := range []bool{false, true} {
				n := g.nextSerial()
				name := fmt.Sprintf("S%dx", n)
				p0, p1 := "1", "2"
				if swap {
					p0, p1 = "5", "-5"
				}
				mk := func(nm, ty, p string) FieldDef {
					f := FieldDef{Name: nm, Ty: ty, Tags: []string{name + "," + p}}
					if ty == "named" {
						f.View = []int{1, 3, 0, 4, 2}
						f.Tags = []string{name + "," + p + ",String()"}
					}
					return f
				}
				defs = append(defs, &Def{Fields: []FieldDef{mk("A", t0, p0), mk("b", t1, p1)}})
			}
		}
	}
	g.emit(defs, true)
}

var fieldNames = []string{"Alpha", "beta", "Gamma", "delta", "Eps", "zeta", "Eta"}

// randomDef follows the quantifier: 1-5 tagged fields of the listed types, distinct priorities
// per sorter, one to three sorter names, `*Name` pointer form, accessor on named types.
func (g *gen) randomDef() *Def {
	rng := g.rng
	n := g.nextSerial()
	nTagged := 1 + rng.Intn(5)
	nSorters := 1 + rng.Intn(3)
	sorters := make([]string, nSorters)
	for i := range sorters {
		sorters[i] = fmt.Sprintf("S%d%c", n, 'a'+i)
		if rng.Intn(3) == 0 {
			sorters[i] = "*" + sorters[i]
		}
	}
	nFields := nTagged
	if rng.Intn(3) == 0 {
		nFields++ // one untagged field
	}
	perm := rng.Perm(len(fieldNames))
	d := &Def{}
	for i := 0; i < nFields; i++ {
		ty := basicTypes[rng.Intn(len(basicTypes))]
		switch rng.Intn(4) {
		case 0:
			ty = "bool"
		case 1:
			ty = "named"
		}
		f := FieldDef{Name: fieldNames[perm[i]], Ty: ty}
		if ty == "named" {
			f.View = g.randView()
		}
		d.Fields = append(d.Fields, f)
	}
	untagged := -1
	if nFields > nTagged {
		untagged = rng.Intn(nFields)
	}
	// priorities: distinct per sorter; dense, sparse, negative or large
	for si, s := range sorters {
		var members []int
		for i := range d.Fields {
			if i == untagged {
				continue
			}
			if si == 0 || rng.Intn(2) == 0 {
				members = append(members, i)
			}
		}
		if len(members) == 0 {
			for i := range d.Fields {
				if i != untagged {
					members = append(members, i)
					break
				}
			}
		}
		prios := g.distinctPriorities(len(members))
		for k, fi := range members {
			tag := s + "," + strconv.Itoa(prios[k])
			f := &d.Fields[fi]
			if f.Ty == "named" && rng.Intn(4) != 0 {
				tag += ",String()"
			} else if rng.Intn(12) == 0 {
				tag += "," // empty third option = no accessor
			}
			f.Tags = append(f.Tags, tag)
		}
	}
	return d
}

func (g *gen) distinctPriorities(n int) []int {
	rng := g.rng
	var pool []int
	switch rng.Intn(4) {
	case 0: // 1..n
		for i := 1; i <= n; i++ {
			pool = append(pool, i)
		}
	case 1: // around zero
		for i := 0; i < n+3; i++ {
			pool = append(pool, i-(n+3)/2)
		}
	case 2: // sparse
		seen := map[int]bool{}
		for len(pool) < n+2 {
			x := rng.Intn(2001) - 1000
			if !seen[x] {
				seen[x] = true
				pool = append(pool, x)
			}
		}
	default: // extremes
		pool = []int{-9223372036854775808, -1000000, -1, 0, 1, 10, 99, 9223372036854775807}
	}
	rng.Shuffle(len(pool), func(i, j int) { pool[i], pool[j] = pool[j], pool[i] })
	return pool[:n]
}

// value space of a definition: nvals[i] values (2 or 3, bool 2) for field i
func (g *gen) smallSpace(d *Def) []int {
	nv := make([]int, len(d.Fields))
	for i, f := range d.Fields {
		nv[i] = 2 + g.rng.Intn(2)
		if f.Ty == "bool" {
			nv[i] = 2
		}
		if len(f.Tags) == 0 {
			nv[i] = 1 + g.rng.Intn(2)
		}
	}
	return nv
}

func allRecs(nv []int) [][]int {
	recs := [][]int{{}}
	for _, n := range nv {
		var next [][]int
		for _, r := range recs {
			for v := 0; v < n; v++ {
				next = append(next, append(append([]int{}, r...), v))
			}
		}
		recs = next
	}
	return recs
}

func recsString(recs [][]int) string {
	if len(recs) == 0 {
		return "-"
	}
	parts := make([]string, len(recs))
	for i, r := range recs {
		s := make([]string, len(r))
		for k, x := range r {
			s[k] = strconv.Itoa(x)
		}
		parts[i] = strings.Join(s, ",")
	}
	return strings.Join(parts, ";")
}

func (g *gen) nontrivial(d *Def, raw string) bool {
	ks := d.keysOf(raw)
	if len(ks) >= 2 {
		return true
	}
	for _, k := range ks {
		if d.Fields[k.field].Ty == "bool" || k.accessor {
			return true
		}
	}
	return false
}

// emit prepares the batch on the implementation side (one generator run, one go build) and
// adds the cases of every definition.
func (g *gen) emit(defs []*Def, domain bool) {
	g.w.prepare(defs)
	for _, d := range defs {
		g.nDefs++
		g.emitCases([]string{fmt.Sprintf("case gsort %d", g.nDefs), d.Line()}, d, domain, nil)
	}
}

// emitCases adds the cases of ONE definition; prefix = the request lines that establish it on both
// sides (header + `gso def`, or header + layout + def + regen for a regeneration history).
func (g *gen) emitCases(prefix []string, d *Def, domain bool, extra []string) {
	pre := func(more ...string) []string { return append(append([]string{}, prefix...), more...) }
	nv := g.smallSpace(d)
	space := allRecs(nv)
	sorters := d.Sorters()
	if len(sorters) == 0 {
		g.r.Add(hx.Case{Lines: pre(), Domain: domain, Tags: append([]string{"no-sorter"}, extra...)})
		return
	}
	for _, raw := range sorters {
		g.nSorters++
		nt := g.nontrivial(d, raw)
		tags := []string{fmt.Sprintf("keys:%d", len(d.keysOf(raw)))}
		if strings.HasPrefix(raw, "*") {
			tags = append(tags, "pointer-form")
		} else {
			tags = append(tags, "value-form")
		}
		for _, k := range d.keysOf(raw) {
			t := "key:" + d.Fields[k.field].Ty
			if k.accessor {
				t += ".String()"
			}
			tags = append(tags, t)
		}
		if d.lastKeyIsBool(raw) {
			tags = append(tags, "bool-last-key")
		}
		// (2a) Less on all pairs of the value space
		g.r.Add(hx.Case{Lines: pre("gso lessall " + raw + " " + recsString(space)), Domain: domain, Nontrivial: nt, Tags: append([]string{"less-all-pairs"}, extra...)})
		g.nPairs += len(space) * len(space)
		// (1) the generated program itself
		g.r.Add(hx.Case{Lines: pre("gso chain " + raw), Domain: domain, Nontrivial: nt, Tags: append(append([]string{"chain"}, tags...), extra...)})
		g.nChains++
		// (2b) sorting
		lines := pre()
		bound := 4
		if g.thorough {
			bound = 9
		}
		if len(space) <= bound {
			// all slices of length <= 4
			var slices [][][]int
			cur := [][][]int{{}}
			for l := 1; l <= 4; l++ {
				var next [][][]int
				for _, s := range cur {
					for _, r := range space {
						next = append(next, append(append([][]int{}, s...), r))
					}
				}
				slices = append(slices, next...)
				cur = next
			}
			for _, s := range slices {
				rs := recsString(s)
				lines = append(lines, "gso sort "+raw+" "+rs, "gso stable "+raw+" "+rs)
				g.nSorts += 2
				if len(lines) > 400+len(prefix) {
					g.r.Add(hx.Case{Lines: lines, Domain: domain, Nontrivial: nt, Tags: append([]string{"sort-exhaustive-len<=4"}, extra...)})
					lines = pre()
				}
			}
			if len(lines) > len(prefix) {
				g.r.Add(hx.Case{Lines: lines, Domain: domain, Nontrivial: nt, Tags: append([]string{"sort-exhaustive-len<=4"}, extra...)})
			}
			lines = pre()
		}
		// random slices: short over the small space, long over the full tables
		nShort, nLong := 6, 3
		if g.thorough {
			nShort, nLong = 20, 10
		}
		for i := 0; i < nShort; i++ {
			n := g.rng.Intn(5)
			s := make([][]int, n)
			for k := range s {
				s[k] = space[g.rng.Intn(len(space))]
			}
			rs := recsString(s)
			lines = append(lines, "gso sort "+raw+" "+rs, "gso stable "+raw+" "+rs)
			g.nSorts += 2
		}
		for i := 0; i < nLong; i++ {
			n := 5 + g.rng.Intn(196)
			if i == 0 {
				n = 200
			}
			width := 2 + g.rng.Intn(4) // few distinct values => many ties
			s := make([][]int, n)
			for k := range s {
				rec := make([]int, len(d.Fields))
				for fi, f := range d.Fields {
					m := nValues(f.Ty)
					if m > width {
						m = width
					}
					rec[fi] = g.rng.Intn(m)
				}
				s[k] = rec
			}
			rs := recsString(s)
			lines = append(lines, "gso sort "+raw+" "+rs, "gso stable "+raw+" "+rs)
			g.nSorts += 2
		}
		n := 1 + g.rng.Intn(6)
		lines = append(lines, fmt.Sprintf("gso swap %s %d %d %d", raw, g.rng.Intn(n), g.rng.Intn(n), n))
		g.r.Add(hx.Case{Lines: lines, Domain: domain, Nontrivial: nt, Tags: append([]string{"sort-random"}, extra...)})
	}
}

// outOfDomain: definitions the quantifier does not cover (duplicate priorities, malformed tags,
// priority omitted).  Compared, but recorded as drift only.
func (g *gen) outOfDomain() {
	mk := func(tags0, tags1 []string) *Def {
		return &Def{Fields: []FieldDef{{Name: "A", Ty: "int", Tags: tags0}, {Name: "B", Ty: "string", Tags: tags1}}}
	}
	n := g.nextSerial()
	s := fmt.Sprintf("S%dx", n)
	defs := []*Def{
		mk([]string{s + "a,1"}, []string{s + "a,1"}),                // duplicate priority
		mk([]string{s + "b,1,String(),extra"}, []string{s + "b,2"}), // four options
		mk([]string{s + "c,one"}, []string{s + "c,2"}),              // priority not an int
		mk([]string{s + "d"}, []string{s + "d,2"}),                  // priority omitted (= 0)
		mk([]string{s + "e,+3"}, []string{s + "e,2"}),               // explicit plus sign
		mk(nil, nil), // no tag at all
	}
	if !g.thorough {
		defs = defs[:4]
	}
	for _, d := range defs {
		g.emit([]*Def{d}, false)
	}
}

#!/bin/bash
# Runs /repo's own test-suite with the `verif` build tag OFF (no hooks exist; see MANIFEST.hooks).
export GOPROXY=off GOSUMDB=off GOTOOLCHAIN=local GOFLAGS=
rc=0
for m in gconfig gencommon genum gerror gogenproto gogenproto/internal gsort gsync log rutils set; do
  (cd /repo/$m && go test -vet=off -count=1 -timeout 25m ./...) || rc=1
done
exit $rc

// go2lean -spec gsort: translation of the functions of gsort/gen/sorter_desc.go that decide what the
// generated `Less` looks like (C08):
//
//	CompareLine.HasNest, CompareLine.String        what the template prints / branches on
//	SorterDesc.PriorityTree                        the chain of CompareLine cells (built through pointers)
//	SorterDesc.SortTypeName, SorterDesc.UsePointer the name and element form of the generated type
//	SortFieldDescs.Validate                        through the TRANSLATED set.Set.Add / set.Make (Generated/GoSet.lean)
//	sfdFromLine                                    one `gsort:"…"` tag
//	SortFieldDescs.Less                            from the GENERATED gsort/gen/sorter_desc.gsort.go: what sort.Sort compares with
//
// Fragment (anything else makes the translator fail): parameters and locals of kind bool / string / int /
// error / *CompareLine / struct value / []string / SortFieldDescs / set.Set[int]; `:=`, `=`, `+=` on strings,
// `var err error`; field reads; field writes through a *CompareLine (a cell of the heap of CompareLine cells,
// `&CompareLine{}` allocates one) and into a struct the function allocated itself with `&T{}` (held as a
// local value: the pointer does not escape before the return); `for i, v := range <slice>`; if / else-if /
// else; early return; string concatenation, comparisons, `len`, constant indexing (a panic when out of
// range); calls of strings.TrimPrefix / HasPrefix / Split, strconv.Atoi, sort.Sort (parameters `Env`),
// errors.New (an error is `some message`, nil is `none`), set.Make[int]() and Set.Add (translated).
// A `types.Type` is represented by what its String method returns (nothing else is read from it).
package main

import (
	"fmt"
	"go/ast"
	"go/parser"
	"go/token"
	"os"
	"path/filepath"
	"strconv"
	"strings"
)

func init() { register("gsort", "../lean/Generated/GoGSort.lean", runGSort) }

type gsField struct{ name, kind string }

type gs struct {
	structs  map[string][]gsField
	env      []map[string]string
	out      strings.Builder
	n        int
	rets     []string
	usesEnv  bool
	usesHeap bool
	fn       string
}

func (t *gs) fail(n ast.Node, what string) {
	fail("gsort: %s: %s: `%s` is outside the translated fragment (%s)", t.fn, at(n), src(n), what)
}

func (t *gs) line(ind int, s string) { t.out.WriteString(strings.Repeat("  ", ind) + s + "\n") }
func (t *gs) push()                  { t.env = append(t.env, map[string]string{}) }
func (t *gs) pop()                   { t.env = t.env[:len(t.env)-1] }
func (t *gs) bind(n, k string)       { t.env[len(t.env)-1][n] = k }
func (t *gs) lookup(n string) (string, bool) {
	for i := len(t.env) - 1; i >= 0; i-- {
		if k, ok := t.env[i][n]; ok {
			return k, true
		}
	}
	return "", false
}
func (t *gs) tmp(p string) string { t.n++; return fmt.Sprintf("%s%d", p, t.n) }

// kinds of the struct fields and of the declared types, by the spelling of the Go type
var gsTypeKinds = map[string]string{
	"bool": "bool", "string": "str", "int": "int", "error": "err", "types.Type": "type",
	"*CompareLine": "ptr", "CompareLine": "val:CompareLine", "SortFieldDescs": "sfds", "[]string": "strs",
	"*SortFieldDesc": "val:SortFieldDesc", "SortFieldDesc": "val:SortFieldDesc",
	"*SorterDesc": "val:SorterDesc", "SorterDesc": "val:SorterDesc",
}

func gsLeanType(k string) string {
	switch k {
	case "bool":
		return "Bool"
	case "str", "type":
		return "String"
	case "int":
		return "Int"
	case "idx":
		return "Nat"
	case "err":
		return "Option String"
	case "ptr":
		return "Go.Ptr"
	case "sfds":
		return "List SortFieldDesc"
	case "strs":
		return "List String"
	case "iset":
		return "Go.GMap Int"
	case "optsfd":
		return "Option SortFieldDesc"
	}
	if strings.HasPrefix(k, "val:") {
		return k[4:]
	}
	if strings.HasPrefix(k, "new:") {
		return k[4:]
	}
	fail("gsort: no Lean type for kind %q", k)
	return ""
}

func gsZero(k string) string {
	switch k {
	case "bool":
		return "false"
	case "str", "type":
		return `""`
	case "int":
		return "0"
	case "err", "ptr":
		return "none"
	case "sfds", "strs":
		return "[]"
	}
	fail("gsort: no zero value for kind %q", k)
	return ""
}

func gsStr(goLit string, n ast.Node) string {
	s, err := strconv.Unquote(goLit)
	if err != nil {
		fail("gsort: %s: string literal %s", at(n), goLit)
	}
	for _, r := range s {
		if r < 0x20 || r > 0x7e || r == '"' || r == '\\' {
			fail("gsort: %s: string literal %s holds a character the translator does not spell", at(n), goLit)
		}
	}
	return `"` + s + `"`
}

func (t *gs) fieldKind(structName, field string, n ast.Node) string {
	for _, f := range t.structs[structName] {
		if f.name == field {
			return f.kind
		}
	}
	t.fail(n, "no field "+field+" in struct "+structName)
	return ""
}

func structOf(k string) (string, bool) {
	if strings.HasPrefix(k, "val:") || strings.HasPrefix(k, "new:") {
		return k[4:], true
	}
	return "", false
}

// ex: Lean expression and kind of a Go expression
func (t *gs) ex(e ast.Expr) (string, string) {
	switch x := e.(type) {
	case *ast.ParenExpr:
		return t.ex(x.X)
	case *ast.Ident:
		switch x.Name {
		case "true", "false":
			return x.Name, "bool"
		case "nil":
			return "none", "nil"
		}
		if k, ok := t.lookup(x.Name); ok {
			return name(x.Name), k
		}
		t.fail(e, "not a parameter or local")
	case *ast.BasicLit:
		switch x.Kind {
		case token.STRING:
			return gsStr(x.Value, x), "str"
		case token.INT:
			if _, err := strconv.ParseUint(x.Value, 10, 31); err == nil {
				return x.Value, "int"
			}
		}
	case *ast.SelectorExpr:
		b, k := t.ex(x.X)
		if sn, ok := structOf(k); ok {
			return b + "." + name(x.Sel.Name), t.fieldKind(sn, x.Sel.Name, e)
		}
		if k == "ptr" {
			t.usesHeap = true
			return "(← Go.load heap " + b + ")." + name(x.Sel.Name), t.fieldKind("CompareLine", x.Sel.Name, e)
		}
	case *ast.IndexExpr:
		a, ka := t.ex(x.X)
		if ka == "strs" || ka == "sfds" {
			i, ki := t.ex(x.Index)
			_, lit := x.Index.(*ast.BasicLit)
			if ki == "idx" || (ki == "int" && lit) {
				ek := "str"
				if ka == "sfds" {
					ek = "val:SortFieldDesc"
				}
				return "(← Go.listGet " + a + " " + i + ")", ek
			}
		}
	case *ast.UnaryExpr:
		if x.Op == token.NOT {
			a, k := t.ex(x.X)
			if k == "bool" {
				return "(!" + a + ")", "bool"
			}
		}
	case *ast.BinaryExpr:
		a, ka := t.ex(x.X)
		b, kb := t.ex(x.Y)
		if ka == "type" || kb == "type" {
			break
		}
		switch x.Op {
		case token.ADD:
			if ka == "str" && kb == "str" {
				return "(" + a + " ++ " + b + ")", "str"
			}
		case token.SUB:
			if ka == "int" && kb == "int" {
				return "(" + a + " - " + b + ")", "int"
			}
		case token.EQL, token.NEQ:
			op := " == "
			if x.Op == token.NEQ {
				op = " != "
			}
			if ka == kb && (ka == "str" || ka == "int" || ka == "bool") {
				return "(" + a + op + b + ")", "bool"
			}
			if (kb == "nil" && (ka == "ptr" || ka == "err")) || (ka == "nil" && (kb == "ptr" || kb == "err")) {
				return "(" + a + op + b + ")", "bool"
			}
		case token.LSS, token.GTR, token.LEQ, token.GEQ:
			if ka == "int" && kb == "int" {
				op := map[token.Token]string{token.LSS: " < ", token.GTR: " > ", token.LEQ: " ≤ ", token.GEQ: " ≥ "}[x.Op]
				return "(decide (" + a + op + b + "))", "bool"
			}
		case token.LAND, token.LOR:
			if ka == "bool" && kb == "bool" {
				op := " && "
				if x.Op == token.LOR {
					op = " || "
				}
				return "(" + a + op + b + ")", "bool"
			}
		}
	case *ast.CallExpr:
		if x.Ellipsis.IsValid() {
			break
		}
		var as, ks []string
		arg := func() {
			for _, a := range x.Args {
				s, k := t.ex(a)
				as, ks = append(as, s), append(ks, k)
			}
		}
		sig := func(want ...string) bool {
			if len(ks) != len(want) {
				return false
			}
			for i := range ks {
				if ks[i] != want[i] {
					return false
				}
			}
			return true
		}
		switch src(x.Fun) {
		case "len":
			arg()
			if sig("strs") || sig("sfds") {
				return "(Int.ofNat (List.length " + as[0] + "))", "int"
			}
		case "strings.TrimPrefix":
			arg()
			if sig("str", "str") {
				t.usesEnv = true
				return "(env.trimPrefix " + as[0] + " " + as[1] + ")", "str"
			}
		case "strings.HasPrefix":
			arg()
			if sig("str", "str") {
				t.usesEnv = true
				return "(env.hasPrefix " + as[0] + " " + as[1] + ")", "bool"
			}
		case "strings.Split":
			arg()
			if sig("str", "str") {
				t.usesEnv = true
				return "(env.split " + as[0] + " " + as[1] + ")", "strs"
			}
		case "errors.New":
			arg()
			if sig("str") {
				return "(some " + as[0] + ")", "err"
			}
		case "set.Make[int]":
			if len(x.Args) == 0 {
				return "(← Generated.GoSet.Make ([] : List Int))", "iset"
			}
		default:
			// X.String() of a types.Type: the representation itself
			if sel, ok := x.Fun.(*ast.SelectorExpr); ok && sel.Sel.Name == "String" && len(x.Args) == 0 {
				if a, k := t.ex(sel.X); k == "type" {
					return a, "str"
				}
			}
		}
	}
	t.fail(e, "expression")
	return "", ""
}

// place: an assignable location -> (kind, function writing a value into it)
func (t *gs) place(e ast.Expr) (string, func(ind int, v string)) {
	switch x := e.(type) {
	case *ast.Ident:
		k, ok := t.lookup(x.Name)
		if !ok {
			t.fail(e, "assignment to something that is not a parameter or local")
		}
		return k, func(ind int, v string) { t.line(ind, name(x.Name)+" := "+v) }
	case *ast.SelectorExpr:
		id, ok := x.X.(*ast.Ident)
		if !ok {
			break
		}
		k, ok := t.lookup(id.Name)
		if !ok {
			break
		}
		f := name(x.Sel.Name)
		switch {
		case k == "ptr":
			t.usesHeap = true
			return t.fieldKind("CompareLine", x.Sel.Name, e), func(ind int, v string) {
				t.line(ind, "heap ← Go.store heap "+name(id.Name)+" { (← Go.load heap "+name(id.Name)+") with "+f+" := "+v+" }")
			}
		case strings.HasPrefix(k, "new:"):
			return t.fieldKind(k[4:], x.Sel.Name, e), func(ind int, v string) {
				t.line(ind, name(id.Name)+" := { "+name(id.Name)+" with "+f+" := "+v+" }")
			}
		}
	}
	t.fail(e, "assignment target (only locals, fields behind a *CompareLine, fields of a struct allocated here)")
	return "", nil
}

// newOf: `&T{}` -> T
func newOf(e ast.Expr) (string, bool) {
	u, ok := e.(*ast.UnaryExpr)
	if !ok || u.Op != token.AND {
		return "", false
	}
	cl, ok := u.X.(*ast.CompositeLit)
	if !ok || len(cl.Elts) != 0 {
		return "", false
	}
	id, ok := cl.Type.(*ast.Ident)
	if !ok {
		return "", false
	}
	return id.Name, true
}

// rhs: value of the right-hand side of an assignment (allocations are hoisted into their own lines)
func (t *gs) rhs(ind int, e ast.Expr) (string, string) {
	if tn, ok := newOf(e); ok {
		switch tn {
		case "CompareLine":
			t.usesHeap = true
			a := t.tmp("a")
			t.line(ind, "let "+a+" := Go.new heap CompareLine.zero")
			t.line(ind, "heap := "+a+".1")
			return a + ".2", "ptr"
		case "SortFieldDesc":
			return "SortFieldDesc.zero", "new:SortFieldDesc"
		}
		t.fail(e, "allocation of a type other than CompareLine / SortFieldDesc")
	}
	return t.ex(e)
}

func compatible(place, val string) bool {
	return place == val || (val == "nil" && (place == "ptr" || place == "err"))
}

func rootIdent_gsort(e ast.Expr) string {
	for {
		switch x := e.(type) {
		case *ast.Ident:
			return x.Name
		case *ast.SelectorExpr:
			e = x.X
		case *ast.IndexExpr:
			e = x.X
		case *ast.ParenExpr:
			e = x.X
		case *ast.StarExpr:
			e = x.X
		default:
			return ""
		}
	}
}

func assignsRoot(b *ast.BlockStmt, root string) bool {
	hit := false
	ast.Inspect(b, func(n ast.Node) bool {
		switch x := n.(type) {
		case *ast.AssignStmt:
			for _, l := range x.Lhs {
				if rootIdent_gsort(l) == root {
					hit = true
				}
			}
		case *ast.IncDecStmt:
			if rootIdent_gsort(x.X) == root {
				hit = true
			}
		case *ast.CallExpr:
			if src(x.Fun) == "sort.Sort" || src(x.Fun) == "append" {
				for _, a := range x.Args {
					if rootIdent_gsort(a) == root {
						hit = true
					}
				}
			}
		}
		return true
	})
	return hit
}

func (t *gs) stmt(ind int, s ast.Stmt) {
	switch x := s.(type) {
	case *ast.ExprStmt:
		// sort.Sort(sd.Fields): the sorted slice takes the place of the old one
		if c, ok := x.X.(*ast.CallExpr); ok && src(c.Fun) == "sort.Sort" && len(c.Args) == 1 && !c.Ellipsis.IsValid() {
			v, k := t.ex(c.Args[0])
			if k == "sfds" {
				if sel, ok := c.Args[0].(*ast.SelectorExpr); ok {
					if id, ok := sel.X.(*ast.Ident); ok {
						if kk, _ := t.lookup(id.Name); strings.HasPrefix(kk, "val:") {
							t.usesEnv = true
							t.line(ind, name(id.Name)+" := { "+name(id.Name)+" with "+name(sel.Sel.Name)+" := env.sortSort "+v+" }")
							return
						}
					}
				}
			}
		}
	case *ast.DeclStmt:
		if gd, ok := x.Decl.(*ast.GenDecl); ok && gd.Tok == token.VAR && len(gd.Specs) == 1 {
			vs := gd.Specs[0].(*ast.ValueSpec)
			if len(vs.Names) == 1 && len(vs.Values) == 0 && vs.Type != nil && src(vs.Type) == "error" {
				t.bind(vs.Names[0].Name, "err")
				t.line(ind, "let mut "+name(vs.Names[0].Name)+" : Option String := none")
				return
			}
		}
	case *ast.AssignStmt:
		t.assign(ind, x)
		return
	case *ast.IfStmt:
		t.ifStmt(ind, x)
		return
	case *ast.RangeStmt:
		t.rangeStmt(ind, x)
		return
	case *ast.ReturnStmt:
		t.ret(ind, x)
		return
	}
	t.fail(s, "statement")
}

func (t *gs) block(ind int, b *ast.BlockStmt) {
	t.push()
	if len(b.List) == 0 {
		t.line(ind, "pure ()")
	}
	for _, s := range b.List {
		t.stmt(ind, s)
	}
	t.pop()
}

func (t *gs) assign(ind int, x *ast.AssignStmt) {
	// `a, err = strconv.Atoi(e)`
	if len(x.Lhs) == 2 && len(x.Rhs) == 1 && x.Tok == token.ASSIGN {
		if c, ok := x.Rhs[0].(*ast.CallExpr); ok && src(c.Fun) == "strconv.Atoi" && len(c.Args) == 1 && !c.Ellipsis.IsValid() {
			a, ka := t.ex(c.Args[0])
			k0, w0 := t.place(x.Lhs[0])
			k1, w1 := t.place(x.Lhs[1])
			if ka == "str" && k0 == "int" && k1 == "err" {
				t.usesEnv = true
				p := t.tmp("p")
				t.line(ind, "let "+p+" := env.atoi "+a)
				w0(ind, p+".1")
				w1(ind, p+".2")
				return
			}
		}
	}
	if len(x.Lhs) != 1 || len(x.Rhs) != 1 {
		t.fail(x, "assignment")
	}
	switch x.Tok {
	case token.DEFINE:
		id, ok := x.Lhs[0].(*ast.Ident)
		if !ok || id.Name == "_" {
			t.fail(x, "definition")
		}
		v, k := t.rhs(ind, x.Rhs[0])
		if k == "nil" {
			t.fail(x, "definition from nil")
		}
		t.bind(id.Name, k)
		t.line(ind, "let mut "+name(id.Name)+" : "+gsLeanType(k)+" := "+v)
	case token.ASSIGN:
		kp, w := t.place(x.Lhs[0])
		v, k := t.rhs(ind, x.Rhs[0])
		if !compatible(kp, k) {
			t.fail(x, "a "+k+" assigned to a "+kp)
		}
		w(ind, v)
	case token.ADD_ASSIGN:
		kp, w := t.place(x.Lhs[0])
		cur, kc := t.ex(x.Lhs[0])
		v, k := t.ex(x.Rhs[0])
		if kp != "str" || kc != "str" || k != "str" {
			t.fail(x, "+= on something that is not a string")
		}
		w(ind, "("+cur+" ++ "+v+")")
	default:
		t.fail(x, "assignment operator")
	}
}

// addCall: `K.Add(e)` on a set.Set[int] local
func (t *gs) addCall(e ast.Expr) (*ast.Ident, ast.Expr, bool) {
	c, ok := e.(*ast.CallExpr)
	if !ok || len(c.Args) != 1 || c.Ellipsis.IsValid() {
		return nil, nil, false
	}
	sel, ok := c.Fun.(*ast.SelectorExpr)
	if !ok || sel.Sel.Name != "Add" {
		return nil, nil, false
	}
	id, ok := sel.X.(*ast.Ident)
	if !ok {
		return nil, nil, false
	}
	if k, _ := t.lookup(id.Name); k != "iset" {
		return nil, nil, false
	}
	return id, c.Args[0], true
}

func (t *gs) ifStmt(ind int, x *ast.IfStmt) {
	if x.Init != nil {
		t.fail(x, "if with an init statement")
	}
	var cond string
	neg := false
	ce := x.Cond
	if u, ok := ce.(*ast.UnaryExpr); ok && u.Op == token.NOT {
		if _, _, ok := t.addCall(u.X); ok {
			neg, ce = true, u.X
		}
	}
	if id, arg, ok := t.addCall(ce); ok {
		// the translated Set.Add returns the receiver's new value next to its result
		a, ka := t.ex(arg)
		if ka != "int" {
			t.fail(arg, "Add of a non-int")
		}
		r := t.tmp("r")
		t.line(ind, "let "+r+" ← Generated.GoSet.Set.Add "+name(id.Name)+" ["+a+"]")
		t.line(ind, name(id.Name)+" := "+r+".1")
		cond = r + ".2"
		if neg {
			cond = "(!" + cond + ")"
		}
	} else {
		c, k := t.ex(x.Cond)
		if k != "bool" {
			t.fail(x.Cond, "condition")
		}
		cond = c
	}
	t.line(ind, "if "+cond+" then")
	t.block(ind+1, x.Body)
	switch e := x.Else.(type) {
	case nil:
	case *ast.BlockStmt:
		t.line(ind, "else")
		t.block(ind+1, e)
	case *ast.IfStmt:
		t.line(ind, "else")
		t.ifStmt(ind+1, e)
	default:
		t.fail(x, "else")
	}
}

func (t *gs) rangeStmt(ind int, x *ast.RangeStmt) {
	if x.Tok != token.DEFINE {
		t.fail(x, "range without :=")
	}
	over, k := t.ex(x.X)
	ek := ""
	switch k {
	case "sfds":
		ek = "val:SortFieldDesc"
	case "strs":
		ek = "str"
	default:
		t.fail(x.X, "range over something that is not a slice")
	}
	if r := rootIdent_gsort(x.X); r == "" || assignsRoot(x.Body, r) {
		t.fail(x, "the ranged slice is written in the loop body")
	}
	key, okk := x.Key.(*ast.Ident)
	val, okv := x.Value.(*ast.Ident)
	if !okk || !okv || val.Name == "_" {
		t.fail(x, "only `for i, v := range` / `for _, v := range`")
	}
	if assignsRoot(x.Body, val.Name) || (key.Name != "_" && assignsRoot(x.Body, key.Name)) {
		t.fail(x, "the loop variables are written in the loop body")
	}
	t.push()
	if key.Name == "_" {
		t.bind(val.Name, ek)
		t.line(ind, "for "+name(val.Name)+" in "+over+" do")
	} else {
		iv := t.tmp("iv")
		t.bind(val.Name, ek)
		t.bind(key.Name, "int")
		t.line(ind, "for "+iv+" in List.zipIdx "+over+" do")
		t.line(ind+1, "let "+name(val.Name)+" : "+gsLeanType(ek)+" := "+iv+".1")
		t.line(ind+1, "let "+name(key.Name)+" : Int := Int.ofNat "+iv+".2")
	}
	t.block(ind+1, x.Body)
	t.pop()
}

func (t *gs) ret(ind int, x *ast.ReturnStmt) {
	if len(x.Results) != len(t.rets) {
		t.fail(x, "number of results")
	}
	var vs []string
	for i, r := range x.Results {
		v, k := t.ex(r)
		want := t.rets[i]
		switch {
		case want == "optsfd" && k == "nil":
			v = "none"
		case want == "optsfd" && k == "new:SortFieldDesc":
			v = "(some " + v + ")"
		case compatible(want, k):
		default:
			t.fail(r, "a "+k+" returned as a "+want)
		}
		vs = append(vs, v)
	}
	val := strings.Join(vs, ", ")
	if len(vs) > 1 {
		val = "(" + val + ")"
	}
	if t.usesHeapResult() {
		val = "(heap, " + val + ")"
	}
	t.line(ind, "return "+val)
}

func (t *gs) usesHeapResult() bool { return len(t.rets) == 1 && t.rets[0] == "ptr" }

type gsFn struct {
	key    string    // `Name` or `Recv.Name`
	goSig  string    // the signature the translation assumes
	params []gsField // Lean parameters in order (receiver first)
	rets   []string  // result kinds
	muts   []string  // parameters the body assigns to
}

func gsDecls(file *ast.File) (map[string]*ast.FuncDecl, map[string]ast.Expr) {
	fns, types := map[string]*ast.FuncDecl{}, map[string]ast.Expr{}
	for _, d := range file.Decls {
		switch x := d.(type) {
		case *ast.FuncDecl:
			key := x.Name.Name
			if x.Recv != nil && len(x.Recv.List) == 1 {
				key = recvTypeName(x.Recv.List[0].Type) + "." + key
			}
			if x.Body != nil {
				fns[key] = x
			}
		case *ast.GenDecl:
			if x.Tok == token.TYPE {
				for _, sp := range x.Specs {
					ts := sp.(*ast.TypeSpec)
					types[ts.Name.Name] = ts.Type
				}
			}
		}
	}
	return fns, types
}

func (t *gs) function(b *strings.Builder, fns map[string]*ast.FuncDecl, f gsFn, file string) {
	fd := fns[f.key]
	if fd == nil {
		fail("gsort: %s: function %s not found", file, f.key)
	}
	got := src(&ast.FuncDecl{Recv: fd.Recv, Name: fd.Name, Type: fd.Type})
	if got != f.goSig {
		fail("gsort: %s is declared as `%s`; the translation assumes `%s`", f.key, got, f.goSig)
	}
	t.fn = f.key
	t.env, t.n, t.usesEnv, t.usesHeap, t.rets = nil, 0, false, false, f.rets
	t.out.Reset()
	t.push()
	sig := ""
	for _, p := range f.params {
		t.bind(p.name, p.kind)
		sig += " (" + name(p.name) + " : " + gsLeanType(p.kind) + ")"
	}
	for _, p := range f.params {
		if assignsRoot(fd.Body, p.name) {
			if !strings.HasPrefix(p.kind, "val:") {
				t.fail(fd, "parameter "+p.name+" is written")
			}
			t.line(1, "let mut "+name(p.name)+" := "+name(p.name))
		}
	}
	for _, s := range fd.Body.List {
		t.stmt(1, s)
	}
	if n := len(fd.Body.List); n == 0 || !endsInReturn(fd.Body.List[n-1]) {
		fail("gsort: %s can fall off its end", f.key)
	}
	var rts []string
	for _, k := range f.rets {
		rts = append(rts, gsLeanType(k))
	}
	ret := strings.Join(rts, " × ")
	body := t.out.String()
	if t.usesHeap {
		if !t.usesHeapResult() {
			fail("gsort: %s uses CompareLine cells but does not return a *CompareLine", f.key)
		}
		ret = "Go.Heap CompareLine × " + ret
		body = "  let mut heap : Go.Heap CompareLine := []\n" + body
	} else if t.usesHeapResult() {
		fail("gsort: %s returns a *CompareLine without allocating", f.key)
	}
	if t.usesEnv {
		sig = " (env : Env)" + sig
	}
	lean := f.key
	fmt.Fprintf(b, "/-- `%s` -/\ndef %s%s : Go.M (%s) := do\n%s\n", got, lean, sig, ret, body)
}

func runGSort(repo, out string) {
	const rel = "gsort/gen/sorter_desc.go"
	const relGen = "gsort/gen/sorter_desc.gsort.go"
	file, err := parser.ParseFile(fset, filepath.Join(repo, rel), nil, 0)
	if err != nil {
		fail("%v", err)
	}
	gen, err := parser.ParseFile(fset, filepath.Join(repo, relGen), nil, 0)
	if err != nil {
		fail("%v", err)
	}
	fns, types := gsDecls(file)
	gfns, gtypes := gsDecls(gen)
	if ty := gtypes["SortFieldDescs"]; ty == nil || src(ty) != "[]*SortFieldDesc" {
		fail("gsort: %s: type SortFieldDescs is not declared as `[]*SortFieldDesc`", relGen)
	}
	t := &gs{structs: map[string][]gsField{}}
	var b strings.Builder
	b.WriteString("import Model.GoHeap\nimport Generated.GoSet\n")
	b.WriteString("/-! REGENERATED on every run by harness/cmd/go2lean -spec gsort from " + rel + " and (SortFieldDescs.Less)\n" + relGen + ".  Do not edit.\n" +
		"Each definition follows the Go function of the same name statement by statement.  A `*CompareLine` is an\n" +
		"address in the heap of CompareLine cells (`Go.Heap`, `Go.Ptr`: Model/GoHeap.lean); a function that allocates\n" +
		"returns the heap it built next to its result.  `*SortFieldDesc` / `*SorterDesc` that are only read are the struct\n" +
		"values; a struct a function allocates itself (`&T{}`) is a local value until it is returned.  Go `int` is `Int`\n" +
		"(`len` is converted), an `error` is `Option String` (`errors.New m` = `some m`), a `types.Type` is the string\n" +
		"its String method returns.  sort.Sort, strings.TrimPrefix/HasPrefix/Split and strconv.Atoi are parameters\n" +
		"(`Env`); set.Make / Set.Add are the TRANSLATED ones of Generated/GoSet.lean.  The in-place effect of\n" +
		"`sort.Sort(sd.Fields)` on the caller's backing array is not part of PriorityTree's result.\n" +
		"Not translated: createSorterDesc (go/types objects, a map of pointers) and sortFieldDescFromTag (a\n" +
		"three-clause loop around reflect.StructTag.Lookup); both stay hand-written in Model/GSort.lean. -/\n")
	b.WriteString("namespace Generated.GoGSort\n\n")
	// the three structs, as declared
	for _, sn := range []string{"SortFieldDesc", "SorterDesc", "CompareLine"} {
		st, ok := types[sn].(*ast.StructType)
		if !ok {
			fail("gsort: %s: struct %s not found", rel, sn)
		}
		var fs []gsField
		for _, f := range st.Fields.List {
			k, ok := gsTypeKinds[src(f.Type)]
			if !ok || len(f.Names) == 0 {
				fail("gsort: %s: field `%s` of struct %s has a type outside the translated fragment", at(f), src(f), sn)
			}
			for _, n := range f.Names {
				fs = append(fs, gsField{n.Name, k})
			}
		}
		t.structs[sn] = fs
		fmt.Fprintf(&b, "/-- `type %s struct` -/\nstructure %s where\n", sn, sn)
		for _, f := range fs {
			fmt.Fprintf(&b, "  %s : %s\n", name(f.name), gsLeanType(f.kind))
		}
		b.WriteString("  deriving Inhabited, Repr\n\n")
		var zs []string
		for _, f := range fs {
			zs = append(zs, name(f.name)+" := "+gsZero(f.kind))
		}
		fmt.Fprintf(&b, "/-- `%s{}` -/\ndef %s.zero : %s := { %s }\n\n", sn, sn, sn, strings.Join(zs, ", "))
	}
	b.WriteString("/-- what the translated functions take from outside the package -/\nstructure Env where\n" +
		"  /-- `sort.Sort(SortFieldDescs)`: the slice after the call -/\n  sortSort : List SortFieldDesc → List SortFieldDesc\n" +
		"  trimPrefix : String → String → String\n  hasPrefix : String → String → Bool\n  split : String → String → List String\n" +
		"  /-- `strconv.Atoi`: value and error -/\n  atoi : String → Int × Option String\n\n")

	t.function(&b, gfns, gsFn{key: "SortFieldDescs.Less", goSig: "func (s SortFieldDescs) Less(i, j int) bool",
		params: []gsField{{"s", "sfds"}, {"i", "idx"}, {"j", "idx"}}, rets: []string{"bool"}}, relGen)
	for _, f := range []gsFn{
		{key: "CompareLine.HasNest", goSig: "func (c CompareLine) HasNest() bool", params: []gsField{{"c", "val:CompareLine"}}, rets: []string{"bool"}},
		{key: "CompareLine.String", goSig: "func (c CompareLine) String() string", params: []gsField{{"c", "val:CompareLine"}}, rets: []string{"str"}},
		{key: "SorterDesc.SortTypeName", goSig: "func (sd *SorterDesc) SortTypeName() string", params: []gsField{{"sd", "val:SorterDesc"}}, rets: []string{"str"}},
		{key: "SorterDesc.UsePointer", goSig: "func (sd *SorterDesc) UsePointer() bool", params: []gsField{{"sd", "val:SorterDesc"}}, rets: []string{"bool"}},
		{key: "SorterDesc.PriorityTree", goSig: "func (sd SorterDesc) PriorityTree() *CompareLine", params: []gsField{{"sd", "val:SorterDesc"}}, rets: []string{"ptr"}},
		{key: "SortFieldDescs.Validate", goSig: "func (s SortFieldDescs) Validate() error", params: []gsField{{"s", "sfds"}}, rets: []string{"err"}},
		{key: "sfdFromLine", goSig: "func sfdFromLine(options string) (*SortFieldDesc, error)", params: []gsField{{"options", "str"}}, rets: []string{"optsfd", "err"}},
	} {
		t.function(&b, fns, f, rel)
	}
	b.WriteString("end Generated.GoGSort\n")
	if err := os.WriteFile(out, []byte(b.String()), 0o644); err != nil {
		fail("%v", err)
	}
	fmt.Printf("go2lean gsort: 8 functions of %s, %s -> %s\n", rel, relGen, out)
}

import Model.GSync
/-!
# Control-flow programs over the vocabulary of the scheduler shim, and their small-step meaning

Tie A for C01/C02.  `harness/cmd/go2lean -spec gsync` reads `Add`, `Wait`, `Count` (and `Inc`/`Dec`)
of `gsync/selectable_wait_group.go` on every run and writes their control-flow graph as Lean DATA
(`Generated/GoGSync.lean`): one `Node` per visible operation (mutex / atomic / `close`), per
thread-local `make`, per Go condition, per `return`.  This file gives such a graph its meaning —
a GENERIC interpreter, written once, knowing nothing about the particular graph — over the same
shared state `GSync.Shared` and the same scheduling unit as the hand-written model:

  one step of thread `i` = perform its pending visible operation (preceded by the thread-local
  allocations that stand directly before it), then run thread-local control flow (conditions,
  returns, entering the next call of the client program) up to the next visible operation.

`Properties/C01Tie.lean` proves that for the graph derived from the Go source this interpreter IS
`GSync.stepL true`, for all states.

Locals live in a PARTIAL environment: reading a local that is not bound makes the step fail
(`none`).  The correspondence with the model's program counters (`Corr`) binds exactly the locals a
program-counter constructor carries, so an edit that makes the code read a local the model has
forgotten at that point cannot be hidden by the correspondence: the obligation fails.
-/
namespace GSyncCfg
open GSync

abbrev Var := Nat

inductive Val where
  | int (v : Int)       -- `int`, `int64`
  | chan (c : Nat)      -- `chan struct{}` and `*chan struct{}` (a channel and the one pointer to it)
  | bool (b : Bool)
  deriving DecidableEq, Repr

abbrev Env := Var → Option Val

def Env.empty : Env := fun _ => none
def Env.set (e : Env) (x : Var) (v : Val) : Env := fun y => if y = x then some v else e y
def Env.int (e : Env) (x : Var) : Option Int := match e x with | some (.int v) => some v | _ => none
def Env.chan (e : Env) (x : Var) : Option Nat := match e x with | some (.chan c) => some c | _ => none
def Env.bool (e : Env) (x : Var) : Option Bool := match e x with | some (.bool b) => some b | _ => none

/-- integer expressions: a local (through `int64(·)` / `int(·)`, which are the identity on the
model's unbounded `Int`) or a literal -/
inductive IExp where
  | var (x : Var) | lit (n : Int)
  deriving DecidableEq, Repr

/-- channel / channel-pointer expressions: `closedChan`, `&closedChan` (the sentinel, channel 0);
`c`, `&c`, `p`, `*p` for a local -/
inductive PExp where
  | sentinel | var (x : Var)
  deriving DecidableEq, Repr

inductive Cond where
  | ieq (a b : IExp) | ilt (a b : IExp)
  | peq (a b : PExp)
  | bvar (x : Var)
  | not (c : Cond) | and (c d : Cond) | or (c d : Cond)
  deriving DecidableEq, Repr

def IExp.eval (env : Env) : IExp → Option Int
  | .var x => env.int x
  | .lit n => some n

def PExp.eval (env : Env) : PExp → Option Nat
  | .sentinel => some 0
  | .var x => env.chan x

def Cond.eval (env : Env) : Cond → Option Bool
  | .ieq a b => do let x ← a.eval env; let y ← b.eval env; pure (decide (x = y))
  | .ilt a b => do let x ← a.eval env; let y ← b.eval env; pure (decide (x < y))
  | .peq a b => do let x ← a.eval env; let y ← b.eval env; pure (decide (x = y))
  | .bvar x => env.bool x
  | .not c => do let v ← c.eval env; pure (!v)
  | .and c d => do let v ← c.eval env; let w ← d.eval env; pure (v && w)
  | .or c d => do let v ← c.eval env; let w ← d.eval env; pure (v || w)

/-- a node of the control-flow graph; `nx`, `t`, `e` are node indices -/
inductive Node where
  | lock (nx : Nat)                               -- `wg.mu.Lock()`
  | unlock (nx : Nat)                             -- `wg.mu.Unlock()`, also the deferred one before a return
  | ctrAdd (a : IExp) (x : Var) (nx : Nat)        -- `x := wg.count.Add(a)`
  | ctrLoad (x : Var) (nx : Nat)                  -- `x := wg.count.Load()`
  | ptrSwap (p : PExp) (x : Var) (nx : Nat)       -- `x := wg.wChan.Swap(p)`
  | ptrCAS (o n : PExp) (x : Var) (nx : Nat)      -- `x := wg.wChan.CompareAndSwap(o, n)`
  | ptrLoad (x : Var) (nx : Nat)                  -- `x := wg.wChan.Load()`
  | close (p : PExp) (nx : Nat)                   -- `close(p)`
  | make (x : Var) (nx : Nat)                     -- `x := make(chan struct{})`, thread-local
  | branch (c : Cond) (t e : Nat)                 -- a Go condition (if / else-if / loop test)
  | retInt (a : IExp)                             -- `return int(a)` of Add / Count
  | retChan (p : PExp)                            -- `return p` of Wait
  deriving DecidableEq, Repr

structure Cfg where
  node : Nat → Option Node
  size : Nat           -- number of nodes
  addEntry : Nat
  addParam : Var       -- the local that holds `delta`
  waitEntry : Nat
  countEntry : Nat

/-- every walk through thread-local nodes that does not repeat a node is shorter than this -/
def Cfg.fuel (c : Cfg) : Nat := c.size + 2

/-- the correspondence between (node, bound locals) and the model's program counters -/
structure Corr where
  dec : PC → Option (Nat × Env)
  enc : Nat → Env → Option PC

/-- thread-local: begin the next call of the client program (`none`: all calls returned) -/
def enterT (c : Cfg) (zc : Nat) (t : Thread) : Thread × Option (Nat × Env) :=
  match t.prog with
  | [] => (t, none)
  | .add d :: p => ({ t with prog := p, begun := d :: t.begun }, some (c.addEntry, Env.empty.set c.addParam (.int d)))
  | .wait :: p => ({ t with prog := p, wstart := zc }, some (c.waitEntry, Env.empty))
  | .count :: p => ({ t with prog := p }, some (c.countEntry, Env.empty))

/-- run thread-local control flow from node `nd`: conditions, returns (the result is recorded and
the next call entered); stops in front of the next visible operation or allocation -/
def runLocal (c : Cfg) (zc : Nat) : Nat → Thread → Nat → Env → Option (Thread × Option (Nat × Env))
  | 0, _, _, _ => none
  | fuel + 1, t, nd, env =>
    match c.node nd with
    | none => none
    | some (.branch cnd a b) =>
      match cnd.eval env with
      | none => none
      | some v => if v then runLocal c zc fuel t a env else runLocal c zc fuel t b env
    | some (.retInt a) =>
      match a.eval env with
      | none => none
      | some v =>
        match enterT c zc { t with rets := v :: t.rets } with
        | (t', none) => some (t', none)
        | (t', some (n', env')) => runLocal c zc fuel t' n' env'
    | some (.retChan p) =>
      match p.eval env with
      | none => none
      | some ch =>
        match enterT c zc { t with recs := ⟨ch, t.wstart⟩ :: t.recs } with
        | (t', none) => some (t', none)
        | (t', some (n', env')) => runLocal c zc fuel t' n' env'
    | some _ => some (t, some (nd, env))

inductive Exec where
  | blocked
  | done (sh : Shared) (t : Thread) (lbl : Label) (nx : Nat) (env : Env)

/-- perform the visible operation at node `nd` (after the allocations standing before it) -/
def execOp (c : Cfg) (i : Nat) : Nat → Shared → Thread → Nat → Env → Option Exec
  | 0, _, _, _, _ => none
  | fuel + 1, sh, t, nd, env =>
    match c.node nd with
    | some (.make x nx) => execOp c i fuel { sh with next := sh.next + 1 } t nx (env.set x (.chan sh.next))
    | some (.lock nx) =>
      match sh.lock with
      | none => some (.done { sh with lock := some i } t .lock nx env)
      | some _ => some .blocked
    | some (.unlock nx) => some (.done { sh with lock := none } t .unlock nx env)
    | some (.ctrAdd a x nx) =>
      match a.eval env with
      | none => none
      | some d =>
        some (.done { sh with count := sh.count + d } { t with added := d :: t.added } .ctrUpdate nx
          (env.set x (.int (sh.count + d))))
    | some (.ctrLoad x nx) => some (.done sh t .ctrRead nx (env.set x (.int sh.count)))
    | some (.ptrSwap p x nx) =>
      match p.eval env with
      | none => none
      | some n => some (.done { sh with wchan := n } t .ptrUpdate nx (env.set x (.chan sh.wchan)))
    | some (.ptrCAS o n x nx) =>
      match o.eval env, n.eval env with
      | some ov, some nv =>
        if sh.wchan = ov then some (.done { sh with wchan := nv } t .ptrUpdate nx (env.set x (.bool true)))
        else some (.done sh t .ptrUpdate nx (env.set x (.bool false)))
      | _, _ => none
    | some (.ptrLoad x nx) => some (.done sh t .ptrRead nx (env.set x (.chan sh.wchan)))
    | some (.close p nx) =>
      match p.eval env with
      | none => none
      | some ch => some (.done { sh with closed := ch :: sh.closed } t .close nx env)
    | _ => none

/-- one visible operation of thread `i` of the program `c` -/
def tstepCfg (c : Cfg) (k : Corr) (sh : Shared) (i : Nat) (t : Thread) : Option (Shared × Thread × Label) :=
  if t.pc = .idle then some (sh, t, .none) else
  match k.dec t.pc with
  | none => none
  | some (nd, env) =>
    match execOp c i c.fuel sh t nd env with
    | none => none
    | some .blocked => some (sh, t, .lockBlocked)
    | some (.done sh' t' lbl nx env') =>
      match runLocal c sh.zc c.fuel t' nx env' with
      | none => none
      | some (t'', none) => some (sh', { t'' with pc := .idle }, lbl)
      | some (t'', some (n2, e2)) =>
        match k.enc n2 e2 with
        | none => none
        | some pc => some (sh', { t'' with pc := pc }, lbl)

def stepCfgL (c : Cfg) (k : Corr) (s : St) (i : Nat) : Option (St × Label) :=
  match s.threads[i]? with
  | none => some (s, .none)
  | some t =>
    match tstepCfg c k s.sh i t with
    | none => none
    | some r => some ({ sh := tick r.1, threads := s.threads.set i r.2.1 }, r.2.2)

def stepCfg (c : Cfg) (k : Corr) (s : St) (i : Nat) : Option St := (stepCfgL c k s i).map (·.1)

def runCfg (c : Cfg) (k : Corr) (s : St) : List Nat → Option St
  | [] => some s
  | i :: rest => (stepCfg c k s i).bind (fun s' => runCfg c k s' rest)

/-- a goroutine before its first step: its first call entered, thread-local code run up to the
first visible operation -/
def initThread (c : Cfg) (k : Corr) (p : List Call) : Option Thread :=
  match enterT c 0 { prog := p } with
  | (t, none) => some { t with pc := .idle }
  | (t, some (n, env)) =>
    match runLocal c 0 c.fuel t n env with
    | none => none
    | some (t', none) => some { t' with pc := .idle }
    | some (t', some (n2, e2)) => (k.enc n2 e2).map (fun pc => { t' with pc := pc })

def initCfg (c : Cfg) (k : Corr) (progs : List (List Call)) : Option St :=
  (progs.mapM (initThread c k)).map (fun ts => { sh := {}, threads := ts })

end GSyncCfg

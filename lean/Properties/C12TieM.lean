import Properties.C12TieV
import Lemmas.GoKV
/-!
# C12, tie A by translation: the repeated Parse keys that `validateParsableTraits` marks = the model's `repeatMarks`

Second job of the function (/repo 7793249, 42de8c1): a row whose constant text was already walked under an
IDENTICAL default type is marked `repeatsParseKey` (and `InstanceOf` then leaves it out of the value's case); a
repeat under another type is not.  `go_validateParsable_marks`: on unmarked descriptors related to the model's
whose type identity is the model's type name (`tid` injective), when the function returns no error the marks it
leaves are exactly `Genum.repeatMarks`.
-/
set_option linter.unusedSimpArgs false
set_option linter.unusedVariables false
namespace C12Tie
open Generated.GoGenumValues Generated.GoGenumGen Genum GoLoop

def marksOf (xs : List GTraitInstance) : List Bool := xs.map (·.repeatsParseKey)

/-- the code's type map and the model's walked (text, type) pairs -/
def SeenRel (tid : String → Nat) (seen : List (String × String)) (tm : TMap) : Prop :=
  ∀ text, (tmGet tm text).map (·.defaultTypeId) = (seen.filter (fun p => p.1 == text)).map (fun p => tid p.2)

/-- a text that is not yet a key of the owner map has not been walked -/
def MRel (seen : List (String × String)) (m : SMap) : Prop :=
  ∀ text, Go.kvGet m text = none → ∀ p ∈ seen, p.1 ≠ text

theorem any_sameDefault (tid : String → Nat) (htid : ∀ a b, tid a = tid b → a = b)
    (seen : List (String × String)) (tm : TMap) (h : SeenRel tid seen tm) (gty : GType) (ty : String)
    (hty : gty.defaultTypeId = tid ty) (text : String) :
    (tmGet tm text).any (sameDefault gty) = seen.contains (text, ty) := by
  have h1 : (tmGet tm text).any (sameDefault gty) = ((tmGet tm text).map (·.defaultTypeId)).any (fun i => i == tid ty) := by
    rw [List.any_map]
    congr 1
    funext s
    simp [sameDefault, hty]
  rw [h1, h text, Bool.eq_iff_iff]
  simp only [List.any_eq_true, List.mem_map, List.mem_filter, List.contains_iff_mem, beq_iff_eq]
  constructor
  · rintro ⟨i, ⟨p, ⟨hp, hpt⟩, rfl⟩, hi⟩
    have := htid _ _ hi
    obtain ⟨a, b⟩ := p
    simp only at hpt this
    rw [← hpt, ← this]; exact hp
  · intro hm
    exact ⟨tid ty, ⟨(text, ty), ⟨hm, rfl⟩, rfl⟩, rfl⟩

theorem seenRel_step (tid : String → Nat) (seen : List (String × String)) (tm : TMap) (h : SeenRel tid seen tm)
    (gty : GType) (ty : String) (hty : gty.defaultTypeId = tid ty) (text : String) :
    SeenRel tid (seen ++ [(text, ty)]) (Go.kvSet tm text (tmGet tm text ++ [gty])) := by
  intro text'
  unfold tmGet
  rw [Go.kvGet_kvSet', List.filter_append]
  by_cases he : text = text'
  · subst he
    have := h text
    unfold tmGet at this
    simp [this, hty]
  · have := h text'
    unfold tmGet at this
    simp [he, this]

theorem mRel_step (seen : List (String × String)) (m : SMap) (h : MRel seen m) (text ty name : String) :
    MRel (seen ++ [(text, ty)]) (Go.kvSet m text name) := by
  intro text' hg p hp
  rw [Go.kvGet_kvSet'] at hg
  by_cases he : text = text'
  · simp [he] at hg
  · simp only [he, if_false] at hg
    simp only [List.mem_append, List.mem_singleton] at hp
    rcases hp with hp | rfl
    · exact h text' hg p hp
    · exact he

theorem marks_insts (tid : String → Nat) (htid : ∀ a b, tid a = tid b → a = b) (first : Genum.Value) (ty : String)
    (gty : GType) (hty : gty.defaultTypeId = tid ty)
    {rows : List TraitRow} {xs : List GTraitInstance} (h : All₂ (RowRel first ty) rows xs) :
    ∀ (seen : List (String × String)) (m : SMap) (tm : TMap), (∀ x ∈ xs, x.repeatsParseKey = false) →
      SeenRel tid seen tm → MRel seen m → (vpInsts gty m tm xs).2.2.2 = true →
      marksOf (vpInsts gty m tm xs).2.2.1 = (markRows first ty seen rows).1 ∧
      SeenRel tid (markRows first ty seen rows).2 (vpInsts gty m tm xs).2.1 ∧
      MRel (markRows first ty seen rows).2 (vpInsts gty m tm xs).1 := by
  induction h with
  | nil => intro seen m tm _ hs hm _; exact ⟨rfl, hs, hm⟩
  | @cons r x rows xs hab _ ih =>
    intro seen m tm hun hs hm hok
    have hx : x.repeatsParseKey = false := hun x (by simp)
    have hun' : ∀ y ∈ xs, y.repeatsParseKey = false := fun y hy => hun y (by simp [hy])
    have htext : rowText ty (r.owner.name == first.name) r.dyn.v = x.value := hab.text.symm
    unfold vpInsts at hok ⊢
    unfold markRows
    simp only [htext]
    rcases Option.eq_none_or_eq_some (Go.kvGet m x.value) with hg | ⟨o, hg⟩
    · -- first time this text is walked
      have hnot : seen.contains (x.value, ty) = false := by
        rw [Bool.eq_false_iff]
        intro hc
        exact hm x.value hg (x.value, ty) (by simpa using hc) rfl
      simp only [vpStep, hg] at hok ⊢
      have := ih (seen ++ [(x.value, ty)]) _ _ hun' (seenRel_step tid seen tm hs gty ty hty x.value)
        (mRel_step seen m hm x.value ty x.OwningValue.Name) hok
      refine ⟨?_, this.2.1, this.2.2⟩
      simp only [marksOf, List.map_cons, hx, hnot]
      exact congrArg _ this.1
    · by_cases hne : (o != x.OwningValue.Name) = true
      · simp [vpStep, hg, hne] at hok
      · simp only [vpStep, hg, hne, if_false, Bool.false_eq_true] at hok ⊢
        have := ih (seen ++ [(x.value, ty)]) _ _ hun' (seenRel_step tid seen tm hs gty ty hty x.value)
          (mRel_step seen m hm x.value ty x.OwningValue.Name) hok
        refine ⟨?_, this.2.1, this.2.2⟩
        have hany := any_sameDefault tid htid seen tm hs gty ty hty x.value
        simp only [marksOf, List.map_cons]
        rw [← hany]
        by_cases ha : (tmGet tm x.value).any (sameDefault gty) = true
        · simp only [ha, if_true, markOf]
          exact congrArg _ this.1
        · simp only [ha, if_false, hx, Bool.false_eq_true]
          exact congrArg _ this.1

/-- `DescRel` plus: the code's type identity is the model's type name -/
def DescRelT (tid : String → Nat) (first : Genum.Value) (t : Genum.TraitDesc) (g : GTraitDesc) : Prop :=
  DescRel first t g ∧ g.«Type».defaultTypeId = tid t.ty

theorem marks_descs (tid : String → Nat) (htid : ∀ a b, tid a = tid b → a = b) (first : Genum.Value)
    {ts : List Genum.TraitDesc} {gs : List GTraitDesc} (h : All₂ (DescRelT tid first) ts gs) :
    ∀ (seen : List (String × String)) (m : SMap) (tm : TMap), (∀ g ∈ gs, ∀ x ∈ g.Traits, x.repeatsParseKey = false) →
      SeenRel tid seen tm → MRel seen m → (vpDescs m tm gs).2.2.2 = true →
      (vpDescs m tm gs).1.map (fun g => marksOf g.Traits) = repeatMarksFrom first seen ts := by
  induction h with
  | nil => intro seen m tm _ _ _ _; rfl
  | @cons t g ts gs hab _ ih =>
    intro seen m tm hun hs hm hok
    have hun' : ∀ g' ∈ gs, ∀ x ∈ g'.Traits, x.repeatsParseKey = false := fun g' hg' => hun g' (by simp [hg'])
    unfold vpDescs at hok ⊢
    unfold repeatMarksFrom
    rw [← hab.1.parsable]
    by_cases hp : g.Parsable = true
    · by_cases hok1 : (vpInsts g.«Type» m tm g.Traits).2.2.2 = true
      · rw [if_pos hp, if_pos hok1] at hok
        rw [if_pos hp, if_pos hok1, if_pos hp]
        obtain ⟨h1, h2, h3⟩ := marks_insts tid htid first t.ty g.«Type» hab.2 hab.1.rows seen m tm (hun g (by simp)) hs hm hok1
        simp only [List.map_cons, h1]
        exact congrArg _ (ih _ _ _ hun' h2 h3 hok)
      · rw [if_pos hp, if_neg hok1] at hok
        simp at hok
    · rw [if_neg hp] at hok
      rw [if_neg hp, if_neg hp]
      simp only [List.map_cons]
      have hrows : marksOf g.Traits = t.rows.map (fun _ => false) := by
        have hu := hun g (by simp)
        have hl : ∀ {rows : List TraitRow} {xs : List GTraitInstance}, All₂ (RowRel first t.ty) rows xs →
            (∀ x ∈ xs, x.repeatsParseKey = false) → marksOf xs = rows.map (fun _ => false) := by
          intro rows xs hr
          induction hr with
          | nil => intro _; rfl
          | @cons r x rows xs _ _ ih2 =>
            intro hu2
            simp only [marksOf, List.map_cons, hu2 x (by simp)]
            exact congrArg _ (ih2 (fun y hy => hu2 y (by simp [hy])))
        exact hl hab.1.rows hu
      rw [hrows]
      exact congrArg _ (ih seen m tm hun' hs hm hok)

/-- the marks the translated `validateParsableTraits` leaves = the model's `repeatMarks`: for all unmarked
descriptors of the model's traits, when the texts are unique per enum value (no error) -/
theorem go_validateParsable_marks (tid : String → Nat) (htid : ∀ a b, tid a = tid b → a = b) (first : Genum.Value)
    (ts : List Genum.TraitDesc) (gs : List GTraitDesc) (h : All₂ (DescRelT tid first) ts gs)
    (hun : ∀ g ∈ gs, ∀ x ∈ g.Traits, x.repeatsParseKey = false) (hu : parsableUnique first ts = true) (e : String) :
    ∃ gs', validateParsableTraits e gs = pure (gs', none) ∧
      gs'.map (fun g => marksOf g.Traits) = repeatMarks first ts := by
  have hrel : All₂ (DescRel first) ts gs := by
    clear hun hu
    induction h with
    | nil => exact .nil
    | cons hab _ ih => exact .cons hab.1 ih
  obtain ⟨gs', hgs, _⟩ := go_validateParsable_eq first ts gs hrel e
  rw [hu] at hgs
  have hcl := go_validateParsable_closed e gs
  rw [hcl] at hgs
  have hinj := Except.ok.inj hgs
  have h1 : gs' = (vpDescs [] [] gs).1 := (congrArg Prod.fst hinj).symm
  have hok : (vpDescs [] [] gs).2.2.2 = true := by
    have h2 := congrArg Prod.snd hinj
    simp only [if_true] at h2
    by_cases hv : (vpDescs [] [] gs).2.2.2 = true
    · exact hv
    · simp [hv] at h2
  refine ⟨(vpDescs [] [] gs).1, ?_, ?_⟩
  · rw [hcl]; simp [hok]
  · exact marks_descs tid htid first h [] [] [] hun (fun text => by simp [tmGet, Go.kvGet]; rfl) (fun _ _ p hp => by simp at hp) hok

/-- on the property's domain no row is marked: when no two walked rows of parsable traits carry the same text
under the same type, `repeatMarks` is all `false` (so `InstanceOf` of the translated code is the model's
`instanceOf`, `go_instanceOf_eq`) -/
theorem markRows_none (first : Genum.Value) (ty : String) (rows : List TraitRow) :
    ∀ seen : List (String × String),
      (∀ r ∈ rows, (rowText ty (r.owner.name == first.name) r.dyn.v, ty) ∉ seen) →
      (rows.map (fun r => rowText ty (r.owner.name == first.name) r.dyn.v)).Nodup →
      (markRows first ty seen rows).1 = rows.map (fun _ => false) := by
  induction rows with
  | nil => intro _ _ _; rfl
  | cons r rows ih =>
    intro seen hs hn
    simp only [List.map_cons, List.nodup_cons] at hn
    unfold markRows
    have h0 : seen.contains (rowText ty (r.owner.name == first.name) r.dyn.v, ty) = false := by
      rw [Bool.eq_false_iff]; intro hc; exact hs r (by simp) (by simpa using hc)
    simp only [h0, List.map_cons]
    refine congrArg _ (ih _ (fun r' hr' hm => ?_) hn.2)
    simp only [List.mem_append, List.mem_singleton, Prod.mk.injEq, and_true] at hm
    rcases hm with hm | hm
    · exact hs r' (by simp [hr']) hm
    · exact hn.1 (List.mem_map.mpr ⟨r', hr', hm⟩)

end C12Tie

// go2lean -spec gconfigreduce: translation of the dimension reduction and the template traversal of
// gconfig - the code C03 ("dimension resolution selects exactly the active branch") and the
// "only on selected branches" clause of C16 are about:
//
//	reduceAny, reduce              gconfig/builder.go (mutually recursive)
//	Builder.FromBytes              gconfig/builder.go, the statements between yaml.Unmarshal and the
//	                               construction of the *Config (the result is the Config's `data`)
//	parseTemplatedElements[T any]  gconfig/yaml_templates.go, at T = any
//
// Fragment (anything else makes the translator FAIL, never guess):
//
//   - kinds: any (the model's document type GConfig.Y; nil interface = Y.null), map[string]any
//     (association list), []any (list), string, bool, int, error (GoAny.Err: nil or not),
//     set.Set[string] (Go.GMap String, through the TRANSLATED set.Set of Generated/GoSet.lean),
//     []*dimension / *dimension (parameters: ParseGeneric of the default value, get()),
//     genum.Enum values (Nat), the package variable `templates` (parameter: a list of
//     MatchAndResolve functions);
//   - `switch v := x.(type)` over map[string]any / []any / string without default: a `match`; in the
//     map and slice cases `v` IS the object held by `x` (Go copies the reference), so writes
//     through `v` are written back to `x` at the end of the case, and the case may not mention `x`;
//   - `for i := a; i < len(xs); i++` (no write to i, no break/continue), `for k, el := range m`,
//     `for i, el := range s`, `for k := range set`, `for _, t := range templates`;
//   - `:=`, `=`, `var x error`, comma-ok map index and type assertion, multi-value calls of the
//     translated functions and of keySet (Generated/GoGConfigBuilder.lean), `x.Remove(k)`,
//     `if [init;] cond {} [else {}]`, `return`.
//
// Recursion: reduceAny -> reduce -> reduceAny(child) is not structural in `do` form, so every
// translated recursive function takes a FUEL argument (first), decreasing at each call; out of fuel
// is a panic of Go.M.  The theorems quantify over all fuel above a bound computed from the document.
//
// In-place updates.  Go rewrites the document in place; the translation is functional:
//   - `v[k], err = f(el)` inside `for k, el := range v` (map): the loop ranges over the entries `v`
//     had when it started and the entry of the CURRENT key is replaced (GoAny.amapSet).  This is
//     exact: the Go spec leaves unspecified only whether entries ADDED during a range are produced,
//     and an entry not yet reached is produced with its value at that moment - here only the entry
//     of the key being visited is assigned, after its value `el` was read.  The translator checks
//     that the body writes to `v` only as `v[<range key>] = …`.
//   - `v[i], err = f(el)` inside `for i, el := range v` (slice): same, with the current index.
//   - `for k := range keys { … keys.Remove(k) … }`: deleting the CURRENT key during a range is
//     safe in Go and removes nothing that is still to be produced, so ranging over the keys the
//     set had when the loop started is exact.  Checked: the body only removes the range key.
//   - a call f(x) of a translated function may write into the object x and below.  The translation
//     keeps only f's results, which is exact as long as nothing reachable from x is read again
//     except through those results.  Checked syntactically: in a range loop the element is passed
//     once and its slot overwritten with the result; in `reduce`, `out, err = reduceAny(…)` must be
//     followed at once by `return out, true, err`.  Documents are trees (yaml.v3 decodes every alias
//     into a fresh value), so no object is reachable from two places.
package main

import (
	"fmt"
	"go/ast"
	"go/parser"
	"go/token"
	"os"
	"path/filepath"
	"sort"
	"strings"
)

func init() { register("gconfigreduce", "../lean/Generated/GoGConfigReduce.lean", runGConfigReduce) }

type rfn struct {
	lean    string   // Lean name
	fuel    bool     // takes fuel
	env     bool     // takes env (the templates)
	params  []string // kinds
	results []string // kinds
}

type rt struct {
	fnName  string
	fns     map[string]*rfn
	kinds   map[string]string // Go variable -> kind
	names   map[string]string // Go variable -> Lean name (renamed when it shadows)
	used    map[string]bool   // Lean names taken in this function
	mut     map[string]bool   // Go names assigned with `=` somewhere in the function
	consts  map[string]string
	rets    []string // result kinds of the current function
	typeVar string   // generic type parameter standing for `any`
	out     strings.Builder
	n       int
	errN    int
	errs    []string // emitted error constants: "name\x00source"
	fromB   bool     // translating FromBytes: results are (Option amap, err)

	declaredHere map[string]bool   // Go names declared in the innermost block (`:=` reuses those)
	rangedSet    map[string]string // set being ranged over -> its range key
	mutable      map[string]bool   // variables of kind any that a type switch may write back to
	hasTemplates bool              // the package variable `templates` is in scope
}

func (t *rt) fail(n ast.Node, what string) {
	fail("gconfigreduce: %s: %s `%s` is outside the translated fragment", at(n), what, src(n))
}

func (t *rt) line(ind int, s string) { t.out.WriteString(strings.Repeat("  ", ind) + s + "\n") }

func (t *rt) tmp(p string) string { t.n++; return fmt.Sprintf("%s%d", p, t.n) }

var rLeanType = map[string]string{
	"any": "Y", "amap": "List (String × Y)", "alist": "List Y", "str": "String", "bool": "Bool", "int": "Nat",
	"err": "Err", "sset": "Go.GMap String", "dims": "List Dimension", "dim": "Dimension", "enum": "Nat",
}

func (t *rt) kindOfType(e ast.Expr) string {
	s := src(e)
	if t.typeVar != "" && s == t.typeVar {
		return "any"
	}
	switch s {
	case "any":
		return "any"
	case "map[string]any":
		return "amap"
	case "[]any":
		return "alist"
	case "string":
		return "str"
	case "bool":
		return "bool"
	case "int":
		return "int"
	case "error":
		return "err"
	case "[]*dimension":
		return "dims"
	}
	return ""
}

// declare binds a Go variable of a kind and returns its Lean name (fresh when the Go declaration
// shadows a variable that is still in scope: Lean's `let mut` variables cannot be shadowed).
func (t *rt) declare(goName, kind string) string {
	ln := name(goName)
	if t.used[ln] {
		for i := 1; ; i++ {
			c := fmt.Sprintf("%s_%d", goName, i)
			if !t.used[c] {
				ln = c
				break
			}
		}
	}
	t.used[ln] = true
	t.kinds[goName] = kind
	t.names[goName] = ln
	return ln
}

func (t *rt) letKw(goName string) string {
	if t.mut[goName] {
		return "let mut "
	}
	return "let "
}

type rscope struct{ kinds, names map[string]string }

func (t *rt) save() rscope {
	s := rscope{map[string]string{}, map[string]string{}}
	for k, v := range t.kinds {
		s.kinds[k] = v
	}
	for k, v := range t.names {
		s.names[k] = v
	}
	return s
}
func (t *rt) restore(s rscope) { t.kinds, t.names = s.kinds, s.names }

func (t *rt) kindOf(e ast.Expr) string {
	switch x := e.(type) {
	case *ast.ParenExpr:
		return t.kindOf(x.X)
	case *ast.Ident:
		switch x.Name {
		case "true", "false":
			return "bool"
		case "nil":
			return "nil"
		}
		if _, ok := t.consts[x.Name]; ok {
			return "str"
		}
		if k, ok := t.kinds[x.Name]; ok {
			return k
		}
	case *ast.BasicLit:
		if x.Kind == token.STRING {
			return "str"
		}
		if x.Kind == token.INT {
			return "int"
		}
	case *ast.UnaryExpr:
		if x.Op == token.NOT {
			return "bool"
		}
	case *ast.BinaryExpr:
		switch x.Op {
		case token.EQL, token.NEQ, token.LAND, token.LOR:
			return "bool"
		}
	case *ast.SelectorExpr:
		if src(x) == "b.dimensions" && t.fromB {
			return "dims"
		}
	case *ast.IndexExpr:
		if t.kindOf(x.X) == "amap" && t.kindOf(x.Index) == "str" {
			return "any"
		}
	case *ast.TypeAssertExpr:
		if x.Type != nil && t.typeVar != "" && src(x.Type) == t.typeVar {
			return "any"
		}
	case *ast.CallExpr:
		switch src(x.Fun) {
		case "len":
			return "int"
		case "any":
			if len(x.Args) == 1 {
				switch t.kindOf(x.Args[0]) {
				case "any", "str", "amap", "alist":
					return "any"
				}
			}
		}
		if sel, ok := x.Fun.(*ast.SelectorExpr); ok && sel.Sel.Name == "get" && len(x.Args) == 0 && t.kindOf(sel.X) == "dim" {
			return "enum"
		}
	}
	t.fail(e, "expression")
	return ""
}

// toAny: an expression of some kind where Go wants an `any` (implicit or explicit conversion)
func (t *rt) toAny(e ast.Expr) string {
	switch t.kindOf(e) {
	case "any":
		return t.expr(e)
	case "nil":
		return "Y.null"
	case "amap":
		return "(Y.map " + t.expr(e) + ")"
	case "alist":
		return "(Y.list " + t.expr(e) + ")"
	case "str":
		return "(Y.str " + t.expr(e) + ")"
	}
	t.fail(e, "conversion to any of")
	return ""
}

func (t *rt) expr(e ast.Expr) string {
	switch x := e.(type) {
	case *ast.ParenExpr:
		return t.expr(x.X)
	case *ast.Ident:
		if x.Name == "true" || x.Name == "false" {
			return x.Name
		}
		if _, ok := t.consts[x.Name]; ok {
			return x.Name
		}
		if n, ok := t.names[x.Name]; ok {
			return n
		}
	case *ast.BasicLit:
		if x.Kind == token.STRING && strings.HasPrefix(x.Value, "\"") && !strings.Contains(x.Value, "\\") {
			return x.Value
		}
		if x.Kind == token.INT {
			return x.Value
		}
	case *ast.UnaryExpr:
		if x.Op == token.NOT && t.kindOf(x.X) == "bool" {
			return "(!" + t.expr(x.X) + ")"
		}
	case *ast.BinaryExpr:
		kx, ky := t.kindOf(x.X), t.kindOf(x.Y)
		switch x.Op {
		case token.LAND, token.LOR:
			if kx == "bool" && ky == "bool" {
				op := " && "
				if x.Op == token.LOR {
					op = " || "
				}
				return "(" + t.expr(x.X) + op + t.expr(x.Y) + ")"
			}
		case token.EQL, token.NEQ:
			op := " == "
			if x.Op == token.NEQ {
				op = " != "
			}
			switch {
			case kx == "err" && ky == "nil":
				return "(" + t.expr(x.X) + op + "none)"
			case kx == ky && (kx == "int" || kx == "str" || kx == "enum" || kx == "bool"):
				return "(" + t.expr(x.X) + op + t.expr(x.Y) + ")"
			}
		}
	case *ast.SelectorExpr:
		if src(x) == "b.dimensions" && t.fromB {
			return "dimensions"
		}
	case *ast.IndexExpr:
		// m[k] on a map[string]any: the value, or nil when the key is missing
		if t.kindOf(x.X) == "amap" && t.kindOf(x.Index) == "str" {
			return "(GoAny.amapGet " + t.expr(x.X) + " " + t.expr(x.Index) + ").1"
		}
	case *ast.TypeAssertExpr:
		// any(x).(T) at T = any
		if x.Type != nil && t.typeVar != "" && src(x.Type) == t.typeVar {
			return t.toAny(x.X)
		}
	case *ast.CallExpr:
		switch src(x.Fun) {
		case "len":
			if len(x.Args) == 1 {
				switch t.kindOf(x.Args[0]) {
				case "sset":
					return "(Go.mapLen " + t.expr(x.Args[0]) + ")"
				case "dims", "amap", "alist":
					return "(List.length " + t.expr(x.Args[0]) + ")"
				}
			}
		case "any":
			if len(x.Args) == 1 {
				return t.toAny(x.Args[0])
			}
		}
		if sel, ok := x.Fun.(*ast.SelectorExpr); ok && sel.Sel.Name == "get" && len(x.Args) == 0 && t.kindOf(sel.X) == "dim" {
			return t.expr(sel.X) + ".get"
		}
	}
	t.fail(e, "expression")
	return ""
}

// errExpr: an expression where Go wants an error
func (t *rt) errExpr(e ast.Expr) string {
	switch t.kindOf2(e) {
	case "nil":
		return "none"
	case "err":
		return t.expr(e)
	case "newerr":
		t.errN++
		n := fmt.Sprintf("%s_err%d", t.fnName, t.errN)
		t.errs = append(t.errs, n+"\x00"+src(e))
		return n
	}
	t.fail(e, "error value")
	return ""
}

// kindOf2 = kindOf, plus "newerr" for ErrFailedParsing.Msg(…): a fresh error value; its message and
// arguments are not modelled (the arguments must be free of calls of translated functions)
func (t *rt) kindOf2(e ast.Expr) string {
	if c, ok := e.(*ast.CallExpr); ok && src(c.Fun) == "ErrFailedParsing.Msg" {
		for _, a := range c.Args {
			ast.Inspect(a, func(n ast.Node) bool {
				if cc, ok := n.(*ast.CallExpr); ok {
					if id, ok := cc.Fun.(*ast.Ident); ok && t.fns[id.Name] != nil {
						t.fail(e, "call of a translated function inside an error message")
					}
				}
				return true
			})
		}
		return "newerr"
	}
	return t.kindOf(e)
}

// callArgs: the arguments of a call of a translated function, converted to the parameter kinds
func (t *rt) call(c *ast.CallExpr) (string, *rfn) {
	id, ok := c.Fun.(*ast.Ident)
	if !ok || t.fns[id.Name] == nil {
		return "", nil
	}
	f := t.fns[id.Name]
	if len(c.Args) != len(f.params) || c.Ellipsis.IsValid() {
		t.fail(c, "call")
	}
	s := f.lean
	if f.env {
		s += " env"
	}
	if f.fuel {
		s += " fuel"
	}
	for i, a := range c.Args {
		switch f.params[i] {
		case "any":
			s += " " + t.toAny(a)
		default:
			if t.kindOf(a) != f.params[i] {
				t.fail(c, "argument kind in call")
			}
			s += " " + t.expr(a)
		}
	}
	return s, f
}

func proj(p string, i, n int) string {
	// component i of an n-tuple p (right-nested pairs)
	s := p
	for j := 0; j < i; j++ {
		s += ".2"
	}
	if i < n-1 {
		s += ".1"
	}
	return s
}

func mentions(n ast.Node, v string) bool {
	found := false
	ast.Inspect(n, func(m ast.Node) bool {
		if id, ok := m.(*ast.Ident); ok && id.Name == v {
			found = true
		}
		return true
	})
	return found
}

func hasBranch(n ast.Node) bool {
	found := false
	ast.Inspect(n, func(m ast.Node) bool {
		if _, ok := m.(*ast.BranchStmt); ok {
			found = true
		}
		if _, ok := m.(*ast.FuncLit); ok {
			found = true
		}
		if _, ok := m.(*ast.GoStmt); ok {
			found = true
		}
		if _, ok := m.(*ast.DeferStmt); ok {
			found = true
		}
		return true
	})
	return found
}

// writesOnlyAt: every write to v inside body has the form v[idx] = … (idx the given identifier),
// v is never assigned as a whole and never passed on or read otherwise
func (t *rt) writesOnlyAt(body *ast.BlockStmt, v, idx string) {
	ast.Inspect(body, func(n ast.Node) bool {
		switch x := n.(type) {
		case *ast.AssignStmt:
			for _, l := range x.Lhs {
				if ix, ok := l.(*ast.IndexExpr); ok && src(ix.X) == v {
					if src(ix.Index) != idx {
						t.fail(x, "write to another entry of the ranged collection in")
					}
					continue
				}
				if src(l) == v {
					t.fail(x, "assignment to the ranged collection in")
				}
			}
			for _, r := range x.Rhs {
				if mentions(r, v) {
					t.fail(x, "read of the ranged collection in")
				}
			}
			return false
		case *ast.Ident:
			if x.Name == v {
				t.fail(body, "use of the ranged collection "+v+" in")
			}
		}
		return true
	})
}

func (t *rt) block(ind int, b *ast.BlockStmt) {
	sc := t.save()
	if len(b.List) == 0 {
		t.line(ind, "pure ()")
	}
	for i, s := range b.List {
		var next ast.Stmt
		if i+1 < len(b.List) {
			next = b.List[i+1]
		}
		t.stmt(ind, s, next)
	}
	t.restore(sc)
}

func (t *rt) retStmt(ind int, x *ast.ReturnStmt) {
	if len(x.Results) != len(t.rets) {
		t.fail(x, "return (results must be explicit)")
	}
	var vs []string
	for i, r := range x.Results {
		switch t.rets[i] {
		case "any":
			vs = append(vs, t.toAny(r))
		case "err":
			vs = append(vs, t.errExpr(r))
		case "bool":
			if t.kindOf(r) != "bool" {
				t.fail(x, "result kind in")
			}
			vs = append(vs, t.expr(r))
		case "cfg":
			// FromBytes: `return nil, …` is the only form here (`return cfg, nil` is read by the caller)
			if t.kindOf(r) != "nil" {
				t.fail(x, "*Config result in")
			}
			vs = append(vs, "none")
		default:
			t.fail(x, "result kind in")
		}
	}
	t.line(ind, "return ("+strings.Join(vs, ", ")+")")
}

// assignResults: `a, b = <call>` / `a, b := <call>` with the components of tuple p
func (t *rt) bindResults(ind int, x *ast.AssignStmt, p string, kinds []string, conv func(i int, s string) string) {
	if len(x.Lhs) != len(kinds) {
		t.fail(x, "number of results in")
	}
	for i, l := range x.Lhs {
		val := proj(p, i, len(kinds))
		if conv != nil {
			val = conv(i, val)
		}
		switch lh := l.(type) {
		case *ast.Ident:
			if lh.Name == "_" {
				continue
			}
			_, known := t.kinds[lh.Name]
			if x.Tok == token.DEFINE && !(known && t.names[lh.Name] != "" && t.declaredHere[lh.Name]) {
				ln := t.declare(lh.Name, kinds[i])
				t.declaredHere[lh.Name] = true
				t.line(ind, t.letKw(lh.Name)+ln+" : "+rLeanType[kinds[i]]+" := "+val)
				continue
			}
			if !known || t.kinds[lh.Name] != kinds[i] {
				t.fail(x, "assignment kind in")
			}
			t.line(ind, t.names[lh.Name]+" := "+val)
		case *ast.IndexExpr:
			// v[k] = … / v[i] = …  (the index was checked by writesOnlyAt)
			id, ok := lh.X.(*ast.Ident)
			if !ok || kinds[i] != "any" || x.Tok != token.ASSIGN {
				t.fail(x, "indexed assignment")
			}
			switch t.kindOf(id) {
			case "amap":
				if t.kindOf(lh.Index) != "str" {
					t.fail(x, "index kind in")
				}
				t.line(ind, t.names[id.Name]+" := GoAny.amapSet "+t.names[id.Name]+" "+t.expr(lh.Index)+" "+val)
			case "alist":
				if t.kindOf(lh.Index) != "int" {
					t.fail(x, "index kind in")
				}
				t.line(ind, t.names[id.Name]+" ← Go.listSet "+t.names[id.Name]+" "+t.expr(lh.Index)+" "+val)
			default:
				t.fail(x, "indexed assignment")
			}
		default:
			t.fail(x, "assignment target in")
		}
	}
}

func (t *rt) assign(ind int, x *ast.AssignStmt, next ast.Stmt) {
	if x.Tok != token.ASSIGN && x.Tok != token.DEFINE {
		t.fail(x, "assignment")
	}
	if len(x.Rhs) == 1 {
		switch r := x.Rhs[0].(type) {
		case *ast.CallExpr:
			// a call of a translated function
			if s, f := t.call(r); f != nil {
				p := t.tmp("p")
				t.line(ind, "let "+p+" ← "+s)
				var conv func(int, string) string
				if f.lean == "parseTemplatedElements" && len(r.Args) == 1 && t.kindOf(r.Args[0]) == "amap" {
					// instantiated at T = map[string]any: the first result is the map held by the `any`
					// (or T's zero value, the nil map, when an error is returned)
					conv = func(i int, s string) string {
						if i == 0 {
							return "(GoAny.asMap " + s + ").1"
						}
						return s
					}
					kinds := []string{"amap", "err"}
					t.bindResults(ind, x, p, kinds, conv)
					return
				}
				t.bindResults(ind, x, p, f.results, nil)
				if t.fnName == "reduce" && f.lean == "reduceAny" {
					// aliasing rule: the callee may have rewritten the branch in place; nothing of `in` may be
					// looked at afterwards
					rs, ok := next.(*ast.ReturnStmt)
					if !ok || len(rs.Results) != 3 || src(rs.Results[1]) != "true" || t.kindOf(rs.Results[0]) != "any" {
						t.fail(x, "a call of reduceAny that is not followed at once by `return <any>, true, <err>`:")
					}
				}
				return
			}
			switch src(r.Fun) {
			case "keySet":
				if len(r.Args) == 1 && t.kindOf(r.Args[0]) == "amap" {
					p := t.tmp("p")
					t.line(ind, "let "+p+" ← Generated.GoGConfigBuilder.keySet "+t.expr(r.Args[0]))
					t.bindResults(ind, x, p, []string{"sset", "bool"}, nil)
					return
				}
			}
			if sel, ok := r.Fun.(*ast.SelectorExpr); ok && len(r.Args) == 1 {
				// dim.defaultVal.ParseGeneric(k)
				if s2, ok := sel.X.(*ast.SelectorExpr); ok && sel.Sel.Name == "ParseGeneric" && s2.Sel.Name == "defaultVal" &&
					t.kindOf(s2.X) == "dim" && t.kindOf(r.Args[0]) == "str" && x.Tok == token.DEFINE {
					p := t.tmp("p")
					t.line(ind, "let "+p+" := "+t.expr(s2.X)+".parseGeneric "+t.expr(r.Args[0]))
					t.bindResults(ind, x, p, []string{"enum", "err"}, nil)
					return
				}
				// template.MatchAndResolve(v)
				if sel.Sel.Name == "MatchAndResolve" && t.kindOf(sel.X) == "tmpl" && t.kindOf(r.Args[0]) == "str" && x.Tok == token.DEFINE {
					p := t.tmp("p")
					t.line(ind, "let "+p+" := "+t.expr(sel.X)+" "+t.expr(r.Args[0]))
					t.bindResults(ind, x, p, []string{"str", "bool", "err"}, nil)
					return
				}
			}
		case *ast.IndexExpr:
			if len(x.Lhs) == 2 && t.kindOf(r.X) == "amap" && t.kindOf(r.Index) == "str" {
				p := t.tmp("p")
				t.line(ind, "let "+p+" := GoAny.amapGet "+t.expr(r.X)+" "+t.expr(r.Index))
				t.bindResults(ind, x, p, []string{"any", "bool"}, nil)
				return
			}
			if len(x.Lhs) == 1 && t.kindOf(r.X) == "dims" && t.kindOf(r.Index) == "int" && x.Tok == token.DEFINE {
				id, ok := x.Lhs[0].(*ast.Ident)
				if ok && !t.mut[id.Name] {
					ln := t.declare(id.Name, "dim")
					t.line(ind, "let "+ln+" ← Go.listGet "+t.expr(r.X)+" "+t.expr(r.Index))
					return
				}
			}
		case *ast.TypeAssertExpr:
			if len(x.Lhs) == 2 && r.Type != nil && src(r.Type) == "map[string]any" && t.kindOf(r.X) == "any" {
				p := t.tmp("p")
				t.line(ind, "let "+p+" := GoAny.asMap "+t.expr(r.X))
				t.bindResults(ind, x, p, []string{"amap", "bool"}, nil)
				return
			}
		}
		// plain `x := e` / `x = e`
		if len(x.Lhs) == 1 {
			if id, ok := x.Lhs[0].(*ast.Ident); ok {
				k := t.kindOf(x.Rhs[0])
				if k == "str" || k == "bool" || k == "int" {
					v := t.expr(x.Rhs[0])
					if x.Tok == token.DEFINE {
						ln := t.declare(id.Name, k)
						t.declaredHere[id.Name] = true
						t.line(ind, t.letKw(id.Name)+ln+" : "+rLeanType[k]+" := "+v)
						return
					}
					if t.kinds[id.Name] == k {
						t.line(ind, t.names[id.Name]+" := "+v)
						return
					}
				}
			}
		}
	}
	t.fail(x, "assignment")
}

func (t *rt) stmt(ind int, s ast.Stmt, next ast.Stmt) {
	switch x := s.(type) {
	case *ast.AssignStmt:
		t.assign(ind, x, next)
		return
	case *ast.DeclStmt:
		gd, ok := x.Decl.(*ast.GenDecl)
		if ok && gd.Tok == token.VAR && len(gd.Specs) == 1 {
			vs := gd.Specs[0].(*ast.ValueSpec)
			if len(vs.Names) == 1 && len(vs.Values) == 0 && vs.Type != nil && src(vs.Type) == "error" {
				ln := t.declare(vs.Names[0].Name, "err")
				t.declaredHere[vs.Names[0].Name] = true
				t.line(ind, t.letKw(vs.Names[0].Name)+ln+" : Err := none")
				return
			}
		}
	case *ast.ExprStmt:
		// keys.Remove(k): the translated Set.Remove (its boolean result is dropped)
		if c, ok := x.X.(*ast.CallExpr); ok && len(c.Args) == 1 && !c.Ellipsis.IsValid() {
			if sel, ok := c.Fun.(*ast.SelectorExpr); ok && sel.Sel.Name == "Remove" {
				if id, ok := sel.X.(*ast.Ident); ok && t.kinds[id.Name] == "sset" && t.kindOf(c.Args[0]) == "str" {
					if t.rangedSet[id.Name] != "" && src(c.Args[0]) != t.rangedSet[id.Name] {
						t.fail(x, "removal of another key than the current one from the set being ranged over:")
					}
					r := t.tmp("r")
					t.line(ind, "let "+r+" ← Generated.GoSet.Set.Remove "+t.names[id.Name]+" ["+t.expr(c.Args[0])+"]")
					t.line(ind, t.names[id.Name]+" := "+r+".1")
					return
				}
			}
		}
	case *ast.IfStmt:
		sc := t.save()
		if x.Init != nil {
			as, ok := x.Init.(*ast.AssignStmt)
			if !ok || as.Tok != token.DEFINE {
				t.fail(x, "if-initialiser of")
			}
			saved := t.declaredHere
			t.declaredHere = map[string]bool{}
			t.assign(ind, as, nil)
			t.declaredHere = saved
		}
		if t.kindOf(x.Cond) != "bool" {
			t.fail(x.Cond, "condition")
		}
		t.line(ind, "if "+t.expr(x.Cond)+" then")
		t.innerBlock(ind+1, x.Body)
		switch e := x.Else.(type) {
		case nil:
		case *ast.BlockStmt:
			t.line(ind, "else")
			t.innerBlock(ind+1, e)
		case *ast.IfStmt:
			t.line(ind, "else")
			saved := t.declaredHere
			t.declaredHere = map[string]bool{}
			t.stmt(ind+1, e, nil)
			t.declaredHere = saved
		default:
			t.fail(x, "else of")
		}
		t.restore(sc)
		return
	case *ast.ForStmt:
		// for i := a; i < len(xs); i++
		as, ok1 := x.Init.(*ast.AssignStmt)
		cond, ok2 := x.Cond.(*ast.BinaryExpr)
		inc, ok3 := x.Post.(*ast.IncDecStmt)
		if ok1 && ok2 && ok3 && as.Tok == token.DEFINE && len(as.Lhs) == 1 && len(as.Rhs) == 1 && cond.Op == token.LSS && inc.Tok == token.INC {
			id, ok := as.Lhs[0].(*ast.Ident)
			if ok && src(cond.X) == id.Name && src(inc.X) == id.Name && t.kindOf(as.Rhs[0]) == "int" {
				sc := t.save()
				lo := t.expr(as.Rhs[0])
				hi := t.expr(cond.Y)
				if t.kindOf(cond.Y) != "int" || mentions(cond.Y, id.Name) {
					t.fail(x, "bound of")
				}
				if hasBranch(x.Body) || assignsTo(x.Body, id.Name) {
					t.fail(x, "loop that branches or assigns its index:")
				}
				// the bound is evaluated on every iteration in Go: it must not change in the body
				ast.Inspect(cond.Y, func(n ast.Node) bool {
					if v, ok := n.(*ast.Ident); ok && t.kinds[v.Name] != "" && assignsTo(x.Body, v.Name) {
						t.fail(x, "loop whose bound changes in the body:")
					}
					return true
				})
				ln := t.declare(id.Name, "int")
				t.line(ind, "for "+ln+" in List.range' "+lo+" ("+hi+" - "+lo+") do")
				t.innerBlock(ind+1, x.Body)
				t.restore(sc)
				return
			}
		}
	case *ast.RangeStmt:
		if x.Tok != token.DEFINE || hasBranch(x.Body) {
			t.fail(x, "range loop (branching, or not declaring its variables)")
		}
		sc := t.save()
		defer t.restore(sc)
		kid, _ := x.Key.(*ast.Ident)
		vid, _ := x.Value.(*ast.Ident)
		if id, ok := x.X.(*ast.Ident); ok {
			switch t.kinds[id.Name] {
			case "amap":
				if kid == nil || vid == nil || kid.Name == "_" || vid.Name == "_" {
					break
				}
				t.writesOnlyAt(x.Body, id.Name, kid.Name)
				if assignsTo(x.Body, kid.Name) || assignsTo(x.Body, vid.Name) {
					t.fail(x, "loop that assigns its variables:")
				}
				coll := t.names[id.Name]
				k := t.declare(kid.Name, "str")
				v := t.declare(vid.Name, "any")
				t.line(ind, "for ("+k+", "+v+") in "+coll+" do")
				t.innerBlock(ind+1, x.Body)
				return
			case "alist":
				if kid == nil || vid == nil || kid.Name == "_" || vid.Name == "_" {
					break
				}
				t.writesOnlyAt(x.Body, id.Name, kid.Name)
				if assignsTo(x.Body, kid.Name) || assignsTo(x.Body, vid.Name) {
					t.fail(x, "loop that assigns its variables:")
				}
				coll := t.names[id.Name]
				i := t.declare(kid.Name, "int")
				v := t.declare(vid.Name, "any")
				// the index variable: incremented at the end of every iteration (no continue/break)
				t.line(ind, "let mut "+i+" : Nat := 0")
				t.line(ind, "for "+v+" in "+coll+" do")
				t.innerBlock(ind+1, x.Body)
				t.line(ind+1, i+" := "+i+" + 1")
				return
			case "sset":
				if kid == nil || vid != nil || kid.Name == "_" {
					break
				}
				if assignsTo(x.Body, kid.Name) || assignsTo(x.Body, id.Name) {
					t.fail(x, "loop that assigns its key or the set as a whole:")
				}
				coll := t.names[id.Name]
				k := t.declare(kid.Name, "str")
				t.rangedSet[id.Name] = kid.Name
				t.line(ind, "for "+k+" in Go.mapKeys "+coll+" do")
				t.innerBlock(ind+1, x.Body)
				delete(t.rangedSet, id.Name)
				return
			}
			if id.Name == "templates" && t.kinds["templates"] == "" && t.hasTemplates && kid != nil && kid.Name == "_" && vid != nil {
				tv := t.declare(vid.Name, "tmpl")
				if assignsTo(x.Body, vid.Name) {
					t.fail(x, "loop that assigns its variable:")
				}
				t.line(ind, "for "+tv+" in env.templates do")
				t.innerBlock(ind+1, x.Body)
				return
			}
		}
	case *ast.TypeSwitchStmt:
		t.typeSwitch(ind, x)
		return
	case *ast.ReturnStmt:
		t.retStmt(ind, x)
		return
	}
	t.fail(s, "statement")
}

// innerBlock: a nested block with its own `:=` scope
func (t *rt) innerBlock(ind int, b *ast.BlockStmt) {
	saved := t.declaredHere
	t.declaredHere = map[string]bool{}
	t.block(ind, b)
	t.declaredHere = saved
}

func (t *rt) typeSwitch(ind int, x *ast.TypeSwitchStmt) {
	as, ok := x.Assign.(*ast.AssignStmt)
	if x.Init != nil || !ok || as.Tok != token.DEFINE || len(as.Lhs) != 1 || len(as.Rhs) != 1 {
		t.fail(x, "type switch")
	}
	ta, ok := as.Rhs[0].(*ast.TypeAssertExpr)
	if !ok || ta.Type != nil {
		t.fail(x, "type switch")
	}
	// the switched value: `in` or `any(in)`, a variable of kind any
	sw := ta.X
	if c, ok := sw.(*ast.CallExpr); ok && src(c.Fun) == "any" && len(c.Args) == 1 {
		sw = c.Args[0]
	}
	swid, ok := sw.(*ast.Ident)
	if !ok || t.kinds[swid.Name] != "any" || !t.mutable[swid.Name] {
		t.fail(x, "type switch over something else than a variable of kind any:")
	}
	v := as.Lhs[0].(*ast.Ident).Name
	t.line(ind, "match "+t.names[swid.Name]+" with")
	seen := map[string]bool{}
	for _, c := range x.Body.List {
		cc := c.(*ast.CaseClause)
		if len(cc.List) != 1 {
			t.fail(x, "type switch with a default or a multi-type case:")
		}
		ty := src(cc.List[0])
		if seen[ty] {
			t.fail(x, "type switch with a repeated case:")
		}
		seen[ty] = true
		body := &ast.BlockStmt{List: cc.Body}
		sc := t.save()
		saved := t.declaredHere
		t.declaredHere = map[string]bool{}
		switch ty {
		case "map[string]any", "[]any":
			ctor, kind := "Y.map", "amap"
			if ty == "[]any" {
				ctor, kind = "Y.list", "alist"
			}
			// v IS the object held by the switched variable: writes through v are written back at the
			// end of the case; until then the switched variable would be stale, so it may not be mentioned
			if mentions(body, swid.Name) {
				t.fail(x, "case that mentions the switched variable while it is aliased by `"+v+"`:")
			}
			t.line(ind, "| "+ctor+" "+v+"0 =>")
			ln := t.declare(v, kind)
			t.mut[v] = true
			t.line(ind+1, "let mut "+ln+" := "+v+"0")
			t.block(ind+1, body)
			t.line(ind+1, t.names[swid.Name]+" := "+ctor+" "+ln)
		case "string":
			ln := t.declare(v, "str")
			if assignsTo(body, v) {
				t.fail(x, "assignment to the string of a type switch:")
			}
			t.line(ind, "| Y.str "+ln+" =>")
			t.block(ind+1, body)
		default:
			t.fail(cc.List[0], "case type")
		}
		t.declaredHere = saved
		t.restore(sc)
	}
	t.line(ind, "| _ => pure ()")
}

// ---- driver ----

func paramList(fd *ast.FuncDecl) string {
	var ps []string
	for _, p := range fd.Type.Params.List {
		for _, n := range p.Names {
			ps = append(ps, n.Name+" "+src(p.Type))
		}
	}
	return strings.Join(ps, ", ")
}

func resultList(fd *ast.FuncDecl) string {
	if fd.Type.Results == nil {
		return ""
	}
	var ps []string
	for _, p := range fd.Type.Results.List {
		if len(p.Names) == 0 {
			ps = append(ps, src(p.Type))
		}
		for _, n := range p.Names {
			ps = append(ps, n.Name+" "+src(p.Type))
		}
	}
	return strings.Join(ps, ", ")
}

func allAssigned(b *ast.BlockStmt) map[string]bool {
	r := map[string]bool{}
	ast.Inspect(b, func(n ast.Node) bool {
		switch x := n.(type) {
		case *ast.AssignStmt:
			if x.Tok == token.ASSIGN {
				for _, l := range x.Lhs {
					if id, ok := l.(*ast.Ident); ok {
						r[id.Name] = true
					}
				}
			}
		case *ast.ExprStmt:
			// x.Remove(k) writes x
			if c, ok := x.X.(*ast.CallExpr); ok {
				if sel, ok := c.Fun.(*ast.SelectorExpr); ok && sel.Sel.Name == "Remove" {
					if id, ok := sel.X.(*ast.Ident); ok {
						r[id.Name] = true
					}
				}
			}
		}
		return true
	})
	return r
}

func (t *rt) begin(fn string, consts map[string]string, fns map[string]*rfn) {
	t.fnName, t.consts, t.fns = fn, consts, fns
	t.kinds, t.names, t.used = map[string]string{}, map[string]string{}, map[string]bool{}
	t.declaredHere, t.rangedSet, t.mutable = map[string]bool{}, map[string]string{}, map[string]bool{}
	t.out.Reset()
	t.n, t.errN, t.typeVar, t.fromB, t.hasTemplates = 0, 0, "", false, false
	for _, n := range []string{"fuel", "env", "dimensions"} {
		t.used[n] = true
	}
}

func runGConfigReduce(repo, out string) {
	parse := func(rel string) *ast.File {
		f, err := parser.ParseFile(fset, filepath.Join(repo, rel), nil, 0)
		if err != nil {
			fail("%v", err)
		}
		return f
	}
	builder := parse("gconfig/builder.go")
	tmplFile := parse("gconfig/yaml_templates.go")

	consts := map[string]string{}
	decls := map[string]*ast.FuncDecl{}
	var templatesDecl []string
	haveTemplates, haveGet, haveIface, haveDefaultVal := false, false, false, false
	for _, file := range []*ast.File{builder, tmplFile} {
		for _, d := range file.Decls {
			switch x := d.(type) {
			case *ast.GenDecl:
				for _, sp := range x.Specs {
					switch s := sp.(type) {
					case *ast.ValueSpec:
						if x.Tok == token.CONST && len(s.Names) == 1 && len(s.Values) == 1 {
							if lit, ok := s.Values[0].(*ast.BasicLit); ok && lit.Kind == token.STRING {
								consts[s.Names[0].Name] = lit.Value
							}
						}
						if x.Tok == token.VAR && len(s.Names) == 1 && s.Names[0].Name == "templates" && len(s.Values) == 1 {
							cl, ok := s.Values[0].(*ast.CompositeLit)
							if !ok || src(cl.Type) != "[]templateVariable" {
								fail("gconfigreduce: %s: `templates` is not a []templateVariable literal", at(s))
							}
							for _, e := range cl.Elts {
								templatesDecl = append(templatesDecl, src(e))
							}
							haveTemplates = true
						}
					case *ast.TypeSpec:
						if s.Name.Name == "templateVariable" {
							if src(s.Type) != "interface { MatchAndResolve(in string) (string, bool, error) }" {
								fail("gconfigreduce: %s: interface templateVariable is `%s`", at(s), src(s.Type))
							}
							haveIface = true
						}
						if s.Name.Name == "dimension" {
							if st, ok := s.Type.(*ast.StructType); ok {
								for _, f := range st.Fields.List {
									for _, n := range f.Names {
										if n.Name == "defaultVal" && src(f.Type) == "genum.Enum" {
											haveDefaultVal = true
										}
									}
								}
							}
						}
					}
				}
			case *ast.FuncDecl:
				if x.Recv == nil {
					decls[x.Name.Name] = x
				} else if len(x.Recv.List) == 1 {
					decls[recvTypeName(x.Recv.List[0].Type)+"."+x.Name.Name] = x
				}
			}
		}
	}
	if g := decls["dimension.get"]; g != nil && paramList(g) == "" && resultList(g) == "genum.Enum" {
		haveGet = true
	}
	if _, ok := consts["defaultKey"]; !ok {
		fail("gconfigreduce: constant defaultKey not found")
	}
	if !haveTemplates || !haveIface || !haveGet || !haveDefaultVal {
		fail("gconfigreduce: missing declaration (var templates: %v, interface templateVariable: %v, (*dimension).get() genum.Enum: %v, dimension.defaultVal genum.Enum: %v)",
			haveTemplates, haveIface, haveGet, haveDefaultVal)
	}
	consts = map[string]string{"defaultKey": consts["defaultKey"]}

	fns := map[string]*rfn{
		"reduceAny":              {lean: "reduceAny", fuel: true, params: []string{"any", "dims", "int"}, results: []string{"any", "err"}},
		"reduce":                 {lean: "reduce", fuel: true, params: []string{"amap", "dims", "int"}, results: []string{"any", "bool", "err"}},
		"parseTemplatedElements": {lean: "parseTemplatedElements", fuel: true, env: true, params: []string{"any"}, results: []string{"any", "err"}},
	}
	want := func(n, params, results string) *ast.FuncDecl {
		fd := decls[n]
		if fd == nil || fd.Body == nil {
			fail("gconfigreduce: func %s not found", n)
		}
		if paramList(fd) != params || resultList(fd) != results {
			fail("gconfigreduce: %s has signature (%s) (%s), the translation assumes (%s) (%s)", n, paramList(fd), resultList(fd), params, results)
		}
		return fd
	}
	t := &rt{}
	type outFn struct{ doc, text string }
	var outs []outFn
	var errConsts []string

	// a recursive function with fuel: `| 0, … => throw` / `| fuel + 1, … => do`
	recursive := func(fd *ast.FuncDecl, leanName, sig string, nparams int, body func()) {
		t.out.Reset()
		body()
		if n := len(fd.Body.List); n == 0 || !endsInReturn(fd.Body.List[n-1]) {
			fail("gconfigreduce: %s can fall off its end", fd.Name.Name)
		}
		var ps []string
		for _, p := range fd.Type.Params.List {
			for _, n := range p.Names {
				ps = append(ps, name(n.Name))
			}
		}
		text := fmt.Sprintf("def %s %s\n  | 0%s => throw \"out of fuel\"\n  | fuel + 1, %s => do\n%s", leanName, sig,
			strings.Repeat(", _", nparams), strings.Join(ps, ", "), t.out.String())
		outs = append(outs, outFn{src(&ast.FuncDecl{Name: fd.Name, Type: fd.Type}), text})
		errConsts = append(errConsts, t.errs...)
		t.errs = nil
	}
	namedResults := func(fd *ast.FuncDecl, kinds []string) {
		i := 0
		for _, f := range fd.Type.Results.List {
			for _, n := range f.Names {
				zero := map[string]string{"any": "Y.null", "bool": "false", "err": "none"}[kinds[i]]
				ln := t.declare(n.Name, kinds[i])
				t.declaredHere[n.Name] = true
				// a named result that the body never mentions needs no variable
				if mentions(fd.Body, n.Name) {
					t.mut[n.Name] = true
					t.line(2, "let mut "+ln+" : "+rLeanType[kinds[i]]+" := "+zero)
				}
				i++
			}
		}
	}
	bodyOf := func(fd *ast.FuncDecl) {
		for i, s := range fd.Body.List {
			var next ast.Stmt
			if i+1 < len(fd.Body.List) {
				next = fd.Body.List[i+1]
			}
			t.stmt(2, s, next)
		}
	}

	// reduceAny
	fd := want("reduceAny", "in any, dimensions []*dimension, dIndex int", "any, error")
	recursive(fd, "reduceAny", ": Nat → Y → List Dimension → Nat → Go.M (Y × Err)", 3, func() {
		t.begin("reduceAny", consts, fns)
		t.mut = allAssigned(fd.Body)
		t.rets = []string{"any", "err"}
		if assignsTo(fd.Body, "in") || assignsTo(fd.Body, "dimensions") || assignsTo(fd.Body, "dIndex") {
			fail("gconfigreduce: reduceAny assigns a parameter")
		}
		in := t.declare("in", "any")
		t.kinds["dimensions"], t.names["dimensions"] = "dims", "dimensions"
		t.declare("dIndex", "int")
		t.mutable["in"] = true
		t.line(2, "let mut "+in+" := "+in)
		bodyOf(fd)
	})
	// reduce
	fd = want("reduce", "in map[string]any, dimensions []*dimension, dIndex int", "out any, reduced bool, err error")
	recursive(fd, "reduce", ": Nat → List (String × Y) → List Dimension → Nat → Go.M (Y × Bool × Err)", 3, func() {
		t.begin("reduce", consts, fns)
		t.mut = allAssigned(fd.Body)
		t.rets = []string{"any", "bool", "err"}
		if assignsTo(fd.Body, "in") || assignsTo(fd.Body, "dimensions") || assignsTo(fd.Body, "dIndex") {
			fail("gconfigreduce: reduce assigns a parameter or writes into its map")
		}
		t.declare("in", "amap")
		t.kinds["dimensions"], t.names["dimensions"] = "dims", "dimensions"
		t.declare("dIndex", "int")
		namedResults(fd, t.rets)
		bodyOf(fd)
	})
	mutualText := "mutual\n"
	for _, o := range outs {
		mutualText += fmt.Sprintf("/-- `%s` -/\n%s\n", o.doc, o.text)
	}
	mutualText += "end\n\n"
	outs = nil

	// parseTemplatedElements, at T = any
	fd = decls["parseTemplatedElements"]
	if fd == nil || fd.Type.TypeParams == nil || len(fd.Type.TypeParams.List) != 1 || len(fd.Type.TypeParams.List[0].Names) != 1 ||
		src(fd.Type.TypeParams.List[0].Type) != "any" {
		fail("gconfigreduce: parseTemplatedElements is not generic in one type parameter of constraint any")
	}
	tv := fd.Type.TypeParams.List[0].Names[0].Name
	if paramList(fd) != "in "+tv || resultList(fd) != "out "+tv+", err error" {
		fail("gconfigreduce: parseTemplatedElements has signature (%s) (%s)", paramList(fd), resultList(fd))
	}
	recursive(fd, "parseTemplatedElements", "(env : Env) : Nat → Y → Go.M (Y × Err)", 1, func() {
		t.begin("parseTemplatedElements", consts, fns)
		t.mut = allAssigned(fd.Body)
		t.typeVar, t.hasTemplates = tv, true
		t.rets = []string{"any", "err"}
		if assignsTo(fd.Body, "in") {
			fail("gconfigreduce: parseTemplatedElements assigns its parameter")
		}
		in := t.declare("in", "any")
		t.mutable["in"] = true
		t.line(2, "let mut "+in+" := "+in)
		namedResults(fd, t.rets)
		bodyOf(fd)
	})
	tmplText := fmt.Sprintf("/-- `%s` at `%s = any` -/\n%s\n", outs[0].doc, tv, outs[0].text)
	outs = nil

	// Builder.FromBytes: data := make(map[string]any); if err := yaml.Unmarshal(bytes, &data); err != nil {…};
	// <translated statements>; dims := make(map[reflect.Type]genum.Enum, …); for … {…}; cfg := &Config{…, data: X}; return cfg, nil
	fd = want("Builder.FromBytes", "bytes []byte", "*Config, error")
	L := fd.Body.List
	if len(L) < 6 || src(L[0]) != "data := make(map[string]any)" {
		fail("gconfigreduce: FromBytes does not start with `data := make(map[string]any)`")
	}
	if ifs, ok := L[1].(*ast.IfStmt); !ok || ifs.Init == nil || src(ifs.Init) != "err := yaml.Unmarshal(bytes, &data)" || src(ifs.Cond) != "err != nil" || ifs.Else != nil {
		fail("gconfigreduce: FromBytes: the second statement is not `if err := yaml.Unmarshal(bytes, &data); err != nil {…}`")
	}
	n := len(L)
	retS, ok1 := L[n-1].(*ast.ReturnStmt)
	cfgS, ok2 := L[n-2].(*ast.AssignStmt)
	forS, ok3 := L[n-3].(*ast.RangeStmt)
	dimsS, ok4 := L[n-4].(*ast.AssignStmt)
	if !ok1 || !ok2 || !ok3 || !ok4 || src(retS) != "return cfg, nil" ||
		!strings.HasPrefix(src(dimsS), "dims := make(map[reflect.Type]genum.Enum") ||
		src(forS) != "for _, d := range b.dimensions { dims[reflect.TypeOf(d.defaultVal)] = d.get() }" {
		fail("gconfigreduce: FromBytes does not end with the dims table, `cfg := &Config{…}`, `return cfg, nil`")
	}
	dataField := ""
	if ue, ok := cfgS.Rhs[0].(*ast.UnaryExpr); ok && ue.Op == token.AND && len(cfgS.Lhs) == 1 && src(cfgS.Lhs[0]) == "cfg" && cfgS.Tok == token.DEFINE {
		if cl, ok := ue.X.(*ast.CompositeLit); ok && src(cl.Type) == "Config" {
			for _, e := range cl.Elts {
				kv, ok := e.(*ast.KeyValueExpr)
				if !ok {
					fail("gconfigreduce: FromBytes: Config literal without field names")
				}
				switch src(kv.Key) {
				case "data":
					if id, ok := kv.Value.(*ast.Ident); ok {
						dataField = id.Name
					}
				case "dimensions":
					if src(kv.Value) != "dims" {
						fail("gconfigreduce: FromBytes: Config.dimensions is not the dims table")
					}
				case "cached":
				default:
					fail("gconfigreduce: FromBytes: unknown Config field %s", src(kv.Key))
				}
			}
		}
	}
	if dataField == "" {
		fail("gconfigreduce: FromBytes: cannot find `data: <variable>` in the Config literal")
	}
	t.begin("fromBytes", consts, fns)
	mid := &ast.BlockStmt{List: L[2 : n-4]}
	t.mut = allAssigned(mid)
	t.fromB = true
	t.rets = []string{"cfg", "err"}
	t.declare("data", "amap")
	for i, s := range mid.List {
		var next ast.Stmt
		if i+1 < len(mid.List) {
			next = mid.List[i+1]
		}
		t.stmtInd1(s, next)
	}
	if t.kinds[dataField] != "amap" {
		fail("gconfigreduce: FromBytes: the data of the Config, `%s`, is not a map[string]any in scope", dataField)
	}
	t.line(1, "return (some "+t.names[dataField]+", none)")
	fromText := fmt.Sprintf("/-- `%s`, from the statement after `yaml.Unmarshal(bytes, &data)` to the `data` of the returned\n`*Config` (`none`: the `*Config` is nil) -/\ndef fromBytes (env : Env) (fuel : Nat) (dimensions : List Dimension) (data : List (String × Y)) :\n    Go.M (Option (List (String × Y)) × Err) := do\n%s\n",
		src(&ast.FuncDecl{Recv: fd.Recv, Name: fd.Name, Type: fd.Type}), t.out.String())
	errConsts = append(errConsts, t.errs...)

	var b strings.Builder
	b.WriteString("import Model.GoAny\nimport Generated.GoSet\nimport Generated.GoGConfigBuilder\n")
	b.WriteString(`/-! REGENERATED on every run by harness/cmd/go2lean -spec gconfigreduce from gconfig/builder.go (reduceAny,
reduce, the body of Builder.FromBytes after yaml.Unmarshal) and gconfig/yaml_templates.go
(parseTemplatedElements).  Do not edit.  Each definition follows the Go function statement by statement.

* ` + "`any`" + ` is the document type ` + "`GConfig.Y`" + ` (nil interface = ` + "`Y.null`" + `), ` + "`map[string]any`" + ` an association list in walk
  order (every theorem quantifies over all orders), ` + "`[]any`" + ` a list, ` + "`error`" + ` is ` + "`GoAny.Err`" + ` (nil or not; the
  message of a new error is not modelled: ` + "`<function>_err<k>`" + ` below are all ` + "`some ()`" + `).
* Recursion goes through a FUEL argument (first argument, one less at every call; out of fuel is a panic of
  ` + "`Go.M`" + `); the theorems hold for every fuel above a bound computed from the document.
* ` + "`switch v := in.(type)`" + `: in the map and slice cases ` + "`v`" + ` is the object ` + "`in`" + ` holds, so what the case writes
  through ` + "`v`" + ` is written back to ` + "`in`" + ` at the end of the case.
* In-place updates: ` + "`v[k], err = f(el)`" + ` inside ` + "`for k, el := range v`" + ` ranges over the entries ` + "`v`" + ` had when the
  loop started and replaces the entry of the CURRENT key/index (the only write the translator admits there;
  Go produces an entry not yet reached with its value at that moment, and only the current one is assigned);
  ` + "`for k := range keys { … keys.Remove(k) … }`" + ` ranges over the keys the set had when the loop started (deleting
  the current key during a range is safe and removes nothing still to be produced).  A translated call keeps
  only the callee's results although the callee may rewrite its argument in place: exact because the argument
  is not looked at again (checked by the translator) and documents are trees.
* Parameters of the translation: ` + "`Dimension`" + ` (` + "`dim.defaultVal.ParseGeneric`" + `, ` + "`dim.get()`" + `; enum values of one type
  are numbers), ` + "`Env.templates`" + ` (the ` + "`MatchAndResolve`" + ` of each element of the package variable ` + "`templates`" + `).
  ` + "`keySet`" + ` is the translated one of Generated/GoGConfigBuilder.lean, ` + "`Set.Remove`" + ` that of Generated/GoSet.lean. -/
`)
	b.WriteString("namespace Generated.GoGConfigReduce\nopen GConfig (Y)\nopen GoAny (Err)\n\n")
	b.WriteString("/-- `*dimension`: what the translated code asks of it -/\nstructure Dimension where\n  /-- `dim.defaultVal.ParseGeneric(s)` -/\n  parseGeneric : String → Nat × Err\n  /-- `dim.get()` -/\n  get : Nat\n  deriving Inhabited\n\n")
	b.WriteString("structure Env where\n  /-- `templates[i].MatchAndResolve` -/\n  templates : List (String → String × Bool × Err)\n\n")
	fmt.Fprintf(&b, "/-- the elements of `var templates = []templateVariable{…}` as written -/\ndef templatesDecl : List String := [%s]\n\n", quoteAll(templatesDecl))
	fmt.Fprintf(&b, "def defaultKey : String := %s\n\n", consts["defaultKey"])
	sort.Strings(errConsts)
	for _, e := range errConsts {
		p := strings.SplitN(e, "\x00", 2)
		fmt.Fprintf(&b, "/-- `%s` -/\ndef %s : Err := some ()\n\n", strings.ReplaceAll(p[1], "`", "'"), p[0])
	}
	b.WriteString(mutualText)
	b.WriteString(tmplText)
	b.WriteString(fromText)
	b.WriteString("end Generated.GoGConfigReduce\n")
	if err := os.WriteFile(out, []byte(b.String()), 0o644); err != nil {
		fail("%v", err)
	}
	fmt.Printf("go2lean gconfigreduce: reduceAny, reduce, parseTemplatedElements, Builder.FromBytes -> %s\n", out)
}

func quoteAll(xs []string) string {
	var q []string
	for _, x := range xs {
		q = append(q, fmt.Sprintf("%q", x))
	}
	return strings.Join(q, ", ")
}

func (t *rt) stmtInd1(s ast.Stmt, next ast.Stmt) { t.stmt(1, s, next) }

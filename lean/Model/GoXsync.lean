import Model.GoPrelude
import Model.GConfigCache
/-!
# Meaning of the two library operations in the translated request path of gconfig (`go2lean -spec gconfigget`)

* `compute`: `xsync.MapOf[K, any].Compute(key, valueFn)` as documented ("either sets the computed new
  value for the key or deletes the value for the key. When the delete result of the valueFn function
  is set to true, the value will be deleted, if it exists. When delete is set to false, the value is
  updated to the newValue. The ok result indicates whether value was computed and stored"), executed
  atomically for the key (per-key atomicity is xsync's contract; DESIGN.md section 5).  The callback
  may assign variables it captured; they are its state `σ`.  When the key is absent and the callback
  asks for deletion, xsync v3.0.2 returns either the zero value or the callback's value depending on
  bucket layout; the model returns the nil interface - callers must not use it (getFromCache does not).
* `assertTo`: the type assertion `v.(T)` on a non-nil `any`: succeeds when T is an interface type (the
  only interface type in the quantifier is `any`) or the dynamic type is T, panics otherwise.
-/
namespace GoXsync
open GConfigCache

/-- a type argument: its identity (what `reflect.TypeFor[T]()` distinguishes) and whether it is an interface type -/
structure TyDesc where
  name : String
  iface : Bool := false
  deriving DecidableEq, Repr

/-- `v == nil` on an `any` -/
def isNil : TV → Bool
  | .nil => true
  | _ => false

/-- replace the value of the FIRST entry under `k` (there is at most one in a real map) -/
def replaceFirst {κ : Type} [DecidableEq κ] : Cache κ → κ → TV → Cache κ
  | [], _, _ => []
  | e :: es, k, v => if e.1 == k then (e.1, v) :: es else e :: replaceFirst es k v

/-- delete the first entry under `k` -/
def eraseFirst {κ : Type} [DecidableEq κ] : Cache κ → κ → Cache κ
  | [], _ => []
  | e :: es, k => if e.1 == k then es else e :: eraseFirst es k

/-- `actual, ok := m.Compute(k, fn)`; result: the table, ((actual, ok), the callback's final state) -/
def compute {κ σ : Type} [DecidableEq κ] (c : Cache κ) (k : κ) (st : σ)
    (fn : TV → Bool → σ → Go.M ((TV × Bool) × σ)) : Go.M (Cache κ × ((TV × Bool) × σ)) := do
  match lookup c k with
  | some old =>
    let r ← fn old true st
    if r.1.2 then pure (eraseFirst c k, ((old, false), r.2))
    else pure (replaceFirst c k r.1.1, ((r.1.1, true), r.2))
  | none =>
    let r ← fn TV.nil false st
    if r.1.2 then pure (c, ((TV.nil, false), r.2))
    else pure ((k, r.1.1) :: c, ((r.1.1, true), r.2))

/-- `v.(T)` on a non-nil interface value -/
def assertTo (T : TyDesc) : TV → Go.M TV
  | .nil => throw "interface conversion: interface is nil"
  | .val ty repr => if T.iface || ty == T.name then pure (.val ty repr) else throw "interface conversion"

end GoXsync

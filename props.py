"""Per-property configuration of ./check (which Lean modules hold the obligations, which
harness binaries run the correspondence, what is trusted)."""

GO_TRUST = "Go compiler/runtime; the harness (cmd/%s) and the Lean line-protocol driver, incl. their canonicalisation"

PROPS = {
    "C11": dict(
        title="set: BitSet is exact bit-set algebra and reports changes truthfully",
        lean_modules=["Properties.C11"],
        harness=[dict(bin="h-set")],
        trusted=[GO_TRUST % "h-set", "Go's conversion BitSet[T](item) zero-extends (language spec)"],
        assumptions=["flags enter the model already zero-extended to 64 bits (theorem mem_ofFlag covers every width <= 64)"],
        level_text="Machine-checked Lean 4 theorems (kernel-only axioms) over a BitVec 64 model that mirrors bit_set.go statement by statement: union/difference/intersection/subset characterisations, change flag <-> value changed, multi-argument = sequential, for every set, every flag list and every flag width. The model is tied to /repo by executing model and implementation on all 65536 (set,flag) pairs of an 8-bit flag type (all triples in the thorough tier) plus random wide calls and sequences.",
        level_note="Trusted: Lean kernel + propext/Quot.sound/Classical.choice as reported by #print axioms; the Go harness and Lean driver; Go's integer conversion semantics. The theorem is about the model; the exhaustive 8-bit correspondence and random 16/32/64-bit runs are what tie it to the code.",
        technique="Lean 4 proof (induction over flag lists, bitwise extensionality) + exhaustive model/implementation correspondence",
        explanation="theorems over all BitVec 64 sets and all flag lists; correspondence exhaustive on the 8-bit flag type",
    ),
    "C07": dict(
        title="set: Set is a mathematical set under every operation sequence",
        lean_modules=["Properties.C07"],
        harness=[dict(bin="h-set")],
        trusted=[GO_TRUST % "h-set", "Go's built-in map is a finite map (insert/delete/lookup/len/range)"],
        assumptions=["Has/HasAny are called with at least one argument (the quantifier); zero-argument calls are compared only in the out-of-domain stream"],
        level_text="Machine-checked Lean 4 refinement: the model of set.go (nil/allocated map as Option (List), every early return and changed-flag guard mirrored) refines the mathematical set for EVERY operation sequence of any length over any element type (refines_math_set, by induction over the op list from the no-duplicates invariant), with Has/HasAny/Slice characterisations, change-flag <-> membership-changed, and order independence of AddSet/RemoveSet over Go's map iteration order. Tied to /repo by differential execution of random op sequences on int/string/struct sets with a full membership probe after every mutation.",
        level_note="Trusted: Lean kernel + standard axioms; Go's built-in map; the Go harness and the Lean driver. The theorem is about the model; the correspondence (20k sequences quick, 600k thorough) ties it to set.go.",
        technique="Lean 4 proof (refinement to a mathematical set by induction over operation sequences) + differential correspondence on op histories",
        explanation="refinement theorem for all op sequences; correspondence on random histories",
    ),
    "C17": dict(
        title="set: JSON and YAML encodings of Set round-trip membership",
        lean_modules=["Properties.C17"],
        harness=[dict(bin="h-set")],
        trusted=[GO_TRUST % "h-set", "encoding/json and gopkg.in/yaml.v3 round-trip lists of the element types (hypothesis Codec.RoundTrips; observed by the correspondence run, not proved)"],
        assumptions=["the list codec round-trips the element type (no NaN floats); a literal YAML null decoded into a pre-filled set is yaml.v3 behaviour and out of domain"],
        level_text="Machine-checked Lean 4 theorems, parametric in the element list codec: Unmarshal(Marshal(s)) into any target is exactly target ∪ s (hence exact round trip into nil/empty targets, nil and empty sets included), the encoding is Slice() = each member once, nil exactly when empty. PARTIAL: the codec's own round-trip law is a hypothesis of the theorems, validated differentially (json and yaml.v3, standalone and as struct field, 7 element types incl. YAML-significant strings) rather than proved.",
        level_note="Trusted: Lean kernel + standard axioms; encoding/json and yaml.v3 (not modelled; their list round trip is the hypothesis RoundTrips); the Go harness and Lean driver.",
        technique="Lean 4 proof parametric in a codec law (reusing the C07 refinement lemmas) + differential correspondence through the real codecs",
        explanation="partial: codec law is a hypothesis; everything Set itself contributes is proved",
    ),
    "C20": dict(
        title="gogenproto: protoc gets exactly the in-scope protos, includes, mappings",
        lean_modules=["Properties.C20"],
        harness=[dict(bin="h-gogenproto")],
        trusted=[GO_TRUST % "h-gogenproto", "filepath.WalkDir/Abs/Rel/Join, strings.Cut, os/exec (modelled as operations on component lists / a tree, compared differentially, not verified)", "go/packages: the package path of a directory is the parameter pkgOf of the theorems; the driver instantiates it with <module path>/<dir relative to the module root>", "the recording /bin/sh stub that stands in for protoc"],
        assumptions=["a file's `declares option go_package` bit is an attribute of the model's file node; the line scan of protoFileHasGoPackage is not modelled (canonical `option go_package = \"...\";` in the domain stream; other spellings only in the out-of-domain stream)", "explicit =prefix values are clean relative import paths (no empty, `.` or `..` components); directory names contain no `=`", "every directory whose package is looked up lies in the scratch module and holds a Go file"],
        level_text="Machine-checked Lean 4 theorems (kernel-only axioms) over a model that mirrors Generate.Run / findProtos statement by statement (the WalkDir callback with its `pathname == g.InputDir` special case and SkipDir, the fixed/vtproto/grpc argument blocks, the include loop with strings.Cut, -I, the go_package skip, prefix join vs. package lookup, one M option per requested plugin, the trailing file operands), for EVERY directory tree of any depth and size, every list of include roots and every flag setting: protos_named_iff + protos_exactly_once (a file operand is passed exactly for the regular *.proto files directly inside the input dir, or anywhere below it with -recurse, each exactly once, nothing else), includes_present (the -I arguments are exactly the absolute input dir and the absolute include dirs), mapping_iff_no_go_package (+ mapping_to_every_requested_plugin: an M<rel>=<pkg> option reaches plugin p iff p is requested and <rel> is a proto below one of those roots that does not declare go_package, <pkg> being the prefix joined with the relative directory or the directory's Go package), plugins_iff_flags, single_invocation, isProtoName_iff (filepath.Ext test = name ends in .proto). The spec side (HasFile/InScope/specPkg) restates the property text and does not mention the walk. The package of a directory is a parameter of the theorems. Tied to /repo by differential execution: generated trees x all 8 flag settings x input spellings x entry points (gen.Generate.Run in-process and the CLI built from cmd/gogenproto, incl. the PWD default) with protoc replaced by a recording stub; argv (file operands resolved to the file they name) and cwd are compared with the model, and the stub's record count checks the single invocation.",
        level_note="Trusted: Lean kernel + propext/Quot.sound/Classical.choice; the Go harness, the /bin/sh recording stub and the Lean driver incl. canonicalisation (argv compared as a sorted multiset, file operands by identity, -I and M options literally); filepath.WalkDir/Abs/Rel/Join, strings.Cut and os/exec are represented by tree recursion and component-list operations and only compared differentially; go/packages is a parameter (pkgOf). Not modelled: the line scan of protoFileHasGoPackage (a file's `declares go_package` bit is an input of the model; only the canonical spelling `option go_package = ...;` is in the domain stream - other legal spellings such as `option go_package=...;` without spaces, or a commented-out option, make the scan disagree with the declaration and are recorded as out-of-domain drift), symlinks, the 64 KiB scanner limit. Theorem hypotheses concern the input only: distinct names per directory (exactly-once), the input dir is not a regular file of an include tree, explicit prefixes are clean relative import paths.",
        technique="Lean 4 proof (mutual structural induction over directory trees) + differential correspondence on generated trees x flag settings through a recording protoc stub",
        explanation="all clauses proved on the model for all trees/flags (package lookup parametric, go_package detection an input bit); correspondence on 120 trees x 8 flag settings quick, 2400 x 8 thorough, 4 worker processes",
    ),
}

# properties not claimed, with the reason (kept current; see DESIGN.md)
NOT_CLAIMED = {}

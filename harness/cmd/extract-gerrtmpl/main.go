// extract-gerrtmpl: tie A for property C09, the BODIES of the generated methods.
//
// Reads gerror/gen/gerror.gotmpl (text/template/parse; the actions are replaced by placeholders and
// every {{range}} is marked, then go/parser reads the result) and writes the body of the generated
// `Error()` and the composite literal of `toPrimaryType` as Lean DATA in the syntax of
// lean/Model/GErrTmpl.lean, plus the accessor methods of *GError (gerror.go: `func (e *GError) M() T
// { return e.f }`).  It only extracts: what the bodies MEAN is GErrTmpl.exec / evalPrimary, and
// Properties/C09Tie.lean proves that this is the model's extErrorFull / toPrimary for every extension
// definition.  A selector keeps whether it goes through the embedded field (`e.GError.Name`) or not
// (`e.Name`).  Anything the syntax cannot say makes the extractor fail (a broken tie), never guess.
package main

import (
	"flag"
	"fmt"
	"go/ast"
	"go/parser"
	"go/printer"
	"go/token"
	"os"
	"path/filepath"
	"strconv"
	"strings"
	"text/template/parse"
)

func fatal(format string, a ...any) {
	fmt.Fprintf(os.Stderr, "extract-gerrtmpl: "+format+"\n", a...)
	os.Exit(1)
}

var fset = token.NewFileSet()

func src(n ast.Node) string {
	var b strings.Builder
	printer.Fprint(&b, fset, n)
	return strings.Join(strings.Fields(b.String()), " ")
}

func repoFromWorkspace() string {
	b, err := os.ReadFile("go.work")
	if err != nil {
		fatal("cannot read go.work (run from the harness directory or pass -repo): %v", err)
	}
	for _, l := range strings.Split(string(b), "\n") {
		l = strings.TrimSpace(strings.TrimPrefix(strings.TrimSpace(l), "use "))
		if strings.HasSuffix(l, "/gerror") {
			return strings.TrimSuffix(l, "/gerror")
		}
	}
	fatal("no gerror module in go.work")
	return ""
}

type rangeMark struct {
	from, to token.Pos
	which    string
}

const (
	phType    = "TYPENAME__"
	phPrintAs = "PRINTAS__"
	phField   = "FIELDNAME__"
)

// flatten: the template as Go source; each {{range $field := $desc.X}} body once, between markers
func flatten(path string) (string, map[string]string) {
	data, err := os.ReadFile(path)
	if err != nil {
		fatal("%v", err)
	}
	trees, err := parse.Parse("gerror.gotmpl", string(data), "{{", "}}", map[string]any{"index": true, "not": true})
	if err != nil {
		fatal("template does not parse: %v", err)
	}
	var out strings.Builder
	ranges := map[string]string{}
	n := 0
	var walk func(nd parse.Node, inFieldRange bool)
	walk = func(nd parse.Node, inFieldRange bool) {
		switch x := nd.(type) {
		case *parse.ListNode:
			if x == nil {
				return
			}
			for _, c := range x.Nodes {
				walk(c, inFieldRange)
			}
		case *parse.TextNode:
			out.Write(x.Text)
		case *parse.ActionNode:
			s := x.String()
			switch {
			case strings.Contains(s, "FactoryComments"), strings.Contains(s, "ImportString"):
				out.WriteString("\n")
			case s == "{{.PkgName}}":
				out.WriteString("p")
			case s == "{{$desc.TypeName}}":
				out.WriteString(phType)
			case s == "{{$field.PrintAs}}" && inFieldRange:
				out.WriteString(phPrintAs)
			case s == "{{$field.Name}}" && inFieldRange:
				out.WriteString(phField)
			default:
				fatal("template: action %s is not one the extractor knows (here)", s)
			}
		case *parse.RangeNode:
			p := x.Pipe.String()
			switch {
			case p == "$import := $.Imports.GetActive", p == "$desc := .ErrorDescs":
				if x.ElseList != nil {
					fatal("template: {{range}} … {{else}}")
				}
				walk(x.List, inFieldRange)
			case strings.HasPrefix(p, "$field := $desc."):
				if inFieldRange || x.ElseList != nil {
					fatal("template: nested or {{else}} field range")
				}
				n++
				k := strconv.Itoa(n)
				ranges[k] = strings.TrimPrefix(p, "$field := $desc.")
				fmt.Fprintf(&out, "\n/*RANGE-BEGIN %s*/\n", k)
				walk(x.List, true)
				fmt.Fprintf(&out, "\n/*RANGE-END %s*/\n", k)
			default:
				fatal("template: {{range %s}} is not one the extractor knows", p)
			}
		case *parse.IfNode:
			// guards of whole stanzas (extract-gerror reports them); inside Error()/toPrimaryType an {{if}}
			// would change the body per option, which this extraction does not express
			fmt.Fprintf(&out, "\n/*IF-BEGIN*/\n")
			walk(x.List, inFieldRange)
			if x.ElseList != nil {
				fatal("template: {{else}} branches are not handled by the extractor")
			}
			fmt.Fprintf(&out, "\n/*IF-END*/\n")
		default:
			fatal("template: node %T is not one the extractor knows", nd)
		}
	}
	walk(trees["gerror.gotmpl"].Root, false)
	return out.String(), ranges
}

func leanString(s string) string {
	var b strings.Builder
	b.WriteByte('"')
	for _, r := range s {
		switch {
		case r == '\n':
			b.WriteString(`\n`)
		case r == '\t':
			b.WriteString(`\t`)
		case r == '"':
			b.WriteString(`\"`)
		case r == '\\':
			b.WriteString(`\\`)
		case r < 0x20 || r > 0x7e:
			fatal("string %q holds a character the extractor does not spell", s)
		default:
			b.WriteRune(r)
		}
	}
	b.WriteByte('"')
	return b.String()
}

type ex struct {
	recv   string
	marks  []rangeMark
	ifs    [][2]token.Pos
	locals map[string]bool
}

func (x *ex) rangeOf(n ast.Node) *rangeMark {
	for i := range x.marks {
		if x.marks[i].from < n.Pos() && n.End() < x.marks[i].to {
			return &x.marks[i]
		}
	}
	return nil
}

// sel: e.GError.M / e.GError.M() / e.M / e.M() / local
func (x *ex) sel(e ast.Expr) (string, bool) {
	call := false
	if c, ok := e.(*ast.CallExpr); ok {
		if len(c.Args) != 0 {
			return "", false
		}
		e, call = c.Fun, true
	}
	switch s := e.(type) {
	case *ast.Ident:
		if !call && x.locals[s.Name] {
			return "(.loc " + leanString(s.Name) + ")", true
		}
	case *ast.SelectorExpr:
		if id, ok := s.X.(*ast.Ident); ok && id.Name == x.recv && s.Sel.Name != phField {
			return fmt.Sprintf("(.own %s %v)", leanString(s.Sel.Name), call), true
		}
		if in, ok := s.X.(*ast.SelectorExpr); ok {
			if id, ok := in.X.(*ast.Ident); ok && id.Name == x.recv && in.Sel.Name == "GError" {
				return fmt.Sprintf("(.base %s %v)", leanString(s.Sel.Name), call), true
			}
		}
	}
	return "", false
}

func (x *ex) format(n ast.Node, f string) string {
	var ps []string
	rest := f
	flush := func(s string) {
		if s != "" {
			ps = append(ps, ".text "+leanString(s))
		}
	}
	for rest != "" {
		i := strings.Index(rest, phPrintAs)
		j := strings.Index(rest, "%")
		switch {
		case i >= 0 && (j < 0 || i < j):
			flush(rest[:i])
			ps = append(ps, ".printAs")
			rest = rest[i+len(phPrintAs):]
		case j >= 0:
			flush(rest[:j])
			if !strings.HasPrefix(rest[j:], "%v") {
				fatal("%s: format %q uses a verb other than %%v", fset.Position(n.Pos()), f)
			}
			ps = append(ps, ".verbV")
			rest = rest[j+2:]
		default:
			flush(rest)
			rest = ""
		}
	}
	if strings.Count(strings.Join(ps, " "), ".verbV") != 1 {
		fatal("%s: format %q does not have exactly one %%v", fset.Position(n.Pos()), f)
	}
	return "[" + strings.Join(ps, ", ") + "]"
}

func (x *ex) expr(e ast.Expr, inRange bool) string {
	switch v := e.(type) {
	case *ast.ParenExpr:
		return x.expr(v.X, inRange)
	case *ast.BasicLit:
		if v.Kind == token.STRING {
			s, err := strconv.Unquote(v.Value)
			if err != nil {
				fatal("string literal %s", v.Value)
			}
			if strings.Contains(s, phPrintAs) || strings.Contains(s, phField) || strings.Contains(s, phType) {
				fatal("%s: a template action inside a plain string literal %s", fset.Position(e.Pos()), v.Value)
			}
			return "(.lit " + leanString(s) + ")"
		}
	case *ast.BinaryExpr:
		if v.Op == token.ADD {
			return "(.cat " + x.expr(v.X, inRange) + " " + x.expr(v.Y, inRange) + ")"
		}
	case *ast.CallExpr:
		if src(v.Fun) == "fmt.Sprintf" && len(v.Args) == 2 && inRange && !v.Ellipsis.IsValid() {
			lit, ok := v.Args[0].(*ast.BasicLit)
			if ok && lit.Kind == token.STRING && src(v.Args[1]) == x.recv+"."+phField {
				f, err := strconv.Unquote(lit.Value)
				if err != nil {
					fatal("string literal %s", lit.Value)
				}
				return "(.sprintfField " + x.format(v, f) + ")"
			}
		}
		if s, ok := v.Fun.(*ast.SelectorExpr); ok && s.Sel.Name == "String" && len(v.Args) == 0 {
			if t, ok := x.sel(s.X); ok {
				return "(.stackString " + t + ")"
			}
		}
	}
	if s, ok := x.sel(e); ok {
		return "(.sel " + s + ")"
	}
	fatal("%s: expression `%s` of Error() is outside the extracted syntax", fset.Position(e.Pos()), src(e))
	return ""
}

func seq(ss []string) string {
	if len(ss) == 0 {
		return ".skip"
	}
	if len(ss) == 1 {
		return ss[0]
	}
	return "(.seq " + ss[0] + "\n    " + seq(ss[1:]) + ")"
}

func (x *ex) stmts(list []ast.Stmt, inRange bool) string {
	var out []string
	for i := 0; i < len(list); i++ {
		s := list[i]
		if !inRange {
			if m := x.rangeOf(s); m != nil {
				j := i
				for j < len(list) && x.rangeOf(list[j]) == m {
					j++
				}
				w := map[string]string{"FieldsToPrint": ".print", "FieldsToClone": ".clone"}[m.which]
				if w == "" {
					fatal("Error(): range over $desc.%s", m.which)
				}
				out = append(out, "(.range "+w+" "+x.stmts(list[i:j], true)+")")
				i = j - 1
				continue
			}
		}
		out = append(out, x.stmt(s, inRange))
	}
	return seq(out)
}

func (x *ex) stmt(s ast.Stmt, inRange bool) string {
	for _, r := range x.ifs {
		if r[0] < s.Pos() && s.End() < r[1] {
			fatal("%s: a statement of the method body stands under a template {{if}}", fset.Position(s.Pos()))
		}
	}
	switch v := s.(type) {
	case *ast.DeclStmt:
		gd, ok := v.Decl.(*ast.GenDecl)
		if ok && (gd.Tok == token.CONST || gd.Tok == token.VAR) && len(gd.Specs) == 1 {
			vs := gd.Specs[0].(*ast.ValueSpec)
			if len(vs.Names) == 1 && len(vs.Values) == 1 {
				e := x.expr(vs.Values[0], inRange)
				x.locals[vs.Names[0].Name] = true
				return "(.decl " + leanString(vs.Names[0].Name) + " " + e + ")"
			}
		}
	case *ast.AssignStmt:
		if len(v.Lhs) == 1 && len(v.Rhs) == 1 {
			id, ok := v.Lhs[0].(*ast.Ident)
			if ok && v.Tok == token.DEFINE && !x.locals[id.Name] {
				e := x.expr(v.Rhs[0], inRange)
				x.locals[id.Name] = true
				return "(.decl " + leanString(id.Name) + " " + e + ")"
			}
			if ok && v.Tok == token.ADD_ASSIGN && x.locals[id.Name] {
				return "(.append " + leanString(id.Name) + " " + x.expr(v.Rhs[0], inRange) + ")"
			}
		}
	case *ast.IfStmt:
		// if n := <sel>; len(n) > 0 { … }
		init, ok := v.Init.(*ast.AssignStmt)
		if ok && v.Else == nil && init.Tok == token.DEFINE && len(init.Lhs) == 1 && len(init.Rhs) == 1 {
			id, ok := init.Lhs[0].(*ast.Ident)
			sl, oks := x.sel(init.Rhs[0])
			if ok && oks && !x.locals[id.Name] && src(v.Cond) == "len("+id.Name+") > 0" {
				x.locals[id.Name] = true
				for _, b := range v.Body.List {
					if _, isRet := b.(*ast.ReturnStmt); isRet {
						fatal("%s: return inside an if", fset.Position(b.Pos()))
					}
				}
				body := x.stmts(v.Body.List, inRange)
				delete(x.locals, id.Name)
				return "(.ifLen " + leanString(id.Name) + " " + sl + " " + body + ")"
			}
		}
	case *ast.ReturnStmt:
		if len(v.Results) == 1 && !inRange {
			if id, ok := v.Results[0].(*ast.Ident); ok && x.locals[id.Name] {
				return "(.ret " + leanString(id.Name) + ")"
			}
		}
	}
	fatal("%s: statement `%s` of Error() is outside the extracted syntax", fset.Position(s.Pos()), src(s))
	return ""
}

func recvOf(fd *ast.FuncDecl) (name, typ string) {
	if fd.Recv == nil || len(fd.Recv.List) != 1 || len(fd.Recv.List[0].Names) != 1 {
		return "", ""
	}
	t := fd.Recv.List[0].Type
	if st, ok := t.(*ast.StarExpr); ok {
		t = st.X
	}
	id, _ := t.(*ast.Ident)
	if id == nil {
		return "", ""
	}
	return fd.Recv.List[0].Names[0].Name, id.Name
}

// toPrimaryType: `result := &T{ … }; return result` or `return &T{ … }`
func (x *ex) primary(fd *ast.FuncDecl) string {
	if len(fd.Type.Params.List) != 1 || len(fd.Type.Params.List[0].Names) != 1 || src(fd.Type.Params.List[0].Type) != "*gerror.GError" {
		fatal("toPrimaryType: signature")
	}
	param := fd.Type.Params.List[0].Names[0].Name
	var lit ast.Expr
	switch len(fd.Body.List) {
	case 1:
		if r, ok := fd.Body.List[0].(*ast.ReturnStmt); ok && len(r.Results) == 1 {
			lit = r.Results[0]
		}
	case 2:
		a, ok1 := fd.Body.List[0].(*ast.AssignStmt)
		r, ok2 := fd.Body.List[1].(*ast.ReturnStmt)
		if ok1 && ok2 && a.Tok == token.DEFINE && len(a.Lhs) == 1 && len(a.Rhs) == 1 && len(r.Results) == 1 && src(r.Results[0]) == src(a.Lhs[0]) {
			lit = a.Rhs[0]
		}
	}
	u, ok := lit.(*ast.UnaryExpr)
	if !ok || u.Op != token.AND {
		fatal("toPrimaryType: the body is not `[result :=] &T{…}; return`")
	}
	cl, ok := u.X.(*ast.CompositeLit)
	if !ok || src(cl.Type) != phType {
		fatal("toPrimaryType: the result is not a literal of the extension type")
	}
	var elems []string
	for _, e := range cl.Elts {
		kv, ok := e.(*ast.KeyValueExpr)
		if !ok {
			fatal("toPrimaryType: unkeyed element `%s`", src(e))
		}
		for _, r := range x.ifs {
			if r[0] < e.Pos() && e.End() < r[1] {
				fatal("toPrimaryType: an element stands under a template {{if}}")
			}
		}
		m := x.rangeOf(e)
		switch {
		case m == nil && src(kv.Key) == "GError" && src(kv.Value) == "*"+param:
			elems = append(elems, ".gerrorFromParam")
		case m != nil && src(kv.Key) == phField && src(kv.Value) == x.recv+"."+phField:
			w := map[string]string{"FieldsToPrint": ".print", "FieldsToClone": ".clone"}[m.which]
			if w == "" {
				fatal("toPrimaryType: range over $desc.%s", m.which)
			}
			elems = append(elems, "(.fieldsFromRecv "+w+")")
		default:
			fatal("toPrimaryType: element `%s` is outside the extracted syntax", src(e))
		}
	}
	return "[" + strings.Join(elems, ", ") + "]"
}

func main() {
	repo := flag.String("repo", "", "root of the gtools checkout (default: from harness/go.work)")
	out := flag.String("out", "../lean/Generated/GerrorTmplBody.lean", "output file")
	flag.Parse()
	if *repo == "" {
		*repo = repoFromWorkspace()
	}
	flat, ranges := flatten(filepath.Join(*repo, "gerror/gen/gerror.gotmpl"))
	f, err := parser.ParseFile(fset, "gerror.gotmpl.go", flat, parser.ParseComments)
	if err != nil {
		fatal("flattened template is not Go: %v", err)
	}
	x := &ex{locals: map[string]bool{}}
	open := map[string]token.Pos{}
	var ifOpen []token.Pos
	for _, cg := range f.Comments {
		for _, c := range cg.List {
			t := strings.TrimSuffix(strings.TrimPrefix(c.Text, "/*"), "*/")
			switch {
			case strings.HasPrefix(t, "RANGE-BEGIN "):
				open[strings.TrimPrefix(t, "RANGE-BEGIN ")] = c.Pos()
			case strings.HasPrefix(t, "RANGE-END "):
				k := strings.TrimPrefix(t, "RANGE-END ")
				x.marks = append(x.marks, rangeMark{open[k], c.End(), ranges[k]})
			case t == "IF-BEGIN":
				ifOpen = append(ifOpen, c.Pos())
			case t == "IF-END":
				x.ifs = append(x.ifs, [2]token.Pos{ifOpen[len(ifOpen)-1], c.End()})
				ifOpen = ifOpen[:len(ifOpen)-1]
			}
		}
	}
	var errBody, prim string
	for _, d := range f.Decls {
		fd, ok := d.(*ast.FuncDecl)
		if !ok {
			continue
		}
		rn, rt := recvOf(fd)
		if rt != phType {
			continue
		}
		switch fd.Name.Name {
		case "Error":
			if errBody != "" {
				fatal("two Error() methods")
			}
			if fd.Type.Params.NumFields() != 0 || fd.Type.Results == nil || src(fd.Type.Results) != "string" && src(fd.Type.Results.List[0].Type) != "string" {
				fatal("Error(): signature")
			}
			x.recv, x.locals = rn, map[string]bool{}
			errBody = x.stmts(fd.Body.List, false)
			if n := len(fd.Body.List); n == 0 {
				fatal("Error(): empty body")
			} else if _, ok := fd.Body.List[n-1].(*ast.ReturnStmt); !ok {
				fatal("Error(): does not end in a return")
			}
		case "toPrimaryType":
			if prim != "" {
				fatal("two toPrimaryType methods")
			}
			x.recv = rn
			prim = x.primary(fd)
		}
	}
	if errBody == "" || prim == "" {
		fatal("Error() or toPrimaryType not found in the template")
	}
	// accessor methods of *GError
	gf, err := parser.ParseFile(fset, filepath.Join(*repo, "gerror/gerror.go"), nil, 0)
	if err != nil {
		fatal("%v", err)
	}
	var acc []string
	for _, d := range gf.Decls {
		fd, ok := d.(*ast.FuncDecl)
		if !ok || fd.Body == nil {
			continue
		}
		rn, rt := recvOf(fd)
		if rt != "GError" || fd.Type.Params.NumFields() != 0 || len(fd.Body.List) != 1 {
			continue
		}
		r, ok := fd.Body.List[0].(*ast.ReturnStmt)
		if !ok || len(r.Results) != 1 {
			continue
		}
		if s, ok := r.Results[0].(*ast.SelectorExpr); ok {
			if id, ok := s.X.(*ast.Ident); ok && id.Name == rn {
				acc = append(acc, "("+leanString(fd.Name.Name)+", "+leanString(s.Sel.Name)+")")
			}
		}
	}
	var b strings.Builder
	b.WriteString("import Model.GErrTmpl\n/-! GENERATED on every run by harness/cmd/extract-gerrtmpl from gerror/gen/gerror.gotmpl and gerror/gerror.go of the\nchecked tree — do not edit.  The body of the generated `Error()` and the literal of `toPrimaryType`, in the\nsyntax of Model/GErrTmpl.lean. -/\nnamespace Generated.GerrorTmplBody\nopen GErrTmpl\n\n")
	fmt.Fprintf(&b, "/-- `func (e *T) Error() string` of the template -/\ndef errorBody : Stmt :=\n  %s\n\n", errBody)
	fmt.Fprintf(&b, "/-- the elements of `&T{…}` in `toPrimaryType` -/\ndef toPrimary : List PElem := %s\n\n", prim)
	fmt.Fprintf(&b, "/-- `func (e *GError) M() … { return e.f }` in gerror.go: (M, f) -/\ndef accessors : List (String × String) := [%s]\n\nend Generated.GerrorTmplBody\n", strings.Join(acc, ", "))
	if err := os.WriteFile(*out, []byte(b.String()), 0o644); err != nil {
		fatal("%v", err)
	}
	fmt.Printf("extract-gerrtmpl: Error(), toPrimaryType, %d accessors -> %s\n", len(acc), *out)
}

import Model.Genum
import Lemmas.Genum
import Lemmas.GenumTraits
import Properties.C04
import Properties.C05
/-!
# C12 — genum: trait accessors and parse-by-trait agree with the declaration

About `genFull` and the accessor / `Parse` switch / decoder models of `Model/Genum.lean` part 2
(current tree; the pinned algorithms are the `Quirks`).
-/
namespace Genum.C12
open Genum

variable {f : FileDef} {t : TypeDecl} {k : IntKind}

/-! ## accessors -/

/-- the accessor switch of a trait whose rows have pairwise distinct owners returns, for the owner
of a row, the constant of that row … -/
theorem accessor_of_row (td : TraitDesc) (hn : (td.rows.map (·.owner.val)).Nodup) (r : TraitRow) (hr : r ∈ td.rows) :
    td.get r.owner.val = r.dyn := by
  unfold TraitDesc.get
  have : td.rows.find? (fun x => x.owner.val == r.owner.val) = some r := by
    generalize td.rows = l at *
    induction l with
    | nil => cases hr
    | cons x xs ih =>
      rw [List.map_cons, List.nodup_cons] at hn
      rw [List.find?_cons]
      rcases List.mem_cons.mp hr with rfl | hr'
      · simp
      · have : (x.owner.val == r.owner.val) = false := by
          rw [beq_eq_false_iff_ne]
          intro e
          exact hn.1 (e ▸ List.mem_map.mpr ⟨r, hr', rfl⟩)
        rw [this]; exact ih hn.2 hr'
  rw [this]

/-- … and the zero value of the trait type for every value that owns no row (undefined values
in particular). -/
theorem accessor_zero (td : TraitDesc) (e : Int) (h : ∀ r ∈ td.rows, r.owner.val ≠ e) :
    td.get e = zeroOf td.ty td.fam (td.rows.head?.map (·.dyn.v)) := by
  unfold TraitDesc.get
  have : td.rows.find? (fun x => x.owner.val == e) = none := by
    rw [List.find?_eq_none]
    intro r hr hp
    exact h r hr (by simpa using hp)
  rw [this]

/-- every definition `genFull` accepts has at most one row per value in every trait (the
generated accessor switch compiles) -/
theorem rows_unique (o : Options) (g : GenFull) (h : genFull o f t = .ok g) :
    ∀ td ∈ g.traits, (td.rows.map (·.owner.val)).Nodup := by
  obtain ⟨_, _, hd⟩ := C05.genFull_shape o g h
  unfold hasDupCase at hd
  simp only [Bool.or_eq_false_iff] at hd
  intro td htd
  have := hd.1.2
  rw [List.any_eq_false] at this
  have := this td htd
  simpa using this

/-- `accessor_returns_declared`, generator side: for every accepted definition, every trait and
every row the generator kept (the rows of primary definitions, see `keepRow`), the accessor
returns that row's constant on the row's value. -/
theorem accessor_returns_row (o : Options) (g : GenFull) (h : genFull o f t = .ok g)
    (td : TraitDesc) (htd : td ∈ g.traits) (r : TraitRow) (hr : r ∈ td.rows) :
    td.get r.owner.val = r.dyn :=
  accessor_of_row td (rows_unique o g h td htd) r hr

/-- the line of the lowest value is the head of the sorted value list, so it has every column -/
private theorem first_has_all_columns (ha : Accepted f t.name k) (hfl : FirstLineDeclares f t)
    (first : Value) (rest : List Value) (hvs : sortedValues f t.name = first :: rest) :
    first.tvals.length = t.cols.length := by
  have ⟨hsorted, _⟩ := sortedValues_facts ha
  rw [hvs] at hsorted
  have hfm : first ∈ sortedValues f t.name := by rw [hvs]; simp
  obtain ⟨c0, hc0, ht0, rfl⟩ := mem_sortedValues.mp hfm
  have := hfl c0 hc0 ht0 (by
    intro c' hc' ht'
    have hm : Value.ofConst c' ∈ Value.ofConst c0 :: rest := by
      rw [← hvs]; exact mem_sortedValues.mpr ⟨c', hc', ht', rfl⟩
    rcases List.mem_cons.mp hm with e | hm
    · right
      have e1 : c'.val = c0.val := congrArg Value.val e
      have e2 : c'.name = c0.name := congrArg Value.name e
      exact ⟨e1.symm, by rw [e2]; exact String.le_refl _⟩
    · have hr := (List.pairwise_cons.mp hsorted).1 _ hm
      unfold R at hr
      rcases hr with h | ⟨h1, h2⟩
      · exact Or.inl h
      · exact Or.inr ⟨h1, String.le_of_lt' h2⟩)
  exact this

/-- `accessor_returns_declared`: for every definition `genFull` accepts whose lowest value's line
declares the trait columns, the accessor of column `j` returns, on every defined value, the
constant written in column `j` of that value's PRIMARY definition line (first non-deprecated name
alphabetically, first name if all are deprecated) — whatever aliases, deprecated or live, with or
without trait columns of their own, share the value. (`accessor_zero`: the zero value elsewhere.) -/
theorem accessor_returns_declared (o : Options) (g : GenFull) (h : genFull o f t = .ok g)
    (ha : Accepted f t.name k) (hfl : FirstLineDeclares f t)
    (j : Nat) (e : Int) (d : Dyn) (hd : DeclaredTrait f t j e d) :
    ∃ td ∈ g.traits, (∃ col, t.cols[j]? = some col ∧ td.name = col.name) ∧ td.get e = d := by
  obtain ⟨c, hc, hty, hval, hprim, col, hcol, s, hs, rfl⟩ := hd
  obtain ⟨ts, hts, hg, _⟩ := genFull_ok h
  have ⟨hsorted, hfaith⟩ := sortedValues_facts ha
  have hcv : Value.ofConst c ∈ sortedValues f t.name := mem_sortedValues.mpr ⟨c, hc, hty, rfl⟩
  match hvs : sortedValues f t.name with
  | [] => rw [hvs] at hcv; cases hcv
  | first :: rest =>
    rw [hvs] at hts
    have hperm := genTraits_ok hts
    have hfirst := first_has_all_columns ha hfl first rest hvs
    have htake : t.cols.take first.tvals.length = t.cols := by
      rw [hfirst]; exact List.take_of_length_le (Nat.le_refl _)
    rw [htake] at hperm
    have htd : mkTrait o (first :: rest) (j, col) ∈ ts :=
      hperm.mem_iff.mpr (List.mem_map.mpr ⟨(j, col), mem_zip_range _ _ _ hcol, rfl⟩)
    have htdg : mkTrait o (first :: rest) (j, col) ∈ g.traits := by subst hg; exact htd
    refine ⟨_, htdg, ⟨col, hcol, rfl⟩, ?_⟩
    have hr1 : (⟨Value.ofConst c, ⟨col.ty, s⟩⟩ : TraitRow) ∈ rowsOf (first :: rest) j col.ty := by
      unfold rowsOf
      rw [List.mem_filterMap]
      exact ⟨Value.ofConst c, hvs ▸ hcv, by simp [Value.ofConst, hs]⟩
    have hkeep : keepRow {} (first :: rest) ⟨Value.ofConst c, ⟨col.ty, s⟩⟩ = true := by
      apply keepRow_of_primary_name _ (hvs ▸ hsorted) (hvs ▸ hfaith) _ (hvs ▸ hcv)
      intro p hpin hpv
      have hp := primary_of_primaryIn (f := f) (t := t.name) (hvs ▸ hpin)
      have hpe : p.val = e := by rw [hpv]; exact hval
      rw [hpe] at hp
      exact C04.primary_unique hp hprim
    have hr : (⟨Value.ofConst c, ⟨col.ty, s⟩⟩ : TraitRow) ∈ (mkTrait o (first :: rest) (j, col)).rows :=
      List.mem_filter.mpr ⟨hr1, hkeep⟩
    have := accessor_returns_row o g h _ htdg _ hr
    simpa [Value.ofConst, hval] using this

/-! ## Parse by trait -/

/-- `Parse<T>` of any constant of the generated switch — a constant name or a constant of a
parsable trait, typed as declared — returns the value of the case that holds it. -/
theorem parse_by_trait (o : Options) (g : GenFull) (h : genFull o f t = .ok g)
    (c : ParseCase) (hc : c ∈ g.base.cases) (d : Dyn) (hd : d ∈ c.consts) :
    g.base.parse d = some c.target.val := by
  obtain ⟨_, _, hdup⟩ := C05.genFull_shape o g h
  unfold hasDupCase at hdup
  simp only [Bool.or_eq_false_iff] at hdup
  have hn : (g.base.cases.flatMap (·.consts)).Nodup := by simpa using hdup.1.1
  exact C05.parse_of_case g.base hn c hc d hd

/-- decoding a scalar that holds an UNTYPED-string trait constant (or a name): all three decoders
return what `Parse<T>` returns for the string. -/
theorem decode_by_trait_string_partial (g : GenFull) (s : String) (v : Int)
    (h : g.base.parse (Dyn.ofString s) = some v) :
    g.unmarshalJSON {} (.str s) = some v ∧ g.unmarshalText s = some v ∧ g.unmarshalYAML {} s = some v := by
  have hs : stringTry g s = some v := by unfold stringTry; rw [h]
  refine ⟨hs, hs, ?_⟩
  unfold GenFull.unmarshalYAML; rw [hs]

/- FULL STATEMENT (decode_by_trait_json / _yaml / _text): for every parsable trait of a family
   the template has a branch for (named string, signed/unsigned integer of any width) and every
   row constant `c` of value `e`, whose number/string is no other switch constant:
     g.unmarshalJSON {} (doc c) = some e ∧ g.unmarshalYAML {} (text c) = some e (∧ text for strings)
   Proved: the untyped-string family (`decode_by_trait_string_partial`, with `parse_by_trait`).
   Missing: the `firstSome` search over the family lists (a positive lemma "the first candidate
   that parses wins and the earlier ones fail" under the pairwise-distinct hypothesis) and
   `wrapTo … x = x` for in-range constants. Families WITHOUT a template branch (bool, untyped rune)
   make the full statement false on the code: known findings C12:decode:bool-trait /
   C12:decode:rune-trait. The correspondence run checks every family against the property. -/

/-! ## the pinned algorithms -/

private def errOf {α : Type} : Except GenFailure α → Option GenFailure
  | .error e => some e
  | .ok _ => none

/-- value 1 has a deprecated alias that carries trait columns of its own -/
def dupWithCols : FileDef :=
  ⟨[{ name := "E", kind := ⟨64, true⟩, cols := [⟨"Num", "int", .sint 64⟩] }],
   [{ name := "B0", ty := "E", val := 0, deprecated := false, tvals := [.int 0] },
    { name := "B1", ty := "E", val := 1, deprecated := false, tvals := [.int 10] },
    { name := "B1Old", ty := "E", val := 1, deprecated := true, tvals := [.int 11] }]⟩

/-- value 1 has a deprecated alias without trait columns -/
def dupNoCols : FileDef :=
  ⟨[{ name := "E", kind := ⟨64, true⟩, cols := [⟨"Num", "int", .sint 64⟩] }],
   [{ name := "B0", ty := "E", val := 0, deprecated := false, tvals := [.int 0] },
    { name := "B1", ty := "E", val := 1, deprecated := false, tvals := [.int 10] },
    { name := "B1Old", ty := "E", val := 1, deprecated := true },
    { name := "B2", ty := "E", val := 2, deprecated := false, tvals := [.int 20] }]⟩

def dupType : TypeDecl := { name := "E", kind := ⟨64, true⟩, cols := [⟨"Num", "int", .sint 64⟩] }

/-- pinned `processDuplicates`: the row of a deprecated alias survives when the group is "safe", the
accessor switch gets two cases for one value and does not compile; pinned `Parse` template: rows
are taken by position, a value without a row shifts them until `index` runs out of range. The
current algorithms accept both definitions and keep the primary definition's constant. -/
theorem legacy_duplicates_violate :
    errOf (genFullQ { dropRowsOnlyUnsafe := true } {} dupWithCols dupType) = some .dupCase ∧
    errOf (genFullQ { parseRowsByIndex := true } { parsable := ["Num"] } dupNoCols dupType) = some .templateIndex ∧
    (genFull {} dupWithCols dupType).toOption.map (fun g => g.traits.map (fun td => (td.get 1, td.get 7)))
      = some [(⟨"int", .int 10⟩, ⟨"int", .int 0⟩)] ∧
    (genFull { parsable := ["Num"] } dupNoCols dupType).toOption.map (fun g =>
      (g.base.parse ⟨"int", .int 20⟩, g.base.parse (Dyn.ofString "B1Old"), g.unmarshalYAML {} "10"))
      = some (some 2, some 1, some 1) := by decide

/-! ## non-vacuity -/

example : (genFull { parsable := ["Num"] } C05.witness C05.witnessType).toOption.map (fun g =>
    (g.traits.map (fun td => (td.name, td.get 1, td.get 5)), g.base.parse ⟨"int", .int 10⟩, g.base.parse ⟨"int64", .int 10⟩))
    = some ([("Num", ⟨"int", .int 10⟩, ⟨"int", .int 0⟩)], some 1, none) := by decide

end Genum.C12

/-!
# Model of `set/set.go`

`Set[T]` is a Go map.  The model is `Option (List α)`: `none` is the nil map, `some l` an
allocated map whose keys are `l` (no duplicates — an invariant proved separately, not a
subtype).  Every operation follows the Go code statement by statement: lazy allocation in
`Add/AddSet`, the `!added` / `!removed` guards, the `len(s) == 0` early returns, the loops as
left folds.  `AddSet/RemoveSet` range over a Go map, so the model takes the argument's elements
in whatever order the runtime produced them (`items`); order independence is a theorem.

`hasLegacy` is `Has` at the pinned commit (with the `len(s) < len(items)` shortcut); `has` is
the algorithm of the current tree.
-/
namespace SetM

variable {α : Type} [DecidableEq α]

abbrev S (α : Type) := Option (List α)

/-- keys of the map (`[]` for the nil map) -/
def elems : S α → List α
  | none => []
  | some l => l

/-- `m[x] = struct{}{}` -/
def insert (l : List α) (x : α) : List α := if x ∈ l then l else l ++ [x]

/-- `Make(items...)` -/
def make (items : List α) : S α := some (items.foldl insert [])

def addStep (acc : List α × Bool) (x : α) : List α × Bool :=
  (insert acc.1 x, acc.2 || !decide (x ∈ acc.1))

/-- `(*Set).Add(items...)` and `(*Set).AddSet(items)` (same body; the latter ranges over a map). -/
def add (s : S α) (items : List α) : S α × Bool :=
  let r := items.foldl addStep (elems s, false)
  (some r.1, r.2)

def removeStep (acc : List α × Bool) (x : α) : List α × Bool :=
  (acc.1.erase x, acc.2 || decide (x ∈ acc.1))

/-- `Set.Remove(items...)` and `Set.RemoveSet(items)` -/
def remove (s : S α) (items : List α) : S α × Bool :=
  if (elems s).length = 0 then (s, false)
  else
    let r := items.foldl removeStep (elems s, false)
    (some r.1, r.2)

/-- `Set.Has(items...)` (current tree) -/
def has (s : S α) (items : List α) : Bool :=
  if (elems s).length = 0 then false else items.all (fun x => decide (x ∈ elems s))

/-- `Set.Has` at the pinned commit -/
def hasLegacy (s : S α) (items : List α) : Bool :=
  if (elems s).length = 0 || (elems s).length < items.length then false
  else items.all (fun x => decide (x ∈ elems s))

/-- `Set.HasAny(items...)` -/
def hasAny (s : S α) (items : List α) : Bool :=
  if (elems s).length = 0 then false else items.any (fun x => decide (x ∈ elems s))

/-- `Set.Slice()`: `none` is the nil slice -/
def slice (s : S α) : Option (List α) :=
  if (elems s).length = 0 then none else some (elems s)

/-! ## operation sequences -/

inductive Op (α : Type) where
  | add (xs : List α) | addSet (xs : List α)
  | remove (xs : List α) | removeSet (xs : List α)
  | has (xs : List α) | hasAny (xs : List α)

/-- one call: new state and the returned boolean -/
def apply (s : S α) : Op α → S α × Bool
  | .add xs | .addSet xs => add s xs
  | .remove xs | .removeSet xs => remove s xs
  | .has xs => (s, has s xs)
  | .hasAny xs => (s, hasAny s xs)

/-- run a sequence, collecting the outputs -/
def run (s : S α) : List (Op α) → S α × List Bool
  | [] => (s, [])
  | op :: ops =>
    let r := apply s op
    let rest := run r.1 ops
    (rest.1, r.2 :: rest.2)

/-! ## Specification: a mathematical set as its characteristic function -/

abbrev MSet (α : Type) := α → Bool

def abs (s : S α) : MSet α := fun x => decide (x ∈ elems s)

/-- the mathematical-set reading of each call and of its boolean result -/
def mathApply (m : MSet α) : Op α → MSet α × Bool
  | .add xs | .addSet xs => (fun x => m x || decide (x ∈ xs), xs.any (fun x => !m x))
  | .remove xs | .removeSet xs => (fun x => m x && !decide (x ∈ xs), xs.any (fun x => m x))
  | .has xs => (m, xs.all m)
  | .hasAny xs => (m, xs.any m)

def mathRun (m : MSet α) : List (Op α) → MSet α × List Bool
  | [] => (m, [])
  | op :: ops =>
    let r := mathApply m op
    let rest := mathRun r.1 ops
    (rest.1, r.2 :: rest.2)

/-- the quantifier's domain: `Has`/`HasAny` with at least one argument -/
def Op.inDomain : Op α → Bool
  | .has xs => !xs.isEmpty
  | .hasAny xs => !xs.isEmpty
  | _ => true

end SetM

/-! ## JSON / YAML encodings (`MarshalJSON/UnmarshalJSON/MarshalYAML/UnmarshalYAML`)

`Marshal*` hand `Slice()` to the list codec; `Unmarshal*` decode a list and `Add` it to the
receiver.  The codec for lists of `T` (encoding/json, yaml.v3) is a parameter. -/
namespace SetM
variable {α : Type} [DecidableEq α]

/-- an external list codec: `enc` of a possibly-nil slice, `dec` failing with `none` -/
structure Codec (α δ : Type) where
  enc : Option (List α) → δ
  dec : δ → Option (List α)

/-- the law the element codec has to satisfy: decoding the encoding of a (possibly nil) slice
yields its elements -/
def Codec.RoundTrips {δ : Type} (c : Codec α δ) : Prop := ∀ l, c.dec (c.enc l) = some (l.getD [])

def marshal {δ : Type} (c : Codec α δ) (s : S α) : δ := c.enc (slice s)

/-- `none` = the decoder returned an error (target untouched) -/
def unmarshal {δ : Type} (c : Codec α δ) (tgt : S α) (d : δ) : Option (S α) :=
  match c.dec d with
  | none => none
  | some l => some (add tgt l).1

/-- shape of the encoding: `none` = null, `some n` = a sequence of `n` items -/
def encShape (s : S α) : Option Nat := (slice s).map List.length

end SetM

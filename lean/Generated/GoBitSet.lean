import Model.GoPrelude
/-! REGENERATED on every run by harness/cmd/go2lean -spec bitset from set/bit_set.go. Do not edit.
Each definition follows the Go function of the same name statement by statement (see Model/GoPrelude.lean
for the meaning of the primitives).
`BitSet[T]` and the flag type `T` (any unsigned integer type, converted with `BitSet[T](x)`, i.e. zero
extended) are both `Go.U64`. -/
namespace Generated.GoBitSet

/-- `func MakeBitSet[T anyUint](items ...T) BitSet[T]` -/
def MakeBitSet (items : List Go.U64) : Go.M (Go.U64) := do
  let mut result : Go.U64 := (0 : Go.U64)
  for item in items do
    result := (result ||| item)
  return result

/-- `func (s *BitSet[T]) Add(items ...T) bool` -/
def BitSet.Add (s : Go.U64) (items : List Go.U64) : Go.M (Go.U64 × Bool) := do
  let mut s := s
  let mut added : Bool := false
  let mut resultS : Go.U64 := s
  for item in items do
    let mut asFlag : Go.U64 := item
    added := (added || ((resultS &&& asFlag) != asFlag))
    resultS := (resultS ||| asFlag)
  s := resultS
  return (s, added)

/-- `func (s *BitSet[T]) Remove(items ...T) bool` -/
def BitSet.Remove (s : Go.U64) (items : List Go.U64) : Go.M (Go.U64 × Bool) := do
  let mut s := s
  let mut removed : Bool := false
  let mut resultS : Go.U64 := s
  for item in items do
    let mut asFlag : Go.U64 := item
    removed := (removed || ((resultS &&& asFlag) != 0))
    resultS := (resultS &&& (~~~asFlag))
  s := resultS
  return (s, removed)

/-- `func (s BitSet[T]) MaskOf(in T) BitSet[T]` -/
def BitSet.MaskOf (s : Go.U64) («in» : Go.U64) : Go.M (Go.U64) := do
  return (s &&& «in»)

/-- `func (s BitSet[T]) Has(flag T) bool` -/
def BitSet.Has (s : Go.U64) (flag : Go.U64) : Go.M (Bool) := do
  let mut asFlag : Go.U64 := flag
  return ((s &&& asFlag) == asFlag)

/-- `func (s BitSet[T]) HasAny(flags ...T) bool` -/
def BitSet.HasAny (s : Go.U64) (flags : List Go.U64) : Go.M (Bool) := do
  let mut s := s
  for flag in flags do
    if (← BitSet.Has s flag) then
      return true
  return false

/-- the translated functions -/
def translated : List String := ["BitSet.Add", "BitSet.Has", "BitSet.HasAny", "BitSet.MaskOf", "BitSet.Remove", "MakeBitSet"]

end Generated.GoBitSet

import Model.GSort
/-!
# C08 — gsort: the generated `Less` is the lexicographic strict weak order

For every struct definition (any number of fields, any tags), every sorter name, every ordered
value type `V` and every pair of slice elements.
-/
namespace GSort
set_option linter.unusedSectionVars false

variable {V : Type} [DecidableEq V]

/-! ### one key -/

theorem Val.eq_iff (x y : Val V) : Val.eq x y = true ↔ x = y := by simp [Val.eq]

/-- the rendered `return` expression of a key is the key's own order (current tree) -/
theorem retOf_eval (lt : V → V → Bool) (k : Key) (a b : Rec V)
    (ha : (a k.accessor).isFlag = k.isBool) (hb : (b k.accessor).isFlag = k.isBool) :
    (retOf k.isBool k.accessor).eval lt a b = Val.less lt (a k.accessor) (b k.accessor) := by
  cases hk : k.isBool <;> rw [hk] at ha hb
  · cases hx : a k.accessor <;> cases hy : b k.accessor <;>
      simp_all [retOf, RetExpr.eval, Val.goLt, Val.less, Val.isFlag]
  · cases hx : a k.accessor <;> cases hy : b k.accessor <;>
      simp_all [retOf, RetExpr.eval, Val.truth, Val.less, Val.isFlag]

theorem Val.less_irrefl (lt : V → V → Bool) (hirr : ∀ v, lt v v = false) (x : Val V) :
    Val.less lt x x = false := by
  cases x <;> simp [Val.less, hirr]

theorem Val.less_ne (lt : V → V → Bool) (hirr : ∀ v, lt v v = false) (x y : Val V)
    (h : Val.less lt x y = true) : x ≠ y := by
  intro e; subst e; rw [Val.less_irrefl lt hirr] at h; cases h

/-! ### the chain built by `PriorityTree` + template evaluates to `lex` -/

theorem wellTyped_cons (k : Key) (ks : List Key) (a : Rec V) :
    WellTyped (k :: ks) a ↔ (a k.accessor).isFlag = k.isBool ∧ WellTyped ks a := by
  simp [WellTyped]

theorem lex_cons (lt : V → V → Bool) (k : Key) (ks : List Key) (a b : Rec V) :
    lex lt (k :: ks) a b =
      if a k.accessor = b k.accessor then lex lt ks a b else Val.less lt (a k.accessor) (b k.accessor) := rfl

theorem eval_ret (lt : V → V → Bool) (e : RetExpr) (a b : Rec V) :
    (Cmp.ret e).eval lt a b = e.eval lt a b := rfl

theorem eval_ifEq (lt : V → V → Bool) (acc : String) (body : Cmp) (e : RetExpr) (a b : Rec V) :
    (Cmp.ifEq acc body e).eval lt a b =
      if a acc = b acc then body.eval lt a b else e.eval lt a b := by
  simp [Cmp.eval, Val.eq]

/-- For every non-empty list of field descriptors (in the order `PriorityTree` leaves them), the
generated body computes the lexicographic comparison of the corresponding keys. -/
theorem eval_chainOf_eq_lex (lt : V → V → Bool) (hirr : ∀ v, lt v v = false) :
    ∀ (l : List SFD), l ≠ [] → ∀ (a b : Rec V),
      WellTyped (l.map keyOf) a → WellTyped (l.map keyOf) b →
      (priorityBlock (chainOf l)).eval lt a b = lex lt (l.map keyOf) a b
  | [], h, _, _, _, _ => absurd rfl h
  | [f], _, a, b, ha, hb => by
    have ha' := ((wellTyped_cons (keyOf f) [] a).1 ha).1
    have hb' := ((wellTyped_cons (keyOf f) [] b).1 hb).1
    have hr := retOf_eval lt (keyOf f) a b ha' hb'
    show (Cmp.ret (retOf (keyOf f).isBool (keyOf f).accessor)).eval lt a b = lex lt [keyOf f] a b
    rw [eval_ret, hr, lex_cons]
    by_cases e : a (keyOf f).accessor = b (keyOf f).accessor
    · rw [if_pos e, e, Val.less_irrefl lt hirr]; rfl
    · rw [if_neg e]
  | f :: g :: rest, _, a, b, ha, hb => by
    have ha' := (wellTyped_cons (keyOf f) ((g :: rest).map keyOf) a).1 ha
    have hb' := (wellTyped_cons (keyOf f) ((g :: rest).map keyOf) b).1 hb
    have ih := eval_chainOf_eq_lex lt hirr (g :: rest) (by simp) a b ha'.2 hb'.2
    have hr := retOf_eval lt (keyOf f) a b ha'.1 hb'.1
    show (Cmp.ifEq (keyOf f).accessor (priorityBlock (chainOf (g :: rest)))
        (retOf (keyOf f).isBool (keyOf f).accessor)).eval lt a b
      = lex lt (keyOf f :: (g :: rest).map keyOf) a b
    rw [eval_ifEq, lex_cons, ih, hr]

end GSort

package main

import (
	"fmt"
	"strconv"
	"strings"
)

// FieldDef is one struct field of a generated definition.
//
// Wire form (one token of the `gs def` line): Name|type|tag;tag;…|view
type FieldDef struct {
	Name string
	Ty   string   // Go basic type name, or "named" (a defined int type with a String() method)
	Tags []string // option strings of the gsort:"…" tags, in tag order
	View []int    // named only: rank of String() of value v among the type's values
}

// Def is one struct definition.  Its `gs def` line is its identity (cache key, replay).
type Def struct {
	Fields []FieldDef
}

// value tables, strictly ascending under the type's own `<` (the probe re-checks this at start-up)
var valueTables = map[string][]string{
	"string":  {`""`, `"A"`, `"Ab"`, `"a"`, `"é"`},
	"int":     {"-9223372036854775808", "-1", "0", "7", "9223372036854775807"},
	"int8":    {"-128", "-1", "0", "1", "127"},
	"int16":   {"-32768", "-2", "0", "255", "32767"},
	"int32":   {"-2147483648", "-1", "0", "65536", "2147483647"},
	"int64":   {"-9223372036854775808", "-4294967296", "0", "4294967296", "9223372036854775807"},
	"uint":    {"0", "1", "255", "9223372036854775808", "18446744073709551615"},
	"uint8":   {"0", "1", "127", "128", "255"},
	"uint16":  {"0", "1", "32767", "32768", "65535"},
	"uint32":  {"0", "1", "2147483647", "2147483648", "4294967295"},
	"uint64":  {"0", "2", "9223372036854775807", "9223372036854775808", "18446744073709551615"},
	"float32": {"float32(math.Inf(-1))", "-1.5", "0", "1e-3", "float32(math.Inf(1))"},
	"float64": {"math.Inf(-1)", "-2.5", "0", "1e-300", "math.Inf(1)"},
	"bool":    {"false", "true"},
	"named":   {"0", "1", "2", "3", "4"},
}

var basicTypes = []string{"string", "int", "int8", "int16", "int32", "int64", "uint", "uint8", "uint16", "uint32", "uint64", "float32", "float64", "bool", "named"}

// names a named type's String() returns, by rank
var rankNames = []string{"Alpha", "Bravo", "Charlie", "Delta", "Echo"}

func nValues(ty string) int { return len(valueTables[ty]) }

func (f FieldDef) token() string {
	v := make([]string, len(f.View))
	for i, x := range f.View {
		v[i] = strconv.Itoa(x)
	}
	return f.Name + "|" + f.Ty + "|" + strings.Join(f.Tags, ";") + "|" + strings.Join(v, ",")
}

// Line is the `gs def` request.
func (d *Def) Line() string {
	w := []string{"gso", "def"}
	for _, f := range d.Fields {
		w = append(w, f.token())
	}
	return strings.Join(w, " ")
}

// parseDefLine is the inverse of Line (also for a `gso regen` line, which carries a definition in
// the same form); used for corpus / replay / shrunk cases.
func parseDefLine(line string) (*Def, error) {
	w := strings.Fields(line)
	if len(w) < 2 || w[0] != "gso" || (w[1] != "def" && w[1] != "regen") {
		return nil, fmt.Errorf("not a def line")
	}
	d := &Def{}
	for _, t := range w[2:] {
		p := strings.Split(t, "|")
		if len(p) != 4 {
			return nil, fmt.Errorf("bad field token %q", t)
		}
		f := FieldDef{Name: p[0], Ty: p[1]}
		if _, ok := valueTables[f.Ty]; !ok {
			return nil, fmt.Errorf("unknown type %q", f.Ty)
		}
		if !isIdent(f.Name) {
			return nil, fmt.Errorf("bad field name %q", f.Name)
		}
		if p[2] != "" {
			f.Tags = strings.Split(p[2], ";")
		}
		for _, tg := range f.Tags {
			if strings.ContainsAny(tg, "\"`\\\n") {
				return nil, fmt.Errorf("bad tag %q", tg)
			}
		}
		if p[3] != "" {
			for _, x := range strings.Split(p[3], ",") {
				n, err := strconv.Atoi(x)
				if err != nil {
					return nil, err
				}
				f.View = append(f.View, n)
			}
		}
		if f.Ty == "named" {
			if !isPerm(f.View, nValues("named")) {
				return nil, fmt.Errorf("named field %s needs a view that is a permutation of 0..%d", f.Name, nValues("named")-1)
			}
		} else if len(f.View) != 0 {
			return nil, fmt.Errorf("view on a non-named field")
		}
		d.Fields = append(d.Fields, f)
	}
	return d, nil
}

func isPerm(v []int, n int) bool {
	if len(v) != n {
		return false
	}
	seen := make([]bool, n)
	for _, x := range v {
		if x < 0 || x >= n || seen[x] {
			return false
		}
		seen[x] = true
	}
	return true
}

func isIdent(s string) bool {
	if s == "" {
		return false
	}
	for i, c := range s {
		if !(c == '_' || c >= 'a' && c <= 'z' || c >= 'A' && c <= 'Z' || i > 0 && c >= '0' && c <= '9') {
			return false
		}
	}
	return true
}

// tagSorter is the raw sorter name of a tag option string.
func tagSorter(tag string) string { return strings.Split(tag, ",")[0] }

// Sorters lists the raw sorter names in first-appearance order.
func (d *Def) Sorters() []string {
	var res []string
	seen := map[string]bool{}
	for _, f := range d.Fields {
		for _, t := range f.Tags {
			s := tagSorter(t)
			if !seen[s] {
				seen[s] = true
				res = append(res, s)
			}
		}
	}
	return res
}

// TaggedIdx: indices of the fields that carry a tag for the sorter.
func (d *Def) TaggedIdx(raw string) []int {
	var res []int
	for i, f := range d.Fields {
		for _, t := range f.Tags {
			if tagSorter(t) == raw {
				res = append(res, i)
				break
			}
		}
	}
	return res
}

type keyInfo struct {
	field    int
	priority int
	accessor bool
}

// keysOf: the sorter's keys in ascending priority (used only to classify cases, never to judge).
func (d *Def) keysOf(raw string) []keyInfo {
	var ks []keyInfo
	for i, f := range d.Fields {
		for _, t := range f.Tags {
			p := strings.Split(t, ",")
			if p[0] != raw {
				continue
			}
			k := keyInfo{field: i}
			if len(p) > 1 {
				k.priority, _ = strconv.Atoi(p[1])
			}
			k.accessor = len(p) > 2 && p[2] != ""
			ks = append(ks, k)
		}
	}
	for i := 1; i < len(ks); i++ {
		for j := i; j > 0 && ks[j].priority < ks[j-1].priority; j-- {
			ks[j], ks[j-1] = ks[j-1], ks[j]
		}
	}
	return ks
}

// lastKeyIsBool classifies the input class of the known legacy defect.
func (d *Def) lastKeyIsBool(raw string) bool {
	ks := d.keysOf(raw)
	return len(ks) > 0 && d.Fields[ks[len(ks)-1].field].Ty == "bool"
}

func typeTrim(raw string) string { return strings.TrimPrefix(raw, "*") }

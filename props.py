"""Per-property configuration of ./check (which Lean modules hold the obligations, which
harness binaries run the correspondence, what is trusted)."""

GO_TRUST = "Go compiler/runtime; the harness (cmd/%s) and the Lean line-protocol driver, incl. their canonicalisation"

PROPS = {
    "C11": dict(
        title="set: BitSet is exact bit-set algebra and reports changes truthfully",
        lean_modules=["Properties.C11"],
        harness=[dict(bin="h-set")],
        trusted=[GO_TRUST % "h-set", "Go's conversion BitSet[T](item) zero-extends (language spec)"],
        assumptions=["flags enter the model already zero-extended to 64 bits (theorem mem_ofFlag covers every width <= 64)"],
        level_text="Machine-checked Lean 4 theorems (kernel-only axioms) over a BitVec 64 model that mirrors bit_set.go statement by statement: union/difference/intersection/subset characterisations, change flag <-> value changed, multi-argument = sequential, for every set, every flag list and every flag width. The model is tied to /repo by executing model and implementation on all 65536 (set,flag) pairs of an 8-bit flag type (all triples in the thorough tier) plus random wide calls and sequences.",
        level_note="Trusted: Lean kernel + propext/Quot.sound/Classical.choice as reported by #print axioms; the Go harness and Lean driver; Go's integer conversion semantics. The theorem is about the model; the exhaustive 8-bit correspondence and random 16/32/64-bit runs are what tie it to the code.",
        technique="Lean 4 proof (induction over flag lists, bitwise extensionality) + exhaustive model/implementation correspondence",
        explanation="theorems over all BitVec 64 sets and all flag lists; correspondence exhaustive on the 8-bit flag type",
    ),
    "C07": dict(
        title="set: Set is a mathematical set under every operation sequence",
        lean_modules=["Properties.C07"],
        harness=[dict(bin="h-set")],
        trusted=[GO_TRUST % "h-set", "Go's built-in map is a finite map (insert/delete/lookup/len/range)"],
        assumptions=["Has/HasAny are called with at least one argument (the quantifier); zero-argument calls are compared only in the out-of-domain stream"],
        level_text="Machine-checked Lean 4 refinement: the model of set.go (nil/allocated map as Option (List), every early return and changed-flag guard mirrored) refines the mathematical set for EVERY operation sequence of any length over any element type (refines_math_set, by induction over the op list from the no-duplicates invariant), with Has/HasAny/Slice characterisations, change-flag <-> membership-changed, and order independence of AddSet/RemoveSet over Go's map iteration order. Tied to /repo by differential execution of random op sequences on int/string/struct sets with a full membership probe after every mutation.",
        level_note="Trusted: Lean kernel + standard axioms; Go's built-in map; the Go harness and the Lean driver. The theorem is about the model; the correspondence (20k sequences quick, 600k thorough) ties it to set.go.",
        technique="Lean 4 proof (refinement to a mathematical set by induction over operation sequences) + differential correspondence on op histories",
        explanation="refinement theorem for all op sequences; correspondence on random histories",
    ),
    "C17": dict(
        title="set: JSON and YAML encodings of Set round-trip membership",
        lean_modules=["Properties.C17"],
        harness=[dict(bin="h-set")],
        trusted=[GO_TRUST % "h-set", "encoding/json and gopkg.in/yaml.v3 round-trip lists of the element types (hypothesis Codec.RoundTrips; observed by the correspondence run, not proved)"],
        assumptions=["the list codec round-trips the element type (no NaN floats); a literal YAML null decoded into a pre-filled set is yaml.v3 behaviour and out of domain"],
        level_text="Machine-checked Lean 4 theorems, parametric in the element list codec: Unmarshal(Marshal(s)) into any target is exactly target ∪ s (hence exact round trip into nil/empty targets, nil and empty sets included), the encoding is Slice() = each member once, nil exactly when empty. PARTIAL: the codec's own round-trip law is a hypothesis of the theorems, validated differentially (json and yaml.v3, standalone and as struct field, 7 element types incl. YAML-significant strings) rather than proved.",
        level_note="Trusted: Lean kernel + standard axioms; encoding/json and yaml.v3 (not modelled; their list round trip is the hypothesis RoundTrips); the Go harness and Lean driver.",
        technique="Lean 4 proof parametric in a codec law (reusing the C07 refinement lemmas) + differential correspondence through the real codecs",
        explanation="partial: codec law is a hypothesis; everything Set itself contributes is proved",
    ),
    "C20": dict(
        title="gogenproto: protoc gets exactly the in-scope protos, includes, mappings",
        lean_modules=["Properties.C20"],
        harness=[dict(bin="h-gogenproto")],
        trusted=[GO_TRUST % "h-gogenproto", "filepath.WalkDir/Abs/Rel/Join, strings.Cut, os/exec (modelled as operations on component lists / a tree, compared differentially, not verified)", "go/packages: the package path of a directory is the parameter pkgOf of the theorems; the driver instantiates it with <module path>/<dir relative to the module root>", "the recording /bin/sh stub that stands in for protoc"],
        assumptions=["a file's `declares option go_package` bit is an attribute of the model's file node; the line scan of protoFileHasGoPackage is not modelled (canonical `option go_package = \"...\";` in the domain stream; other spellings only in the out-of-domain stream)", "explicit =prefix values are clean relative import paths (no empty, `.` or `..` components); directory names contain no `=`", "every directory whose package is looked up lies in the scratch module and holds a Go file"],
        level_text="PLACEHOLDER",
        level_note="PLACEHOLDER",
        technique="Lean 4 proof (mutual structural induction over directory trees) + differential correspondence on generated trees x flag settings through a recording protoc stub",
        explanation="PLACEHOLDER",
    ),
}

# properties not claimed, with the reason (kept current; see DESIGN.md)
NOT_CLAIMED = {}

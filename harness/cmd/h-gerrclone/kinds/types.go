// Package kinds declares field types that bring their OWN fmt behaviour: defined string / int /
// bool / struct types with a String(), an Error() or a Format method, on value and on pointer
// receivers.  `%v` renders such a field through its method (value receivers, and pointer receivers
// when the field itself is a pointer); a conversion to the underlying type, or direct
// concatenation, does not.
//
// This file is compiled twice: as part of the harness (which applies fmt.Sprintf("%v", v) to the
// values of table.go to learn how fmt renders them) and, with the package clause rewritten, inside
// every scratch package whose extension structs the gerror generator is run on.  It must therefore
// import nothing but fmt and declare only K-prefixed names.
package kinds

import "fmt"

// KStr is a defined string type that is a fmt.Stringer.
type KStr string

func (c KStr) String() string { return "code(" + string(c) + ")" }

// KStrErr is a defined string type that is an error.
type KStrErr string

func (c KStrErr) Error() string { return "err<" + string(c) + ">" }

// KStrBoth has Error() and String(): fmt uses Error().
type KStrBoth string

func (c KStrBoth) Error() string  { return "E:" + string(c) }
func (c KStrBoth) String() string { return "S:" + string(c) }

// KStrFmt is a defined string type that is a fmt.Formatter.
type KStrFmt string

func (c KStrFmt) Format(f fmt.State, verb rune) {
	fmt.Fprintf(f, "fmt[%c|%d|%s]", verb, len(string(c)), string(c))
}

// KStrPtr has String() on the POINTER receiver: a value of the type is not a Stringer.
type KStrPtr string

func (c *KStrPtr) String() string { return "ptr(" + string(*c) + ")" }

// KP returns a pointer to a KStrPtr (a *KStrPtr field IS a Stringer).
func KP(s string) *KStrPtr { c := KStrPtr(s); return &c }

// KStrPtrFmt has Format on the pointer receiver.
type KStrPtrFmt string

func (c *KStrPtrFmt) Format(f fmt.State, verb rune) { fmt.Fprintf(f, "pfmt[%s]", string(*c)) }

// KStrGo has only GoString(), which %v does not use.
type KStrGo string

func (c KStrGo) GoString() string { return "gostring(" + string(c) + ")" }

// KInt is a defined int type that is an error.
type KInt int

func (c KInt) Error() string { return fmt.Sprintf("errno %d", int(c)) }

// KIntFmt is a defined int type that is a fmt.Formatter.
type KIntFmt int

func (c KIntFmt) Format(f fmt.State, verb rune) { fmt.Fprintf(f, "#%04d", int(c)) }

// KBool is a defined bool type that is a fmt.Stringer.
type KBool bool

func (c KBool) String() string {
	if c {
		return "yes"
	}
	return "no"
}

// KPair is a struct type that is a fmt.Stringer.
type KPair struct {
	A int
	B string
}

func (p KPair) String() string { return fmt.Sprintf("<%d/%s>", p.A, p.B) }

// KBox is a struct type with String() on the pointer receiver: a KBox field prints as a plain
// struct, a *KBox field through the method (and `<nil>` when nil).
type KBox struct{ W, H int }

func (b *KBox) String() string { return fmt.Sprintf("box %dx%d", b.W, b.H) }

// KMeta is a plain struct whose fields are named like GError's exported fields; embedded
// anonymously next to GError it makes the selectors e.Name / e.Source / e.Message ambiguous (legal
// Go as long as nobody writes them).
type KMeta struct {
	Name    string
	Source  int
	Message bool
}

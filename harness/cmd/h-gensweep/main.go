// h-gensweep: correspondence runner and compile sweep for C13 (DESIGN.md section 6, C13).
//
// For every case (a generated definition file + one option setting of genum, gerror or gsort) the
// real CLI, built from /repo's working tree, is run as a subprocess in the package directory the
// way go:generate runs it.  Observed and compared with the Lean model (Model/GenGuards over the
// guard tables regenerated from the templates):
//
//	run      generator exit status                                   (an error is allowed by the property)
//	methods  the methods the generated file declares per type        = model's rendering of the guard table
//	imports  imports of the generated file after goimports           ⊆ the header the model renders
//	assert   interfaces asserted at compile time next to the file    = the Lean spec's interface list
//	overprev the run repeated over a DIFFERENT, longer previous output  = byte-identical to a fresh package
//	fmt      gofmt -l                                                = clean
//	build    go build + go vet of the scratch package incl. the assertions = model-level compile conditions
package main

import (
	"flag"
	"fmt"
	"os"
	"path/filepath"
	"sort"
	"strings"

	"verif/harness/internal/hx"
)

func harnessDirDefault() string {
	if wd, err := os.Getwd(); err == nil {
		if _, err := os.Stat(filepath.Join(wd, "go.work")); err == nil {
			return wd
		}
	}
	if exe, err := os.Executable(); err == nil {
		d := filepath.Join(filepath.Dir(exe), "..", "harness")
		if _, err := os.Stat(filepath.Join(d, "go.work")); err == nil {
			return d
		}
	}
	return "."
}

type impl struct {
	w      *world
	it     *item
	o      *outcome
	typ    string
	genErr map[string]int
}

func (m *impl) Reset() { m.it, m.o, m.typ = nil, nil, "" }

func show(xs []string) string {
	if len(xs) == 0 {
		return "-"
	}
	return strings.Join(xs, " ")
}

func (m *impl) Exec(line string) string {
	ws := strings.Fields(line)
	if len(ws) >= 2 && ws[0] == "case" && ws[1] == "gg" {
		it, err := parseHeader(line)
		if err != nil {
			m.it = nil
			return line
		}
		m.it = it
		m.o = m.w.get(line)
		return line
	}
	if len(ws) < 2 || ws[0] != "gg" {
		return "bad-op"
	}
	if ws[1] == "typeref" && len(ws) == 4 && m.o != nil && m.o.run == "ok" {
		if t, ok := m.o.results["Alpha."+ws[3]]; ok {
			return t
		}
		return "no-accessor"
	}
	if ws[1] == "typeref" || ws[1] == "typereflegacy" {
		return "n/a"
	}
	if m.it == nil || m.o == nil || len(ws) < 3 || ws[1] != m.it.gen {
		return "bad-op"
	}
	o := m.o
	switch ws[2] {
	case "run":
		return o.run
	case "type":
		if len(ws) != 4 {
			return "bad-op"
		}
		m.typ = ws[3]
		return "ok"
	}
	if o.run != "ok" {
		return "n/a"
	}
	switch ws[2] {
	case "methods":
		if o.methods == nil {
			return "unparsable-output"
		}
		return show(o.methods[m.typ])
	case "imports":
		return show(o.imports)
	case "assert":
		switch m.it.gen {
		case "genum":
			return show(m.it.gc.asserted())
		case "gerror":
			return "*gerror.Error *gerror.Factory"
		}
		return "sort.Interface"
	case "fmt":
		return o.fmt
	case "overprev":
		return o.overprev
	case "build":
		return o.build
	}
	return "bad-op"
}

// compare: a generator error is allowed by the property ("either report an error or ..."), the
// lines after it are then not applicable; imports are compared by inclusion (goimports prunes
// what the definition does not need).
func compare(req, im, mo string) bool {
	if im == mo {
		return true
	}
	ws := strings.Fields(req)
	if len(ws) < 3 || ws[0] != "gg" {
		return false
	}
	if ws[1] == "typeref" || ws[1] == "typereflegacy" {
		return im == "n/a"
	}
	switch ws[2] {
	case "run":
		return strings.HasPrefix(im, "err:") && im != "err:panic"
	case "imports":
		if im == "n/a" || im == "-" {
			return true
		}
		have := map[string]bool{}
		for _, p := range strings.Fields(mo) {
			have[p] = true
		}
		for _, p := range strings.Fields(im) {
			if !have[p] {
				return false
			}
		}
		return true
	}
	return im == "n/a"
}

func keyOf(d *hx.Disagreement) string {
	ws := strings.Fields(d.Request)
	if len(ws) < 3 {
		return "C13:" + strings.Join(ws, ":")
	}
	k := "C13:" + ws[1] + ":" + ws[2]
	switch ws[2] {
	case "build", "fmt", "run", "overprev":
		k += ":" + d.Impl
	case "methods":
		// which methods differ
		im, mo := map[string]bool{}, map[string]bool{}
		for _, x := range strings.Fields(d.Impl) {
			im[x] = true
		}
		for _, x := range strings.Fields(d.Model) {
			mo[x] = true
		}
		var diff []string
		for x := range mo {
			if !im[x] {
				diff = append(diff, "missing-"+x)
			}
		}
		for x := range im {
			if !mo[x] {
				diff = append(diff, "extra-"+x)
			}
		}
		sort.Strings(diff)
		if len(diff) > 3 {
			diff = diff[:3]
		}
		k += ":" + strings.Join(diff, ",")
	}
	// the definition shapes that belong to other properties' defects keep their own class
	if len(d.Case.Lines) > 0 {
		h := d.Case.Lines[0]
		switch {
		case strings.Contains(h, "shape=duptraits"):
			k += ":duplicate-with-traits"
		case strings.Contains(h, "code+p") && strings.Contains(h, "mark+p"):
			k += ":two-self-unmarshalling-parsable-traits"
		}
	}
	return k
}

const rule = "non-trivial = a genum case with at least one option away from its default or at least one trait column; a gerror case with -skipConvertGen or a tagged field; a gsort case with at least one sorter"

func main() {
	hdir := flag.String("harness-dir", "", "directory holding the harness go.work (default: cwd or <exe>/../harness)")
	f := hx.ParseFlags()
	if f.Prop != "C13" && f.Prop != "C14" {
		fmt.Fprintln(os.Stderr, "h-gensweep: unknown property", f.Prop)
		os.Exit(2)
	}
	if *hdir == "" {
		*hdir = harnessDirDefault()
	}
	w, err := newWorld(*hdir)
	if err != nil {
		fmt.Fprintln(os.Stderr, err)
		os.Exit(3)
	}
	defer w.close()
	if f.Prop == "C14" {
		run14(f, w)
		w.close()
		return
	}
	m := &impl{w: w}
	r := hx.NewRunner(f, "h-gensweep", m, rule)
	r.KeyOf = keyOf
	// the declared method set, import list and type references are the model's predictions from the
	// template's guard table; the property's observables are exit status, gofmt, build and the
	// compile-time interface assertions
	r.KindOf = func(d *hx.Disagreement) string {
		if ws := strings.Fields(d.Request); len(ws) >= 3 && (ws[2] == "methods" || ws[2] == "imports" || ws[1] == "typeref") {
			return "tie-broken"
		}
		return ""
	}
	r.Compare = compare
	r.ShrinkBudget = 4
	r.ShrinkMax = 6
	if r.HandleReplay() {
		w.close()
		return
	}
	r.RunCorpus()
	g := &gen{r: r, w: w, thorough: f.Tier == "thorough"}
	g.run()
	r.Res.Exhaustive = true
	r.Res.Notes["exhaustive"] = "all 2^5 genum option settings on every base definition, gerror with/without -skipConvertGen, gsort value/pointer; definitions themselves are sampled"
	r.Res.Extra["generator_runs"] = w.genRuns
	r.Res.Extra["go_build_batches"] = w.goBuilds
	r.Res.Extra["generator_outcomes"] = g.outcomes
	r.Res.Extra["repo_tree"] = w.repo
	r.Finish()
	w.close()
}

import Model.TmplX
/-! REGENERATED on every run by harness/cmd/go2lean -spec genumtmpl from genum/gen/enumTemplate.gotmpl (text/template/parse). Do not edit.
The body of `{{range $i, $enumTypeName := .Types}}` cut into the top-level Go declarations it writes; `prelude` are the
variable declarations at its head.  Not translated (4 pieces): {{if $.GenJSON}}; {{if $.GenText}}; {{if $.GenYAML}}; func (@) IsEnum() {}.  See Model/TmplX.lean. -/
namespace Generated.GenumTmpl
open TmplX

/-- the variables of the range over the enum types: index, type name -/
def idxVar : String := "$i"
def typeVar : String := "$enumTypeName"

/-- what that range ranges over -/
def typesExpr : Expr := (.field .dot "Types")

def prelude : List Node :=
  [.assign "$values" (.fn "index" [(.field (.var "$") "Values"), (.var "$i")])]

def secTable : List Node :=
  [.text "\n\nvar _", .action (.var "$enumTypeName"), .text "Values = []", .action (.var "$enumTypeName"), .text "{", .range none (some "$val") (.field (.var "$values") "ValueDeduplicatedSet") [.text "\n\t", .action (.field (.var "$val") "Name"), .text ","] [], .text "\n}"]

def secAccessor : List Node :=
  [.range none (some "$trait") (.fn "index" [(.field (.var "$") "Traits"), (.var "$i")]) [.text "\n\n// ", .action (.field (.var "$trait") "Name"), .text " returns the enum's associated trait of the same name.\n// If no trait exists for the enumeration a default value will be returned.\nfunc (e ", .action (.var "$enumTypeName"), .text ") ", .action (.field (.var "$trait") "Name"), .text "() ", .action (.field (.var "$trait") "TypeRef"), .text " {\n\tswitch e {", .range none (some "$instance") (.field (.var "$trait") "Traits") [.text "\n\tcase ", .action (.field (.field (.var "$instance") "OwningValue") "Name"), .text ":\n\t\treturn ", .action (.field (.var "$instance") "Value")] [], .text "\n\t}\n\n\treturn *new(", .action (.field (.var "$trait") "TypeRef"), .text ")\n}\n"] []]

def secIsValid : List Node :=
  [.text "\n\n// IsValid returns true if the enum value is, in fact, valid.\nfunc (e ", .action (.var "$enumTypeName"), .text ") IsValid() bool {", .ite (.fn "gt" [(.fn "len" [(.var "$values")]), (.int 15)]) [.text "\n\t_, ok := slices.BinarySearch(_", .action (.var "$enumTypeName"), .text "Values, e)\n\treturn ok"] [.text "\n\tfor _, v := range _", .action (.var "$enumTypeName"), .text "Values {\n\t\tif v == e {\n\t\t\treturn true\n\t\t}\n\t}\n\treturn false"], .text "\n}"]

def secValues : List Node :=
  [.text "\n\n// Values returns a list of all potential values of this enum.\nfunc (", .action (.var "$enumTypeName"), .text ") Values() []", .action (.var "$enumTypeName"), .text " {\n\treturn slices.Clone(_", .action (.var "$enumTypeName"), .text "Values)\n}"]

def secStringValues : List Node :=
  [.text "\n\n// StringValues returns a list of all potential values of this enum as strings.\n// Note: This does not return duplicates.\nfunc (", .action (.var "$enumTypeName"), .text ") StringValues() []string {\n\treturn []string{", .range none (some "$val") (.field (.var "$values") "ValueDeduplicatedSet") [.text "\n\t\t\"", .action (.field (.var "$val") "Name"), .text "\","] [], .text "\n\t}\n}"]

def secString : List Node :=
  [.text "\n\n// String returns a string representation of this enum.\n// Note: in the case of duplicate values only the first alphabetical definition will be choosen.\nfunc (e ", .action (.var "$enumTypeName"), .text ") String() string {\n\tswitch e {", .range none (some "$val") (.field (.var "$values") "ValueDeduplicatedSet") [.text "\n\tcase ", .action (.field (.var "$val") "Name"), .text ":\n\t\treturn \"", .action (.field (.var "$val") "Name"), .text "\""] [], .text "\n\tdefault:\n\t\treturn fmt.Sprintf(\"Undefined", .action (.var "$enumTypeName"), .text ":%d\", e)\n\t}\n}"]

def secParseString : List Node :=
  [.text "\n\n// ParseString will return a value as defined in string form.\nfunc (e ", .action (.var "$enumTypeName"), .text ") ParseString(text string) (", .action (.var "$enumTypeName"), .text ", error) {\n\treturn Parse", .action (.var "$enumTypeName"), .text "(text)\n}"]

def secParse : List Node :=
  [.text "\n\n// Parse", .action (.var "$enumTypeName"), .text " will attempt to parse the value of a ", .action (.var "$enumTypeName"), .text " from either its string form\n// or any value of a trait flagged with the --parsableByTrait flag.\nfunc Parse", .action (.var "$enumTypeName"), .text "(input any) (", .action (.var "$enumTypeName"), .text ", error) {\n\tswitch input {", .range (some "$j") (some "$val") (.var "$values") [.text "\n\tcase \"", .action (.field (.var "$val") "Name"), .text "\"", .range none (some "$trait") (.fn "index" [(.field (.var "$") "Traits"), (.var "$i")]) [.ite (.field (.var "$trait") "Parsable") [.withN (.call (.var "$trait") "InstanceOf" [(.var "$val")]) [.text ", ", .action (.field .dot "Value")] []] []] [], .text ":\n\t\treturn ", .action (.field (.var "$val") "Name"), .text ", nil"] [], .text "\n\tdefault:", .ite (.field (.var "$") "CaseInsensitive") [.text "\n\t\tif text, ok := input.(string); ok {\n\t\t\tswitch strings.ToLower(text) {", .range none (some "$val") (.var "$values") [.text "\n\t\t\tcase \"", .action (.field (.var "$val") "LowerCaseName"), .text "\":\n\t\t\t\treturn ", .action (.field (.var "$val") "Name"), .text ", nil"] [], .text "\n\t\t\t}\n\t\t}"] [], .text "\n\t\treturn 0, fmt.Errorf(\"`%+v` could not be parsed to enum of type ", .action (.var "$enumTypeName"), .text "\", input)\n\t}\n}"]

def secParseGeneric : List Node :=
  [.text "\n\n// ParseGeneric calls TypedEnum.Parse but returns the result\n// in the generic genum.Enum interface. Which is useful when you are only able to work with\n// the un-typed interface.\nfunc (e ", .action (.var "$enumTypeName"), .text ") ParseGeneric(input any) (genum.Enum, error) {\n\treturn Parse", .action (.var "$enumTypeName"), .text "(input)\n}"]

/-- the translated sections in template order -/
def order : List String := ["Table", "Accessor", "IsValid", "Values", "StringValues", "String", "ParseString", "Parse", "ParseGeneric"]

end Generated.GenumTmpl

import Model.GoPrelude
import Model.GErrorIs
/-!
# Semantics of the interface / pointer fragment that `go2lean -spec gerroris` translates (core Lean only)

`harness/cmd/go2lean/gerroris.go` turns the methods of `gerror/gerror.go` that decide error identity
(`Is`, `Unwrap`, `isComparable`, `ExtractFactoryReference`, `Convert`, `ConvertS`, `_embededGError`)
and `FactoryOf` of `gerror/factory.go` into Lean `do` blocks.  This file fixes what the primitives
of that fragment mean; like `GoPrelude.lean` it is part of the trusted base of every theorem
"translated function = model function".

* A `*GError` is an address (`Nat`) - always a valid one: nil pointers of type `*GError` are outside this
  fragment, as they are outside `Model/GErrorIs.lean`; the memory it points into is a `Go.Mem ρ` (`ρ` = the record
  type translated from `type GError struct`): a total map from addresses to records plus the next
  free address.  `&GError{…}` is `Mem.new`, a field write through a pointer is `Mem.store`.
* A value of an interface type (`error`, `Error`, `Factory`, `factoryOf`, a type parameter
  constrained by `factoryOf`) is a `GErrorIs.Val`: `nil`, `base a` (dynamic type `*GError`, pointer
  `a`), `ext ty a` (dynamic type `*T` for the generated type number `ty`, whose embedded `GError`
  lives at `a`), or a foreign error.  Converting a `*GError` `p` to an interface type is `Val.base p`;
  converting between interface types leaves the value as it is.
* `==` between two interface values (or a `*GError` and an interface value, after the implicit
  conversion) is `Go.ifaceEq`: it PANICS exactly when both sides have the same non-comparable
  dynamic type (`GErrorIs.ifaceEq`).  `x == nil` / `x != nil` never panic and are plain tests.
* `a && b`, `a || b` with operands that may panic are `Go.land` / `Go.lor` (the right operand is not
  evaluated when the left one decides).
* `v.(Error)` succeeds exactly for gerror values (`base`, `ext`: both `*GError` and every generated
  `*T` implement `Error`); `Go.assertError` returns the pair `(value, ok)`.
* A method call `v.M(…)` on an interface value whose method `M` is defined on `*GError` runs on the
  (embedded) `*GError` - directly for `base a`, by method promotion for `ext ty a`; on `nil` or a
  foreign value there is no such method to call (`Go.method` panics).
* `reflect.TypeOf(v).Comparable()` reads the foreign value's comparability flag; pointers are
  comparable; `reflect.TypeOf(nil)` is the nil `Type`, whose method call panics.
* `slices.Contains(s, v)` is the library's loop `for i := range s { if v == s[i] { return true } }`.
* A recursive call consumes one unit of fuel; running out is the error `Go.fuelMsg`.
-/
namespace Go
open GErrorIs (Val Res)

def panicMsg : String := "panic"
def fuelMsg : String := "out of fuel"

/-- memory of records of type `ρ` addressed by `Nat`; `next` is the first free address -/
structure Mem (ρ : Type) where
  cell : Nat → ρ
  next : Nat

variable {ρ α : Type}

/-- `&T{…}`: allocate a fresh record -/
def Mem.new (m : Mem ρ) (r : ρ) : Mem ρ × Nat :=
  ({ cell := fun a => if a = m.next then r else m.cell a, next := m.next + 1 }, m.next)

/-- `*p = r` (all field writes through `p` are record updates stored back) -/
def Mem.store (m : Mem ρ) (p : Nat) (r : ρ) : Mem ρ :=
  { m with cell := fun a => if a = p then r else m.cell a }

/-- a model outcome as a computation of the translated fragment -/
def ofRes : Res → M Bool
  | .t => pure true
  | .f => pure false
  | .panic => throw panicMsg
  | .fuel => throw fuelMsg

/-- … and back (`toRes (ofRes r) = r`) -/
def toRes : M Bool → Res
  | .ok true => .t
  | .ok false => .f
  | .error s => if s = fuelMsg then .fuel else .panic

/-- Go's `==` on two interface values -/
def ifaceEq (a b : Val) : M Bool := ofRes (GErrorIs.ifaceEq a b)

/-- `a && b` -/
def land (a b : M Bool) : M Bool := do
  if (← a) then b else pure false

/-- `a || b` -/
def lor (a b : M Bool) : M Bool := do
  if (← a) then pure true else b

/-- `g, ok := v.(Error)` -/
def assertError (v : Val) : Val × Bool :=
  match GErrorIs.embedded v with
  | some _ => (v, true)
  | none => (.nil, false)

/-- `v.M(…)` for a method `M` of `*GError`, called through an interface value -/
def method (v : Val) (f : Nat → M α) : M α :=
  match GErrorIs.embedded v with
  | some a => f a
  | none => throw panicMsg

/-- `reflect.TypeOf(v).Comparable()` -/
def reflectComparable : Val → M Bool
  | .nil => throw panicMsg
  | .foreign (.noncmp _) _ _ => pure false
  | _ => pure true

/-- `slices.Contains(s, v)` -/
def slicesContains : List Val → Val → M Bool
  | [], _ => pure false
  | x :: rest, v => do
    if (← ifaceEq v x) then pure true else slicesContains rest v

end Go

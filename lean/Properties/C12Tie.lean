import Model.Genum
import Generated.GoGenumGen
import Lemmas.GoLoop
import Lemmas.GoLoopIdx
import Properties.C04Tie
import Properties.C12
/-!
# C12 / C05, tie A by translation: the row / trait selection of the enum generator = the model

`Generated/GoGenumGen.lean` is rewritten from /repo's `genum/gen/traits.go` and `genum/gen/generate.go` by
`harness/cmd/go2lean -spec genumgen` on every run.  This file proves, for all inputs, that the translated
functions compute what the hand-written model `Model/Genum.lean` (part 2) computes:

* `go_extractUnderlying_eq`: `TraitDesc.extractUnderlying` classifies every non-float `types.BasicKind` as the
  model's `Genum.extractUnderlying` does (`codeOf`), an untyped rune included;
* `go_getParsableUnderlying_eq` and the `go_getParsable…_closed` theorems: every `GetParsable…` selector of the
  template is a filter, with exactly the attribute test written in the theorem, and cannot panic;
* `go_getParsableInt64ForJSON_eq`, `…ForYAML_eq`, `go_getParsableUint64…`, `go_getParsableString…`,
  `go_getParsable{JSON,YAML}Unmarshalable_eq`: on descriptors whose go/types attributes are those of the
  model's family (`DescRel`), the selectors return the model's `numericTraits`, string family and
  self-unmarshalling family;
* `go_instanceOf_eq`, `go_validateParsable_eq`, `go_processDuplicates_eq`: see below.
-/
set_option linter.unusedSimpArgs false
set_option linter.unusedVariables false
namespace C12Tie
open Generated.GoGenumValues Generated.GoGenumGen Genum GoLoop

/-! ## go/types queries -/

theorem go_implementsJSON_eq (td : GTraitDesc) :
    implementsJSONUnmarshaler td = pure (td.«Type».gcTypeImplements "encoding/json" "Unmarshaler") := rfl
theorem go_implementsYAML_eq (td : GTraitDesc) :
    implementsYAMLUnmarshaler td = pure (td.«Type».gcTypeImplements "gopkg.in/yaml.v3" "Unmarshaler") := rfl
theorem go_implementsText_eq (td : GTraitDesc) :
    implementsTextUnmarshaler td = pure (td.«Type».typesImplements "encoding" "TextUnmarshaler") := rfl

def implJ (ty : GType) : Bool := ty.gcTypeImplements "encoding/json" "Unmarshaler"
def implY (ty : GType) : Bool := ty.gcTypeImplements "gopkg.in/yaml.v3" "Unmarshaler"
def implT (ty : GType) : Bool := ty.typesImplements "encoding" "TextUnmarshaler"

/-- `types.BasicKind` as the model's `Genum.BasicKind` (`int`/`uint` are 64 bit; kinds the model does not
distinguish are `other`) -/
def kindOf : Generated.GoGenumGen.BasicKind → Genum.BasicKind
  | .Int => .int 64 | .Int8 => .int 8 | .Int16 => .int 16 | .Int32 => .int 32 | .Int64 => .int 64
  | .Uint => .uint 64 | .Uint8 => .uint 8 | .Uint16 => .uint 16 | .Uint32 => .uint 32 | .Uint64 => .uint 64
  | .UntypedInt => .untypedInt | .UntypedRune => .untypedRune
  | .UntypedString => .untypedString | .String => .string
  | .Bool => .bool | .UntypedBool => .bool
  | _ => .other

/-- the code's `underlying` constant of a model family -/
def codeOf : Family → Underlying
  | .sint _ => .int64Underlying
  | .uint _ => .uint64Underlying
  | .nstr => .stringUnderlying
  | _ => .unknown

/-- the float kinds (float families are not part of the model) -/
def floatCode : Generated.GoGenumGen.BasicKind → Option Underlying
  | .Float32 => some .float32Underlying
  | .Float64 => some .float64Underlying
  | .UntypedFloat => some .float64Underlying
  | _ => none

/-- what `extractUnderlying` answers for a basic kind -/
def codeOfKind (k : Generated.GoGenumGen.BasicKind) : Underlying :=
  match floatCode k with
  | some c => c
  | none => codeOf (Genum.extractUnderlying (kindOf k))

/-- `TraitDesc.extractUnderlying` = the model's classification, for every type -/
theorem go_extractUnderlying_eq (td : GTraitDesc) :
    GTraitDesc.extractUnderlying td = pure (match td.«Type».basic with
      | none => (Underlying.unknown, false)
      | some k => (codeOfKind k, true)) := by
  unfold GTraitDesc.extractUnderlying
  cases h : td.«Type».basic with
  | none => simp [h]
  | some k => cases k <;> simp [h] <;> rfl

/-- the `underlying` of a type, if its underlying type is basic -/
def undOf (ty : GType) : Option Underlying := ty.basic.map codeOfKind

theorem go_hasUnderlying_eq (td : GTraitDesc) (u : Underlying) :
    GTraitDesc.hasUnderlying td u = pure (undOf td.«Type» == some u) := by
  unfold GTraitDesc.hasUnderlying undOf
  rw [go_extractUnderlying_eq]
  cases h : td.«Type».basic with
  | none => simp [h]
  | some k =>
    simp [h]


/-! ## the selectors of the template are filters -/

theorem foldl_filter_append {α : Type} (p : α → Bool) (l acc : List α) :
    l.foldl (fun out t => if p t then out ++ [t] else out) acc = acc ++ l.filter p := by
  induction l generalizing acc with
  | nil => simp
  | cons a l ih =>
    simp only [List.foldl_cons, List.filter_cons]
    by_cases h : p a = true <;> simp [h, ih]

/-- `getParsableUnderlying(u, excluding)` for an `excluding` that answers without panicking: the parsable
descriptors whose type has underlying `u` and is not excluded, in order -/
theorem go_getParsableUnderlying_eq (s : List GTraitDesc) (u : Underlying) (ex : GTraitDesc → Go.M Bool)
    (exb : GTraitDesc → Bool) (hex : ∀ t, ex t = pure (exb t)) :
    GTraitDescs.getParsableUnderlying s u ex
      = pure (s.filter (fun t => t.Parsable && (undOf t.«Type» == some u) && !exb t)) := by
  unfold GTraitDescs.getParsableUnderlying
  simp only []
  rw [forIn_yield _ (fun out t => if (t.Parsable && (undOf t.«Type» == some u) && !exb t) then out ++ [t] else out)
    (fun _ => True) (fun _ _ _ => trivial) (by
      intro t out _
      simp only [go_hasUnderlying_eq, hex, Go.andThen]
      by_cases h1 : t.Parsable = true <;> by_cases h2 : (undOf t.«Type» == some u) = true <;>
        by_cases h3 : exb t = true <;> simp [h1, h2, h3]) s [] trivial]
  simp only [pure_bind, foldl_filter_append, List.nil_append]

/-- the attribute test of one `GetParsableUnderlying<U>For<Codec>` selector -/
def selects (u : Underlying) (impl : GType → Bool) (t : GTraitDesc) : Bool :=
  t.Parsable && (undOf t.«Type» == some u) && !impl t.«Type»

theorem go_getParsableStringForJSON_closed (s : List GTraitDesc) :
    GTraitDescs.GetParsableUnderlyingStringForJSON s = pure (s.filter (selects .stringUnderlying implJ)) := by
  unfold GTraitDescs.GetParsableUnderlyingStringForJSON
  rw [go_getParsableUnderlying_eq _ _ _ (fun t => implJ t.«Type») go_implementsJSON_eq]; rfl
theorem go_getParsableUint64ForJSON_closed (s : List GTraitDesc) :
    GTraitDescs.GetParsableUnderlyingUint64ForJSON s = pure (s.filter (selects .uint64Underlying implJ)) := by
  unfold GTraitDescs.GetParsableUnderlyingUint64ForJSON
  rw [go_getParsableUnderlying_eq _ _ _ (fun t => implJ t.«Type») go_implementsJSON_eq]; rfl
theorem go_getParsableInt64ForJSON_closed (s : List GTraitDesc) :
    GTraitDescs.GetParsableUnderlyingInt64ForJSON s = pure (s.filter (selects .int64Underlying implJ)) := by
  unfold GTraitDescs.GetParsableUnderlyingInt64ForJSON
  rw [go_getParsableUnderlying_eq _ _ _ (fun t => implJ t.«Type») go_implementsJSON_eq]; rfl
theorem go_getParsableFloat64ForJSON_closed (s : List GTraitDesc) :
    GTraitDescs.GetParsableUnderlyingFloat64ForJSON s = pure (s.filter (selects .float64Underlying implJ)) := by
  unfold GTraitDescs.GetParsableUnderlyingFloat64ForJSON
  rw [go_getParsableUnderlying_eq _ _ _ (fun t => implJ t.«Type») go_implementsJSON_eq]; rfl
theorem go_getParsableFloat32ForJSON_closed (s : List GTraitDesc) :
    GTraitDescs.GetParsableUnderlyingFloat32ForJSON s = pure (s.filter (selects .float32Underlying implJ)) := by
  unfold GTraitDescs.GetParsableUnderlyingFloat32ForJSON
  rw [go_getParsableUnderlying_eq _ _ _ (fun t => implJ t.«Type») go_implementsJSON_eq]; rfl
theorem go_getParsableStringForYAML_closed (s : List GTraitDesc) :
    GTraitDescs.GetParsableUnderlyingStringForYAML s = pure (s.filter (selects .stringUnderlying implY)) := by
  unfold GTraitDescs.GetParsableUnderlyingStringForYAML
  rw [go_getParsableUnderlying_eq _ _ _ (fun t => implY t.«Type») go_implementsYAML_eq]; rfl
theorem go_getParsableUint64ForYAML_closed (s : List GTraitDesc) :
    GTraitDescs.GetParsableUnderlyingUint64ForYAML s = pure (s.filter (selects .uint64Underlying implY)) := by
  unfold GTraitDescs.GetParsableUnderlyingUint64ForYAML
  rw [go_getParsableUnderlying_eq _ _ _ (fun t => implY t.«Type») go_implementsYAML_eq]; rfl
theorem go_getParsableInt64ForYAML_closed (s : List GTraitDesc) :
    GTraitDescs.GetParsableUnderlyingInt64ForYAML s = pure (s.filter (selects .int64Underlying implY)) := by
  unfold GTraitDescs.GetParsableUnderlyingInt64ForYAML
  rw [go_getParsableUnderlying_eq _ _ _ (fun t => implY t.«Type») go_implementsYAML_eq]; rfl
theorem go_getParsableFloat64ForYAML_closed (s : List GTraitDesc) :
    GTraitDescs.GetParsableUnderlyingFloat64ForYAML s = pure (s.filter (selects .float64Underlying implY)) := by
  unfold GTraitDescs.GetParsableUnderlyingFloat64ForYAML
  rw [go_getParsableUnderlying_eq _ _ _ (fun t => implY t.«Type») go_implementsYAML_eq]; rfl
theorem go_getParsableFloat32ForYAML_closed (s : List GTraitDesc) :
    GTraitDescs.GetParsableUnderlyingFloat32ForYAML s = pure (s.filter (selects .float32Underlying implY)) := by
  unfold GTraitDescs.GetParsableUnderlyingFloat32ForYAML
  rw [go_getParsableUnderlying_eq _ _ _ (fun t => implY t.«Type») go_implementsYAML_eq]; rfl
theorem go_getParsableStringForText_closed (s : List GTraitDesc) :
    GTraitDescs.GetParsableUnderlyingStringForText s = pure (s.filter (selects .stringUnderlying implT)) := by
  unfold GTraitDescs.GetParsableUnderlyingStringForText
  rw [go_getParsableUnderlying_eq _ _ _ (fun t => implT t.«Type») go_implementsText_eq]; rfl

/-- the three `GetParsable<Codec>Unmarshalable` selectors: the parsable descriptors whose type brings its own
unmarshaler -/
theorem go_getParsableJSONUnmarshalable_closed (s : List GTraitDesc) :
    GTraitDescs.GetParsableJSONUnmarshalable s = pure (s.filter (fun t => t.Parsable && implJ t.«Type»)) := by
  unfold GTraitDescs.GetParsableJSONUnmarshalable
  simp only []
  rw [forIn_yield _ (fun out t => if (t.Parsable && implJ t.«Type») then out ++ [t] else out)
    (fun _ => True) (fun _ _ _ => trivial) (by
      intro t out _
      simp only [go_implementsJSON_eq, Go.andThen, implJ]
      by_cases h1 : t.Parsable = true <;>
        by_cases h3 : t.«Type».gcTypeImplements "encoding/json" "Unmarshaler" = true <;> simp [h1, h3]) s [] trivial]
  simp only [pure_bind, foldl_filter_append, List.nil_append]
theorem go_getParsableYAMLUnmarshalable_closed (s : List GTraitDesc) :
    GTraitDescs.GetParsableYAMLUnmarshalable s = pure (s.filter (fun t => t.Parsable && implY t.«Type»)) := by
  unfold GTraitDescs.GetParsableYAMLUnmarshalable
  simp only []
  rw [forIn_yield _ (fun out t => if (t.Parsable && implY t.«Type») then out ++ [t] else out)
    (fun _ => True) (fun _ _ _ => trivial) (by
      intro t out _
      simp only [go_implementsYAML_eq, Go.andThen, implY]
      by_cases h1 : t.Parsable = true <;>
        by_cases h3 : t.«Type».gcTypeImplements "gopkg.in/yaml.v3" "Unmarshaler" = true <;> simp [h1, h3]) s [] trivial]
  simp only [pure_bind, foldl_filter_append, List.nil_append]
theorem go_getParsableTextUnmarshalable_closed (s : List GTraitDesc) :
    GTraitDescs.GetParsableTextUnmarshalable s = pure (s.filter (fun t => t.Parsable && implT t.«Type»)) := by
  unfold GTraitDescs.GetParsableTextUnmarshalable
  simp only []
  rw [forIn_yield _ (fun out t => if (t.Parsable && implT t.«Type») then out ++ [t] else out)
    (fun _ => True) (fun _ _ _ => trivial) (by
      intro t out _
      simp only [go_implementsText_eq, Go.andThen, implT]
      by_cases h1 : t.Parsable = true <;>
        by_cases h3 : t.«Type».typesImplements "encoding" "TextUnmarshaler" = true <;> simp [h1, h3]) s [] trivial]
  simp only [pure_bind, foldl_filter_append, List.nil_append]


/-! ## `InstanceOf` -/

/-- what `InstanceOf` hands to the template for the instance it found -/
def instResult (x : GTraitInstance) : Option GTraitInstance := if x.repeatsParseKey then none else some x

theorem find_loop (xs : List GTraitInstance) (nm : String) :
    forIn xs ((none : Option (Option GTraitInstance)), ()) (fun x (st : Option (Option GTraitInstance) × Unit) =>
        if (x.OwningValue.Name == nm) = true then
          (if x.repeatsParseKey = true then pure (ForInStep.done (some none, ()))
           else pure (ForInStep.done (some (some x), ())) : Go.M _)
        else pure (ForInStep.yield (none, ())))
      = pure (match xs.find? (fun x => x.OwningValue.Name == nm) with
          | some x => (some (instResult x), ())
          | none => (none, ())) := by
  induction xs with
  | nil => rfl
  | cons x xs ih =>
    rw [List.forIn_cons]
    by_cases h : (x.OwningValue.Name == nm) = true
    · by_cases h2 : x.repeatsParseKey = true <;> simp [h, h2, List.find?_cons, instResult]
    · have h' : (x.OwningValue.Name == nm) = false := by simpa using h
      simp only [h', Bool.false_eq_true, if_false, pure_bind, List.find?_cons]
      exact ih

/-- `TraitDesc.InstanceOf(v)`, for every descriptor and value: the first instance on the definition line named
`v.Name`, unless it is marked as a repeated Parse key; never a panic -/
theorem go_instanceOf_closed (td : GTraitDesc) (v : GValue) :
    GTraitDesc.InstanceOf td v
      = pure ((td.Traits.find? (fun x => x.OwningValue.Name == v.Name)).bind instResult) := by
  unfold GTraitDesc.InstanceOf
  simp only []
  rw [forIn_range_idx td.Traits _ (fun x (st : Option (Option GTraitInstance) × Unit) =>
        if (x.OwningValue.Name == v.Name) = true then
          (if x.repeatsParseKey = true then pure (ForInStep.done (some none, ()))
           else pure (ForInStep.done (some (some x), ())) : Go.M _)
        else pure (ForInStep.yield (none, ()))) (by
      intro i b hi
      simp only [listGet_lt _ _ hi, pure_bind])]
  rw [find_loop]
  cases h : td.Traits.find? (fun x => x.OwningValue.Name == v.Name) <;> simp [h]


/-! ## the model's descriptors and the code's -/

/-- two lists related element by element -/
inductive All₂ {α β : Type} (R : α → β → Prop) : List α → List β → Prop
  | nil : All₂ R [] []
  | cons {a b as bs} : R a b → All₂ R as bs → All₂ R (a :: as) (b :: bs)

theorem All₂.filter {α β : Type} {R : α → β → Prop} {p : α → Bool} {q : β → Bool}
    (hpq : ∀ a b, R a b → p a = q b) {l : List α} {l' : List β} (h : All₂ R l l') :
    All₂ R (l.filter p) (l'.filter q) := by
  induction h with
  | nil => exact .nil
  | cons hab _ ih =>
    simp only [List.filter_cons, ← hpq _ _ hab]
    split
    · exact .cons hab ih
    · exact ih

/-- both absent, or both present and related -/
def OptRel {α β : Type} (R : α → β → Prop) : Option α → Option β → Prop
  | some a, some b => R a b
  | none, none => True
  | _, _ => False

theorem All₂.find {α β : Type} {R : α → β → Prop} {p : α → Bool} {q : β → Bool}
    (hpq : ∀ a b, R a b → p a = q b) {l : List α} {l' : List β} (h : All₂ R l l') :
    OptRel R (l.find? p) (l'.find? q) := by
  induction h with
  | nil => exact trivial
  | @cons a b as bs hab _ ih =>
    simp only [List.find?_cons, ← hpq _ _ hab]
    cases hp : p a
    · exact ih
    · exact hab

/-- what go/types says about the type of a trait column that the model puts in family `fam`: an integer-kinded
named type with unmarshal methods of its own (`self … m`) answers the three `implements…` queries as the model's
`Methods.implements` does (JSON, YAML: declared methods whatever the receiver; text: the value type's method
set) and has the signed resp. unsigned integer `underlying`; every other column type implements none of the
three, is basic, not a float, and `extractUnderlying` - the MODEL's - puts its kind in a family with the same
`underlying` code as `fam` (the harness tells the model the family with the width; the code only keeps signed /
unsigned / string) -/
def FamilyOf (ty : GType) (fam : Family) : Prop :=
  match fam with
  | .self _ sg _ m => implJ ty = m.implements .json ∧ implY ty = m.implements .yaml ∧ implT ty = m.implements .text ∧
      undOf ty = some (if sg then .int64Underlying else .uint64Underlying)
  | _ => implJ ty = false ∧ implY ty = false ∧ implT ty = false ∧
      ∃ k, ty.basic = some k ∧ floatCode k = none ∧ codeOf (Genum.extractUnderlying (kindOf k)) = codeOf fam

/-- a row of the model and an instance of the code: same owner, and the text `validateParsableTraits` compares
is the model's `rowText` -/
structure RowRel (first : Genum.Value) (ty : String) (r : TraitRow) (x : GTraitInstance) : Prop where
  owner : x.OwningValue = C04Tie.abs r.owner
  text : x.value = rowText ty (r.owner.name == first.name) r.dyn.v

structure DescRel (first : Genum.Value) (t : Genum.TraitDesc) (g : GTraitDesc) : Prop where
  name : g.Name = t.name
  parsable : g.Parsable = t.parsable
  fam : FamilyOf g.«Type» t.fam
  rows : All₂ (RowRel first t.ty) t.rows g.Traits

theorem undOf_of_family {ty : GType} {fam : Family} (h : FamilyOf ty fam) (hs : ∀ i sg b m, fam ≠ .self i sg b m) :
    undOf ty = some (codeOf fam) ∧ implJ ty = false ∧ implY ty = false ∧ implT ty = false := by
  cases fam with
  | self i sg b m => exact absurd rfl (hs i sg b m)
  | _ =>
    obtain ⟨hj, hy, ht, k, hk, hf, hc⟩ := h
    refine ⟨?_, hj, hy, ht⟩
    simp [undOf, hk, codeOfKind, hf, hc]

/-- the attribute test of the integer selectors, per codec: the model's `numericTraits c signed` test -/
theorem selects_numeric {first : Genum.Value} {t : Genum.TraitDesc} {g : GTraitDesc} (h : DescRel first t g) (signed : Bool) :
    (t.parsable && t.fam.isNumeric signed && !t.fam.implements .json)
      = selects (if signed then .int64Underlying else .uint64Underlying) implJ g ∧
    (t.parsable && t.fam.isNumeric signed && !t.fam.implements .yaml)
      = selects (if signed then .int64Underlying else .uint64Underlying) implY g := by
  unfold selects
  rw [h.parsable]
  cases hf : t.fam with
  | self i sg b m =>
    have := h.fam; rw [hf] at this
    obtain ⟨hj, hy, _, hu⟩ := this
    simp only [Family.isNumeric, Family.implements, hj, hy, hu]
    cases sg <;> cases signed <;> simp
  | _ =>
    have := undOf_of_family h.fam (by rw [hf]; intro i sg b m; simp)
    rw [hf] at this
    obtain ⟨hu, hj, hy, _⟩ := this
    cases signed <;> simp [Family.isNumeric, Family.implements, hu, hj, hy, codeOf] <;> (try cases t.parsable <;> (try rfl) <;> decide)

theorem selects_int {first : Genum.Value} {t : Genum.TraitDesc} {g : GTraitDesc} (h : DescRel first t g) :
    (t.parsable && t.fam.isNumeric true && !t.fam.implements .json) = selects .int64Underlying implJ g ∧
    (t.parsable && t.fam.isNumeric true && !t.fam.implements .yaml) = selects .int64Underlying implY g := by
  simpa using selects_numeric h true
theorem selects_uint {first : Genum.Value} {t : Genum.TraitDesc} {g : GTraitDesc} (h : DescRel first t g) :
    (t.parsable && t.fam.isNumeric false && !t.fam.implements .json) = selects .uint64Underlying implJ g ∧
    (t.parsable && t.fam.isNumeric false && !t.fam.implements .yaml) = selects .uint64Underlying implY g := by
  simpa using selects_numeric h false

theorem selects_string {first : Genum.Value} {t : Genum.TraitDesc} {g : GTraitDesc} (h : DescRel first t g) :
    (t.parsable && t.fam == .nstr) = selects .stringUnderlying implJ g ∧
    (t.parsable && t.fam == .nstr) = selects .stringUnderlying implY g ∧
    (t.parsable && t.fam == .nstr) = selects .stringUnderlying implT g := by
  unfold selects
  rw [h.parsable]
  cases hf : t.fam with
  | self i sg b m =>
    have := h.fam; rw [hf] at this
    obtain ⟨_, _, _, hu⟩ := this
    have e1 : (Family.self i sg b m == Family.nstr) = false := by
      rw [beq_eq_false_iff_ne]; intro e; cases e
    have e2 : (Underlying.uint64Underlying == Underlying.stringUnderlying) = false := by decide
    have e3 : (Underlying.int64Underlying == Underlying.stringUnderlying) = false := by decide
    cases sg <;> simp [hu, e1, e2, e3]
  | _ =>
    have := undOf_of_family h.fam (by rw [hf]; intro i sg b m; simp)
    rw [hf] at this
    obtain ⟨hu, hj, hy, ht⟩ := this
    simp [hu, hj, hy, ht, codeOf] <;> (try cases t.parsable <;> (try rfl) <;> decide)

/-- the attribute test of the native-parsing selectors, per codec: the model's `nativeTry c` test -/
theorem selects_self {first : Genum.Value} {t : Genum.TraitDesc} {g : GTraitDesc} (h : DescRel first t g) :
    (t.parsable && t.fam.implements .json) = (g.Parsable && implJ g.«Type») ∧
    (t.parsable && t.fam.implements .yaml) = (g.Parsable && implY g.«Type») ∧
    (t.parsable && t.fam.implements .text) = (g.Parsable && implT g.«Type») := by
  rw [h.parsable]
  cases hf : t.fam with
  | self i sg b m =>
    have := h.fam; rw [hf] at this
    obtain ⟨hj, hy, ht, _⟩ := this
    simp [Family.implements, hj, hy, ht]
  | _ =>
    have := undOf_of_family h.fam (by rw [hf]; intro i sg b m; simp)
    obtain ⟨_, hj, hy, ht⟩ := this
    simp [Family.implements, hj, hy, ht]

/-- the code's answer `gs'` is, descriptor by descriptor, the model's list `ts'` -/
def Returns (first : Genum.Value) (r : Go.M (List GTraitDesc)) (ts' : List Genum.TraitDesc) : Prop :=
  ∃ gs', r = pure gs' ∧ All₂ (DescRel first) ts' gs'

/-- `GetParsableUnderlyingInt64ForJSON` / `…Uint64ForJSON` / `…ForYAML` return the model's `numericTraits` of
THAT codec: the parsable traits of the kind whose type has no unmarshaler of its own for the codec -/
theorem go_getParsableInt64ForJSON_eq (first : Genum.Value) (ts : List Genum.TraitDesc) (gs : List GTraitDesc)
    (h : All₂ (DescRel first) ts gs) :
    Returns first (GTraitDescs.GetParsableUnderlyingInt64ForJSON gs) (ts.filter (fun t => t.parsable && t.fam.isNumeric true && !t.fam.implements .json)) :=
  ⟨_, go_getParsableInt64ForJSON_closed gs, h.filter (p := fun t => t.parsable && t.fam.isNumeric true && !t.fam.implements .json) (q := selects .int64Underlying implJ) (fun _ _ hab => (selects_int hab).1)⟩
theorem go_getParsableUint64ForJSON_eq (first : Genum.Value) (ts : List Genum.TraitDesc) (gs : List GTraitDesc)
    (h : All₂ (DescRel first) ts gs) :
    Returns first (GTraitDescs.GetParsableUnderlyingUint64ForJSON gs) (ts.filter (fun t => t.parsable && t.fam.isNumeric false && !t.fam.implements .json)) :=
  ⟨_, go_getParsableUint64ForJSON_closed gs, h.filter (p := fun t => t.parsable && t.fam.isNumeric false && !t.fam.implements .json) (q := selects .uint64Underlying implJ) (fun _ _ hab => (selects_uint hab).1)⟩
theorem go_getParsableInt64ForYAML_eq (first : Genum.Value) (ts : List Genum.TraitDesc) (gs : List GTraitDesc)
    (h : All₂ (DescRel first) ts gs) :
    Returns first (GTraitDescs.GetParsableUnderlyingInt64ForYAML gs) (ts.filter (fun t => t.parsable && t.fam.isNumeric true && !t.fam.implements .yaml)) :=
  ⟨_, go_getParsableInt64ForYAML_closed gs, h.filter (p := fun t => t.parsable && t.fam.isNumeric true && !t.fam.implements .yaml) (q := selects .int64Underlying implY) (fun _ _ hab => (selects_int hab).2)⟩
theorem go_getParsableUint64ForYAML_eq (first : Genum.Value) (ts : List Genum.TraitDesc) (gs : List GTraitDesc)
    (h : All₂ (DescRel first) ts gs) :
    Returns first (GTraitDescs.GetParsableUnderlyingUint64ForYAML gs) (ts.filter (fun t => t.parsable && t.fam.isNumeric false && !t.fam.implements .yaml)) :=
  ⟨_, go_getParsableUint64ForYAML_closed gs, h.filter (p := fun t => t.parsable && t.fam.isNumeric false && !t.fam.implements .yaml) (q := selects .uint64Underlying implY) (fun _ _ hab => (selects_uint hab).2)⟩

/-- the lists of the theorems above ARE the model's `numericTraits` -/
theorem numericTraits_def (g : GenFull) (c : Codec) (signed : Bool) :
    g.numericTraits c signed = g.traits.filter (fun t => t.parsable && t.fam.isNumeric signed && !t.fam.implements c) := rfl

/-- the string selectors return the model's string family (`stringTry`) -/
theorem go_getParsableStringForJSON_eq (first : Genum.Value) (ts : List Genum.TraitDesc) (gs : List GTraitDesc)
    (h : All₂ (DescRel first) ts gs) :
    Returns first (GTraitDescs.GetParsableUnderlyingStringForJSON gs) (ts.filter (fun t => t.parsable && t.fam == .nstr)) :=
  ⟨_, go_getParsableStringForJSON_closed gs, h.filter (p := fun t => t.parsable && t.fam == .nstr) (q := selects .stringUnderlying implJ) (fun _ _ hab => (selects_string hab).1)⟩
theorem go_getParsableStringForYAML_eq (first : Genum.Value) (ts : List Genum.TraitDesc) (gs : List GTraitDesc)
    (h : All₂ (DescRel first) ts gs) :
    Returns first (GTraitDescs.GetParsableUnderlyingStringForYAML gs) (ts.filter (fun t => t.parsable && t.fam == .nstr)) :=
  ⟨_, go_getParsableStringForYAML_closed gs, h.filter (p := fun t => t.parsable && t.fam == .nstr) (q := selects .stringUnderlying implY) (fun _ _ hab => (selects_string hab).2.1)⟩
theorem go_getParsableStringForText_eq (first : Genum.Value) (ts : List Genum.TraitDesc) (gs : List GTraitDesc)
    (h : All₂ (DescRel first) ts gs) :
    Returns first (GTraitDescs.GetParsableUnderlyingStringForText gs) (ts.filter (fun t => t.parsable && t.fam == .nstr)) :=
  ⟨_, go_getParsableStringForText_closed gs, h.filter (p := fun t => t.parsable && t.fam == .nstr) (q := selects .stringUnderlying implT) (fun _ _ hab => (selects_string hab).2.2)⟩

/-- the native-parsing selectors return the parsable traits whose type brings the codec's unmarshaler: the
traits the model's `nativeTry c` hands the document to -/
theorem go_getParsableJSONUnmarshalable_eq (first : Genum.Value) (ts : List Genum.TraitDesc) (gs : List GTraitDesc)
    (h : All₂ (DescRel first) ts gs) :
    Returns first (GTraitDescs.GetParsableJSONUnmarshalable gs) (ts.filter (fun t => t.parsable && t.fam.implements .json)) :=
  ⟨_, go_getParsableJSONUnmarshalable_closed gs, h.filter (p := fun t => t.parsable && t.fam.implements .json) (q := fun t => t.Parsable && implJ t.«Type») (fun _ _ hab => (selects_self hab).1)⟩
theorem go_getParsableYAMLUnmarshalable_eq (first : Genum.Value) (ts : List Genum.TraitDesc) (gs : List GTraitDesc)
    (h : All₂ (DescRel first) ts gs) :
    Returns first (GTraitDescs.GetParsableYAMLUnmarshalable gs) (ts.filter (fun t => t.parsable && t.fam.implements .yaml)) :=
  ⟨_, go_getParsableYAMLUnmarshalable_closed gs, h.filter (p := fun t => t.parsable && t.fam.implements .yaml) (q := fun t => t.Parsable && implY t.«Type») (fun _ _ hab => (selects_self hab).2.1)⟩
theorem go_getParsableTextUnmarshalable_eq (first : Genum.Value) (ts : List Genum.TraitDesc) (gs : List GTraitDesc)
    (h : All₂ (DescRel first) ts gs) :
    Returns first (GTraitDescs.GetParsableTextUnmarshalable gs) (ts.filter (fun t => t.parsable && t.fam.implements .text)) :=
  ⟨_, go_getParsableTextUnmarshalable_closed gs, h.filter (p := fun t => t.parsable && t.fam.implements .text) (q := fun t => t.Parsable && implT t.«Type») (fun _ _ hab => (selects_self hab).2.2)⟩

/-- `InstanceOf` on a descriptor without repeated Parse keys is the model's `instanceOf` -/
theorem go_instanceOf_eq (first : Genum.Value) (t : Genum.TraitDesc) (g : GTraitDesc) (h : DescRel first t g)
    (hm : ∀ x ∈ g.Traits, x.repeatsParseKey = false) (v : Genum.Value) :
    ∃ r, GTraitDesc.InstanceOf g (C04Tie.abs v) = pure r ∧ OptRel (RowRel first t.ty) (t.instanceOf v) r := by
  refine ⟨_, go_instanceOf_closed g (C04Tie.abs v), ?_⟩
  have hf := All₂.find (p := fun r => r.owner.name == v.name) (q := fun x => x.OwningValue.Name == (C04Tie.abs v).Name)
    (fun a b hab => by simp [hab.owner, C04Tie.abs]) h.rows
  unfold TraitDesc.instanceOf
  cases h1 : t.rows.find? (fun r => r.owner.name == v.name) <;>
    cases h2 : g.Traits.find? (fun x => x.OwningValue.Name == (C04Tie.abs v).Name) <;> simp [h1, h2, OptRel] at hf ⊢
  · rename_i row x
    have hx : x.repeatsParseKey = false := hm x (List.mem_of_find?_eq_some h2)
    simp [instResult, hx, OptRel]
    exact hf

end C12Tie

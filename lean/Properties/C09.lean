import Lemmas.GErrClone
import Generated.GerrorBase
import Generated.GerrorTmpl
/-!
# C09 — gerror: generated extension types match the base type on every method

The generated methods are not modelled by hand: `Generated/GerrorTmpl.lean` is what the template's
stanzas hand to `CloneBase`, `Generated/GerrorBase.lean` what `*GError`'s own methods hand to it;
both are rewritten from the checked tree before every build.  `extMethod` (Model/GErrClone) is the
common body of every stanza: `clone := CloneBase(e, …row…); return e.toPrimaryType(clone)`.
-/
namespace GErrClone
open Generated

/-! ## Tie A: the regenerated tables -/

/-- **Every template stanza passes to `CloneBase` exactly what the base method passes** (stack
type, detail tag, source, message, source error, short circuit on gerror values), with the same
signature.  Re-checked by the kernel against the regenerated tables on every run. -/
theorem tmpl_rows_eq_base_rows :
    ∀ m ∈ Method.all, rowOf GerrorTmpl.rows m = rowOf GerrorBase.rows m ∧ (rowOf GerrorTmpl.rows m).isSome := by
  decide

/-- all 19 stanzas exist; only `Convert`/`ConvertS` are conditional, on `-skipConvertGen` alone -/
theorem tmpl_guards :
    GerrorTmpl.rows.length = Method.all.length ∧
    ∀ m ∈ Method.all,
      (GerrorTmpl.guards.find? (fun p => p.1.toList == m.goName.toList)).map (fun p => p.2.map String.toList) =
        some (if m.isConvert then ["if not $.SkipConvertGen".toList] else []) := by
  decide

/-- `toPrimaryType` copies `*gerr` into the embedded `GError`, takes every clone field from the
receiver and sets nothing else; `Error()` appends name, tag, source, print fields, message, stack
in this order. -/
theorem tmpl_shape :
    GerrorTmpl.allReturnToPrimary = true ∧ GerrorTmpl.toPrimaryCopiesBase = true ∧
    GerrorTmpl.toPrimaryCloneFieldsFromReceiver = true ∧ GerrorTmpl.toPrimaryOtherFields = 0 ∧
    GerrorTmpl.errorParts.map String.toList =
      ["name".toList, "dtag".toList, "source".toList, "print-fields".toList, "message".toList, "stack".toList] := by
  decide

/-- the row of a method in the template table -/
def tmplRow (m : Method) : Row := (rowOf GerrorTmpl.rows m).getD (wiring m)
/-- the row of a method in the base table -/
def baseRow (m : Method) : Row := (rowOf GerrorBase.rows m).getD (wiring m)

theorem mem_all (m : Method) : m ∈ Method.all := by cases m <;> decide

theorem tmplRow_eq_baseRow (m : Method) : tmplRow m = baseRow m := by
  unfold tmplRow baseRow
  rw [(tmpl_rows_eq_base_rows m (mem_all m)).1]

theorem baseRow_eq_wiring (m : Method) : baseRow m = wiring m := by
  have h : ∀ m ∈ Method.all, rowOf GerrorBase.rows m = some (wiring m) := by decide
  unfold baseRow
  rw [h m (mem_all m)]; rfl

/-! ## Extension result = base result -/

/-- **Every factory method of an extension type yields the same name, message, source, detail tag
and stack as the same method with the same arguments on a plain `GError` with the same base
fields** — for every extension definition, method, argument tuple, call stack and factory. -/
theorem ext_eq_base (d : ExtDef) (m : Method) (x : X) (c : Call) :
    (extMethod d (tmplRow m) x c).base = execRow (baseRow m) x.base c := by
  rw [tmplRow_eq_baseRow]; rfl

/-- the same with `Convert*` in full: a gerror argument is returned as it is by both -/
theorem ext_convert_eq_base (m : Method) :
    (tmplRow m).shortCircuit = (baseRow m).shortCircuit := by
  rw [tmplRow_eq_baseRow]

/-- a chain of generated methods on an extension factory -/
def runX (d : ExtDef) (x : X) (cs : List Call) : X :=
  cs.foldl (fun x c => extMethod d (tmplRow c.m) x c) x

/-- **Whole chains agree**, so every law of C15 (message, tags, source, stack) holds for the
generated types as well. -/
theorem ext_chain_eq_base_chain (d : ExtDef) (x : X) (cs : List Call) :
    (runX d x cs).base = run x.base cs := by
  induction cs generalizing x with
  | nil => rfl
  | cons c cs ih =>
    show (runX d (extMethod d (tmplRow c.m) x c) cs).base = run (step x.base c) cs
    rw [ih, ext_eq_base, baseRow_eq_wiring]; rfl

/-! ## clone fields -/

theorem mem_sortFields (fs : List FieldDef) (f : FieldDef) : f ∈ sortFields fs ↔ f ∈ fs := by
  exact (sortFields_perm fs).mem_iff

theorem mem_fieldsToClone (d : ExtDef) (f : FieldDef) : f ∈ fieldsToClone d ↔ f ∈ d ∧ f.clone = true := by
  unfold fieldsToClone; rw [mem_sortFields]; simp

theorem mem_fieldsToPrint (d : ExtDef) (f : FieldDef) : f ∈ fieldsToPrint d ↔ f ∈ d ∧ f.print = true := by
  unfold fieldsToPrint; rw [mem_sortFields]; simp

/-- field names of one struct are distinct -/
def WellFormed (d : ExtDef) : Prop := (d.map (·.name)).Nodup

instance (d : ExtDef) : Decidable (WellFormed d) := by unfold WellFormed; infer_instance

theorem val_map (d : ExtDef) (hd : WellFormed d) (g : FieldDef → Str) (f : FieldDef) (hf : f ∈ d) :
    (X.mk e (d.map (fun f => (f.name, g f)))).val f.name = g f := by
  unfold X.val
  simp only
  induction d with
  | nil => cases hf
  | cons a as ih =>
    unfold WellFormed at hd
    simp only [List.map_cons, List.nodup_cons] at hd
    by_cases h : a = f
    · subst h; simp
    · have hf' : f ∈ as := by
        cases hf with
        | head => exact absurd rfl h
        | tail _ h' => exact h'
      have hne : a.name ≠ f.name := by
        intro heq; apply hd.1; rw [heq]; exact List.mem_map_of_mem hf'
      simp only [List.map_cons, List.find?_cons, hne, decide_false]
      exact ih hd.2 hf'

/-- **Fields tagged `clone` are copied from the factory into the result** … -/
theorem clone_fields_copied (d : ExtDef) (hd : WellFormed d) (m : Method) (x : X) (c : Call)
    (f : FieldDef) (hf : f ∈ d) (hc : f.clone = true) :
    (extMethod d (tmplRow m) x c).val f.name = x.val f.name := by
  unfold extMethod toPrimary
  rw [val_map d hd _ f hf]
  simp [mem_fieldsToClone, hf, hc]

/-- … **and every other field of the result has its zero value.** -/
theorem nonclone_fields_zero (d : ExtDef) (hd : WellFormed d) (m : Method) (x : X) (c : Call)
    (f : FieldDef) (hf : f ∈ d) (hc : f.clone = false) :
    (extMethod d (tmplRow m) x c).val f.name = f.zero := by
  unfold extMethod toPrimary
  rw [val_map d hd _ f hf]
  simp [mem_fieldsToClone, hc]

/-! ## field parsing (`createField`) -/

/-- **An anonymous (embedded) extra field is parsed exactly like a named one**: nothing in
`createField` depends on the field being embedded; it goes by the name of its type. -/
theorem createField_ignores_embedding (r : RawField) (b : Bool) :
    createField { r with embedded := b } = createField r := rfl

/-- print name: the tag's name, `_` standing for the field's own name (for an embedded field the
name of its type); flags: the options listed in the tag; no tag: neither printed nor cloned -/
theorem createField_spec (r : RawField) :
    (createField r).name = r.name ∧ (createField r).zero = r.zero ∧
    (∀ n, r.tagName = some n →
      (createField r).printAs = (if n = ['_'] then r.name else n) ∧
      ((createField r).print = true ↔ "print".toList ∈ r.opts) ∧
      ((createField r).clone = true ↔ "clone".toList ∈ r.opts)) ∧
    (r.tagName = none → (createField r).print = false ∧ (createField r).clone = false) := by
  unfold createField
  cases h : r.tagName with
  | none => simp
  | some n => simp

/-- a tagged field of the struct — embedded or not — with the `clone` option is copied from the
factory by every generated method, and with the `print` option is listed by `Error()` -/
theorem parsed_field_cloned_and_printed (rs : List RawField) (hd : WellFormed (parseFields rs))
    (r : RawField) (hr : r ∈ rs) (n : Str) (ht : r.tagName = some n) (m : Method) (x : X) (c : Call) :
    ("clone".toList ∈ r.opts →
      (extMethod (parseFields rs) (tmplRow m) x c).val r.name = x.val r.name) ∧
    ("print".toList ∈ r.opts → createField r ∈ fieldsToPrint (parseFields rs)) := by
  have hm : createField r ∈ parseFields rs := List.mem_map_of_mem hr
  obtain ⟨hn, _, ht', _⟩ := createField_spec r
  obtain ⟨_, hp, hc⟩ := ht' n ht
  constructor
  · intro ho
    have := clone_fields_copied (parseFields rs) hd m x c (createField r) hm (hc.mpr ho)
    rw [hn] at this; exact this
  · intro ho
    exact (mem_fieldsToPrint _ _).mpr ⟨hm, hp.mpr ho⟩

/-! ## `Error()` -/

/-- **`Error()` is the base rendering with the print fields inserted between source and message:**
each listed as `<print name>: <value>, `, … -/
theorem error_lists_print_fields (d : ExtDef) (x : X) :
    extError d x = errorHead x.base ++ (fieldsToPrint d).flatMap (printField x) ++ errorTail x.base ∧
    baseError x.base = errorHead x.base ++ errorTail x.base := ⟨rfl, rfl⟩

/-- the template writes the same sections as `(*GError).Error()`, in the same order, with the print
fields inserted directly before the message (regenerated from both sources) -/
theorem tmpl_error_parts_insert :
    GerrorTmpl.errorParts.map String.toList =
      (GerrorBase.errorParts.map String.toList).flatMap
        (fun p => if p = "message".toList then ["print-fields".toList, p] else [p]) := by
  decide

/-- **The extension rendering is the base rendering with the print fields inserted** between the
name/tag/source sections and the message; the stack text, when there is a stack, ends both. -/
theorem ext_error_is_base_with_print_fields (d : ExtDef) (x : X) (stackText : Str) :
    errorFull x.base stackText =
      errorHead x.base ++ (errorTail x.base ++ errorStackPart x.base stackText) ∧
    extErrorFull d x stackText =
      errorHead x.base ++ (fieldsToPrint d).flatMap (printField x) ++
        (errorTail x.base ++ errorStackPart x.base stackText) := by
  simp [errorFull, extErrorFull, extError, List.append_assoc]

/-- without print fields the two renderings coincide -/
theorem ext_error_eq_base_of_no_print_fields (d : ExtDef) (x : X) (stackText : Str)
    (h : ∀ f ∈ d, f.print = false) : extErrorFull d x stackText = errorFull x.base stackText := by
  have : fieldsToPrint d = [] := by
    apply List.eq_nil_iff_forall_not_mem.mpr
    intro f hf
    have := (mem_fieldsToPrint d f).mp hf
    rw [h f this.1] at this
    exact absurd this.2 (by decide)
  simp [errorFull, extErrorFull, extError, this]

/-- … **exactly the fields tagged `print`, each once, sorted by field name.** -/
theorem print_fields_exact (d : ExtDef) :
    (fieldsToPrint d).Perm (d.filter (·.print)) ∧
    (fieldsToPrint d).Pairwise (fun a b => strLe a.name b.name = true) := by
  exact ⟨sortFields_perm _, sortFields_sorted _⟩

/-! ## field types that render themselves; own fields named like `GError`'s

The model knows a field's value only as the text `%v` prints for it (`X.vals`; the harness asks fmt
for it, on values that never meet generated code), so a field type with its own `String`, `Error`
or `Format` method needs no case of its own: `Error()` must show exactly that text.  And an extra
field is identified by its NAME in `vals` only; the embedded `GError` is `X.base`.  A field the
struct declares under the name `Source`, `Name` or `Message` is therefore an ordinary extra field:
no section of the base rendering and no base field of a method's result may come from it. -/

/-- **`Error()` shows a print field exactly as `%v` renders it**: two objects with the same embedded
`GError` whose print fields have the same `%v` texts have the same `Error()` — whatever the types
of the fields are and whatever the other fields hold. -/
private theorem flatMap_congr_mem {α β : Type} (l : List α) (f g : α → List β) (h : ∀ a ∈ l, f a = g a) :
    l.flatMap f = l.flatMap g := by
  induction l with
  | nil => rfl
  | cons a as ih =>
    rw [List.flatMap_cons, List.flatMap_cons, h a (List.mem_cons_self ..),
      ih (fun b hb => h b (List.mem_cons_of_mem _ hb))]

theorem ext_error_parametric_in_fmt (d : ExtDef) (x y : X) (hb : x.base = y.base)
    (hv : ∀ f ∈ d, f.print = true → x.val f.name = y.val f.name) : extError d x = extError d y := by
  unfold extError
  rw [hb, flatMap_congr_mem (fieldsToPrint d) (printField x) (printField y)]
  intro f hf
  have := (mem_fieldsToPrint d f).mp hf
  unfold printField
  rw [hv f this.1 this.2]

/-- **The name / detail tag / source sections and the message section never read an extra field**,
also not one that is itself called `Source`, `Name` or `Message`: replacing all extra field values
leaves them as they are (only the print-field part in between can change). -/
theorem own_fields_do_not_reach_base_sections (d : ExtDef) (x : X) (vals' : List (Str × Str)) :
    extError d { x with vals := vals' } =
      errorHead x.base ++ (fieldsToPrint d).flatMap (printField { x with vals := vals' }) ++ errorTail x.base := rfl

/-- **… and neither does any generated method**: name, message, source, detail tag and stack of the
result are those of the plain-`GError` method on the embedded value, whatever the extra fields
(shadowing or not) hold. -/
theorem ext_base_ignores_own_fields (d : ExtDef) (m : Method) (x : X) (vals' : List (Str × Str)) (c : Call) :
    (extMethod d (tmplRow m) { x with vals := vals' } c).base = execRow (baseRow m) x.base c := by
  rw [ext_eq_base]

/-! ## The template at the pinned commit, and non-vacuity -/

/-- the `SrcS` stanza as it was: `CloneBase(e, DefaultStack, "", "", "", nil)` — `""` where `src` belongs -/
def legacyTmplSrcS : Row :=
  { sig := [.string], stack := .defaultStack, dtag := .empty, src := .empty, msg := .empty, err := .nil,
    shortCircuit := false }

/-- an embedded `Tenant` field renamed `tenant`, print+clone, as the parser sees it -/
def exRaw : RawField := ⟨"Tenant".toList, true, some "tenant".toList, ["print".toList, "clone".toList], "{ }".toList⟩

example : createField exRaw = ⟨"Tenant".toList, "tenant".toList, true, true, "{ }".toList⟩ ∧
    createField { exRaw with tagName := some ['_'] } = ⟨"Tenant".toList, "Tenant".toList, true, true, "{ }".toList⟩ := by decide

def exDef : ExtDef :=
  [⟨"Status".toList, "Status".toList, true, true, "0".toList⟩,
   ⟨"Hidden".toList, "Hidden".toList, false, false, [] ⟩,
   ⟨"Cust".toList, "customer".toList, true, false, [] ⟩]
def exX : X := ⟨⟨"ErrX".toList, "m".toList, [], [], []⟩,
  [("Status".toList, "3".toList), ("Hidden".toList, "secret".toList), ("Cust".toList, "hello".toList)]⟩
def exCall : Call := ⟨.srcS, ["given:src".toList], [], ⟨"x/pkg.Caller".toList, []⟩⟩

/-- with the old stanza the extension type loses the source argument: `SrcS("given:src")` on the
extension factory reports the derived source `pkg:Caller`, the base type reports `given:src`. -/
theorem legacy_tmpl_srcS_violates :
    legacyTmplSrcS ≠ baseRow .srcS ∧
    (extMethod exDef legacyTmplSrcS exX exCall).base.src = "pkg:Caller".toList ∧
    (execRow (baseRow .srcS) exX.base exCall).src = "given:src".toList := by
  decide

/-- non-vacuity: a well-formed definition with print/clone/renamed/untagged fields; the current
stanza keeps the source, copies the clone field, zeroes the others, and prints the print fields
sorted by field name under their print names -/
example :
    WellFormed exDef ∧
    extMethod exDef (tmplRow .srcS) exX exCall =
      ⟨⟨"ErrX".toList, "m".toList, "given:src".toList, [], ["x/pkg.Caller".toList]⟩,
       [("Status".toList, "3".toList), ("Hidden".toList, []), ("Cust".toList, [])]⟩ ∧
    extError exDef exX = "Name: ErrX, customer: hello, Status: 3, Message: m".toList := by
  decide

/-- own fields called `Source` (print, clone) and `Message` (print): the base sections keep showing
the embedded `GError`'s source and message, the own fields appear among the print fields -/
def exShadow : ExtDef :=
  [⟨"Source".toList, "Source".toList, true, true, [] ⟩, ⟨"Message".toList, "Message".toList, true, false, [] ⟩]
def exShadowX : X := ⟨⟨"ErrX".toList, "base message".toList, "S".toList, [], []⟩,
  [("Source".toList, "own src".toList), ("Message".toList, "own".toList)]⟩

example :
    WellFormed exShadow ∧
    extError exShadow exShadowX =
      "Name: ErrX, Source: S, Message: own, Source: own src, Message: base message".toList ∧
    extMethod exShadow (tmplRow .msg) exShadowX ⟨.msg, ["ext".toList], "ext".toList, ⟨"x/pkg.Caller".toList, []⟩⟩ =
      ⟨⟨"ErrX".toList, "base message ext".toList, "S".toList, [], []⟩,
       [("Source".toList, "own src".toList), ("Message".toList, [])]⟩ := by
  decide

end GErrClone

package main

import (
	"fmt"
	"sort"
	"strconv"
	"strings"
)

// A case is fully described by its header line (`case gg <generator> key=value ...`), so that a
// replay file (which stores only request lines) can rebuild the definition file and the options.

// ---------------------------------------------------------------- layouts shared by the three generators
//
// split=K (2..4): the declarations a generator looks up in the PACKAGE scope (gsort / gerror: the
// struct types named by -types; genum: the enum types and the local trait types) are spread over K
// files of the package instead of all sitting in the definition file handed to the generator.
// The other files are named so that some sort before and some after the definition file, and the
// types are dealt to the files in REVERSE name order: the order of the files on disk, the order in
// which go/packages happens to parse them and the order of the type names all differ.
//
// out=<name>: the output file is named by the caller (-out / -out-file) and does not end in the
// generator's default suffix.

// splitFiles: the K file names, sorted, for a definition file called defName.
func splitFiles(k int, defName string) []string {
	names := []string{defName}
	switch {
	case k >= 4:
		names = append(names, "a_types.go", "m_types.go", "z_types.go")
	case k == 3:
		names = append(names, "a_types.go", "z_types.go")
	case k == 2:
		names = append(names, "z_types.go")
	}
	sort.Strings(names)
	return names
}

// fileOfType: the file that declares the ti-th type (of nTypes) under split=k.
func fileOfType(k, ti int, defName string) string {
	if k < 2 {
		return defName
	}
	fs := splitFiles(k, defName)
	return fs[len(fs)-1-ti%len(fs)]
}

func parseSplitOut(m map[string]string) (split int, out string, err error) {
	if v := m["split"]; v != "" {
		split, err = strconv.Atoi(v)
		if err != nil || split < 2 || split > 4 {
			return 0, "", fmt.Errorf("bad split")
		}
	}
	out = m["out"]
	if out != "" && (!strings.HasSuffix(out, ".go") || strings.ContainsAny(out, "/\\ ")) {
		return 0, "", fmt.Errorf("bad out")
	}
	return split, out, nil
}

func splitOutWords(split int, out string) string {
	h := ""
	if split >= 2 {
		h += fmt.Sprintf(" split=%d", split)
	}
	if out != "" {
		h += " out=" + out
	}
	return h
}

// ---------------------------------------------------------------- genum

// traitKind describes one column of trait constants.
type traitKind struct {
	model string             // kind sent to the Lean model (`untyped_float`, `string`, `named`)
	lit   func(i int) string // constant expression of the trait for the i-th enum value
	decl  string             // supporting declarations (local named types), emitted once
	imp   string             // import the definition file needs
	uniq  bool               // values pairwise distinct (can be declared parsable)
	self  bool               // implements its own Unmarshal{JSON,YAML,Text}
	float bool
}

var traitKinds = map[string]traitKind{
	"ustr":  {model: "untyped_string", lit: func(i int) string { return strconv.Quote(fmt.Sprintf("s%d", i)) }, uniq: true},
	"uint":  {model: "untyped_int", lit: func(i int) string { return strconv.Itoa(10 + i) }, uniq: true},
	"uflt":  {model: "untyped_float", lit: func(i int) string { return fmt.Sprintf("%d.5", i) }, uniq: true, float: true},
	"urune": {model: "untyped_rune", lit: func(i int) string { return "'" + string(rune('a'+i%26)) + "'" }, uniq: true},
	"ubool": {model: "untyped_bool", lit: func(i int) string { return strconv.FormatBool(i%2 == 0) }},
	"str":   {model: "string", lit: func(i int) string { return fmt.Sprintf("string(%q)", fmt.Sprintf("t%d", i)) }, uniq: true},
	"i64":   {model: "int64", lit: func(i int) string { return fmt.Sprintf("int64(%d)", 100+i) }, uniq: true},
	"u8":    {model: "uint8", lit: func(i int) string { return fmt.Sprintf("uint8(%d)", 200+i%50) }, uniq: true},
	"f32":   {model: "float32", lit: func(i int) string { return fmt.Sprintf("float32(%d.25)", i) }, uniq: true, float: true},
	"f64":   {model: "float64", lit: func(i int) string { return fmt.Sprintf("float64(%d.75)", i) }, uniq: true, float: true},
	"dur":   {model: "named", lit: func(i int) string { return fmt.Sprintf("time.Duration(%d) * time.Second", i+1) }, imp: "time", uniq: true},
	"month": {model: "named", lit: func(i int) string { return fmt.Sprintf("time.Month(%d)", i%12+1) }, imp: "time", uniq: true},
	"fmode": {model: "named", lit: func(i int) string { return fmt.Sprintf("os.FileMode(%d)", 0o600+i) }, imp: "os", uniq: true},
	// bare later-row literals: the first row fixes the trait's type, the rows after it are written
	// as bare integer literals (which the generated Parse switch copies verbatim)
	"ibare": {model: "untyped_int", lit: func(i int) string { return strconv.Itoa(i + 1) }, uniq: true},
	"fbare": {model: "float64", lit: func(i int) string {
		if i == 0 {
			return "float64(0.5)"
		}
		return strconv.Itoa(i)
	}, uniq: true, float: true},
	"nbare": {model: "named", lit: func(i int) string {
		if i == 0 {
			return "Level(50)"
		}
		return strconv.Itoa(i + 2)
	}, decl: "type Level int\n", uniq: true},
	// like fbare on the SAME members (out of domain: two parsable traits spelling one literal on one member)
	"nsame": {model: "named", lit: func(i int) string {
		if i == 0 {
			return "Level(50)"
		}
		return strconv.Itoa(i)
	}, decl: "type Level int\n", uniq: true},
	"label": {model: "named", lit: func(i int) string { return fmt.Sprintf("Label(%q)", fmt.Sprintf("l%d", i)) }, decl: "type Label string\n", uniq: true},
	"level": {model: "named", lit: func(i int) string { return fmt.Sprintf("Level(%d)", 50+i) }, decl: "type Level int\n", uniq: true},
	"code": {model: "named", lit: func(i int) string { return fmt.Sprintf("Code(%q)", fmt.Sprintf("c%d", i)) }, uniq: true, self: true, imp: "encoding/json",
		decl: "type Code string\n\nfunc (c *Code) UnmarshalText(b []byte) error { *c = Code(b); return nil }\n\n" +
			"func (c *Code) UnmarshalJSON(b []byte) error {\n\tvar s string\n\tif err := json.Unmarshal(b, &s); err != nil {\n\t\treturn err\n\t}\n\t*c = Code(s)\n\treturn nil\n}\n"},
	"mark": {model: "named", lit: func(i int) string { return fmt.Sprintf("Mark(%q)", fmt.Sprintf("m%d", i)) }, uniq: true, self: true, imp: "encoding/json",
		decl: "type Mark string\n\nfunc (c *Mark) UnmarshalText(b []byte) error { *c = Mark(b); return nil }\n\n" +
			"func (c *Mark) UnmarshalJSON(b []byte) error {\n\tvar s string\n\tif err := json.Unmarshal(b, &s); err != nil {\n\t\treturn err\n\t}\n\t*c = Mark(s)\n\treturn nil\n}\n"},
}

// same-spelled trait types for the one-process sessions of C14: `Pa` / `Pb` declared in different
// packages once WITHOUT and once WITH their own unmarshalers.
func init() {
	for _, n := range []string{"a", "b"} {
		tn := "P" + n
		lit := func(i int) string { return fmt.Sprintf("%s(%q)", tn, fmt.Sprintf("p%d", i)) }
		traitKinds["p"+n+"0"] = traitKind{model: "named", lit: lit, uniq: true, decl: "type " + tn + " string\n"}
		traitKinds["p"+n+"1"] = traitKind{model: "named", lit: lit, uniq: true, self: true, imp: "encoding/json",
			decl: "type " + tn + " string\n\nfunc (c *" + tn + ") UnmarshalText(b []byte) error { *c = " + tn + "(b); return nil }\n\n" +
				"func (c *" + tn + ") UnmarshalJSON(b []byte) error {\n\tvar s string\n\tif err := json.Unmarshal(b, &s); err != nil {\n\t\treturn err\n\t}\n\t*c = " + tn + "(s)\n\treturn nil\n}\n"}
	}
}

var traitKindNames []string

// after every init() of the package (lookalike.go adds kinds)
func traitKindNamesInit() []string {
	r := []string{}
	for k := range traitKinds {
		if k == "alpriv" {
			continue // out of domain
		}
		if strings.HasPrefix(k, "prev") {
			continue // typed by an enum that an EARLIER generation of the same session wrote: multi cases only
		}
		if len(k) == 3 && k[0] == 'p' && (k[2] == '0' || k[2] == '1') {
			continue // session kinds are not drawn at random
		}
		if strings.HasSuffix(k, "bare") || k == "nsame" {
			continue // bare-literal kinds collide with each other by construction; used in fixed cases only
		}
		r = append(r, k)
	}
	sort.Strings(r)
	return r
}

type traitCol struct {
	kind     string
	parsable bool
}

type genumCase struct {
	opts   [5]bool // json yaml text caseInsensitive disableTraits
	n      int     // number of enum values
	under  string  // underlying type of the enum
	traits []traitCol
	shape  string // plain | dup (deprecated duplicate of the last value, no trait columns) | duptraits | two (two enum types) | dup2 | alias
	file   string // stem of the definition file name ("" = defs)
	only1  bool   // shape two: the run under test asks for the first type only
	prev   string // "" | allon | moretypes: a previous run with a LONGER output precedes the run under test in the same package; same: the identical run
	bad    string // out-of-domain malformation ("" = in domain)
	split  int    // 2: the enum types and the local trait types are declared in another file than the constants
	out    string // custom output file name
	// helpers: the definition file also holds hand-written functions that USE the generated API
	// (IsValid, String, Parse<Type>): in a package without the generated file these calls do not
	// type-check - the state of every first generation
	helpers bool
}

func tf(b bool) string {
	if b {
		return "t"
	}
	return "f"
}

func optWords(o [5]bool) string {
	w := make([]string, 5)
	for i, b := range o {
		w[i] = tf(b)
	}
	return strings.Join(w, " ")
}

func (c *genumCase) header() string {
	o := ""
	for _, b := range c.opts {
		o += tf(b)
	}
	tr := make([]string, len(c.traits))
	for i, t := range c.traits {
		tr[i] = t.kind
		if t.parsable {
			tr[i] += "+p"
		}
	}
	h := fmt.Sprintf("case gg genum o=%s n=%d under=%s traits=%s shape=%s", o, c.n, c.under, strings.Join(tr, ","), c.shape)
	if c.file != "" {
		h += " file=" + c.file
	}
	if c.only1 {
		h += " only1=t"
	}
	if c.prev != "" {
		h += " prev=" + c.prev
	}
	if c.bad != "" {
		h += " bad=" + c.bad
	}
	if c.helpers {
		h += " helpers=t"
	}
	return h + splitOutWords(c.split, c.out)
}

func kv(ws []string) map[string]string {
	m := map[string]string{}
	for _, w := range ws {
		if i := strings.Index(w, "="); i > 0 {
			m[w[:i]] = w[i+1:]
		}
	}
	return m
}

func parseGenum(ws []string) (*genumCase, error) {
	m := kv(ws)
	c := &genumCase{under: m["under"], shape: m["shape"], bad: m["bad"], only1: m["only1"] == "t", prev: m["prev"], file: m["file"], helpers: m["helpers"] == "t"}
	var err0 error
	if c.split, c.out, err0 = parseSplitOut(m); err0 != nil {
		return nil, err0
	}
	if len(m["o"]) != 5 {
		return nil, fmt.Errorf("bad options")
	}
	for i, ch := range m["o"] {
		c.opts[i] = ch == 't'
	}
	n, err := strconv.Atoi(m["n"])
	if err != nil || n < 1 || n > 64 {
		return nil, fmt.Errorf("bad n")
	}
	c.n = n
	if m["traits"] != "" {
		for _, t := range strings.Split(m["traits"], ",") {
			col := traitCol{kind: strings.TrimSuffix(t, "+p"), parsable: strings.HasSuffix(t, "+p")}
			if _, ok := traitKinds[col.kind]; !ok {
				return nil, fmt.Errorf("unknown trait kind %s", col.kind)
			}
			c.traits = append(c.traits, col)
		}
	}
	switch c.under {
	case "int", "uint8", "int32", "int64", "uint16":
	default:
		return nil, fmt.Errorf("bad underlying type")
	}
	switch c.shape {
	case "plain", "dup", "duptraits", "two", "dup2", "alias", "collide":
	default:
		return nil, fmt.Errorf("bad shape")
	}
	return c, nil
}

func traitName(j int) string { return fmt.Sprintf("Tr%d", j) }

func (c *genumCase) allTypeNames() []string {
	if c.shape == "two" {
		return []string{"Alpha", "Beta"}
	}
	return []string{"Alpha"}
}

// typeNames: the types the run under test is asked for.
func (c *genumCase) typeNames() []string {
	if c.only1 {
		return c.allTypeNames()[:1]
	}
	return c.allTypeNames()
}

// traitNames: what the generator should see when traits are inspected.
func (c *genumCase) traitNames() []string {
	r := make([]string, len(c.traits))
	for j := range c.traits {
		r[j] = traitName(j)
	}
	return r
}

func (c *genumCase) parsable() []string {
	var r []string
	for j, t := range c.traits {
		if t.parsable {
			r = append(r, traitName(j))
		}
	}
	return r
}

// source renders the definition file (all of it, or its share under split).
func (c *genumCase) source(pkg string) string { return c.files(pkg, "defs.go")["defs.go"] }

// files renders every hand-written file of the package: the definition file (the constants) and,
// under split, the file that declares the enum types and the local trait types.
func (c *genumCase) files(pkg, defName string) map[string]string {
	var b, tb strings.Builder
	split := c.split >= 2
	fmt.Fprintf(&b, "package %s\n\n", pkg)
	fmt.Fprintf(&tb, "package %s\n\n", pkg)
	imps := map[string]bool{}  // imports of the file holding the constants
	timps := map[string]bool{} // imports of the file holding the type declarations
	decls := map[string]bool{}
	for _, t := range c.traits {
		k := traitKinds[t.kind]
		if k.decl != "" {
			decls[k.decl] = true
		}
		if k.imp != "" {
			// a kind with a declaration of its own needs its import there, the others in their constants
			if k.decl != "" && split {
				timps[k.imp] = true
			} else {
				imps[k.imp] = true
			}
		}
	}
	writeImps := func(w *strings.Builder, set map[string]bool) {
		if len(set) == 0 {
			return
		}
		names := []string{}
		for i := range set {
			names = append(names, i)
		}
		sort.Strings(names)
		for _, i := range names {
			fmt.Fprintf(w, "import %q\n", i)
		}
		w.WriteString("\n")
	}
	writeImps(&b, imps)
	writeImps(&tb, timps)
	dl := []string{}
	for d := range decls {
		dl = append(dl, d)
	}
	sort.Strings(dl)
	for _, d := range dl {
		if split {
			tb.WriteString(d + "\n")
		} else {
			b.WriteString(d + "\n")
		}
	}
	for ti, tn := range c.allTypeNames() {
		if split {
			fmt.Fprintf(&tb, "type %s %s\n\n", tn, c.under)
			b.WriteString("const (\n")
		} else {
			fmt.Fprintf(&b, "type %s %s\n\nconst (\n", tn, c.under)
		}
		pre := []string{"A", "B"}[ti]
		for i := 0; i < c.n; i++ {
			names := []string{fmt.Sprintf("%sV%d", pre, i)}
			vals := []string{fmt.Sprintf("%s(%d)", tn, i)}
			if ti == 0 { // the second type of shape `two` has no traits
				for j, t := range c.traits {
					switch {
					case i == 0 && c.bad == "noname" && j == 0:
						names = append(names, "_")
					case i == 0 && j%2 == 0:
						names = append(names, "_"+traitName(j))
					case i == 0:
						names = append(names, traitName(j))
					default:
						names = append(names, "_")
					}
					vi := i
					if c.bad == "nonunique" && i == c.n-1 && i > 0 {
						vi = 0
					}
					vals = append(vals, traitKinds[t.kind].lit(vi))
				}
			}
			fmt.Fprintf(&b, "\t%s = %s\n", strings.Join(names, ", "), strings.Join(vals, ", "))
		}
		if (c.shape == "dup" || c.shape == "duptraits") && ti == 0 {
			names := []string{"AOld"}
			vals := []string{fmt.Sprintf("%s(%d)", tn, c.n-1)}
			if c.shape == "duptraits" {
				for _, t := range c.traits {
					names = append(names, "_")
					vals = append(vals, traitKinds[t.kind].lit(c.n-1))
				}
			}
			fmt.Fprintf(&b, "\t// Deprecated: use the other name.\n\t%s = %s\n", strings.Join(names, ", "), strings.Join(vals, ", "))
		}
		if c.shape == "collide" && ti == 0 {
			// a further value whose name differs from AV1 only by case
			names := []string{"Av1"}
			vals := []string{fmt.Sprintf("%s(%d)", tn, c.n)}
			for _, t := range c.traits {
				names = append(names, "_")
				vals = append(vals, traitKinds[t.kind].lit(c.n))
			}
			fmt.Fprintf(&b, "\t%s = %s\n", strings.Join(names, ", "), strings.Join(vals, ", "))
		}
		if c.shape == "alias" && ti == 0 {
			// plain aliases without a trait row of their own: `AAlias<i>` sorts before `AV<i>` and so
			// becomes the primary name of its value, `AZed<i>` sorts after it; the last value keeps
			// a single name
			for k := 1; k < c.n-1; k++ {
				if k%3 == 0 {
					fmt.Fprintf(&b, "\tAZed%d = AV%d\n", k, k)
				} else {
					fmt.Fprintf(&b, "\tAAlias%d = AV%d\n", k, k)
				}
			}
		}
		if c.shape == "dup2" && ti == 0 {
			// two groups of duplicated values, none deprecated (the generator has to pick primaries)
			for k := 0; k < 2 && k < c.n; k++ {
				names := []string{fmt.Sprintf("AAlt%d", k)}
				vals := []string{fmt.Sprintf("%s(%d)", tn, k)}
				for _, t := range c.traits {
					names = append(names, "_")
					vals = append(vals, traitKinds[t.kind].lit(k))
				}
				fmt.Fprintf(&b, "\t%s = %s\n", strings.Join(names, ", "), strings.Join(vals, ", "))
			}
		}
		b.WriteString(")\n\n")
	}
	if c.helpers {
		for _, tn := range c.typeNames() {
			fmt.Fprintf(&b, "func (e %[1]s) describe() string {\n\tif !e.IsValid() {\n\t\treturn \"?\"\n\t}\n\treturn e.String()\n}\n\n"+
				"func must%[1]s(s string) %[1]s {\n\tv, err := Parse%[1]s(s)\n\tif err != nil {\n\t\tpanic(err)\n\t}\n\treturn v\n}\n\n"+
				"var _, _ = %[1]s.describe, must%[1]s\n\n", tn)
		}
	}
	res := map[string]string{defName: b.String()}
	if split {
		res[fileOfType(2, 0, defName)] = tb.String()
	}
	return res
}

// modelKinds: the trait kinds as the Lean model names them.
func (c *genumCase) modelKinds() []string {
	r := make([]string, len(c.traits))
	for j, t := range c.traits {
		r[j] = traitKinds[t.kind].model
	}
	return r
}

// asserted: the interfaces the property demands, read off the options (the harness's own
// reading of the property text; compared with the Lean spec `genumIfaces`).
func (c *genumCase) asserted() []string {
	r := []string{"genum.Enum", "genum.TypedEnum"}
	if c.opts[0] {
		r = append(r, "json.Marshaler", "*json.Unmarshaler")
	}
	if c.opts[2] {
		r = append(r, "encoding.TextMarshaler", "*encoding.TextUnmarshaler")
	}
	if c.opts[1] {
		r = append(r, "yaml.Marshaler", "*yaml.Unmarshaler")
	}
	sort.Strings(r)
	return r
}

func (c *genumCase) assertSource(pkg string) string {
	var b strings.Builder
	fmt.Fprintf(&b, "package %s\n\nimport (\n", pkg)
	if c.opts[0] {
		b.WriteString("\t\"encoding/json\"\n")
	}
	if c.opts[2] {
		b.WriteString("\t\"encoding\"\n")
	}
	if c.opts[1] {
		b.WriteString("\t\"gopkg.in/yaml.v3\"\n")
	}
	b.WriteString("\t\"github.com/drshriveer/gtools/genum\"\n)\n\n")
	for _, tn := range c.typeNames() {
		fmt.Fprintf(&b, "var _ genum.Enum = %s(0)\nvar _ genum.TypedEnum[%s] = %s(0)\n", tn, tn, tn)
		if c.opts[0] {
			fmt.Fprintf(&b, "var _ json.Marshaler = %s(0)\nvar _ json.Unmarshaler = (*%s)(nil)\n", tn, tn)
		}
		if c.opts[2] {
			fmt.Fprintf(&b, "var _ encoding.TextMarshaler = %s(0)\nvar _ encoding.TextUnmarshaler = (*%s)(nil)\n", tn, tn)
		}
		if c.opts[1] {
			fmt.Fprintf(&b, "var _ yaml.Marshaler = %s(0)\nvar _ yaml.Unmarshaler = (*%s)(nil)\n", tn, tn)
		}
	}
	if !c.opts[4] {
		for j := range c.traits {
			fmt.Fprintf(&b, "var _ = Alpha(0).%s()\n", traitName(j))
		}
	}
	return b.String()
}

// ---------------------------------------------------------------- gerror

type gerrField struct {
	name, typ, tag string // tag: "" (untagged) | "pc" | "p" | "c" | "n:<printAs>:pc"
}

var gerrTypes = map[string]struct{ goType, imp, decl string }{
	"int":    {goType: "int"},
	"string": {goType: "string"},
	"bool":   {goType: "bool"},
	"f64":    {goType: "float64"},
	"dur":    {goType: "time.Duration", imp: "time"},
	"status": {goType: "Status", decl: "type Status int\n"},
	"ptr":    {goType: "*int"},
	"slice":  {goType: "[]string"},
}

type gerrorCase struct {
	skip   bool
	custom bool // with skip: the definition file has hand-written Convert/ConvertS
	two    bool // two error types in one file
	file   string
	only1  bool   // with two: the run under test asks for the first type only
	prev   string // "" | noskip | moretypes: previous, longer output in the same package; same: the identical run
	fields []gerrField
	bad    string
	split  int    // 2 (with two): the two error types are declared in different files
	out    string // custom output file name
	// helpers: hand-written functions next to the struct that call the generated methods
	helpers bool
}

func (c *gerrorCase) header() string {
	fs := make([]string, len(c.fields))
	for i, f := range c.fields {
		fs[i] = f.name + ":" + f.typ + ":" + f.tag
	}
	h := fmt.Sprintf("case gg gerror skip=%s custom=%s two=%s fields=%s", tf(c.skip), tf(c.custom), tf(c.two), strings.Join(fs, ","))
	if c.file != "" {
		h += " file=" + c.file
	}
	if c.only1 {
		h += " only1=t"
	}
	if c.prev != "" {
		h += " prev=" + c.prev
	}
	if c.bad != "" {
		h += " bad=" + c.bad
	}
	if c.helpers {
		h += " helpers=t"
	}
	return h + splitOutWords(c.split, c.out)
}

func parseGerror(ws []string) (*gerrorCase, error) {
	m := kv(ws)
	c := &gerrorCase{skip: m["skip"] == "t", custom: m["custom"] == "t", two: m["two"] == "t", bad: m["bad"], only1: m["only1"] == "t", prev: m["prev"], file: m["file"], helpers: m["helpers"] == "t"}
	var err0 error
	if c.split, c.out, err0 = parseSplitOut(m); err0 != nil {
		return nil, err0
	}
	if m["fields"] != "" {
		for _, f := range strings.Split(m["fields"], ",") {
			p := strings.SplitN(f, ":", 3)
			if len(p) != 3 {
				return nil, fmt.Errorf("bad field")
			}
			if _, ok := gerrTypes[p[1]]; !ok {
				return nil, fmt.Errorf("bad field type")
			}
			c.fields = append(c.fields, gerrField{p[0], p[1], p[2]})
		}
	}
	return c, nil
}

func (c *gerrorCase) allTypeNames() []string {
	if c.two {
		return []string{"AlphaError", "BetaError"}
	}
	return []string{"AlphaError"}
}

func (c *gerrorCase) typeNames() []string {
	if c.only1 {
		return c.allTypeNames()[:1]
	}
	return c.allTypeNames()
}

func (c *gerrorCase) source(pkg string) string { return c.files(pkg, "defs.go")["defs.go"] }

// files renders every hand-written file of the package (one, or one per error type under split).
func (c *gerrorCase) files(pkg, defName string) map[string]string {
	if c.split < 2 {
		all := make([]int, len(c.allTypeNames()))
		for i := range all {
			all[i] = i
		}
		return map[string]string{defName: c.render(pkg, all, true)}
	}
	byFile := map[string][]int{defName: nil}
	for ti := range c.allTypeNames() {
		f := fileOfType(c.split, ti, defName)
		byFile[f] = append(byFile[f], ti)
	}
	res := map[string]string{}
	for f, idx := range byFile {
		res[f] = c.render(pkg, idx, f == defName)
	}
	return res
}

// render: one file declaring the given types (and, if asked, the shared local declarations).
func (c *gerrorCase) render(pkg string, idx []int, withDecls bool) string {
	var b strings.Builder
	if len(idx) == 0 {
		fmt.Fprintf(&b, "package %s\n\n", pkg)
		if withDecls {
			seen := map[string]bool{}
			for _, f := range c.fields {
				if d := gerrTypes[f.typ].decl; d != "" && !seen[d] {
					seen[d] = true
					b.WriteString(d + "\n")
				}
			}
		}
		return b.String()
	}
	here := map[int]bool{}
	for _, i := range idx {
		here[i] = true
	}
	fmt.Fprintf(&b, "package %s\n\nimport (\n", pkg)
	imps := map[string]bool{}
	decls := map[string]bool{}
	for _, f := range c.fields {
		t := gerrTypes[f.typ]
		if t.imp != "" {
			imps[t.imp] = true
		}
		if t.decl != "" {
			decls[t.decl] = true
		}
	}
	if c.skip && c.custom {
		imps["fmt"] = true
	}
	il := []string{}
	for i := range imps {
		il = append(il, i)
	}
	sort.Strings(il)
	for _, i := range il {
		fmt.Fprintf(&b, "\t%q\n", i)
	}
	b.WriteString("\n\t\"github.com/drshriveer/gtools/gerror\"\n)\n\n")
	dl := []string{}
	for d := range decls {
		dl = append(dl, d)
	}
	sort.Strings(dl)
	for _, d := range dl {
		if withDecls {
			b.WriteString(d + "\n")
		}
	}
	for ti, tn := range c.allTypeNames() {
		if !here[ti] {
			continue
		}
		target := ti < len(c.typeNames())
		fmt.Fprintf(&b, "type %s struct {\n", tn)
		if c.bad != "noembed" {
			b.WriteString("\tgerror.GError\n")
		}
		for _, f := range c.fields {
			tag := ""
			opts := func(s string) string {
				o := []string{}
				if strings.Contains(s, "p") {
					o = append(o, "print")
				}
				if strings.Contains(s, "c") {
					o = append(o, "clone")
				}
				if c.bad == "badopt" {
					o = append(o, "shout")
				}
				return strings.Join(o, ",")
			}
			switch {
			case f.tag == "":
			case strings.HasPrefix(f.tag, "n:"):
				p := strings.SplitN(f.tag, ":", 3)
				tag = fmt.Sprintf(" `gerror:\"%s,%s\"`", p[1], opts(p[2]))
			default:
				tag = fmt.Sprintf(" `gerror:\"_,%s\"`", opts(f.tag))
			}
			fmt.Fprintf(&b, "\t%s %s%s\n", f.name, gerrTypes[f.typ].goType, tag)
		}
		b.WriteString("}\n\n")
		if c.bad == "" && target {
			fmt.Fprintf(&b, "var Err%s = gerror.FactoryOf(&%s{GError: gerror.GError{Name: %q, Message: \"m\"}})\n\n", tn, tn, "Err"+tn)
		}
		if c.helpers && c.bad == "" && target {
			// toPrimaryType exists in the generated file only
			fmt.Fprintf(&b, "func primary%[1]s(e *%[1]s) gerror.Error { return e.toPrimaryType(&e.GError) }\n\n"+
				"func describe%[1]s(e *%[1]s) string { return e.Error() + e.Msg(\"x\").Error() }\n\n"+
				"var _, _ = primary%[1]s, describe%[1]s\n\n", tn)
		}
		if c.skip && c.custom && target {
			fmt.Fprintf(&b, `func (e *%[1]s) Convert(err error) gerror.Error {
	if gerr, ok := err.(gerror.Error); ok {
		return gerr
	}
	clone := gerror.CloneBase(e, gerror.SourceStack, "", "", fmt.Sprintf("originalError: %%+v", err), err)
	return e.toPrimaryType(clone)
}

func (e *%[1]s) ConvertS(err error) gerror.Error {
	if gerr, ok := err.(gerror.Error); ok {
		return gerr
	}
	clone := gerror.CloneBase(e, gerror.DefaultStack, "", "", fmt.Sprintf("originalError: %%+v", err), err)
	return e.toPrimaryType(clone)
}

`, tn)
		}
	}
	return b.String()
}

func (c *gerrorCase) assertSource(pkg string) string {
	var b strings.Builder
	fmt.Fprintf(&b, "package %s\n\nimport \"github.com/drshriveer/gtools/gerror\"\n\n", pkg)
	for _, tn := range c.typeNames() {
		fmt.Fprintf(&b, "var _ gerror.Error = (*%s)(nil)\nvar _ gerror.Factory = (*%s)(nil)\n", tn, tn)
	}
	return b.String()
}

// ---------------------------------------------------------------- gsort

type gsortField struct {
	name, typ string
	tags      []string // raw gsort tag values, e.g. "ByA,1" or "*ByAP,2,String()"
}

var gsortTypes = map[string]struct{ goType, imp, decl string }{
	"int":    {goType: "int"},
	"string": {goType: "string"},
	"bool":   {goType: "bool"},
	"f64":    {goType: "float64"},
	"u8":     {goType: "uint8"},
	"dur":    {goType: "time.Duration", imp: "time"},
	"rank":   {goType: "Rank", decl: "type Rank int\n\nfunc (r Rank) String() string { return [...]string{\"a\", \"b\", \"c\"}[r%3] }\n"},
}

// orderedBasics: the basic kinds Go orders with `<`.
var orderedBasics = []string{"int", "int8", "int16", "int32", "int64", "uint", "uint8", "uint16", "uint32", "uint64", "float32", "float64", "string"}

type gsortTypeInfo struct{ goType, imp, decl string }

// gsortType: the fixed vocabulary plus `n<basic>`: a local named type over that basic kind
// (incl. `nbool`) with three accessors of different result types: String() string, Rank() int,
// IsSet() bool.
func gsortType(t string) (gsortTypeInfo, bool) {
	if x, ok := gsortTypes[t]; ok {
		return gsortTypeInfo{x.goType, x.imp, x.decl}, true
	}
	if strings.HasPrefix(t, "n") {
		b := t[1:]
		ok := b == "bool"
		for _, o := range orderedBasics {
			ok = ok || o == b
		}
		if ok {
			n := "N" + b
			return gsortTypeInfo{goType: n, decl: fmt.Sprintf("type %[1]s %[2]s\n\nfunc (v %[1]s) String() string { return \"%[1]s\" }\nfunc (v %[1]s) Rank() int       { return 0 }\nfunc (v %[1]s) IsSet() bool     { var z %[1]s; return v != z }\n", n, b)}, true
		}
	}
	return gsortTypeInfo{}, false
}

type gsortCase struct {
	fields []gsortField
	two    bool
	nt     int // 3 or 4: that many struct types (Rec, Rec2, Rec3, Rec4) with the same fields
	file   string
	only1  bool
	prev   string // "" | moretypes | same
	bad    string
	split  int    // 2..4: the struct types are declared in that many files
	out    string // custom output file name
	// helpers: hand-written functions next to the structs that sort through the generated sorter types
	helpers bool
}

func (c *gsortCase) nTypes() int {
	switch {
	case c.nt > 2:
		return c.nt
	case c.two:
		return 2
	}
	return 1
}

// sorterSuffix: the sorters of the ti-th struct carry a suffix so that sorter names stay distinct.
func sorterSuffix(ti int) string {
	if ti == 0 {
		return ""
	}
	return strconv.Itoa(ti + 1)
}

func (c *gsortCase) header() string {
	fs := make([]string, len(c.fields))
	for i, f := range c.fields {
		fs[i] = f.name + ":" + f.typ + ":" + strings.Join(f.tags, "+")
	}
	h := fmt.Sprintf("case gg gsort two=%s fields=%s", tf(c.two), strings.Join(fs, ";"))
	if c.file != "" {
		h += " file=" + c.file
	}
	if c.only1 {
		h += " only1=t"
	}
	if c.prev != "" {
		h += " prev=" + c.prev
	}
	if c.bad != "" {
		h += " bad=" + c.bad
	}
	if c.nt > 2 {
		h += fmt.Sprintf(" nt=%d", c.nt)
	}
	if c.helpers {
		h += " helpers=t"
	}
	return h + splitOutWords(c.split, c.out)
}

func parseGsort(ws []string) (*gsortCase, error) {
	m := kv(ws)
	c := &gsortCase{two: m["two"] == "t", bad: m["bad"], only1: m["only1"] == "t", prev: m["prev"], file: m["file"], helpers: m["helpers"] == "t"}
	var err0 error
	if c.split, c.out, err0 = parseSplitOut(m); err0 != nil {
		return nil, err0
	}
	if v := m["nt"]; v != "" {
		n, err := strconv.Atoi(v)
		if err != nil || n < 3 || n > 4 {
			return nil, fmt.Errorf("bad nt")
		}
		c.nt = n
	}
	if c.split > c.nTypes() {
		return nil, fmt.Errorf("more files than types")
	}
	if m["fields"] != "" {
		for _, f := range strings.Split(m["fields"], ";") {
			p := strings.SplitN(f, ":", 3)
			if len(p) != 3 {
				return nil, fmt.Errorf("bad field")
			}
			if _, ok := gsortType(p[1]); !ok {
				return nil, fmt.Errorf("bad field type")
			}
			g := gsortField{name: p[0], typ: p[1]}
			if p[2] != "" {
				g.tags = strings.Split(p[2], "+")
			}
			c.fields = append(c.fields, g)
		}
	}
	return c, nil
}

func (c *gsortCase) allTypeNames() []string {
	return []string{"Rec", "Rec2", "Rec3", "Rec4"}[:c.nTypes()]
}

func (c *gsortCase) typeNames() []string {
	if c.only1 {
		return c.allTypeNames()[:1]
	}
	return c.allTypeNames()
}

// sorters: sorter type name -> element is pointer; for type index ti (the second struct gets a
// suffix so that sorter names stay distinct).
func (c *gsortCase) sorters() map[string]bool {
	r := map[string]bool{}
	for ti := range c.typeNames() {
		for _, f := range c.fields {
			for _, t := range f.tags {
				n := strings.Split(t, ",")[0]
				ptr := strings.HasPrefix(n, "*")
				n = strings.TrimPrefix(n, "*")
				n += sorterSuffix(ti)
				r[n] = ptr
			}
		}
	}
	return r
}

func (c *gsortCase) source(pkg string) string { return c.files(pkg, "defs.go")["defs.go"] }

// files renders every hand-written file of the package (one, or the struct types dealt to
// `split` files).
func (c *gsortCase) files(pkg, defName string) map[string]string {
	byFile := map[string][]int{defName: nil}
	for ti := range c.allTypeNames() {
		f := fileOfType(c.split, ti, defName)
		byFile[f] = append(byFile[f], ti)
	}
	res := map[string]string{}
	for f, idx := range byFile {
		res[f] = c.render(pkg, idx, f == defName)
	}
	return res
}

// render: one file declaring the given struct types (and, if asked, the local key types).
func (c *gsortCase) render(pkg string, idx []int, withDecls bool) string {
	var b strings.Builder
	fmt.Fprintf(&b, "package %s\n\n", pkg)
	here := map[int]bool{}
	for _, i := range idx {
		here[i] = true
	}
	imps := map[string]bool{}
	decls := map[string]bool{}
	for _, f := range c.fields {
		t, _ := gsortType(f.typ)
		if t.imp != "" {
			imps[t.imp] = true
		}
		if t.decl != "" {
			decls[t.decl] = true
		}
	}
	il := []string{}
	for i := range imps {
		il = append(il, i)
	}
	sort.Strings(il)
	if c.helpers && withDecls && !imps["sort"] && len(c.sorters()) > 0 {
		il = append(il, "sort")
		sort.Strings(il)
	}
	for _, i := range il {
		if len(idx) > 0 || i == "sort" {
			fmt.Fprintf(&b, "import %q\n\n", i)
		}
	}
	dl := []string{}
	for d := range decls {
		dl = append(dl, d)
	}
	sort.Strings(dl)
	for _, d := range dl {
		if withDecls {
			b.WriteString(d + "\n")
		}
	}
	if c.helpers && withDecls {
		// hand-written callers of the generated sorter types (of the types the run is asked for)
		for ti, tn := range c.typeNames() {
			seen := map[string]bool{}
			for _, f := range c.fields {
				for _, t := range f.tags {
					n := strings.Split(t, ",")[0]
					elem := tn
					if strings.HasPrefix(n, "*") {
						n, elem = n[1:], "*"+tn
					}
					n += sorterSuffix(ti)
					if seen[n] {
						continue
					}
					seen[n] = true
					fmt.Fprintf(&b, "func sort%[1]s(xs []%[2]s) { sort.Sort(%[1]s(xs)) }\n\nvar _ = sort%[1]s\n\n", n, elem)
				}
			}
		}
	}
	for ti, tn := range c.allTypeNames() {
		if !here[ti] {
			continue
		}
		fmt.Fprintf(&b, "type %s struct {\n", tn)
		for _, f := range c.fields {
			tag := ""
			if len(f.tags) > 0 {
				parts := []string{}
				for _, t := range f.tags {
					if ti >= 1 {
						p := strings.Split(t, ",")
						p[0] += sorterSuffix(ti)
						t = strings.Join(p, ",")
					}
					parts = append(parts, `gsort:"`+t+`"`)
				}
				tag = " `" + strings.Join(parts, " ") + "`"
			}
			gt, _ := gsortType(f.typ)
			fmt.Fprintf(&b, "\t%s %s%s\n", f.name, gt.goType, tag)
		}
		b.WriteString("}\n\n")
	}
	return b.String()
}

func (c *gsortCase) assertSource(pkg string) string {
	var b strings.Builder
	fmt.Fprintf(&b, "package %s\n\nimport \"sort\"\n\n", pkg)
	names := []string{}
	for n := range c.sorters() {
		names = append(names, n)
	}
	sort.Strings(names)
	for _, n := range names {
		fmt.Fprintf(&b, "var _ sort.Interface = %s(nil)\n", n)
	}
	if len(names) == 0 {
		b.WriteString("var _ sort.Interface\n")
	}
	return b.String()
}

package main

import (
	"math/rand"
	"strconv"
	"strings"

	"verif/harness/internal/hx"
)

var plainKeys = []string{"a", "b", "k1", "port", "x_y", "Default", "defaults", "D9z", "name", "0", "true", "list"}
var strVals = []string{"", "v", "D1a", "default", "hello world", "x.y", "3", "true", "null", "a: b"}

type genDim struct {
	flag  string
	names []string
	sel   int
}

type gen03 struct {
	rng  *rand.Rand
	dims []genDim
	// out-of-domain features injected into this document
	ood []string
}

func caseVariant(rng *rand.Rand, s string) string {
	switch rng.Intn(5) {
	case 0:
		return strings.ToLower(s)
	case 1:
		return strings.ToUpper(s)
	default:
		return s
	}
}

func (g *gen03) scalar() *node {
	switch g.rng.Intn(7) {
	case 0:
		return &node{kind: "null"}
	case 1, 2:
		return &node{kind: "int", n: g.rng.Intn(2000) - 1000}
	case 3:
		return &node{kind: "bool", b: g.rng.Intn(2) == 0}
	default:
		return &node{kind: "str", s: strVals[g.rng.Intn(len(strVals))]}
	}
}

func (g *gen03) value(depth int, allowOOD bool) *node { return g.valueF(depth, allowOOD, "") }

// valueF: forbid = flag name of the dimension whose switch we are directly under (a switch of the
// same dimension directly below is outside the quantifier).
func (g *gen03) valueF(depth int, allowOOD bool, forbid string) *node {
	if depth <= 0 {
		return g.scalar()
	}
	switch x := g.rng.Intn(12); {
	case x < 4:
		return g.scalar()
	case x < 6:
		l := &node{kind: "list"}
		k := g.rng.Intn(4)
		for i := 0; i < k; i++ {
			l.xs = append(l.xs, g.value(depth-1, allowOOD))
		}
		return l
	case x < 9:
		return g.plainMap(depth, allowOOD)
	default:
		return g.switchMapF(depth, allowOOD, forbid)
	}
}

func (g *gen03) plainMap(depth int, allowOOD bool) *node {
	m := &node{kind: "map"}
	k := g.rng.Intn(4)
	perm := g.rng.Perm(len(plainKeys))
	for i := 0; i < k; i++ {
		m.keys = append(m.keys, plainKeys[perm[i]])
		m.vals = append(m.vals, g.value(depth-1, allowOOD))
	}
	if allowOOD && g.rng.Intn(6) == 0 && len(g.dims) > 0 {
		// mixed map: a dimension value next to plain keys
		d := g.dims[g.rng.Intn(len(g.dims))]
		m.keys = append(m.keys, d.names[g.rng.Intn(len(d.names))])
		m.vals = append(m.vals, g.value(depth-1, allowOOD))
		g.ood = append(g.ood, "mixed-map")
	}
	return m
}

func (g *gen03) switchMap(depth int, allowOOD bool) *node { return g.switchMapF(depth, allowOOD, "") }

func (g *gen03) switchMapF(depth int, allowOOD bool, forbid string) *node {
	var cands []genDim
	for _, d := range g.dims {
		if d.flag != forbid {
			cands = append(cands, d)
		}
	}
	if len(cands) == 0 {
		return g.plainMap(depth, allowOOD)
	}
	d := cands[g.rng.Intn(len(cands))]
	if allowOOD && forbid != "" && g.rng.Intn(4) == 0 {
		for _, x := range g.dims {
			if x.flag == forbid {
				d = x
				g.ood = append(g.ood, "same-dim-directly-nested")
			}
		}
	}
	m := &node{kind: "map"}
	perm := g.rng.Perm(len(d.names))
	k := 1 + g.rng.Intn(len(d.names))
	withDefault := g.rng.Intn(2) == 0
	defaultAt := -1
	if withDefault {
		defaultAt = g.rng.Intn(k + 1)
	}
	for i := 0; i <= k; i++ {
		if i == defaultAt {
			m.keys = append(m.keys, "default")
			m.vals = append(m.vals, g.valueF(depth-1, allowOOD, d.flag))
		}
		if i < k {
			m.keys = append(m.keys, caseVariant(g.rng, d.names[perm[i]]))
			m.vals = append(m.vals, g.valueF(depth-1, allowOOD, d.flag))
		}
	}
	if allowOOD {
		switch g.rng.Intn(10) {
		case 0:
			// two keys parsing to the same value
			m.keys = append(m.keys, strings.ToLower(d.names[perm[0]])+"")
			if m.keys[len(m.keys)-1] == m.keys[0] || (defaultAt == 0 && len(m.keys) > 1 && m.keys[len(m.keys)-1] == m.keys[1]) {
				m.keys[len(m.keys)-1] = strings.ToUpper(d.names[perm[0]])
			}
			m.vals = append(m.vals, g.valueF(depth-1, allowOOD, d.flag))
			g.ood = append(g.ood, "same-value-twice")
		case 1:
			// only a default key
			m.keys, m.vals = []string{"default"}, []*node{g.valueF(depth-1, allowOOD, d.flag)}
			g.ood = append(g.ood, "only-default")
		}
	}
	return m
}

func dedupKeys(n *node) {
	// two spellings of one key text may collide after case variation: keep the first
	switch n.kind {
	case "list":
		for _, x := range n.xs {
			dedupKeys(x)
		}
	case "map":
		seen := map[string]bool{}
		var ks []string
		var vs []*node
		for i, k := range n.keys {
			if seen[k] {
				continue
			}
			seen[k] = true
			ks = append(ks, k)
			vs = append(vs, n.vals[i])
		}
		n.keys, n.vals = ks, vs
		for _, v := range n.vals {
			dedupKeys(v)
		}
	}
}

// ---- a plain Go resolver used ONLY to enumerate probe paths (it decides nothing) ----

func parseDim(d genDim, k string) int {
	for i, n := range d.names {
		if n == k {
			return i
		}
	}
	for i, n := range d.names {
		if strings.EqualFold(n, k) {
			return i
		}
	}
	return -1
}

func (g *gen03) resolveForPaths(n *node) *node {
	switch n.kind {
	case "list":
		l := &node{kind: "list"}
		for _, x := range n.xs {
			r := g.resolveForPaths(x)
			if r == nil {
				return nil
			}
			l.xs = append(l.xs, r)
		}
		return l
	case "map":
		for _, d := range g.dims {
			nd, all, hasDef := 0, true, false
			for _, k := range n.keys {
				if k == "default" {
					hasDef = true
					continue
				}
				nd++
				if parseDim(d, k) < 0 {
					all = false
				}
			}
			if nd > 0 && all {
				for i, k := range n.keys {
					if k != "default" && parseDim(d, k) == d.sel {
						return g.resolveForPaths(n.vals[i])
					}
				}
				if hasDef {
					for i, k := range n.keys {
						if k == "default" {
							return g.resolveForPaths(n.vals[i])
						}
					}
				}
				return nil
			}
		}
		m := &node{kind: "map"}
		for i, k := range n.keys {
			r := g.resolveForPaths(n.vals[i])
			if r == nil {
				return nil
			}
			m.keys = append(m.keys, k)
			m.vals = append(m.vals, r)
		}
		return m
	}
	return n
}

type probe struct {
	path string
	null bool
	kind string
}

func collectPaths(n *node, prefix string, out *[]probe) {
	if n.kind != "map" {
		return
	}
	for i, k := range n.keys {
		if strings.Contains(k, ".") || k == "" {
			continue
		}
		p := k
		if prefix != "" {
			p = prefix + "." + k
		}
		*out = append(*out, probe{path: p, null: n.vals[i].kind == "null", kind: n.vals[i].kind})
		collectPaths(n.vals[i], p, out)
	}
}

func rawPaths(n *node, prefix string, depth int, out *[]string) {
	if n.kind != "map" || depth > 3 {
		return
	}
	for i, k := range n.keys {
		if strings.Contains(k, ".") || k == "" {
			continue
		}
		p := k
		if prefix != "" {
			p = prefix + "." + k
		}
		*out = append(*out, p)
		rawPaths(n.vals[i], p, depth+1, out)
	}
}

var allDims = []genDim{
	{"dOne", []string{"D1a", "D1b", "D1c", "D1d"}, 0},
	{"dTwo", []string{"D2a", "D2b", "D2c", "D2d", "D2e"}, 0},
	{"dThree", []string{"D3a", "D3b", "D3c"}, 0},
}

// genCase03 builds one case: register 1-3 dimensions in a random order with a selection made
// through the builder default or the environment (three spellings), load a document, compare
// Get at every path of the expected tree (and at raw document paths) with model and spec.
func genCase03(rng *rand.Rand, domain bool, assign []int) hx.Case {
	g := &gen03{rng: rng}
	lines := []string{"case gc"}
	nd := 1 + rng.Intn(3)
	perm := rng.Perm(3)
	tags := []string{"dims" + strconv.Itoa(nd)}
	for i := 0; i < nd; i++ {
		d := allDims[perm[i]]
		d.sel = rng.Intn(len(d.names))
		if assign != nil {
			d.sel = assign[perm[i]] % len(d.names)
		}
		df, spelling, val := d.sel, "none", "-"
		if rng.Intn(2) == 0 {
			// through the environment; the builder default is something else
			df = rng.Intn(len(d.names))
			spelling = []string{"exact", "upper", "lower"}[rng.Intn(3)]
			val = caseVariant(rng, d.names[d.sel])
		}
		tags = append(tags, "sel-"+spelling)
		g.dims = append(g.dims, d)
		lines = append(lines, "gc dim "+d.flag+" "+strconv.Itoa(df)+" "+spelling+" "+val+" "+strings.Join(d.names, " "))
	}
	for i := range g.dims {
		lines = append(lines, "gc getdim "+strconv.Itoa(i))
	}
	depth := 1 + rng.Intn(6)
	var root *node
	if rng.Intn(8) == 0 {
		root = g.switchMap(depth, !domain)
		// make the branches maps so that the reduced root is a map
		for i := range root.vals {
			if root.vals[i].kind != "map" {
				root.vals[i] = g.plainMap(depth-1, !domain)
			}
		}
		tags = append(tags, "root-switch")
	} else {
		root = g.plainMap(depth, !domain)
		for len(root.keys) == 0 && rng.Intn(4) != 0 {
			root = g.plainMap(depth, !domain)
		}
	}
	dedupKeys(root)
	var toks []string
	root.tokens(&toks)
	lines = append(lines, "gc load "+strings.Join(toks, " "))
	res := g.resolveForPaths(root)
	nontrivial := false
	if res != nil {
		var ps []probe
		collectPaths(res, "", &ps)
		for _, p := range ps {
			if p.null {
				lines = append(lines, "gc getnull "+p.path)
			} else {
				lines = append(lines, "gc get "+p.path, "gc spec "+p.path)
				if rng.Intn(3) == 0 {
					lines = append(lines, "gc gettyped "+p.kind+" "+p.path)
				}
			}
		}
		nontrivial = len(ps) > 0
		tags = append(tags, "loads")
	} else {
		tags = append(tags, "missing-branch")
		nontrivial = true
	}
	var raws []string
	rawPaths(root, "", 0, &raws)
	for i, p := range raws {
		if i%3 == 0 {
			lines = append(lines, "gc get "+p)
		}
	}
	lines = append(lines, "gc get nosuchkey", "gc get a.nosuch.deeper")
	key := ""
	if !domain && len(g.ood) > 0 {
		tags = append(tags, g.ood...)
	}
	return hx.Case{Domain: domain && len(g.ood) == 0, Nontrivial: nontrivial, Lines: lines, Tags: tags, Key: key}
}

func runC03(f *hx.Flags) {
	r := hx.NewRunner(f, "h-gconfig", &gcImpl{}, "documents built from the quantifier's grammar (scalars, nulls, lists, plain maps incl. empty, dimension switches with/without default in random letter case, depth <= 6, root plain or switch), 1-3 of three genum dimensions registered in random order and selected through the builder default or the environment variable in its exact/upper/lower spelling; FromBytes on the real builder, then Get[any] at EVERY path of the expected resolved tree and at raw document paths, typed Get at null leaves, GetDimension; compared with Model/GConfig.reduceAny+extract and with the specification resolve+lookupPath. out-of-domain stream: mixed maps, only-default maps, two keys of one value. non-trivial: document loads with at least one path, or a selected branch is missing; distinct by request lines")
	r.KeyOf = func(d *hx.Disagreement) string {
		ws := strings.Fields(d.Request)
		k := "C03:" + ws[1]
		if ws[1] == "load" {
			k += ":" + d.Impl + "-vs-" + d.Model
		}
		return k
	}
	r.ShrinkReject = func(req, impl, model string) bool { return strings.Contains(model, "!wf") }
	nonWF := 0
	r.Compare = func(req, impl, model string) bool {
		// the driver marks documents outside the quantifier's grammar; the mark is not part of the answer
		if strings.HasSuffix(model, " !wf") {
			nonWF++
			model = strings.TrimSuffix(model, " !wf")
		}
		return impl == model
	}

	if r.HandleReplay() {
		return
	}
	r.RunCorpus()
	n := r.N(4000)
	if f.Tier == "thorough" {
		n = r.N(50000)
	}
	for i := 0; i < n; i++ {
		r.Add(genCase03(r.Rng, r.Rng.Intn(10) != 0, nil))
	}
	if f.Tier == "thorough" {
		// every assignment of the three dimensions (4 x 5 x 3) over a set of documents
		for a := 0; a < 4; a++ {
			for b := 0; b < 5; b++ {
				for c := 0; c < 3; c++ {
					for k := 0; k < 40; k++ {
						r.Add(genCase03(r.Rng, true, []int{a, b, c}))
					}
				}
			}
		}
	}
	r.Flush()
	r.Res.Extra["documents_marked_not_wellformed_by_lean"] = nonWF
	r.Finish()
}

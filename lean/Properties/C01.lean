import Model.GSync
/-! # C01 (work in progress: invariant proof follows) -/
namespace GSync

/-- The algorithm at the pinned commit violates C01: two goroutines, 13 steps.  `A: Inc; Dec`,
`B: Wait; Add(1); Add(2); Wait`.  A's Dec is preempted after its counter update; B's second
Wait obtains the open channel while the count is 3; A resumes, swaps in the sentinel and closes
B's channel although the count never returned to zero since that Wait started. -/
theorem legacy_violates_C01 :
    let s := run false (init false [[.add 1, .add (-1)], [.wait, .add 1, .add 2, .wait]])
      [0, 0, 0, 1, 1, 1, 1, 1, 1, 1, 1, 0, 0]
    ∃ t ∈ s.threads, ∃ r ∈ t.recs, isClosed s.sh r.ch = true ∧ zeroSeen s.sh r = false ∧
      0 < s.sh.count := by
  decide

end GSync

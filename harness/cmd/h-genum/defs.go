package main

import (
	"encoding/hex"
	"fmt"
	"hash/fnv"
	"math/big"
	"regexp"
	"strconv"
	"strings"
)

// A Def is one enum definition FILE (1-4 enum types, constants spread over const blocks) plus
// the generator options. It is exactly the `gn opt|type|const|block|skip|other` request lines
// of a case, so that a case can be replayed and shrunk line by line.
type Def struct {
	Opts     string // letters: c = -caseInsensitive, J/Y/T = -json/-yaml/-text=false; "-" = none
	Parsable []string
	Types    []TypeD
	Items    []Item
}

type TypeD struct {
	Name string
	Kind string // i8 i16 i32 i64 int u8 u16 u32 u64 uint
	Cols []Col
}

// Col is a trait column: trait name, type token, family token of the Lean model.
// Type tokens: string (untyped string constant), Str<n> (local `type Str<n> string`), int (untyped
// int), Sm<n> (local int8), int8, int16, time.Duration (through a renamed import), uint8, uint16, uint64,
// Un<n> (local uint16), bool, rune (untyped rune constant; dynamic type int32, family s32).
type Col struct {
	Name string
	Ty   string
	Fam  string
}

var localTyRe = regexp.MustCompile(`^(Str|Sm|Un)[0-9]+[a-z]?$`)

func famOfTy(ty string) string {
	switch {
	case ty == "string":
		return "ustr"
	case strings.HasPrefix(ty, "Str"):
		return "nstr"
	case ty == "int", ty == "time.Duration":
		return "s64"
	case strings.HasPrefix(ty, "Sm"), ty == "int8":
		return "s8"
	case ty == "int16":
		return "s16"
	case ty == "rune":
		// untyped rune constant: the MODEL classifies it (extractUnderlying in Model/Genum.lean:
		// int64 family, width 32, since fix-C12-rune-trait)
		return "k:untypedRune"
	case ty == "uint8":
		return "u8"
	case ty == "uint64":
		return "u64"
	case strings.HasPrefix(ty, "Un"), ty == "uint16":
		return "u16"
	}
	return "none"
}

// goTypeOf: how the type token is written in Go source.
func goTypeOf(ty string) string {
	switch ty {
	case "time.Duration":
		return "stupidTime.Duration"
	}
	return ty
}

// traitExpr renders one trait constant (scalar s:<hex> | i:<int> | b:t|f) of column type ty.
func traitExpr(ty, sc string) (string, bool) {
	k, p, ok := strings.Cut(sc, ":")
	if !ok {
		return "", false
	}
	switch k {
	case "s":
		raw, err := hex.DecodeString(p)
		if err != nil {
			return "", false
		}
		q := strconv.Quote(string(raw))
		if ty == "string" {
			return q, true
		}
		if strings.HasPrefix(ty, "Str") {
			return ty + "(" + q + ")", true
		}
	case "i":
		if _, ok := new(big.Int).SetString(p, 10); !ok {
			return "", false
		}
		switch {
		case ty == "int":
			return p, true
		case ty == "rune":
			n, _ := strconv.Atoi(p)
			if n >= 0x21 && n <= 0x7e && n != '\'' && n != '\\' {
				return "'" + string(rune(n)) + "'", true
			}
			return "", false
		case ty == "bool" || ty == "string" || strings.HasPrefix(ty, "Str"):
			return "", false
		default:
			return goTypeOf(ty) + "(" + p + ")", true
		}
	case "b":
		if ty == "bool" && (p == "t" || p == "f") {
			return map[string]string{"t": "true", "f": "false"}[p], true
		}
	}
	return "", false
}

type Item struct {
	What string // const | block | skip | other
	T    string
	Name string
	Val  *big.Int
	Dep  bool
	// Form steers how the line is WRITTEN: x explicit literal, i `T = iota±k`, c `= T(iota±k)`,
	// r implicit repetition of the previous spec (falls back to i when that would not give Val).
	// A line with trait constants is always written `Name, … = T(expr), …`; a trailing `n` in the
	// form gives its trait constants names of their own instead of `_`.
	Form  string
	TVals []string
}

var kinds = []string{"i8", "i16", "i32", "i64", "int", "u8", "u16", "u32", "u64", "uint"}

func kindInfo(k string) (bits int, signed bool, goType string, ok bool) {
	switch k {
	case "i8":
		return 8, true, "int8", true
	case "i16":
		return 16, true, "int16", true
	case "i32":
		return 32, true, "int32", true
	case "i64":
		return 64, true, "int64", true
	case "int":
		return 64, true, "int", true
	case "u8":
		return 8, false, "uint8", true
	case "u16":
		return 16, false, "uint16", true
	case "u32":
		return 32, false, "uint32", true
	case "u64":
		return 64, false, "uint64", true
	case "uint":
		return 64, false, "uint", true
	}
	return 0, false, "", false
}

func kindRange(k string) (lo, hi *big.Int) {
	bits, signed, _, _ := kindInfo(k)
	one := big.NewInt(1)
	if signed {
		hi = new(big.Int).Lsh(one, uint(bits-1))
		lo = new(big.Int).Neg(hi)
		hi = new(big.Int).Sub(hi, one)
		return
	}
	return big.NewInt(0), new(big.Int).Sub(new(big.Int).Lsh(one, uint(bits)), one)
}

func (d *Def) kindOf(t string) string {
	for _, td := range d.Types {
		if td.Name == t {
			return td.Kind
		}
	}
	return ""
}

// Lines renders the definition as request lines (without the final `gn gen`).
func (d *Def) Lines() []string {
	ls := []string{"gn opt " + d.Opts}
	if len(d.Parsable) > 0 {
		ls = append(ls, "gn parsable "+strings.Join(d.Parsable, " "))
	}
	for _, t := range d.Types {
		ls = append(ls, "gn type "+t.Name+" "+t.Kind)
		for _, c := range t.Cols {
			ls = append(ls, "gn col "+t.Name+" "+c.Name+" "+c.Ty+" "+c.Fam)
		}
	}
	for _, it := range d.Items {
		switch it.What {
		case "const":
			dep := "-"
			if it.Dep {
				dep = "d"
			}
			l := fmt.Sprintf("gn const %s %s %s %s %s", it.T, it.Name, it.Val.String(), dep, it.Form)
			if len(it.TVals) > 0 {
				l += " " + strings.Join(it.TVals, " ")
			}
			ls = append(ls, l)
		case "block":
			ls = append(ls, "gn block")
		case "skip":
			ls = append(ls, "gn skip")
		case "other":
			ls = append(ls, "gn other "+it.Name)
		}
	}
	return ls
}

func (d *Def) Key() string { return strings.Join(d.Lines(), "\n") }

func isIdent(s string) bool {
	if s == "" {
		return false
	}
	for i, c := range s {
		switch {
		case c >= 'a' && c <= 'z', c >= 'A' && c <= 'Z', c == '_':
		case c >= '0' && c <= '9' && i > 0:
		default:
			return false
		}
	}
	return true
}

// addLine folds one `gn …` definition line into d; false = not a definition line / malformed.
func (d *Def) addLine(ws []string) bool {
	if len(ws) < 2 || ws[0] != "gn" {
		return false
	}
	switch {
	case ws[1] == "opt" && len(ws) == 3:
		d.Opts = ws[2]
	case ws[1] == "parsable":
		d.Parsable = append([]string{}, ws[2:]...)
	case ws[1] == "col" && len(ws) == 6:
		if !isIdent(ws[3]) {
			return false
		}
		found := false
		for i := range d.Types {
			if d.Types[i].Name == ws[2] {
				d.Types[i].Cols = append(d.Types[i].Cols, Col{ws[3], ws[4], ws[5]})
				found = true
			}
		}
		if !found {
			return false
		}
	case ws[1] == "type" && len(ws) == 4:
		if _, _, _, ok := kindInfo(ws[3]); !ok || !isIdent(ws[2]) {
			return false
		}
		d.Types = append(d.Types, TypeD{Name: ws[2], Kind: ws[3]})
	case ws[1] == "const" && len(ws) >= 7:
		v, ok := new(big.Int).SetString(ws[4], 10)
		if !ok || !isIdent(ws[2]) || !isIdent(ws[3]) || (ws[5] != "d" && ws[5] != "-") {
			return false
		}
		d.Items = append(d.Items, Item{What: "const", T: ws[2], Name: ws[3], Val: v, Dep: ws[5] == "d", Form: ws[6], TVals: append([]string{}, ws[7:]...)})
	case ws[1] == "block" && len(ws) == 2:
		d.Items = append(d.Items, Item{What: "block"})
	case ws[1] == "skip" && len(ws) == 2:
		d.Items = append(d.Items, Item{What: "skip"})
	case ws[1] == "other" && len(ws) == 3:
		if !isIdent(ws[2]) {
			return false
		}
		d.Items = append(d.Items, Item{What: "other", Name: ws[2]})
	default:
		return false
	}
	return true
}

// consts of one type, source order
func (d *Def) constsOf(t string) []Item {
	var r []Item
	for _, it := range d.Items {
		if it.What == "const" && it.T == t {
			r = append(r, it)
		}
	}
	return r
}

// names declared by the definition (types, constants, unrelated constants)
func (d *Def) declared() []string {
	var r []string
	for _, t := range d.Types {
		r = append(r, t.Name)
	}
	for _, it := range d.Items {
		if it.What == "const" || it.What == "other" {
			r = append(r, it.Name)
		}
	}
	for _, t := range d.Types {
		for _, c := range t.Cols {
			r = append(r, c.Name, "_"+c.Name)
			if localTyRe.MatchString(c.Ty) {
				r = append(r, "type:"+c.Ty)
			}
		}
	}
	return r
}

func (d *Def) typeD(t string) *TypeD {
	for i := range d.Types {
		if d.Types[i].Name == t {
			return &d.Types[i]
		}
	}
	return nil
}

// firstConst: the constant whose line defines the trait names (lowest value, first name).
func (d *Def) firstConst(t string) (Item, bool) {
	cs := d.constsOf(t)
	if len(cs) == 0 {
		return Item{}, false
	}
	best := cs[0]
	for _, it := range cs[1:] {
		if c := it.Val.Cmp(best.Val); c < 0 || (c == 0 && it.Name < best.Name) {
			best = it
		}
	}
	return best, true
}

// traitConstName: the name of the constant that DECLARES trait column c (on the first line).
func traitConstName(c Col) string {
	if hashOf(c.Name)%3 == 0 {
		return c.Name // exported trait constant
	}
	return "_" + c.Name
}

func (d *Def) typeNames() []string {
	r := make([]string, len(d.Types))
	for i, t := range d.Types {
		r[i] = t.Name
	}
	return r
}

func hashOf(s string) uint32 {
	h := fnv.New32a()
	h.Write([]byte(s))
	return h.Sum32()
}

func iotaExpr(k *big.Int) string {
	switch k.Sign() {
	case 0:
		return "iota"
	case 1:
		return "iota + " + k.String()
	}
	return "iota - " + new(big.Int).Neg(k).String()
}

// chain describes the expression an implicit repetition would repeat.
type chain struct {
	ok     bool
	t      string   // declared type ("" = untyped)
	isIota bool     // value = iota + k
	k      *big.Int // offset, or the literal when !isIota
}

func (c chain) valueAt(i int) *big.Int {
	if c.isIota {
		return new(big.Int).Add(big.NewInt(int64(i)), c.k)
	}
	return c.k
}

// Source renders the definition file. It is a pure function of the definition lines.
func (d *Def) Source(pkg string) string {
	var b strings.Builder
	b.WriteString("package " + pkg + "\n\n")
	needTime := false
	declared := map[string]bool{}
	var helper []string
	for _, t := range d.Types {
		for _, c := range t.Cols {
			if c.Ty == "time.Duration" {
				needTime = true
			}
			if localTyRe.MatchString(c.Ty) && !declared[c.Ty] {
				declared[c.Ty] = true
				under := "uint16"
				if strings.HasPrefix(c.Ty, "Str") {
					under = "string"
				} else if strings.HasPrefix(c.Ty, "Sm") {
					under = "int8"
				}
				helper = append(helper, fmt.Sprintf("// %s is a trait type.\ntype %s %s\n\n", c.Ty, c.Ty, under))
			}
		}
	}
	if needTime {
		b.WriteString("import stupidTime \"time\"\n\n")
	}
	for _, h := range helper {
		b.WriteString(h)
	}
	for _, t := range d.Types {
		_, _, gt, _ := kindInfo(t.Kind)
		fmt.Fprintf(&b, "// %s is a generated test enum.\ntype %s %s\n\n", t.Name, t.Name, gt)
	}
	// split into blocks
	var blocks [][]Item
	cur := []Item{}
	for _, it := range d.Items {
		if it.What == "block" {
			blocks = append(blocks, cur)
			cur = []Item{}
			continue
		}
		cur = append(cur, it)
	}
	blocks = append(blocks, cur)
	for _, blk := range blocks {
		if len(blk) == 0 {
			continue
		}
		b.WriteString("const (\n")
		ch := chain{}
		for i, it := range blk {
			switch it.What {
			case "skip":
				if ch.ok && d.inRange(ch.t, ch.valueAt(i)) {
					b.WriteString("\t_\n")
				} else {
					b.WriteString("\t_ = iota\n")
					ch = chain{ok: true, t: "", isIota: true, k: big.NewInt(0)}
				}
			case "other":
				fmt.Fprintf(&b, "\t%s = \"unrelated %s\"\n", it.Name, it.Name)
				ch = chain{}
			case "const":
				if it.Dep {
					switch hashOf(it.Name) % 3 {
					case 0:
						fmt.Fprintf(&b, "\t// Deprecated: use something else.\n")
					case 1:
						fmt.Fprintf(&b, "\t//Deprecated: no longer in use.\n")
					default:
						fmt.Fprintf(&b, "\t// %s is old.\n\t//\n\t// Deprecated: do not use.\n", it.Name)
					}
				} else if hashOf(it.Name)%5 == 0 {
					fmt.Fprintf(&b, "\t// %s is not deprecated: it is in use.\n", it.Name)
				}
				if len(it.TVals) > 0 {
					// a line with trait constants: Name, <trait names> = T(expr), <trait exprs>
					td := d.typeD(it.T)
					first, _ := d.firstConst(it.T)
					names := []string{it.Name}
					exprs := []string{}
					k := new(big.Int).Sub(it.Val, big.NewInt(int64(i)))
					if strings.HasPrefix(it.Form, "x") {
						exprs = append(exprs, fmt.Sprintf("%s(%s)", it.T, it.Val.String()))
					} else {
						exprs = append(exprs, fmt.Sprintf("%s(%s)", it.T, iotaExpr(k)))
					}
					for j, sc := range it.TVals {
						ty := "int"
						cname := fmt.Sprintf("Col%d", j)
						if td != nil && j < len(td.Cols) {
							ty, cname = td.Cols[j].Ty, traitConstName(td.Cols[j])
						}
						switch {
						case it.Name == first.Name:
							names = append(names, cname)
						case strings.HasSuffix(it.Form, "n"):
							names = append(names, fmt.Sprintf("T%s_%d", it.Name, j))
						default:
							names = append(names, "_")
						}
						e, ok := traitExpr(ty, sc)
						if !ok {
							e = "INVALID_TRAIT_SCALAR"
						}
						exprs = append(exprs, e)
					}
					fmt.Fprintf(&b, "\t%s = %s\n", strings.Join(names, ", "), strings.Join(exprs, ", "))
					ch = chain{}
					continue
				}
				form := it.Form
				if form == "r" {
					if ch.ok && ch.t == it.T && ch.valueAt(i).Cmp(it.Val) == 0 {
						fmt.Fprintf(&b, "\t%s\n", it.Name)
						continue
					}
					form = "i"
				}
				k := new(big.Int).Sub(it.Val, big.NewInt(int64(i)))
				switch form {
				case "i":
					fmt.Fprintf(&b, "\t%s %s = %s\n", it.Name, it.T, iotaExpr(k))
					ch = chain{ok: true, t: it.T, isIota: true, k: k}
				case "c":
					fmt.Fprintf(&b, "\t%s = %s(%s)\n", it.Name, it.T, iotaExpr(k))
					// the repeated expression T(iota±k) is typed T through the conversion
					ch = chain{ok: true, t: it.T, isIota: true, k: k}
				default: // x
					fmt.Fprintf(&b, "\t%s %s = %s\n", it.Name, it.T, it.Val.String())
					ch = chain{ok: true, t: it.T, isIota: false, k: it.Val}
				}
			}
		}
		b.WriteString(")\n\n")
	}
	return b.String()
}

// inRange: v fits type t ("" = untyped: always)
func (d *Def) inRange(t string, v *big.Int) bool {
	k := d.kindOf(t)
	if k == "" {
		return true
	}
	lo, hi := kindRange(k)
	return v.Cmp(lo) >= 0 && v.Cmp(hi) <= 0
}

// wellFormed: what the harness needs to be able to write and probe the file at all.
func (d *Def) wellFormed() bool {
	if len(d.Types) == 0 {
		return false
	}
	seen := map[string]bool{}
	for _, n := range d.declared() {
		if seen[n] {
			return false
		}
		seen[n] = true
	}
	for _, it := range d.Items {
		if it.What != "const" {
			continue
		}
		k := d.kindOf(it.T)
		if k == "" {
			return false
		}
		lo, hi := kindRange(k)
		if it.Val.Cmp(lo) < 0 || it.Val.Cmp(hi) > 0 {
			return false
		}
	}
	return true
}

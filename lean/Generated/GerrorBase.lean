import Model.GErrClone
/-! GENERATED on every run by harness/cmd/extract-gerror from gerror/gerror.go, factory.go and
stack.go of the checked tree — do not edit.  What `*GError`'s factory methods hand to `CloneBase`. -/
namespace Generated.GerrorBase
open GErrClone

/-- method names of the `Factory` interface (without `Error`, `Is`), in declaration order -/
def factoryMethods : List String := ["Base", "SourceOnly", "Stack", "Src", "DTag", "Msg", "SrcDTagMsg", "SrcDTag", "SrcMsg", "DTagMsg", "SrcS", "DTagS", "MsgS", "SrcDTagMsgS", "SrcDTagS", "SrcMsgS", "DTagMsgS", "Convert", "ConvertS"]

def rows : List (String × Row) := [
  ("Base", { sig := [], stack := .noStack, dtag := .empty, src := .empty, msg := .empty, err := .nil, shortCircuit := false }),
  ("SourceOnly", { sig := [], stack := .sourceStack, dtag := .empty, src := .empty, msg := .empty, err := .nil, shortCircuit := false }),
  ("Stack", { sig := [], stack := .defaultStack, dtag := .empty, src := .empty, msg := .empty, err := .nil, shortCircuit := false }),
  ("Src", { sig := [Ty.string], stack := .sourceStack, dtag := .empty, src := .param 0, msg := .empty, err := .nil, shortCircuit := false }),
  ("DTag", { sig := [Ty.string], stack := .sourceStack, dtag := .param 0, src := .empty, msg := .empty, err := .nil, shortCircuit := false }),
  ("Msg", { sig := [Ty.string, Ty.variadicAny], stack := .sourceStack, dtag := .empty, src := .empty, msg := .sprintf 0 1, err := .nil, shortCircuit := false }),
  ("SrcDTagMsg", { sig := [Ty.string, Ty.string, Ty.string, Ty.variadicAny], stack := .sourceStack, dtag := .param 1, src := .param 0, msg := .sprintf 2 3, err := .nil, shortCircuit := false }),
  ("SrcDTag", { sig := [Ty.string, Ty.string], stack := .sourceStack, dtag := .param 1, src := .param 0, msg := .empty, err := .nil, shortCircuit := false }),
  ("SrcMsg", { sig := [Ty.string, Ty.string, Ty.variadicAny], stack := .sourceStack, dtag := .empty, src := .param 0, msg := .sprintf 1 2, err := .nil, shortCircuit := false }),
  ("DTagMsg", { sig := [Ty.string, Ty.string, Ty.variadicAny], stack := .sourceStack, dtag := .param 0, src := .empty, msg := .sprintf 1 2, err := .nil, shortCircuit := false }),
  ("SrcS", { sig := [Ty.string], stack := .defaultStack, dtag := .empty, src := .param 0, msg := .empty, err := .nil, shortCircuit := false }),
  ("DTagS", { sig := [Ty.string], stack := .defaultStack, dtag := .param 0, src := .empty, msg := .empty, err := .nil, shortCircuit := false }),
  ("MsgS", { sig := [Ty.string, Ty.variadicAny], stack := .defaultStack, dtag := .empty, src := .empty, msg := .sprintf 0 1, err := .nil, shortCircuit := false }),
  ("SrcDTagMsgS", { sig := [Ty.string, Ty.string, Ty.string, Ty.variadicAny], stack := .defaultStack, dtag := .param 1, src := .param 0, msg := .sprintf 2 3, err := .nil, shortCircuit := false }),
  ("SrcDTagS", { sig := [Ty.string, Ty.string], stack := .defaultStack, dtag := .param 1, src := .param 0, msg := .empty, err := .nil, shortCircuit := false }),
  ("SrcMsgS", { sig := [Ty.string, Ty.string, Ty.variadicAny], stack := .defaultStack, dtag := .empty, src := .param 0, msg := .sprintf 1 2, err := .nil, shortCircuit := false }),
  ("DTagMsgS", { sig := [Ty.string, Ty.string, Ty.variadicAny], stack := .defaultStack, dtag := .param 0, src := .empty, msg := .sprintf 1 2, err := .nil, shortCircuit := false }),
  ("Convert", { sig := [Ty.error], stack := .sourceStack, dtag := .empty, src := .empty, msg := .origErr 0, err := .param 0, shortCircuit := true }),
  ("ConvertS", { sig := [Ty.error], stack := .defaultStack, dtag := .empty, src := .empty, msg := .origErr 0, err := .param 0, shortCircuit := true })
]

/-- the sections `(*GError).Error()` writes, in order -/
def errorParts : List String := ["name", "dtag", "source", "message", "stack"]

/-- the fields of `var ErrUnknown = FactoryOf(&GError{…})` in utils.go -/
def errUnknownFields : List (String × String) := [("Name", "ErrUnknown"), ("Message", "tried to operate on non gerror.Error")]

/-- `ExtMsgf`: index of the parameter asserted to `Factory`; on success the method called on it with
these parameters (and whether the last is spread with `...`); otherwise receiver, method, parameters -/
def extMsgfAsserts : Nat := 0
def extMsgfFactoryBranch : String × List Nat × Bool := ("Msg", [1, 2], true)
def extMsgfElseBranch : String × String × List Nat := ("ErrUnknown", "Convert", [0])

/-- every store in the code a derivation runs (CloneBase, every method of `*GError`, and all package
functions they reach): (function, written expression, where it lives) -/
def stores : List (String × String × StoreClass) := [
  ("CloneBase", "fRef", .local),
  ("CloneBase", "clone.Source", .fresh),
  ("CloneBase", "clone.detailTag", .fresh),
  ("CloneBase", "clone.detailTag", .fresh),
  ("CloneBase", "extMsg", .local),
  ("CloneBase", "clone.Message", .fresh),
  ("CloneBase", "clone.Message", .fresh),
  ("CloneBase", "clone.factoryRef", .fresh),
  ("CloneBase", "clone.srcErrors", .fresh),
  ("CloneBase", "append into slices.Clone(base.srcErrors)", .fresh),
  ("CloneBase", "clone.stack", .fresh),
  ("CloneBase", "clone.Source", .fresh),
  ("CloneBase", "clone.stack", .fresh),
  ("Error", "result", .local),
  ("Error", "result", .local),
  ("Error", "result", .local),
  ("Error", "result", .local),
  ("Error", "result", .local),
  ("SourceInfo", "last", .local),
  ("SourceInfo", "packageName", .local),
  ("SourceInfo", "vals", .local),
  ("SourceInfo", "vals", .local),
  ("Metric", "i", .local),
  ("Metric", "j", .local),
  ("Metric", "theRest", .local),
  ("makeStack", "pcs", .local),
  ("makeStack", "stack[i]", .fresh),
  ("pcToStackElem", "pc", .local)
]

/-- the `StackType` constants of stack.go -/
def stackDepths : List (StackType × Nat) :=
  [(.noStack, 0), (.sourceStack, 4), (.shortStack, 16), (.defaultStack, 32)]

def defaultSkip : Nat := 4

end Generated.GerrorBase

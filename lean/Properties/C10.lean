import Model.GConfigCache
import Generated.GConfigKey
/-!
# C10 — Get is a pure function of (config, key, type)

For every memo-key construction that is injective in (key, type) — and the construction found
in `config.go` by the extractor is checked to be the injective one — the result of a request
after ANY history of other requests equals the result of the same request on a fresh config, and
no request panics.  `conv` (the YAML conversion) is an arbitrary function that yields, for a
non-interface `T`, values of dynamic type `T`.
-/
namespace GConfigCache

variable {κ : Type} [DecidableEq κ]

/-- the conversion into a concrete (non-interface) `T` yields a `T` (or the nil interface never) -/
def ConvTyped (conv : Req → Option TV) : Prop :=
  ∀ r v, conv r = some v → (r.iface = false → ∃ repr, v = .val r.ty repr)

/-- every memo entry was produced by a request with exactly that memo key -/
def CacheOK (memoKey : Req → κ) (conv : Req → Option TV) (c : Cache κ) : Prop :=
  ∀ k v, lookup c k = some v → ∃ r, memoKey r = k ∧ conv r = some v

theorem lookup_cons (c : Cache κ) (k k' : κ) (v : TV) :
    lookup ((k, v) :: c) k' = if k = k' then some v else lookup c k' := by
  unfold lookup
  simp only [List.find?_cons]
  by_cases h : k = k'
  · simp [h]
  · have : (k == k') = false := by simpa using h
    simp [h, this]

theorem cacheOK_nil (memoKey : Req → κ) (conv : Req → Option TV) : CacheOK memoKey conv [] := by
  intro k v h; simp [lookup] at h

theorem cacheOK_get (memoKey : Req → κ) (conv : Req → Option TV) (c : Cache κ) (r : Req)
    (h : CacheOK memoKey conv c) : CacheOK memoKey conv (get memoKey conv c r).1 := by
  unfold get
  cases hl : lookup c (memoKey r) with
  | some v => simpa using h
  | none =>
    cases hc : conv r with
    | none => simpa using h
    | some v =>
      intro k v' hk
      simp only [lookup_cons] at hk
      by_cases he : memoKey r = k
      · simp [he] at hk; subst hk; exact ⟨r, he, hc⟩
      · simp [he] at hk; exact h k v' hk

theorem cacheOK_run (memoKey : Req → κ) (conv : Req → Option TV) (c : Cache κ) (rs : List Req)
    (h : CacheOK memoKey conv c) : CacheOK memoKey conv (runReqs memoKey conv c rs) := by
  induction rs generalizing c with
  | nil => simpa [runReqs] using h
  | cons r rs ih => exact ih _ (cacheOK_get memoKey conv c r h)

/-- the result of a request against a cache in which every entry is genuine -/
theorem get_of_cacheOK (memoKey : Req → κ) (hinj : Function.Injective memoKey) (conv : Req → Option TV)
    (c : Cache κ) (h : CacheOK memoKey conv c) (r : Req) :
    (get memoKey conv c r).2 = (get memoKey conv [] r).2 := by
  unfold get
  cases hl : lookup c (memoKey r) with
  | none =>
    simp only [lookup, List.find?_nil, Option.map_none]
    cases conv r <;> rfl
  | some v =>
    obtain ⟨r', hk, hc⟩ := h _ _ hl
    have : r' = r := hinj hk
    subst this
    simp [lookup, hc]

/-- **C10 (sequential histories).** With an injective memo key, the result of a request after any
history of requests equals the result of the same request on a freshly loaded config. -/
theorem get_history_independent (memoKey : Req → κ) (hinj : Function.Injective memoKey)
    (conv : Req → Option TV) (h : List Req) (r : Req) :
    (get memoKey conv (runReqs memoKey conv [] h) r).2 = (get memoKey conv [] r).2 :=
  get_of_cacheOK memoKey hinj conv _ (cacheOK_run memoKey conv [] h (cacheOK_nil memoKey conv)) r

/-- No request panics: the outcome on a fresh config is a value or an error, … -/
theorem fresh_no_panic (memoKey : Req → κ) (conv : Req → Option TV) (hct : ConvTyped conv) (r : Req) :
    (get memoKey conv [] r).2 ≠ .panic := by
  unfold get
  simp only [lookup, List.find?_nil, Option.map_none]
  cases hc : conv r with
  | none => simp
  | some v =>
    cases v with
    | nil => simp [assertTo]
    | val ty repr =>
      simp only [assertTo]
      cases hi : r.iface
      · obtain ⟨repr', hv⟩ := hct r _ hc hi
        cases hv; simp
      · simp

/-- … hence no request panics after any history either. -/
theorem no_panic (memoKey : Req → κ) (hinj : Function.Injective memoKey) (conv : Req → Option TV)
    (hct : ConvTyped conv) (h : List Req) (r : Req) :
    (get memoKey conv (runReqs memoKey conv [] h) r).2 ≠ .panic := by
  rw [get_history_independent memoKey hinj conv h r]
  exact fresh_no_panic memoKey conv hct r

/-- Errors are not memoized: a failing request leaves the table unchanged. -/
theorem errors_not_cached (memoKey : Req → κ) (conv : Req → Option TV) (c : Cache κ) (r : Req)
    (h : (get memoKey conv c r).2 = .err) : (get memoKey conv c r).1 = c := by
  unfold get at h ⊢
  cases hl : lookup c (memoKey r) with
  | some v => simp
  | none =>
    cases hc : conv r with
    | none => simp
    | some v =>
      simp only [hl, hc] at h
      cases v <;> simp [assertTo] at h
      split at h <;> simp at h

theorem runReqs_append (memoKey : Req → κ) (conv : Req → Option TV) (c : Cache κ) (h : List Req) (r' : Req) :
    runReqs memoKey conv c (h ++ [r']) = (get memoKey conv (runReqs memoKey conv c h) r').1 := by
  induction h generalizing c with
  | nil => simp [runReqs]
  | cons x xs ih => simp only [List.cons_append, runReqs]; exact ih _

/-- A request does not change the outcome of a request for a different key or type. -/
theorem other_request_unaffected (memoKey : Req → κ) (hinj : Function.Injective memoKey)
    (conv : Req → Option TV) (h : List Req) (r r' : Req) :
    (get memoKey conv (get memoKey conv (runReqs memoKey conv [] h) r').1 r).2 =
      (get memoKey conv (runReqs memoKey conv [] h) r).2 := by
  have h1 := get_history_independent memoKey hinj conv (h ++ [r']) r
  have h2 := get_history_independent memoKey hinj conv h r
  rw [runReqs_append] at h1
  rw [h1, h2]

/-! ### the memo key of the current tree is injective; the pinned commit's was not -/

theorem pairKey_injective : Function.Injective (fun r : Req => (pairKey r, r.iface)) := by
  intro a b h
  cases a; cases b
  simp only [pairKey, Prod.mk.injEq] at h
  obtain ⟨⟨h1, h2⟩, h3⟩ := h
  simp [h1, h2, h3]

/-- tie A: the construction the extractor found in `/repo/gconfig/config.go` is the pair -/
theorem code_memo_key_is_pair : Generated.GConfigKey.memoKeyKind = KeyKind.pair := by decide

/-- The pinned commit's key `key + "%T"` is not injective, and the collision makes a request
panic: `Get[uint8]("a")` then `Get[int8]("au")` share the memo entry `"auint8"`. -/
theorem concat_not_injective :
    concatKey ⟨"a", "uint8", false⟩ = concatKey ⟨"au", "int8", false⟩ ∧
    (let conv : Req → Option TV := fun r => some (.val r.ty "1")
     (get concatKey conv (runReqs concatKey conv [] [⟨"a", "uint8", false⟩]) ⟨"au", "int8", false⟩).2 = .panic ∧
     (get concatKey conv [] ⟨"au", "int8", false⟩).2 = .ok (.val "int8" "1")) := by
  decide

/-- Keying by (key, NAME of the type) is not injective either: two distinct types may print the
same (`Req.ty` is the type's identity, `tyName` its printed name). -/
theorem typeName_not_injective (tyName : String → String) (a b : String) (hab : a ≠ b)
    (hn : tyName a = tyName b) :
    ¬ Function.Injective (fun r : Req => ((r.key, tyName r.ty), r.iface)) := by
  intro hinj
  have := hinj (a₁ := ⟨"k", a, false⟩) (a₂ := ⟨"k", b, false⟩) (by simp [hn])
  simp at this
  exact hab this

/-- At the pinned commit `Get[any]` on a YAML null panicked. -/
theorem legacy_nil_assert_panics : assertToLegacy ⟨"k", "<nil>", true⟩ .nil = .panic := rfl

/-- non-vacuity: a history with a hit, a miss, an error and an interface-typed request. -/
example :
    let conv : Req → Option TV := fun r =>
      if r.key == "missing" then none else if r.iface then some .nil else some (.val r.ty "1")
    let h : List Req := [⟨"a", "uint8", false⟩, ⟨"au", "int8", false⟩, ⟨"missing", "int", false⟩, ⟨"n", "any", true⟩]
    (get (fun r => (pairKey r, r.iface)) conv (runReqs (fun r => (pairKey r, r.iface)) conv [] h) ⟨"au", "int8", false⟩).2
      = .ok (.val "int8" "1") := by
  decide

end GConfigCache

import Model.GErrTmpl
/-! GENERATED on every run by harness/cmd/extract-gerrtmpl from gerror/gen/gerror.gotmpl and gerror/gerror.go of the
checked tree — do not edit.  The body of the generated `Error()` and the literal of `toPrimaryType`, in the
syntax of Model/GErrTmpl.lean. -/
namespace Generated.GerrorTmplBody
open GErrTmpl

/-- `func (e *T) Error() string` of the template -/
def errorBody : Stmt :=
  (.seq (.decl "separator" (.lit ", "))
    (.seq (.decl "result" (.lit ""))
    (.seq (.ifLen "name" (.base "Name" false) (.append "result" (.cat (.cat (.lit "Name: ") (.sel (.loc "name"))) (.sel (.loc "separator")))))
    (.seq (.ifLen "dTag" (.base "ErrDetailTag" true) (.append "result" (.cat (.cat (.lit "DTag: ") (.sel (.loc "dTag"))) (.sel (.loc "separator")))))
    (.seq (.ifLen "src" (.base "Source" false) (.append "result" (.cat (.cat (.lit "Source: ") (.sel (.loc "src"))) (.sel (.loc "separator")))))
    (.seq (.range .print (.append "result" (.cat (.sprintfField [.printAs, .text ": ", .verbV]) (.sel (.loc "separator")))))
    (.seq (.append "result" (.cat (.lit "Message: ") (.sel (.base "Message" false))))
    (.seq (.ifLen "stack" (.base "ErrStack" true) (.append "result" (.cat (.lit "\n") (.stackString (.loc "stack")))))
    (.ret "result")))))))))

/-- the elements of `&T{…}` in `toPrimaryType` -/
def toPrimary : List PElem := [.gerrorFromParam, (.fieldsFromRecv .clone)]

/-- `func (e *GError) M() … { return e.f }` in gerror.go: (M, f) -/
def accessors : List (String × String) := [("ErrMessage", "Message"), ("ErrSource", "Source"), ("ErrName", "Name"), ("ErrDetailTag", "detailTag"), ("ErrStack", "stack")]

end Generated.GerrorTmplBody

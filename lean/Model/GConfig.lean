/-!
# Model of `gconfig/builder.go` (dimension reduction) and `gconfig/config.go` (`extract`)

A parsed YAML document is a tree `Y`; maps are association lists in document order (keys
distinct — YAML rejects duplicates).  A dimension is the list of its enum value names in
declaration order plus the index of the selected value; `Dim.parse` is the generated
`ParseGeneric` of a `-caseInsensitive` genum enum (exact name first, then lower-cased).

`reduceAny`/`classify1`/`keySet` mirror the Go functions of the same names in the current tree:
for a map, the registered dimensions are tried in order; the map is *reducible* by a dimension
when it has at least one key and every non-`default` key parses as a value of that dimension;
then the entry of the selected value is followed, else `default`, else loading fails; a map that
no dimension reduces is kept and its children are reduced; lists are reduced element-wise.
`none` stands for "FromBytes returned an error".

The separate *specification* `resolve` is written from the property text (C03).
-/
namespace GConfig

inductive Y where
  | null
  | str (s : String)
  | int (n : Int)
  | bool (b : Bool)
  | list (xs : List Y)
  | map (kvs : List (String × Y))
  deriving Repr

structure Dim where
  names : List String
  sel : Nat
  deriving Repr

/-- generated `Parse<Type>` with `-caseInsensitive`: exact name, else lower-cased name -/
def Dim.parse (d : Dim) (k : String) : Option Nat :=
  match d.names.findIdx? (fun n => n == k) with
  | some i => some i
  | none => d.names.findIdx? (fun n => n.toLower == k.toLower)

def defaultKey : String := "default"

/-- `keySet`: the non-`default` keys, and whether `default` is present -/
def keySet (kvs : List (String × Y)) : List String × Bool :=
  ((kvs.map (·.1)).filter (fun k => k != defaultKey), kvs.any (fun kv => kv.1 == defaultKey))

inductive Red where
  | notReducible
  | follow (k : String)
  | followDefault
  | broken
  deriving DecidableEq, Repr

/-- the decision part of `reduce(in, dimensions, i)` for dimension `d`.  The Go loop ranges over
a set of keys in runtime order; `foundDimKey` is the LAST key (in that order) that parses to the
selected value. -/
def classify1 (d : Dim) (kvs : List (String × Y)) : Red :=
  let ks := keySet kvs
  if ks.1.isEmpty && !ks.2 then .notReducible          -- an empty map is not keyed by a dimension
  else
    let remaining := ks.1.filter (fun k => (d.parse k).isNone)
    let found := ks.1.foldl (fun acc k => if d.parse k == some d.sel then some k else acc) none
    if !remaining.isEmpty then .notReducible
    else match found with
      | some k => .follow k
      | none => if ks.2 then .followDefault else .broken

/-- the loop `for i := dIndex; i < len(dimensions); i++` of `reduceAny` -/
def classify : List Dim → List (String × Y) → Red
  | [], _ => .notReducible
  | d :: ds, kvs =>
    match classify1 d kvs with
    | .notReducible => classify ds kvs
    | r => r

mutual
  /-- `reduceAny(in, dimensions, 0)`; `dims` is the full list of registered dimensions -/
  def reduceAny (dims : List Dim) : Y → Option Y
    | .map kvs =>
      match classify dims kvs with
      | .notReducible => (reduceKVs dims kvs).map Y.map
      | .follow k => reduceAt dims kvs k
      | .followDefault => reduceAt dims kvs defaultKey
      | .broken => none
    | .list xs => (reduceList dims xs).map Y.list
    | y => some y
  def reduceList (dims : List Dim) : List Y → Option (List Y)
    | [] => some []
    | x :: xs =>
      match reduceAny dims x, reduceList dims xs with
      | some x', some xs' => some (x' :: xs')
      | _, _ => none
  def reduceKVs (dims : List Dim) : List (String × Y) → Option (List (String × Y))
    | [] => some []
    | (k, v) :: rest =>
      match reduceAny dims v, reduceKVs dims rest with
      | some v', some rest' => some ((k, v') :: rest')
      | _, _ => none
  /-- `reduceAny(in[key], dimensions, 0)` -/
  def reduceAt (dims : List Dim) : List (String × Y) → String → Option Y
    | [], _ => none
    | (k, v) :: rest, key => if k == key then reduceAny dims v else reduceAt dims rest key
end

/-- `FromBytes` after YAML parsing: reduce from dimension 0; the result must be a map -/
def fromBytes (dims : List Dim) (y : Y) : Option (List (String × Y)) :=
  match reduceAny dims y with
  | some (.map m) => some m
  | _ => none

/-! ## `lookupEnv` and dimension selection (`initFlag`) -/

/-- ASCII upper-casing as `strings.ToUpper` does on ASCII names -/
def upper (s : String) : String := s.toUpper

/-- `lookupEnv`: exact, upper-case, lower-case spelling of the flag name -/
def lookupEnv (env : String → Option String) (name : String) : Option String :=
  match env name with
  | some v => some v
  | none => match env (upper name) with
    | some v => some v
    | none => env name.toLower

/-- the selected value: the builder default unless the environment names a value; `none` when
the environment holds something that does not parse (WithDimension panics) -/
def selectDim (names : List String) (dflt : Nat) (env : String → Option String) (flagName : String) :
    Option Nat :=
  match lookupEnv env flagName with
  | none => some dflt
  | some v => ({ names := names, sel := 0 } : Dim).parse v

/-! ## `extract` (dotted key paths over the reduced tree) -/

def lookupKey (m : List (String × Y)) (k : String) : Option Y := (m.find? (fun kv => kv.1 == k)).map (·.2)

/-- `extract(m, keys)` -/
def extract (m : List (String × Y)) : List String → Option Y
  | [] => none
  | [k] => lookupKey m k
  | k :: ks =>
    match lookupKey m k with
    | some (.map m') => extract m' ks
    | _ => none

/-! ## Specification (the property text) -/

def nonDefaultKeys (kvs : List (String × Y)) : List String :=
  (kvs.map (·.1)).filter (fun k => k != defaultKey)

/-- a map is a switch of dimension `d` when its non-`default` keys are a non-empty set of values of `d` -/
def isSwitchOf (d : Dim) (kvs : List (String × Y)) : Bool :=
  !(nonDefaultKeys kvs).isEmpty && (nonDefaultKeys kvs).all (fun k => (d.parse k).isSome)

/-- the first registered dimension the map is a switch of -/
def switchDim (dims : List Dim) (kvs : List (String × Y)) : Option Dim := dims.find? (fun d => isSwitchOf d kvs)

/-- the key to follow: the entry for the selected value, else `default`, else nothing -/
def selectKey (d : Dim) (kvs : List (String × Y)) : Option String :=
  match (nonDefaultKeys kvs).find? (fun k => d.parse k == some d.sel) with
  | some k => some k
  | none => if kvs.any (fun kv => kv.1 == defaultKey) then some defaultKey else none

mutual
  def resolve (dims : List Dim) : Y → Option Y
    | .map kvs =>
      match switchDim dims kvs with
      | some d =>
        match selectKey d kvs with
        | some key => resolveAt dims kvs key
        | none => none
      | none => (resolveKVs dims kvs).map Y.map
    | .list xs => (resolveList dims xs).map Y.list
    | y => some y
  def resolveList (dims : List Dim) : List Y → Option (List Y)
    | [] => some []
    | x :: xs =>
      match resolve dims x, resolveList dims xs with
      | some x', some xs' => some (x' :: xs')
      | _, _ => none
  def resolveKVs (dims : List Dim) : List (String × Y) → Option (List (String × Y))
    | [] => some []
    | (k, v) :: rest =>
      match resolve dims v, resolveKVs dims rest with
      | some v', some rest' => some ((k, v') :: rest')
      | _, _ => none
  def resolveAt (dims : List Dim) : List (String × Y) → String → Option Y
    | [], _ => none
    | (k, v) :: rest, key => if k == key then resolve dims v else resolveAt dims rest key
end

/-- path lookup in a tree: the specification of `Get` -/
def lookupPath : Y → List String → Option Y
  | y, [] => some y
  | .map m, k :: ks =>
    match lookupKey m k with
    | some v => lookupPath v ks
    | none => none
  | _, _ :: _ => none

/-! ## well-formed documents (the quantifier of C03) -/

/-- keys of a switch of `d` parse to pairwise different values -/
def uniqueParse (d : Dim) : List String → Bool
  | [] => true
  | k :: ks => ks.all (fun k' => d.parse k' != d.parse k) && uniqueParse d ks

def parsesInSome (dims : List Dim) (k : String) : Bool := dims.any (fun d => (d.parse k).isSome)

def keysDistinct : List String → Bool
  | [] => true
  | k :: ks => !ks.contains k && keysDistinct ks

/-- a plain map (keys neither `default` nor a value of any registered dimension; possibly empty)
or a dimension switch (non-empty set of values of its dimension, pairwise different values,
optional `default`) -/
def wfKeys (dims : List Dim) (kvs : List (String × Y)) : Bool :=
  keysDistinct (kvs.map (·.1)) &&
  ((kvs.all (fun kv => kv.1 != defaultKey && !parsesInSome dims kv.1)) ||
   (match switchDim dims kvs with
    | some d => uniqueParse d (nonDefaultKeys kvs)
    | none => false))

mutual
  def WF (dims : List Dim) : Y → Bool
    | .map kvs => wfKeys dims kvs && wfKVs dims kvs
    | .list xs => wfList dims xs
    | _ => true
  def wfList (dims : List Dim) : List Y → Bool
    | [] => true
    | x :: xs => WF dims x && wfList dims xs
  def wfKVs (dims : List Dim) : List (String × Y) → Bool
    | [] => true
    | (_, v) :: rest => WF dims v && wfKVs dims rest
end

end GConfig

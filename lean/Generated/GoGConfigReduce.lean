import Model.GoAny
import Generated.GoSet
import Generated.GoGConfigBuilder
/-! REGENERATED on every run by harness/cmd/go2lean -spec gconfigreduce from gconfig/builder.go (reduceAny,
reduce, the body of Builder.FromBytes after yaml.Unmarshal) and gconfig/yaml_templates.go
(parseTemplatedElements).  Do not edit.  Each definition follows the Go function statement by statement.

* `any` is the document type `GConfig.Y` (nil interface = `Y.null`), `map[string]any` an association list in walk
  order (every theorem quantifies over all orders), `[]any` a list, `error` is `GoAny.Err` (nil or not; the
  message of a new error is not modelled: `<function>_err<k>` below are all `some ()`).
* Recursion goes through a FUEL argument (first argument, one less at every call; out of fuel is a panic of
  `Go.M`); the theorems hold for every fuel above a bound computed from the document.
* `switch v := in.(type)`: in the map and slice cases `v` is the object `in` holds, so what the case writes
  through `v` is written back to `in` at the end of the case.
* In-place updates: `v[k], err = f(el)` inside `for k, el := range v` ranges over the entries `v` had when the
  loop started and replaces the entry of the CURRENT key/index (the only write the translator admits there;
  Go produces an entry not yet reached with its value at that moment, and only the current one is assigned);
  `for k := range keys { … keys.Remove(k) … }` ranges over the keys the set had when the loop started (deleting
  the current key during a range is safe and removes nothing still to be produced).  A translated call keeps
  only the callee's results although the callee may rewrite its argument in place: exact because the argument
  is not looked at again (checked by the translator) and documents are trees.
* Parameters of the translation: `Dimension` (`dim.defaultVal.ParseGeneric`, `dim.get()`; enum values of one type
  are numbers), `Env.templates` (the `MatchAndResolve` of each element of the package variable `templates`).
  `keySet` is the translated one of Generated/GoGConfigBuilder.lean, `Set.Remove` that of Generated/GoSet.lean. -/
namespace Generated.GoGConfigReduce
open GConfig (Y)
open GoAny (Err)

/-- `*dimension`: what the translated code asks of it -/
structure Dimension where
  /-- `dim.defaultVal.ParseGeneric(s)` -/
  parseGeneric : String → Nat × Err
  /-- `dim.get()` -/
  get : Nat
  deriving Inhabited

structure Env where
  /-- `templates[i].MatchAndResolve` -/
  templates : List (String → String × Bool × Err)

/-- the elements of `var templates = []templateVariable{…}` as written -/
def templatesDecl : List String := ["&envVarTmpl{}"]

def defaultKey : String := "default"

/-- `ErrFailedParsing.Msg("unexpected non-map result")` -/
def fromBytes_err1 : Err := some ()

/-- `ErrFailedParsing.Msg( "broken dim key! %T dimensions identified around keys %s, but no 'default' or '%s' value found.", dim.defaultVal, keys.Slice(), dim.get())` -/
def reduce_err1 : Err := some ()

mutual
/-- `func reduceAny(in any, dimensions []*dimension, dIndex int) (any, error)` -/
def reduceAny : Nat → Y → List Dimension → Nat → Go.M (Y × Err)
  | 0, _, _, _ => throw "out of fuel"
  | fuel + 1, «in», dimensions, dIndex => do
    let mut «in» := «in»
    match «in» with
    | Y.map v0 =>
      let mut v := v0
      for i in List.range' dIndex ((List.length dimensions) - dIndex) do
        let p1 ← reduce fuel v dimensions i
        let r : Y := p1.1
        let reduced : Bool := p1.2.1
        let mut err : Err := p1.2.2
        if ((err != none) || reduced) then
          return (r, err)
      for (k, el) in v do
        let mut err_1 : Err := none
        let p2 ← reduceAny fuel el dimensions dIndex
        v := GoAny.amapSet v k p2.1
        err_1 := p2.2
        if (err_1 != none) then
          return (Y.null, err_1)
      «in» := Y.map v
    | Y.list v0 =>
      let mut v_1 := v0
      let mut i_1 : Nat := 0
      for el_1 in v_1 do
        let mut err_2 : Err := none
        let p3 ← reduceAny fuel el_1 dimensions dIndex
        v_1 ← Go.listSet v_1 i_1 p3.1
        err_2 := p3.2
        if (err_2 != none) then
          return (Y.null, err_2)
        i_1 := i_1 + 1
      «in» := Y.list v_1
    | _ => pure ()
    return («in», none)

/-- `func reduce(in map[string]any, dimensions []*dimension, dIndex int) (out any, reduced bool, err error)` -/
def reduce : Nat → List (String × Y) → List Dimension → Nat → Go.M (Y × Bool × Err)
  | 0, _, _, _ => throw "out of fuel"
  | fuel + 1, «in», dimensions, dIndex => do
    let mut out : Y := Y.null
    let mut err : Err := none
    let dim ← Go.listGet dimensions dIndex
    let p1 ← Generated.GoGConfigBuilder.keySet «in»
    let mut keys : Go.GMap String := p1.1
    let hasDefault : Bool := p1.2
    if (((Go.mapLen keys) == 0) && (!hasDefault)) then
      return ((Y.map «in»), false, none)
    let mut foundDimKey : String := ""
    for k in Go.mapKeys keys do
      let p2 := dim.parseGeneric k
      let foundD : Nat := p2.1
      let mut err_1 : Err := p2.2
      if (err_1 == none) then
        let r3 ← Generated.GoSet.Set.Remove keys [k]
        keys := r3.1
        if (dim.get == foundD) then
          foundDimKey := k
    if ((Go.mapLen keys) != 0) then
      return ((Y.map «in»), false, none)
    let p4 := GoAny.amapGet «in» foundDimKey
    let v : Y := p4.1
    let ok : Bool := p4.2
    if ok then
      let p5 ← reduceAny fuel v dimensions 0
      out := p5.1
      err := p5.2
      return (out, true, err)
    if hasDefault then
      let p6 ← reduceAny fuel (GoAny.amapGet «in» defaultKey).1 dimensions 0
      out := p6.1
      err := p6.2
      return (out, true, err)
    let p7 ← Generated.GoGConfigBuilder.keySet «in»
    keys := p7.1
    return (Y.null, true, reduce_err1)

end

/-- `func parseTemplatedElements[T any](in T) (out T, err error)` at `T = any` -/
def parseTemplatedElements (env : Env) : Nat → Y → Go.M (Y × Err)
  | 0, _ => throw "out of fuel"
  | fuel + 1, «in» => do
    let mut «in» := «in»
    let mut out : Y := Y.null
    let mut err : Err := none
    match «in» with
    | Y.str v =>
      for template in env.templates do
        let p1 := template v
        let temp : String := p1.1
        let ok : Bool := p1.2.1
        let mut err_1 : Err := p1.2.2
        if (err_1 != none) then
          return (out, err_1)
        else
          if ok then
            return ((Y.str temp), none)
    | Y.map v0 =>
      let mut v_1 := v0
      for (k, el) in v_1 do
        let p2 ← parseTemplatedElements env fuel el
        v_1 := GoAny.amapSet v_1 k p2.1
        err := p2.2
        if (err != none) then
          return (out, err)
      «in» := Y.map v_1
    | Y.list v0 =>
      let mut v_2 := v0
      let mut i : Nat := 0
      for el_1 in v_2 do
        let p3 ← parseTemplatedElements env fuel el_1
        v_2 ← Go.listSet v_2 i p3.1
        err := p3.2
        if (err != none) then
          return (out, err)
        i := i + 1
      «in» := Y.list v_2
    | _ => pure ()
    return («in», none)

/-- `func (b *Builder) FromBytes(bytes []byte) (*Config, error)`, from the statement after `yaml.Unmarshal(bytes, &data)` to the `data` of the returned
`*Config` (`none`: the `*Config` is nil) -/
def fromBytes (env : Env) (fuel : Nat) (dimensions : List Dimension) (data : List (String × Y)) :
    Go.M (Option (List (String × Y)) × Err) := do
  let p1 ← reduceAny fuel (Y.map data) dimensions 0
  let d : Y := p1.1
  let mut err : Err := p1.2
  if (err != none) then
    return (none, err)
  let p2 := GoAny.asMap d
  let mut result : List (String × Y) := p2.1
  let ok : Bool := p2.2
  if (!ok) then
    return (none, fromBytes_err1)
  let p3 ← parseTemplatedElements env fuel (Y.map result)
  result := (GoAny.asMap p3.1).1
  err := p3.2
  if (err != none) then
    return (none, err)
  return (some result, none)

end Generated.GoGConfigReduce

package main

import (
	"context"
	"fmt"
	"math/rand"
	"sync"

	rlog "github.com/drshriveer/gtools/log"
	"go.uber.org/zap/zapcore"
)

// stress: real goroutines on the real package (supporting evidence only; the Go scheduler decides
// what is seen).  Each iteration: 2-8 goroutines released together, every one adds its own field
// through its own context; one of them also sets the level to Debug first.  At rest the shared
// logger must carry every field and be at Debug.
func stress(iters int, seed int64) map[string]any {
	rng := rand.New(rand.NewSource(seed ^ 0x5eed))
	ob := installGlobal(1, nil)
	lostField, lostLevel := 0, 0
	for it := 0; it < iters; it++ {
		n := 2 + rng.Intn(7)
		base := rlog.InitLogger(context.Background())
		var wg sync.WaitGroup
		gate := make(chan struct{})
		for i := 0; i < n; i++ {
			wg.Add(1)
			ctx := context.WithValue(base, ckey{}, i)
			i := i
			go func() {
				defer wg.Done()
				<-gate
				if i == 0 {
					rlog.SetLevel(ctx, zapcore.DebugLevel)
				}
				rlog.WithFields(ctx, mkFields([]string{fmt.Sprintf("f%d:1", i)})...)
			}()
		}
		close(gate)
		wg.Wait()
		pat, fields, _ := probeLogger(rlog.Log(base), ob, 2, true)
		if len(fields) != n {
			lostField++
		}
		if pat != "DIWE" {
			lostLevel++
		}
	}
	return map[string]any{"iterations": iters, "goroutines": "2-8", "iterations_with_lost_field": lostField,
		"iterations_with_lost_level": lostLevel, "role": "supporting evidence only (not gating, not replayable)"}
}

import Model.GSort
import Driver.Util
/-! Line protocol for `Model/GSort` (stateful: the current struct definition).

```
gs def <field>*              field = Name|type|tag;tag;…|view      (no spaces inside)
                             type "bool" sets IsBool; view = ranks of the accessor results of the
                             field's values (comma separated, may be empty)
                             -> ok <raw sorter names, sorted> | err:<class>
gs chain <raw>               -> value|ptr <TypeName> <body of Less as S-expression, `Cmp.normalize`d>
gs lessall <raw> <recs>      -> Less(i,j) for all i,j (row major, t/f)
gs sort <raw> <recs>         -> perm:t <key projection of the ascending permutation>
gs stable <raw> <recs>       -> input positions in the order sort.Stable leaves them
gs swap <raw> <i> <j> <n>    -> len:<n> <positions after Swap(i,j)>
gs layout <word>*            -> layout <word>*     how the package is laid out on disk (struct in the
                             directive file or in another file, -in-file or $GOFILE, output name): the
                             model's answers do not depend on it
gs regen <field>*            -> as `def`: the struct's tags were EDITED to this definition and the
                             generator ran again over its previous output; every later answer is the
                             one for the CURRENT definition (the previous one is forgotten)
recs = v,v,…;v,v,…  (value indices per field, declaration order), `-` = empty slice
```
-/
namespace Drv.GSort
open _root_.GSort

structure FieldV where
  f : Field
  view : List Nat

structure St where
  fields : List FieldV := []
  sorters : List Sorter := []
  fds : List SFD := []

def parseField (w : String) : Option FieldV :=
  match w.splitOn "|" with
  | [name, ty, tags, view] =>
    let tl := if tags = "" then [] else tags.splitOn ";"
    let vl := if view = "" then some [] else natsOf (view.splitOn ",")
    vl.map (fun v => ⟨⟨name, ty == "bool", tl⟩, v⟩)
  | _ => none

def errClass : GenErr → String
  | .tagArity => "err:tag-arity"
  | .priorityNotInt => "err:priority-not-int"
  | .dupPriority => "err:dup-priority"
  | .noSortAttrs => "err:no-sort-attrs"

def showRet : RetExpr → String
  | .lt a => s!"(lt {a})"
  | .selJ a => s!"(j {a})"
  | .notIAndJ a => s!"(noti-and-j {a})"

def showCmp : Cmp → String
  | .ret e => s!"(ret {showRet e})"
  | .ifEq a b e => s!"(ifeq {a} {showCmp b} {showRet e})"

/-- the slice element with value indices `vals`, seen through an accessor expression -/
def recOf (fields : List FieldV) (vals : List Nat) : Rec Nat := fun acc =>
  let parts := acc.splitOn "."
  let name := parts.headD ""
  let rec go : List FieldV → List Nat → Val Nat
    | fv :: fs, v :: vs =>
      if fv.f.name = name then
        if parts.length > 1 then .ord (fv.view.getD v v)
        else if fv.f.isBool then .flag (v != 0) else .ord v
      else go fs vs
    | _, _ => .ord 0
  go fields vals

def parseRecs (w : String) : Option (List (List Nat)) :=
  if w = "-" then some [] else (w.splitOn ";").mapM (fun r => natsOf (r.splitOn ","))

def keysOf (st : St) (raw : String) : List Key :=
  ((sortP (taggedFor st.fds raw)).map keyOf)

/-- indices (declaration order) of the fields carrying a tag for `raw` -/
def taggedIdx (st : St) (raw : String) : List Nat :=
  let names := (taggedFor st.fds raw).map (·.fieldName)
  (List.range st.fields.length).filter (fun i => match st.fields[i]? with
    | some fv => names.contains fv.f.name
    | none => false)

def showTuple (l : List Nat) : String := ",".intercalate (l.map toString)

/-- `def` and `regen`: the state is a function of the definition given on THIS line only -/
def define (fws : List String) : St × String :=
  match fws.mapM parseField with
  | none => ({}, "bad-op")
  | some fvs =>
    let fields := fvs.map (·.f)
    match generate fields with
    | .error e => ({ fields := fvs }, errClass e)
    | .ok ss =>
      let fds := match allSFDs fields with | .ok l => l | .error _ => []
      let names := (ss.map (·.raw)).mergeSort (fun a b => decide (a ≤ b))
      ({ fields := fvs, sorters := ss, fds := fds }, joinSp ("ok" :: names))

def handle (st : St) (ws : List String) : St × String :=
  match ws with
  | "def" :: fws => define fws
  | "regen" :: fws => define fws
  | "layout" :: lws => (st, joinSp ("layout" :: lws))
  | op :: raw :: rest =>
    match findSorter raw st.sorters with
    | none => (st, "no-sorter")
    | some s =>
      let lessOf (a b : List Nat) : Bool := s.less.eval Nat.blt (recOf st.fields a) (recOf st.fields b)
      match op, rest with
      | "chain", [] =>
        (st, joinSp [if s.usePointer then "ptr" else "value", s.typeName, showCmp s.less.normalize])
      | "lessall", [rw] =>
        match parseRecs rw with
        | none => (st, "bad-op")
        | some recs =>
          let recsA := recs.map (recOf st.fields)
          (st, String.join (recsA.map (fun a => String.join (recsA.map (fun b =>
            showBool (s.less.eval Nat.blt a b))))))
      | "sort", [rw] =>
        match parseRecs rw with
        | none => (st, "bad-op")
        | some recs =>
          let sorted := stableSort lessOf recs
          let idx := taggedIdx st raw
          let proj := sorted.map (fun r => showTuple (idx.map (fun i => r.getD i 0)))
          (st, joinSp ["perm:t", ";".intercalate proj])
      | "stable", [rw] =>
        match parseRecs rw with
        | none => (st, "bad-op")
        | some recs =>
          let tagged := (List.range recs.length).zip recs
          let sorted := stableSort (fun x y => lessOf x.2 y.2) tagged
          (st, showTuple (sorted.map (·.1)))
      | "swap", [i, j, n] =>
        match i.toNat?, j.toNat?, n.toNat? with
        | some i, some j, some n =>
          match swap (List.range n) i j with
          | some l => (st, s!"len:{l.length} {showTuple l}")
          | none => (st, "panic")
        | _, _, _ => (st, "bad-op")
      | _, _ => (st, "bad-op")
  | _ => (st, "bad-op")

end Drv.GSort

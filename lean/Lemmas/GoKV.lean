import Model.GoPreludeKV
/-!
# Facts about `Go.KV` (maps with values of the translated fragment)
-/
namespace Go
variable {κ ν : Type} [DecidableEq κ]

theorem kvGet_kvSet' (m : KV κ ν) (k : κ) (v : ν) (k' : κ) :
    kvGet (kvSet m k v) k' = if k = k' then some v else kvGet m k' := by
  induction m with
  | nil => simp [kvSet, kvGet]
  | cons p m ih =>
    obtain ⟨a, b⟩ := p
    by_cases hak : a = k
    · subst hak
      by_cases hkk : a = k' <;> simp [kvSet, kvGet, hkk]
    · by_cases hkk : k = k'
      · subst hkk
        simp [kvSet, kvGet, hak, ih]
      · by_cases hak' : a = k'
        · subst hak'
          simp [kvSet, kvGet, hak, hkk]
        · simp [kvSet, kvGet, hak, hkk, hak', ih]

theorem kvSet_keys_mem (m : KV κ ν) (k : κ) (v : ν) (a : κ) :
    a ∈ (kvSet m k v).map Prod.fst ↔ a = k ∨ a ∈ m.map Prod.fst := by
  induction m with
  | nil => simp [kvSet]
  | cons p m ih =>
    obtain ⟨x, y⟩ := p
    by_cases hx : x = k
    · subst hx; simp [kvSet]
    · simp only [kvSet, hx, if_false, List.map_cons, List.mem_cons, ih]
      constructor
      · rintro (h | h | h)
        · exact Or.inr (Or.inl h)
        · exact Or.inl h
        · exact Or.inr (Or.inr h)
      · rintro (h | h | h)
        · exact Or.inr (Or.inl h)
        · exact Or.inl h
        · exact Or.inr (Or.inr h)

theorem kvSet_nodup (m : KV κ ν) (k : κ) (v : ν) (h : (m.map Prod.fst).Nodup) :
    ((kvSet m k v).map Prod.fst).Nodup := by
  induction m with
  | nil => simp [kvSet]
  | cons p m ih =>
    obtain ⟨x, y⟩ := p
    simp only [List.map_cons, List.nodup_cons] at h
    by_cases hx : x = k
    · subst hx
      simp only [kvSet, if_true, List.map_cons, List.nodup_cons]
      exact h
    · simp only [kvSet, hx, if_false, List.map_cons, List.nodup_cons]
      refine ⟨fun hh => ?_, ih h.2⟩
      rw [kvSet_keys_mem] at hh
      exact hh.elim hx h.1

/-- with one pair per key, the entries are the graph of `kvGet` -/
theorem mem_iff_kvGet (m : KV κ ν) (h : (m.map Prod.fst).Nodup) (k : κ) (v : ν) :
    (k, v) ∈ m ↔ kvGet m k = some v := by
  induction m with
  | nil => simp [kvGet]
  | cons p m ih =>
    obtain ⟨x, y⟩ := p
    simp only [List.map_cons, List.nodup_cons] at h
    by_cases hx : x = k
    · subst hx
      simp only [kvGet, if_true, List.mem_cons, Prod.mk.injEq, true_and, Option.some.injEq]
      constructor
      · rintro (h1 | h1)
        · exact h1.symm
        · exact absurd (List.mem_map.mpr ⟨(x, v), h1, rfl⟩) h.1
      · intro h1; exact Or.inl h1.symm
    · simp only [kvGet, hx, if_false, List.mem_cons, Prod.mk.injEq, ih h.2]
      constructor
      · rintro (⟨h1, _⟩ | h1)
        · exact absurd h1.symm hx
        · exact h1
      · intro h1; exact Or.inr h1

end Go

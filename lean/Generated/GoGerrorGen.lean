import Model.GoPrelude
import Generated.GoSet
/-! REGENERATED on every run by harness/cmd/go2lean -spec gerrorgen from gerror/gen/generate.go (createField,
createErrorDesc from its field loop on), gerror/gen/error_types.go (Field, ErrorDesc, filter, FieldsToPrint,
FieldsToClone), gerror/gen/error_types.gsort.go (Fields.Less) and gerror/gerror.go ((*GError).Error).  Do not edit.
Each definition follows the Go function statement by statement.  Parameters of the translation (`Env`):
structtag.Parse, Tags.Get, sort.Sort (handed the translated Less), len / String of a Stack.  `set.Make` and
`Set.Has` are the TRANSLATED functions of Generated/GoSet.lean.  A `*types.Var` is what its Name()/Embedded()
answer, a `*types.Struct` the list of its fields with their tags, an error value its text (for fmt.Errorf: the
format literal).  A returned `*Field` may be nil (`Option`); elements of a `Fields` slice are not. -/
namespace Generated.GoGerrorGen

/-- `structtag.Tag` as far as the generator reads it -/
structure Tag where
  Name : Go.Str
  Options : List Go.Str
  deriving Inhabited

/-- `*types.Var`: the answers of `Name()` and `Embedded()` -/
structure Var where
  Name : Go.Str
  Embedded : Bool
  deriving Inhabited

/-- an error value made by `fmt.Errorf` (its format literal) or `errors.New` (its text) -/
structure GoError where
  text : Go.Str
  deriving DecidableEq, Inhabited

/-- `type Field struct` -/
structure Field where
  Name : Go.Str
  PrintAs : Go.Str
  Clone : Bool
  Print : Bool
  deriving DecidableEq, Inhabited

/-- `type ErrorDesc struct` -/
structure ErrorDesc where
  TypeName : Go.Str
  Fields : List Field

/-- `type GError struct`: its string fields and the stack -/
structure GError (σ : Type) where
  Name : Go.Str
  Message : Go.Str
  Source : Go.Str
  detailTag : Go.Str
  stack : σ

/-- fields of GError outside the translation (no translated function may read them) -/
def GError.untranslated : List String := ["factoryRef factoryOf", "srcErrors []error", "isFactory bool"]

/-- library and runtime functions the translated code calls -/
structure Env (τ σ : Type) where
  structtagParse : Go.Str → τ × Bool
  tagsGet : τ → Go.Str → Tag × Bool
  sortSort : (List Field → Nat → Nat → Go.M Bool) → List Field → List Field
  stackLen : σ → Nat
  stackString : σ → Go.Str

variable {τ σ α : Type}

/-- `func createField(field *types.Var, tagLine string) (*Field, error)` -/
def createField (env : Env τ σ) (field : Var) (tagLine : Go.Str) : Go.M (Option Field × Option GoError) := do
  let p1 := env.structtagParse tagLine
  let mut tags : τ := p1.1
  let mut err : Bool := p1.2
  if err then
    return (none, none)
  let p2 := env.tagsGet tags (Go.str "gerror")
  let mut gerrTags : Tag := p2.1
  err := p2.2
  if err then
    return (none, none)
  let mut validOptions : Go.GMap Go.Str ← Generated.GoSet.Make [(Go.str "clone"), (Go.str "print")]
  if (!(← Generated.GoSet.Set.Has validOptions gerrTags.Options)) then
    return (none, (some (GoError.mk (Go.str "field %s has unsupported options; vald=%+v found=%+v"))))
  if (gerrTags.Name == (Go.str "_")) then
    gerrTags := { gerrTags with Name := field.Name }
  return ((some ({ Name := field.Name, PrintAs := gerrTags.Name, Clone := (List.contains gerrTags.Options (Go.str "clone")), Print := (List.contains gerrTags.Options (Go.str "print")) } : Field)), none)

/-- `func filter[T any](in []T, include func(T) bool) []T` -/
def filter («in» : List α) («include» : α → Bool) : Go.M (List α) := do
  let mut result : List α := ([] : List α)
  for v in «in» do
    if («include» v) then
      result := (result ++ [v])
  return result

/-- `func (s Fields) Less(i, j int) bool` -/
def Fields.Less (s : List Field) (i : Nat) (j : Nat) : Go.M (Bool) := do
  return (decide ((← Go.listGet s i).Name < (← Go.listGet s j).Name))

/-- `func (e *ErrorDesc) FieldsToPrint() Fields` -/
def ErrorDesc.FieldsToPrint (env : Env τ σ) (e : ErrorDesc) : Go.M (List Field) := do
  let mut r : List Field ← filter e.Fields (fun t => t.Print)
  r := env.sortSort Fields.Less r
  return r

/-- `func (e *ErrorDesc) FieldsToClone() Fields` -/
def ErrorDesc.FieldsToClone (env : Env τ σ) (e : ErrorDesc) : Go.M (List Field) := do
  let mut r : List Field ← filter e.Fields (fun t => t.Clone)
  r := env.sortSort Fields.Less r
  return r

/-- `func (g *Generate) createErrorDesc(obj types.Object, typeName string) (*ErrorDesc, error)` -/
def createErrorDesc (env : Env τ σ) (strukt : List (Var × Go.Str)) (typeName : Go.Str) : Go.M (Option ErrorDesc × Option GoError) := do
  let mut fields : List Field := ([] : List Field)
  let mut embedsGError : Bool := false
  for i in List.range' 0 (List.length strukt) do
    let mut ff : Var := (← Go.listGet strukt i).1
    let p1 ← createField env ff (← Go.listGet strukt i).2
    let mut field : Option Field := p1.1
    let mut err : Option GoError := p1.2
    if (Option.isSome err) then
      return (none, err)
    else
      if (Option.isSome field) then
        fields := (fields ++ (Option.toList field))
    if (ff.Embedded && (ff.Name == (Go.str "GError"))) then
      embedsGError := true
  if (!embedsGError) then
    return (none, (some (GoError.mk (typeName ++ (Go.str " does not embed GError")))))
  fields := env.sortSort Fields.Less fields
  return ((some ({ TypeName := typeName, Fields := fields } : ErrorDesc)), none)

/-- `func (e *GError) Error() string` -/
def GError.Error (env : Env τ σ) (e : GError σ) : Go.M (Go.Str) := do
  let separator : Go.Str := (Go.str ", ")
  let mut result : Go.Str := (Go.str "")
  if (e.Name != (Go.str "")) then
    result := (result ++ (((Go.str "Name: ") ++ e.Name) ++ separator))
  if (e.detailTag != (Go.str "")) then
    result := (result ++ (((Go.str "DTag: ") ++ e.detailTag) ++ separator))
  if (e.Source != (Go.str "")) then
    result := (result ++ (((Go.str "Source: ") ++ e.Source) ++ separator))
  result := (result ++ ((Go.str "Message: ") ++ e.Message))
  if (decide ((env.stackLen e.stack) > 0)) then
    result := (result ++ ((Go.str "\n") ++ (env.stackString e.stack)))
  return result

/-- the translated functions -/
def translated : List String := ["createField", "filter", "Fields.Less", "ErrorDesc.FieldsToPrint", "ErrorDesc.FieldsToClone", "createErrorDesc", "GError.Error"]

end Generated.GoGerrorGen

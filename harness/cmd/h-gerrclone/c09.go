package main

import (
	"bufio"
	_ "embed"
	"encoding/json"
	"fmt"
	"io"
	"math/rand"
	"os"
	"os/exec"
	"path/filepath"
	"regexp"
	"sort"
	"strconv"
	"strings"

	"verif/harness/cmd/h-gerrclone/kinds"
	"verif/harness/cmd/h-gerrclone/wire"
	"verif/harness/internal/hx"
)

// the source of the kinds package's types, written (with the package clause rewritten) into every
// scratch package, so that extension structs can have fields of these types
//
//go:embed kinds/types.go
var kindsTypesSrc string

// ---- extension struct definitions ----------------------------------------------------------

type fieldKind struct {
	name   string   // kind id
	goType string   // Go type text
	vals   []string // Go expressions; index 0 is the zero value
	render []string // fmt %v of each
	embed  string   // for kinds used as anonymous (embedded) fields: the field name Go derives from the type
}

const plainKinds = 9 // fieldKinds[:plainKinds]: named fields of types without fmt methods

// namedKindIdx: kinds usable for named fields; methodKindIdx: the ones among them whose type has its
// own String / Error / Format / GoString method (package kinds); embedKindIdx: anonymous fields
var namedKindIdx, methodKindIdx, embedKindIdx []int

// The kinds of package kinds are appended here; how `%v` renders their values is asked of fmt
// (kinds.Render), in this process, on values that never meet generated code.
func init() {
	for i := range fieldKinds {
		if i < plainKinds {
			namedKindIdx = append(namedKindIdx, i)
		} else {
			embedKindIdx = append(embedKindIdx, i)
		}
	}
	for _, k := range kinds.Table {
		fk := fieldKind{name: k.Name, goType: k.GoType, vals: k.Exprs, embed: k.Embed}
		for _, v := range k.Vals {
			fk.render = append(fk.render, kinds.Render(v))
		}
		fieldKinds = append(fieldKinds, fk)
		switch {
		case k.Embed != "":
			embedKindIdx = append(embedKindIdx, len(fieldKinds)-1)
		default:
			namedKindIdx = append(namedKindIdx, len(fieldKinds)-1)
			methodKindIdx = append(methodKindIdx, len(fieldKinds)-1)
		}
	}
}

func kindByName(name string) int {
	for i, k := range fieldKinds {
		if k.name == name {
			return i
		}
	}
	return -1
}

var fieldKinds = []fieldKind{
	{"int", "int", []string{"0", "7", "-3"}, []string{"0", "7", "-3"}, ""},
	{"string", "string", []string{`""`, `"hello"`, `"a, b: c"`, `"hé %d"`}, []string{"", "hello", "a, b: c", "hé %d"}, ""},
	{"bool", "bool", []string{"false", "true"}, []string{"false", "true"}, ""},
	{"float", "float64", []string{"0", "1.5"}, []string{"0", "1.5"}, ""},
	{"dur", "time.Duration", []string{"0", "1500 * time.Millisecond"}, []string{"0s", "1.5s"}, ""},
	{"strs", "[]string", []string{"nil", `[]string{"x", "y"}`}, []string{"[]", "[x y]"}, ""},
	{"ptr", "*Pt", []string{"nil", "&Pt{A: 5}"}, []string{"<nil>", "&{5}"}, ""},
	{"status", "Status", []string{"Status(0)", "Status(3)"}, []string{"OK", "InvalidArgument"}, ""},
	{"any", "any", []string{"nil", "42", `"s"`}, []string{"<nil>", "42", "s"}, ""},
	// anonymous extra fields: a struct type, named basic types, a pointer to the struct type
	{"tenant", "Tenant", []string{"Tenant{}", `Tenant{ID: "acme", Region: "eu-1"}`}, []string{"{ }", "{acme eu-1}"}, "Tenant"},
	{"code", "Code", []string{"Code(0)", "Code(7)"}, []string{"0", "7"}, "Code"},
	{"label", "Label", []string{`Label("")`, `Label("hot")`}, []string{"", "hot"}, "Label"},
	{"ptenant", "*Tenant", []string{"nil", `&Tenant{ID: "acme", Region: "eu-1"}`}, []string{"<nil>", "&{acme eu-1}"}, "Tenant"},
}

type fieldDef struct {
	Embedded bool   // anonymous field: Name is the name of its type
	RawTag   string // set when rebuilt from a stored case: the tag text as it was
	Name     string
	Kind     int
	Tagged   bool
	PrintAs  string // "_" allowed in the tag; resolved name kept in printName()
	Print    bool
	Clone    bool
	Order    string // "pc" or "cp": order of the options in the tag
	Extra    bool   // another tag key in front
}

func (f fieldDef) printName() string {
	if f.PrintAs == "_" {
		return f.Name
	}
	return f.PrintAs
}

func (f fieldDef) tag() string {
	if f.RawTag != "" {
		return f.RawTag
	}
	if !f.Tagged {
		if f.Extra {
			return " `json:\"x\"`"
		}
		return ""
	}
	opts := []string{f.PrintAs}
	p, c := f.Print, f.Clone
	if f.Order == "cp" {
		if c {
			opts = append(opts, "clone")
		}
		if p {
			opts = append(opts, "print")
		}
	} else {
		if p {
			opts = append(opts, "print")
		}
		if c {
			opts = append(opts, "clone")
		}
	}
	t := `gerror:"` + strings.Join(opts, ",") + `"`
	if f.Extra {
		t = `json:"x" ` + t
	}
	return " `" + t + "`"
}

type extDef struct {
	ID     int
	Skip   bool // generated with -skipConvertGen (Convert/ConvertS hand-written next to the type)
	Fields []fieldDef
	Domain bool
}

func (d *extDef) typeName() string { return "X" + strconv.Itoa(d.ID) }

// optLetters: the options in the order the tag lists them
func (f fieldDef) optLetters() string {
	if !f.Tagged {
		return "-"
	}
	o := ""
	for _, c := range f.Order {
		if c == 'p' && f.Print {
			o += "p"
		}
		if c == 'c' && f.Clone {
			o += "c"
		}
	}
	if o == "" {
		return "-"
	}
	return o
}

// wire form: <name>:<tag name|~>:<options>:<embedded>:<zero>:<kind>:<raw tag>,… — the field as the
// generator's parser meets it (the model applies its own createField to the first five)
func (d *extDef) spec() string {
	if len(d.Fields) == 0 {
		return "-"
	}
	p := make([]string, len(d.Fields))
	for i, f := range d.Fields {
		tn := "~"
		if f.Tagged {
			tn = enc(f.PrintAs)
		}
		p[i] = fmt.Sprintf("%s:%s:%s:%s:%s:%s:%s", enc(f.Name), tn, f.optLetters(), b01(f.Embedded), enc(fieldKinds[f.Kind].render[0]), fieldKinds[f.Kind].name, enc(f.tag()))
	}
	return strings.Join(p, ",")
}

func b01(b bool) string {
	if b {
		return "1"
	}
	return "0"
}

var fieldNamePool = []string{"F0", "F1", "Zed", "Alpha", "Ab", "B", "Status_", "Mesg", "Über", "X9", "Aa", "Detail", "M", "Timeout", "Z"}
var printNamePool = []string{"_", "_", "_", "renamed", "grpc-status", "customer msg", "k", "ünicode", "a.b"}

// shadowNames: GError's exported fields.  An extension struct may declare its OWN field of such a
// name (of any type); it shadows the promoted one, and the generated code has to keep reading the
// embedded GError's.
var shadowNames = []string{"Source", "Name", "Message"}

func randDef(rng *rand.Rand, id int, skip bool) *extDef {
	d := &extDef{ID: id, Skip: skip, Domain: true}
	n := rng.Intn(7)
	perm := rng.Perm(len(fieldNamePool))
	for i := 0; i < n; i++ {
		kind := namedKindIdx[rng.Intn(plainKinds)]
		if rng.Intn(3) == 0 {
			kind = methodKindIdx[rng.Intn(len(methodKindIdx))]
		}
		f := fieldDef{Name: fieldNamePool[perm[i]], Kind: kind, Tagged: rng.Intn(6) != 0, PrintAs: printNamePool[rng.Intn(len(printNamePool))],
			Print: rng.Intn(2) == 0, Clone: rng.Intn(2) == 0, Order: []string{"pc", "cp"}[rng.Intn(2)], Extra: rng.Intn(5) == 0}
		d.Fields = append(d.Fields, f)
	}
	// own fields named like GError's exported fields
	if n > 0 && rng.Intn(3) == 0 {
		sp := rng.Perm(len(shadowNames))
		fp := rng.Perm(n)
		for k := 0; k < 1+rng.Intn(2) && k < n; k++ {
			d.Fields[fp[k]].Name = shadowNames[sp[k]]
		}
	}
	// anonymous (embedded) extra fields, tagged like any other: Go names them after their type
	if rng.Intn(2) == 0 {
		used := map[string]bool{}
		for k := 1 + rng.Intn(2); k > 0; k-- {
			kind := embedKindIdx[rng.Intn(len(embedKindIdx))]
			if used[fieldKinds[kind].embed] {
				continue
			}
			used[fieldKinds[kind].embed] = true
			f := fieldDef{Embedded: true, Name: fieldKinds[kind].embed, Kind: kind, Tagged: rng.Intn(8) != 0, PrintAs: printNamePool[rng.Intn(len(printNamePool))],
				Print: rng.Intn(3) != 0, Clone: rng.Intn(3) != 0, Order: []string{"pc", "cp"}[rng.Intn(2)]}
			if len(d.Fields) >= 6 {
				d.Fields = d.Fields[:5]
			}
			at := rng.Intn(len(d.Fields) + 1)
			d.Fields = append(d.Fields[:at], append([]fieldDef{f}, d.Fields[at:]...)...)
		}
	}
	return d
}

// directedDefs: definitions that are part of EVERY run (ids 901…): print-tagged fields of every
// kind whose type renders itself (String / Error / Format, value and pointer receivers, defined
// string / int / bool / struct types and pointers to them), and own fields named like GError's
// exported fields (string and non-string, every tag shape), also next to an embedded struct that
// has fields of those names.
func directedDefs() []*extDef {
	fd := func(name, kind, tag string) fieldDef {
		k := kindByName(kind)
		f := fieldDef{Name: name, Kind: k, Order: "pc", PrintAs: "_"}
		if fieldKinds[k].embed != "" && name == "" {
			f.Embedded, f.Name = true, fieldKinds[k].embed
		}
		// tag: "" untagged | [<print name>=]<p|c|pc|cp|->
		if tag != "" {
			f.Tagged = true
			if i := strings.IndexByte(tag, '='); i >= 0 {
				f.PrintAs, tag = tag[:i], tag[i+1:]
			}
			f.Print, f.Clone = strings.Contains(tag, "p"), strings.Contains(tag, "c")
			if strings.HasPrefix(tag, "c") {
				f.Order = "cp"
			}
		}
		return f
	}
	return []*extDef{
		{ID: 901, Domain: true, Fields: []fieldDef{fd("Code", "kstr", "p"), fd("Why", "kstrerr", "pc"), fd("How", "kstrfmt", "realm=p"), fd("Raw", "kstrptr", "cp"), fd("Both", "kstrboth", "p"), fd("Go", "kstrgo", "pc")}},
		{ID: 902, Skip: true, Domain: true, Fields: []fieldDef{fd("Errno", "kint", "p"), fd("Num", "kintfmt", "pc"), fd("Flag", "kbool", "p"), fd("Pair", "kpair", "pc"), fd("Box", "kbox", "p"), fd("PBox", "kpbox", "pc")}},
		{ID: 903, Domain: true, Fields: []fieldDef{fd("PStr", "kpstr", "pc"), fd("PF", "kstrptrfmt", "p"), fd("Code", "kstr", "c"), fd("Why", "kstrerr", ""), fd("Plain", "string", "p"), fd("Lbl", "kstr", "grpc-status=pc")}},
		{ID: 904, Domain: true, Fields: []fieldDef{fd("Source", "string", "pc"), fd("Name", "int", "p"), fd("Message", "kstr", "pc"), fd("F0", "int", "c")}},
		{ID: 905, Skip: true, Domain: true, Fields: []fieldDef{fd("Source", "status", "origin=pc"), fd("Name", "string", "c"), fd("Message", "bool", "p")}},
		{ID: 906, Domain: true, Fields: []fieldDef{fd("Source", "ptr", ""), fd("Name", "kstrerr", "p"), fd("Message", "string", "pc"), fd("", "kmeta", "pc")}},
		{ID: 907, Domain: true, Fields: []fieldDef{fd("", "kmeta", "meta=p"), fd("Code", "kstr", "pc")}},
		{ID: 908, Skip: true, Domain: true, Fields: []fieldDef{fd("Message", "int", "c"), fd("Source", "string", "-"), fd("Name", "strs", "pc")}},
		{ID: 909, Domain: true, Fields: []fieldDef{fd("Source", "string", "pc"), fd("Name", "string", "shown=p"), fd("Message", "string", "c")}},
		{ID: 910, Skip: true, Domain: true, Fields: []fieldDef{fd("Name", "string", "pc"), fd("Message", "string", "pc"), fd("Source", "string", "")}},
	}
}

// ---- scratch packages, generator run, probe --------------------------------------------------

type c09env struct {
	tmp    string
	probe  *exec.Cmd
	in     io.WriteCloser
	out    *bufio.Reader
	frames string
	defs   map[int]*extDef
}

func goListDir(hd, pkg string) (string, error) {
	c := exec.Command("go", "list", "-f", "{{.Dir}}", pkg)
	c.Dir = hd
	b, err := c.Output()
	return strings.TrimSpace(string(b)), err
}

func defsFile(pkg string, defs []*extDef) string {
	var b strings.Builder
	fmt.Fprintf(&b, "package %s\n\nimport (\n\t\"fmt\"\n\t\"time\"\n\n\t\"github.com/drshriveer/gtools/gerror\"\n)\n\nvar _ = fmt.Sprint\nvar _ time.Duration\nvar _ gerror.Factory\n\n", pkg)
	b.WriteString("// Pt is a small struct to point at.\ntype Pt struct{ A int }\n\n// Tenant, Code and Label are embedded anonymously by some definitions.\ntype Tenant struct{ ID, Region string }\n\ntype Code int\n\ntype Label string\n\n// Status is a named integer with a String method.\ntype Status int\n\nfunc (s Status) String() string {\n\tswitch s {\n\tcase 0:\n\t\treturn \"OK\"\n\tcase 3:\n\t\treturn \"InvalidArgument\"\n\t}\n\treturn \"UNKNOWN\"\n}\n\n")
	for _, d := range defs {
		fmt.Fprintf(&b, "type %s struct {\n\tgerror.GError\n", d.typeName())
		for _, f := range d.Fields {
			if f.Embedded {
				fmt.Fprintf(&b, "\t%s%s\n", fieldKinds[f.Kind].goType, f.tag())
			} else {
				fmt.Fprintf(&b, "\t%s %s%s\n", f.Name, fieldKinds[f.Kind].goType, f.tag())
			}
		}
		b.WriteString("}\n\n")
		if d.Skip {
			// what a user of -skipConvertGen has to write (same text as the repo's own example)
			fmt.Fprintf(&b, "func (e *%[1]s) Convert(err error) gerror.Error {\n\tif gerr, ok := err.(gerror.Error); ok {\n\t\treturn gerr\n\t}\n\tclone := gerror.CloneBase(e, gerror.SourceStack, \"\", \"\", fmt.Sprintf(\"originalError: %%+v\", err), err)\n\treturn e.toPrimaryType(clone)\n}\n\nfunc (e *%[1]s) ConvertS(err error) gerror.Error {\n\tif gerr, ok := err.(gerror.Error); ok {\n\t\treturn gerr\n\t}\n\tclone := gerror.CloneBase(e, gerror.DefaultStack, \"\", \"\", fmt.Sprintf(\"originalError: %%+v\", err), err)\n\treturn e.toPrimaryType(clone)\n}\n\n", d.typeName())
		}
	}
	return b.String()
}

func registryFile(pkg string, defs []*extDef) string {
	var b strings.Builder
	fmt.Fprintf(&b, "package %s\n\nimport (\n\t\"time\"\n\n\t\"github.com/drshriveer/gtools/gerror\"\n)\n\nvar _ time.Duration\n\n// Entry describes one generated type to the probe.\ntype Entry struct {\n\tFields []string\n\tNew    func(name, msg, src string, v []int) gerror.Factory\n}\n\n", pkg)
	for _, k := range fieldKinds {
		fmt.Fprintf(&b, "var vals_%s = []%s{%s}\n", k.name, k.goType, strings.Join(k.vals, ", "))
	}
	b.WriteString("\n// Registry maps definition ids to constructors.\nvar Registry = map[int]*Entry{\n")
	for _, d := range defs {
		names := make([]string, len(d.Fields))
		for i, f := range d.Fields {
			names[i] = strconv.Quote(f.Name)
		}
		fmt.Fprintf(&b, "\t%d: {Fields: []string{%s}, New: func(name, msg, src string, v []int) gerror.Factory {\n\t\treturn gerror.FactoryOf(&%s{GError: gerror.GError{Name: name, Message: msg, Source: src}", d.ID, strings.Join(names, ", "), d.typeName())
		for i, f := range d.Fields {
			fmt.Fprintf(&b, ", %s: vals_%s[v[%d]]", f.Name, fieldKinds[f.Kind].name, i)
		}
		b.WriteString("})\n\t}},\n")
	}
	b.WriteString("}\n")
	return b.String()
}

const probeMain = `// probe: interpreter of the "gx" lines on the generated extension types.
package main

import (
	"bufio"
	"fmt"
	"os"
	"reflect"
	"strconv"
	"strings"

	"github.com/drshriveer/gtools/gerror"
	"scratchc09/p0"
	"scratchc09/p1"
	"verif/harness/cmd/h-gerrclone/sites"
	"verif/harness/cmd/h-gerrclone/wire"
)

type entry struct {
	fields []string
	mk     func(name, msg, src string, v []int) gerror.Factory
}

type reg struct {
	ext, base gerror.Error
	fields    []string
}

var registry = map[int]entry{}
var regs = map[int]*reg{}
var defined = map[int]bool{}

// callBoth makes the same call on the extension value and on the plain GError from one function,
// in a fresh goroutine.
func callBoth(ext, base gerror.Factory, c *sites.Call) (re, rb gerror.Error, fr []string, panicked bool) {
	done := make(chan struct{})
	go func() {
		defer close(done)
		defer func() {
			if r := recover(); r != nil {
				panicked = true
			}
		}()
		re, fr = sites.Plain(ext, c)
		rb, _ = sites.Plain(base, c)
	}()
	<-done
	return
}

func fieldVals(e gerror.Error, fields []string) string {
	v := reflect.ValueOf(e)
	if v.Kind() == reflect.Ptr {
		v = v.Elem()
	}
	p := make([]string, len(fields))
	for i, f := range fields {
		fv := v.FieldByName(f)
		if !fv.IsValid() {
			p[i] = "?"
			continue
		}
		p[i] = wire.Enc(fmt.Sprintf("%v", fv.Interface()))
	}
	return "v=" + strings.Join(p, ",")
}

func cutStack(e gerror.Error) string {
	s := e.Error()
	if st := e.ErrStack(); len(st) > 0 {
		s = strings.TrimSuffix(s, "\n"+st.String())
	}
	return wire.Enc(s)
}

func exec(line string) string {
	ws := strings.Fields(line)
	if len(ws) >= 2 && ws[0] == "case" {
		regs = map[int]*reg{}
		defined = map[int]bool{}
		return line
	}
	if len(ws) < 2 || ws[0] != "gx" {
		return "bad-op"
	}
	switch ws[1] {
	case "frames":
		f := gerror.FactoryOf(&gerror.GError{Name: "calibrate"})
		_, _, fr, _ := callBoth(f, f, &sites.Call{Method: "Base"})
		return wire.EncFrames(fr)
	case "def":
		if len(ws) != 4 {
			return "bad-op"
		}
		id, err := strconv.Atoi(ws[2])
		if err != nil {
			return "bad-op"
		}
		if _, ok := registry[id]; !ok {
			return "unknown-def"
		}
		defined[id] = true
		return "ok"
	case "build":
		// the generated methods of this definition are compiled into this very program
		if len(ws) != 3 {
			return "bad-op"
		}
		id, err := strconv.Atoi(ws[2])
		if err != nil {
			return "bad-op"
		}
		if _, ok := registry[id]; !ok || !defined[id] {
			return "bad-def"
		}
		return "ok"
	case "new":
		// gx new <reg> <id> <name> <msg> <src> V:<renderings> I:<value indices>
		if len(ws) != 9 || !strings.HasPrefix(ws[7], "V:") || !strings.HasPrefix(ws[8], "I:") {
			return "bad-op"
		}
		r, e1 := strconv.Atoi(ws[2])
		id, e2 := strconv.Atoi(ws[3])
		n, ok1 := wire.Dec(ws[4])
		m, ok2 := wire.Dec(ws[5])
		s, ok3 := wire.Dec(ws[6])
		if e1 != nil || e2 != nil || !ok1 || !ok2 || !ok3 {
			return "bad-op"
		}
		en, ok := registry[id]
		if !ok || !defined[id] {
			return "bad-def"
		}
		var idx []int
		if w := ws[8][2:]; w != "" {
			for _, p := range strings.Split(w, ",") {
				k, err := strconv.Atoi(p)
				if err != nil {
					return "bad-op"
				}
				idx = append(idx, k)
			}
		}
		if len(idx) != len(en.fields) {
			return "bad-op"
		}
		ext := en.mk(n, m, s, idx).(gerror.Error)
		if got := fieldVals(ext, en.fields); got != "v="+ws[7][2:] {
			return "val-mismatch " + got
		}
		base := gerror.FactoryOf(&gerror.GError{Name: n, Message: m, Source: s}).(gerror.Error)
		regs[r] = &reg{ext: ext, base: base, fields: en.fields}
		return "ok"
	case "call":
		if len(ws) != 10 {
			return "bad-op"
		}
		d, e1 := strconv.Atoi(ws[2])
		r, e2 := strconv.Atoi(ws[3])
		if e1 != nil || e2 != nil {
			return "bad-op"
		}
		c, _, frames, problem := wire.ParseCallR(ws[4:], func(kind string, reg int) (error, bool) {
			// a foreign error wrapping the extension value (w, j) or its plain-GError twin (v, k)
			x, ok := regs[reg]
			if !ok {
				return nil, false
			}
			if kind == "w" || kind == "j" {
				return x.ext, true
			}
			return x.base, true
		})
		if problem != "" {
			return problem
		}
		src, ok := regs[r]
		if !ok {
			return "bad-reg"
		}
		ef, ok1 := src.ext.(gerror.Factory)
		bf, ok2 := src.base.(gerror.Factory)
		if !ok1 || !ok2 {
			return "not-a-factory"
		}
		re, rb, fr, panicked := callBoth(ef, bf, c)
		if panicked {
			return "panic"
		}
		if wire.EncFrames(fr) != frames {
			return "frames-mismatch"
		}
		regs[d] = &reg{ext: re, base: rb, fields: src.fields}
		if reflect.TypeOf(re) != reflect.TypeOf(src.ext) {
			return "result-type-" + reflect.TypeOf(re).String()
		}
		return wire.ObsOf(re) + " | " + wire.ObsOf(rb) + " | " + fieldVals(re, src.fields)
	case "err":
		if len(ws) != 3 {
			return "bad-op"
		}
		r, err := strconv.Atoi(ws[2])
		if err != nil {
			return "bad-op"
		}
		x, ok := regs[r]
		if !ok {
			return "bad-reg"
		}
		return cutStack(x.ext) + " | " + cutStack(x.base)
	}
	return "bad-op"
}

func main() {
	for id, e := range p0.Registry {
		registry[id] = entry{e.Fields, e.New}
	}
	for id, e := range p1.Registry {
		registry[id] = entry{e.Fields, e.New}
	}
	in := bufio.NewScanner(os.Stdin)
	in.Buffer(make([]byte, 1<<20), 1<<26)
	out := bufio.NewWriter(os.Stdout)
	for in.Scan() {
		func() {
			defer func() {
				if r := recover(); r != nil {
					fmt.Fprintln(out, "panic")
				}
			}()
			fmt.Fprintln(out, exec(in.Text()))
		}()
		out.Flush()
	}
}
`

func run(dir string, env []string, name string, args ...string) error {
	c := exec.Command(name, args...)
	c.Dir = dir
	c.Env = env
	out, err := c.CombinedOutput()
	if err != nil {
		return fmt.Errorf("%s %s (in %s): %v\n%s", name, strings.Join(args, " "), dir, err, out)
	}
	return nil
}

// setupC09 writes the scratch module, runs the real gerror CLI over it, builds and starts the probe.
func setupC09(defs []*extDef) (*c09env, error) {
	hd := harnessDir()
	if hd == "" {
		return nil, fmt.Errorf("harness directory not found")
	}
	tmp, err := os.MkdirTemp("", "verif-c09-")
	if err != nil {
		return nil, err
	}
	env := &c09env{tmp: tmp, defs: map[int]*extDef{}}
	fail := func(err error) (*c09env, error) { os.RemoveAll(tmp); return nil, err }
	uses := []string{"./scratch", hd}
	for _, m := range []string{"gerror", "gencommon", "set"} {
		d, err := goListDir(hd, "github.com/drshriveer/gtools/"+m)
		if err != nil {
			return fail(fmt.Errorf("go list %s: %v", m, err))
		}
		uses = append(uses, d)
	}
	work := "go 1.23.0\n\nuse (\n"
	for _, u := range uses {
		work += "\t" + u + "\n"
	}
	work += ")\n"
	var byPkg [2][]*extDef
	for _, d := range defs {
		env.defs[d.ID] = d
		k := 0
		if d.Skip {
			k = 1
		}
		byPkg[k] = append(byPkg[k], d)
	}
	files := map[string]string{
		"go.work":                   work,
		"scratch/go.mod":            "module scratchc09\n\ngo 1.23.0\n",
		"scratch/cmd/probe/main.go": probeMain,
	}
	for k, pkg := range []string{"p0", "p1"} {
		files["scratch/"+pkg+"/defs.go"] = defsFile(pkg, byPkg[k])
		files["scratch/"+pkg+"/registry.go"] = registryFile(pkg, byPkg[k])
		files["scratch/"+pkg+"/ktypes.go"] = strings.Replace(kindsTypesSrc, "package kinds", "package "+pkg, 1)
	}
	for name, body := range files {
		p := filepath.Join(tmp, name)
		os.MkdirAll(filepath.Dir(p), 0o755)
		if err := os.WriteFile(p, []byte(body), 0o644); err != nil {
			return fail(err)
		}
	}
	// go.work.sum: reuse the harness's
	if b, err := os.ReadFile(filepath.Join(hd, "go.work.sum")); err == nil {
		os.WriteFile(filepath.Join(tmp, "go.work.sum"), b, 0o644)
	}
	genv := append(os.Environ(), "GOFLAGS=", "GOWORK="+filepath.Join(tmp, "go.work"))
	cli := filepath.Join(tmp, "gerror-cli")
	if err := run(hd, os.Environ(), "go", "build", "-o", cli, "github.com/drshriveer/gtools/gerror/cmd/gerror"); err != nil {
		return fail(err)
	}
	for k, pkg := range []string{"p0", "p1"} {
		if len(byPkg[k]) == 0 {
			continue
		}
		names := make([]string, len(byPkg[k]))
		for i, d := range byPkg[k] {
			names[i] = d.typeName()
		}
		args := []string{"-types", strings.Join(names, ",")}
		if k == 1 {
			args = append(args, "-skipConvertGen")
		}
		pdir := filepath.Join(tmp, "scratch", pkg)
		// as go:generate would run it: in the package directory, $GOFILE and $PWD set
		if err := run(pdir, append(genv, "GOFILE=defs.go", "PWD="+pdir), cli, args...); err != nil {
			return fail(err)
		}
	}
	probe := filepath.Join(tmp, "probe")
	if err := run(filepath.Join(tmp, "scratch"), genv, "go", "build", "-o", probe, "./cmd/probe"); err != nil {
		// which definitions' generated code does not compile?  (read before the scratch tree goes)
		if bad := culprits(err.Error(), filepath.Join(tmp, "scratch")); len(bad) > 0 {
			err = &buildFailure{msg: err.Error(), bad: bad}
		}
		return fail(err)
	}
	env.probe = exec.Command(probe)
	env.probe.Stderr = os.Stderr
	env.in, _ = env.probe.StdinPipe()
	so, _ := env.probe.StdoutPipe()
	env.out = bufio.NewReaderSize(so, 1<<20)
	if err := env.probe.Start(); err != nil {
		return fail(err)
	}
	env.frames = env.ask("gx frames")
	return env, nil
}

// buildFailure: the scratch packages did not compile, and every compiler message points into the
// generated methods of the listed definitions (id -> class of the first message).
type buildFailure struct {
	msg string
	bad map[int]string
}

func (b *buildFailure) Error() string { return b.msg }

var reGenErr = regexp.MustCompile(`(?m)^(?:\./)?(p[01])/defs\.gerror\.go:(\d+):\d+: (.*)$`)
var reOtherErr = regexp.MustCompile(`(?m)^(?:\./)?[\w/.]+\.go:\d+:\d+: `)
var reRecv = regexp.MustCompile(`^func \(e \*X(\d+)\) `)

func classifyCompile(msg string) string {
	switch {
	case strings.Contains(msg, "ambiguous selector"):
		return "ambiguous-selector"
	case strings.Contains(msg, "mismatched types") || strings.Contains(msg, "cannot use") || strings.Contains(msg, "cannot convert") || strings.Contains(msg, "invalid argument"):
		return "type-mismatch"
	case strings.Contains(msg, "undefined"):
		return "undefined"
	case strings.Contains(msg, "declared and not used") || strings.Contains(msg, "imported and not used"):
		return "unused"
	}
	return "other"
}

// culprits maps the compiler's messages to the definitions whose generated methods they are in.
// It answers nothing unless EVERY message lies inside a generated method (a message elsewhere
// means the batch as a whole is broken, which stays a setup failure).
func culprits(out, scratch string) map[int]string {
	bad := map[int]string{}
	gen := reGenErr.FindAllStringSubmatch(out, -1)
	if len(gen) == 0 || len(reOtherErr.FindAllString(out, -1)) != len(gen) {
		return nil
	}
	src := map[string][]string{}
	for _, m := range gen {
		pkg := m[1]
		if src[pkg] == nil {
			b, err := os.ReadFile(filepath.Join(scratch, pkg, "defs.gerror.go"))
			if err != nil {
				return nil
			}
			src[pkg] = strings.Split(string(b), "\n")
		}
		ln, _ := strconv.Atoi(m[2])
		id := -1
		for i := ln - 1; i >= 0 && i < len(src[pkg]); i-- {
			if r := reRecv.FindStringSubmatch(src[pkg][i]); r != nil {
				id, _ = strconv.Atoi(r[1])
				break
			}
		}
		if id < 0 {
			return nil
		}
		if _, ok := bad[id]; !ok {
			bad[id] = classifyCompile(m[3])
		}
	}
	return bad
}

// setupIsolating is setupC09, except that definitions whose generated code does not compile are set
// aside (and reported one by one, each with its definition) instead of failing the whole batch.
func setupIsolating(defs []*extDef) (*c09env, map[int]string, map[int]*extDef, error) {
	failed := map[int]string{}
	failedDefs := map[int]*extDef{}
	for round := 0; ; round++ {
		env, err := setupC09(defs)
		if err == nil {
			return env, failed, failedDefs, nil
		}
		bf, ok := err.(*buildFailure)
		if !ok || round >= 3 {
			return nil, failed, failedDefs, err
		}
		fmt.Fprintln(os.Stderr, "C09: generated code of some definitions does not compile:\n"+bf.msg)
		var rest []*extDef
		for _, d := range defs {
			if cls, isBad := bf.bad[d.ID]; isBad {
				failed[d.ID] = cls
				failedDefs[d.ID] = d
			} else {
				rest = append(rest, d)
			}
		}
		if len(rest) == len(defs) {
			return nil, failed, failedDefs, err
		}
		defs = rest
	}
}

func (e *c09env) ask(line string) string {
	if _, err := io.WriteString(e.in, line+"\n"); err != nil {
		return "probe-dead"
	}
	s, err := e.out.ReadString('\n')
	if err != nil {
		return "probe-dead"
	}
	return strings.TrimRight(s, "\n")
}

func (e *c09env) close() {
	if e.in != nil {
		e.in.Close()
	}
	if e.probe != nil {
		e.probe.Wait()
	}
	os.RemoveAll(e.tmp)
}

// gxImpl forwards every line to the probe.
type gxImpl struct {
	env     *c09env
	failed  map[int]string // definitions whose generated code did not compile -> class
	defined map[int]bool   // failed definitions this case has defined so far
}

func (g *gxImpl) Reset() { g.defined = map[int]bool{} }
func (g *gxImpl) Exec(line string) string {
	if ws := strings.Fields(line); len(ws) >= 3 && ws[0] == "gx" && (ws[1] == "def" || ws[1] == "build") {
		if id, err := strconv.Atoi(ws[2]); err == nil {
			if cls, bad := g.failed[id]; bad {
				// not in the probe: the generator wrote code for it (exit 0) that does not compile
				switch {
				case ws[1] == "def":
					g.defined[id] = true
					return "ok"
				case !g.defined[id]:
					return "bad-def"
				}
				return "fail:" + cls
			}
		}
	}
	return g.env.ask(line)
}

// ---- cases ---------------------------------------------------------------------------------

// parseDefLine rebuilds a definition from a `gx def` line and the `gx new … I:` line of a stored
// case (replay, corpus): kinds are not on the wire, so they are recovered from the zero rendering.
func defsFromLines(lines []string, into map[int]*extDef, skip map[int]bool) {
	for _, l := range lines {
		ws := strings.Fields(l)
		if len(ws) == 4 && ws[0] == "gx" && ws[1] == "def" {
			id, err := strconv.Atoi(ws[2])
			if err != nil {
				continue
			}
			d := &extDef{ID: id, Skip: skip[id], Domain: true}
			if ws[3] != "-" {
				for _, fs := range strings.Split(ws[3], ",") {
					p := strings.Split(fs, ":")
					if len(p) != 7 {
						continue
					}
					n, _ := dec(p[0])
					pa := ""
					if p[1] != "~" {
						pa, _ = dec(p[1])
					}
					raw, _ := dec(p[6])
					kind := 0
					for k, fk := range fieldKinds {
						if fk.name == p[5] {
							kind = k
						}
					}
					if raw == "" {
						raw = " "
					}
					d.Fields = append(d.Fields, fieldDef{Embedded: p[3] == "1", RawTag: raw, Name: n, Kind: kind, Tagged: p[1] != "~", PrintAs: pa,
						Print: strings.Contains(p[2], "p"), Clone: strings.Contains(p[2], "c"), Order: "pc"})
				}
			}
			into[id] = d
		}
	}
}

func caseSkip(lines []string) map[int]bool {
	m := map[int]bool{}
	if len(lines) > 0 {
		for _, w := range strings.Fields(lines[0]) {
			if strings.HasPrefix(w, "skip=") {
				for _, s := range strings.Split(w[5:], ",") {
					if id, err := strconv.Atoi(s); err == nil {
						m[id] = true
					}
				}
			}
		}
	}
	return m
}

type c09gen struct {
	rng    *rand.Rand
	frames string
}

func takesStack(m string) bool { return m == "Stack" || strings.HasSuffix(m, "S") }

// call builds one `gx call`; wrapRegs are registers holding values without a stack (their Error()
// text is then fully predictable), usable as the gerror value a foreign error wraps.
func (g *c09gen) call(dst, reg int, m string, wrapRegs []int) string {
	rng := g.rng
	var params []string
	formatted, format := "", ""
	var elems []elemSpec
	for _, role := range paramRoles[m] {
		switch role {
		case "src":
			s := randArg(rng)
			if rng.Intn(4) == 0 {
				s = ""
			}
			params = append(params, s)
		case "dtag":
			params = append(params, randArg(rng))
		case "fmt":
			format = randArg(rng)
			params = append(params, format)
		}
	}
	if hasRole(m, "fmt") {
		elems = randElems(rng)
		vals := make([]any, len(elems))
		for i, e := range elems {
			vals[i] = e.Value()
		}
		formatted = fmt.Sprintf(format, vals...)
	}
	if m == "Convert" || m == "ConvertS" {
		e := elemSpec{Kind: []string{"N", "W", "Z", "C", "P"}[rng.Intn(5)], Val: randArg(rng)}
		if e.Kind == "Z" {
			e.Val = ""
		}
		elems = []elemSpec{e}
		formatted = fmt.Sprintf("%+v", e.ErrValue())
		if len(wrapRegs) > 0 && rng.Intn(2) == 0 {
			// not a gerror itself but wrapping one (%w / errors.Join; around the extension value or its
			// plain twin): the base type converts it like any foreign error, so must the generated type
			k := string(wire.WrapKinds[rng.Intn(len(wire.WrapKinds))])
			elems = []elemSpec{{Kind: k, Val: strconv.Itoa(wrapRegs[rng.Intn(len(wrapRegs))])}}
			formatted = ""
		}
	}
	ps := make([]string, len(params))
	for i, p := range params {
		ps[i] = enc(p)
	}
	return fmt.Sprintf("gx call %d %d %s plain F:%s P:%s S:%s %s", dst, reg, m, enc(formatted), strings.Join(ps, ","), g.frames, encElems(elems))
}

func (g *c09gen) caseFor(d *extDef, preset int, tuples int) hx.Case {
	rng := g.rng
	msg, src := "", ""
	if preset&1 != 0 {
		msg = []string{"preset message", " padded ", "hé"}[rng.Intn(3)]
	}
	if preset&2 != 0 {
		src = []string{"preset:Source", "pkg:T:fn"}[rng.Intn(2)]
	}
	header := "case gx"
	if d.Skip {
		header += " skip=" + strconv.Itoa(d.ID)
	}
	lines := []string{header, fmt.Sprintf("gx def %d %s", d.ID, d.spec()), fmt.Sprintf("gx build %d", d.ID)}
	rend := make([]string, len(d.Fields))
	idx := make([]string, len(d.Fields))
	for i, f := range d.Fields {
		k := rng.Intn(len(fieldKinds[f.Kind].vals))
		rend[i] = enc(fieldKinds[f.Kind].render[k])
		idx[i] = strconv.Itoa(k)
	}
	lines = append(lines, fmt.Sprintf("gx new 0 %d %s %s %s V:%s I:%s", d.ID, enc("ErrX"+strconv.Itoa(d.ID)), enc(msg), enc(src), strings.Join(rend, ","), strings.Join(idx, ",")), "gx err 0")
	reg1Stackless := false
	methods := methodNames
	if d.Skip {
		methods = methodNames[:17] // Convert/ConvertS are the user's own code there
	}
	for t := 0; t < tuples; t++ {
		for _, m := range methods {
			// register 0 (the factory) never has a stack; register 1 once it holds a stack-free result
			wrap := []int{0}
			if t > 0 || m != methods[0] {
				if reg1Stackless {
					wrap = append(wrap, 1)
				}
			}
			lines = append(lines, g.call(1, 0, m, wrap))
			reg1Stackless = !takesStack(m)
			switch rng.Intn(6) {
			case 0:
				lines = append(lines, "gx err 1")
			case 1:
				// continue the chain from the derived extension error
				w2 := []int{0}
				if reg1Stackless {
					w2 = append(w2, 1)
				}
				lines = append(lines, g.call(2, 1, methods[rng.Intn(len(methods))], w2), "gx err 2")
			}
		}
	}
	lines = append(lines, "gx err 0")
	tags := []string{fmt.Sprintf("fields-%d", len(d.Fields)), fmt.Sprintf("preset-%d", preset)}
	if d.Skip {
		tags = append(tags, "skipConvertGen")
	}
	tags = append(tags, shapeTags(d)...)
	for _, l := range lines {
		if w := strings.Fields(l); len(w) == 10 && w[1] == "call" && len(w[9]) > 3 && strings.Contains(wire.WrapKinds, w[9][2:3]) && strings.HasPrefix(w[4], "Convert") {
			tags = append(tags, "wrapped-gerror-input")
			break
		}
	}
	return hx.Case{Domain: d.Domain, Nontrivial: true, Tags: tags, Lines: lines}
}

// shapeTags: which generator classes a definition belongs to (counted in the evidence)
func shapeTags(d *extDef) []string {
	seen := map[string]bool{}
	var tags []string
	add := func(t string) {
		if !seen[t] {
			seen[t] = true
			tags = append(tags, t)
		}
	}
	isMethodKind := map[int]bool{}
	for _, k := range methodKindIdx {
		isMethodKind[k] = true
	}
	for _, f := range d.Fields {
		if f.Embedded {
			add("embedded-field")
			if fieldKinds[f.Kind].name == "kmeta" {
				add("embedded-struct-with-fields-named-like-GError's")
			}
		}
		if isMethodKind[f.Kind] {
			add("field-type-with-fmt-method")
			if f.Tagged && f.Print {
				add("print-field-type-with-fmt-method")
				if strings.HasPrefix(fieldKinds[f.Kind].name, "kstr") {
					add("print-field-defined-string-with-fmt-method")
				}
			}
		}
		if !f.Embedded {
			for _, n := range shadowNames {
				if f.Name == n {
					add("own-field-shadowing-GError." + n)
					if fieldKinds[f.Kind].goType == "string" {
						add("shadowing-field-of-type-string")
					} else {
						add("shadowing-field-of-another-type")
					}
				}
			}
		}
	}
	return tags
}

func runC09(f *hx.Flags) {
	rule := "random extension structs (0-6 extra fields of 9 assorted types and of 15 defined string/int/bool/struct/pointer types that have their own String/Error/Format/GoString method on value or pointer receivers - how %v renders their values is asked of fmt by the harness, apart from any generated code; untagged / print / clone / both in either order / renamed / extra tag keys; own fields NAMED Source / Name / Message that shadow the embedded GError's, of string and other types; an embedded struct with fields of those names) plus 10 fixed definitions covering each of these classes, half of them generated with -skipConvertGen, all produced by the real gerror CLI into two scratch packages and compiled with a probe program; for each definition and each of the 4 presets (empty/preset Message x Source) all 19 (17 with -skipConvertGen) methods are called with random arguments on the extension factory and on a plain GError with the same base fields from the same function, some chains continued one step; observed: name, message, source, detail tag, stack length of both results, every extra field of the extension result, and Error() of both without the stack text. The expected answers are the specification's (plain-GError semantics, clone fields copied, others zero, print fields sorted under their print names). non-trivial: every case; distinct by request lines"
	impl := &gxImpl{}
	r := hx.NewRunner(f, "h-gerrclone", impl, rule)
	r.KeyOf = func(d *hx.Disagreement) string {
		ws := strings.Fields(d.Request)
		switch {
		case len(ws) >= 5 && ws[1] == "call":
			return "C09:call:" + ws[4]
		case len(ws) >= 2 && ws[1] == "build":
			return "C09:build:" + d.Impl
		case len(ws) >= 2:
			return "C09:" + ws[1]
		}
		return "C09:?"
	}
	rng := r.Rng
	nDefs := 24
	tuples := 3
	if f.Tier == "thorough" {
		nDefs, tuples = 400, 5
	}
	nDefs = r.N(nDefs)
	defs := map[int]*extDef{}
	var stored []hx.Case
	if f.Replay != "" {
		// the definitions of a replay are the ones its lines carry
		rf, lines := readReplayLines(f.Replay)
		_ = rf
		defsFromLines(lines, defs, caseSkip(lines))
	} else {
		stored = readCorpus(f.Corpus)
		for _, c := range stored {
			defsFromLines(c.Lines, defs, caseSkip(c.Lines))
		}
		for i := 0; i < nDefs; i++ {
			id := 1000 + i
			defs[id] = randDef(rng, id, i%2 == 1)
		}
		// out-of-domain: a print name holding a format verb (the template pastes it into a format string)
		odd := &extDef{ID: 900, Domain: false, Fields: []fieldDef{{Name: "Pct", Kind: 0, Tagged: true, PrintAs: "100%", Print: true, Clone: true, Order: "pc"}}}
		defs[odd.ID] = odd
		for _, d := range directedDefs() {
			defs[d.ID] = d
		}
	}
	ids := []int{}
	for id := range defs {
		ids = append(ids, id)
	}
	sort.Ints(ids)
	list := make([]*extDef, len(ids))
	for i, id := range ids {
		list[i] = defs[id]
	}
	env, failed, failedDefs, err := setupIsolating(list)
	impl.failed = failed
	if err != nil {
		// the generator or its output does not build for these definitions: that is a finding in itself
		fmt.Fprintln(os.Stderr, "C09 setup failed:", err)
		r.Res.Notes["setup"] = err.Error()
		r.Res.Disagreements = append(r.Res.Disagreements, hx.Disagreement{Case: hx.Case{Lines: []string{"case gx setup"}, Domain: true}, Request: "setup", Impl: "generator-or-build-failed: " + firstLine(err.Error()), Model: "ok", Key: "C09:setup"})
		r.Finish()
		return
	}
	defer env.close()
	impl.env = env
	if r.HandleReplay() {
		return
	}
	for _, c := range stored {
		c.Tags = append(c.Tags, "corpus")
		r.Add(c)
	}
	r.Res.Extra["corpus_cases"] = len(stored)
	r.Res.Extra["definitions"] = len(list)
	g := &c09gen{rng: rng, frames: env.frames}
	// the generator accepted these definitions and wrote methods that do not compile: one case each
	// (definition + `gx build`), so that the replay names the definition
	var failedIDs []int
	for id := range failedDefs {
		failedIDs = append(failedIDs, id)
	}
	sort.Ints(failedIDs)
	for _, id := range failedIDs {
		d := failedDefs[id]
		header := "case gx"
		if d.Skip {
			header += " skip=" + strconv.Itoa(d.ID)
		}
		r.Add(hx.Case{Domain: d.Domain, Nontrivial: true, Tags: append([]string{"generated-code-does-not-compile"}, shapeTags(d)...),
			Lines: []string{header, fmt.Sprintf("gx def %d %s", d.ID, d.spec()), fmt.Sprintf("gx build %d", d.ID)}})
	}
	r.Res.Extra["definitions_not_compiling"] = len(failedIDs)
	for _, d := range list {
		if d.ID < 900 || failedDefs[d.ID] != nil {
			continue // corpus-only definitions; definitions without a compiled type
		}
		for preset := 0; preset < 4; preset++ {
			r.Add(g.caseFor(d, preset, tuples))
		}
	}
	r.Finish()
}

func readReplayLines(path string) (*hx.ReplayFile, []string) {
	b, err := os.ReadFile(path)
	if err != nil {
		return nil, nil
	}
	var rf hx.ReplayFile
	if json.Unmarshal(b, &rf) != nil {
		return nil, nil
	}
	if len(rf.Dis.Shrunk) > 0 {
		return &rf, rf.Dis.Shrunk
	}
	return &rf, rf.Dis.Case.Lines
}

func readCorpus(dir string) []hx.Case {
	if dir == "" {
		return nil
	}
	ents, err := os.ReadDir(dir)
	if err != nil {
		return nil
	}
	var names []string
	for _, e := range ents {
		if strings.HasSuffix(e.Name(), ".json") {
			names = append(names, e.Name())
		}
	}
	sort.Strings(names)
	var out []hx.Case
	for _, n := range names {
		b, err := os.ReadFile(filepath.Join(dir, n))
		if err != nil {
			continue
		}
		var c hx.Case
		if json.Unmarshal(b, &c) == nil && len(c.Lines) > 0 {
			out = append(out, c)
		}
	}
	return out
}

func firstLine(s string) string {
	if i := strings.IndexByte(s, '\n'); i >= 0 {
		return s[:i]
	}
	return s
}

import Model.GConfigCache
/-! REGENERATED on every run by harness/cmd/extract-gconfig from /repo/gconfig/config.go (getFromCache, /repo/gconfig/config.go:73:7).
Do not edit. -/
namespace Generated.GConfigKey
def memoKeyKind : GConfigCache.KeyKind := .pair
end Generated.GConfigKey

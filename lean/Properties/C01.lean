import Lemmas.GSyncInv
import Lemmas.GSyncSum
/-!
# C01 — a Wait channel is never released while the count stayed above zero

`run true (init true progs) sched` ranges over every client program (any number of goroutines,
any calls) and every schedule of any length at the granularity of single atomic / mutex / close
operations.  `zeroSeen s.sh r` is the exact judgement "the counter was zero at some instant
between the start of the Wait that returned `r` and now"; the property's conservative judgement
(lower bound of the count stayed > 0) can only fire when the exact one does.
-/
namespace GSync

/-- C01.  A channel obtained from `Wait()` is observed closed only if the count was zero at some
instant since that `Wait` call started — for every program and every schedule along which the
callers do not drive the count negative. -/
theorem wait_chan_closed_imp_zeroSeen (progs : List (List Call)) (sched : List Nat)
    (hnn : NonNeg true (init true progs) sched) :
    ∀ t ∈ (run true (init true progs) sched).threads, ∀ r ∈ t.recs,
      isClosed (run true (init true progs) sched).sh r.ch = true →
      zeroSeen (run true (init true progs) sched).sh r = true := by
  intro t ht r hr hcl
  have hinv := reachable_inv progs sched hnn
  obtain ⟨i, hi⟩ := List.mem_iff_getElem?.1 ht
  have hrec := (hinv.th i t hi).recs r hr
  simp only [zeroSeen, decide_eq_true_eq]
  rcases hrec.seen with h | ⟨hne, heq⟩
  · exact h
  · exfalso
    simp only [isClosed, Bool.or_eq_true, beq_iff_eq, List.contains_iff_mem] at hcl
    rcases hcl with h0 | hmem
    · exact hne h0
    · exact hinv.sh.wopen (by rw [← heq]; exact hne) (by rw [← heq]; exact hmem)

/-- The same, for any reachable starting state (e.g. a group that is already in use). -/
theorem wait_chan_closed_imp_zeroSeen_from (s : St) (hs : Inv s) (sched : List Nat)
    (hnn : NonNeg true s sched) :
    ∀ t ∈ (run true s sched).threads, ∀ r ∈ t.recs,
      isClosed (run true s sched).sh r.ch = true → zeroSeen (run true s sched).sh r = true := by
  intro t ht r hr hcl
  have hinv := run_inv s sched hs hnn
  obtain ⟨i, hi⟩ := List.mem_iff_getElem?.1 ht
  have hrec := (hinv.th i t hi).recs r hr
  simp only [zeroSeen, decide_eq_true_eq]
  rcases hrec.seen with h | ⟨hne, heq⟩
  · exact h
  · exfalso
    simp only [isClosed, Bool.or_eq_true, beq_iff_eq, List.contains_iff_mem] at hcl
    rcases hcl with h0 | hmem
    · exact hne h0
    · exact hinv.sh.wopen (by rw [← heq]; exact hne) (by rw [← heq]; exact hmem)

/-- The conservative judgement of the property can only be stricter than the exact one: in every
reachable state the lower bound of the count (increments that have returned plus decrements
that have merely been called) is at most the counter.  So at the instant the counter is zero —
which `wait_chan_closed_imp_zeroSeen` guarantees to exist in the interval — the lower bound is
not positive, and a monitor that reports only when the lower bound stayed > 0 over the whole
interval cannot fire. -/
theorem lb_le_count (progs : List (List Call)) (sched : List Nat) :
    lb (run true (init true progs) sched).threads ≤ (run true (init true progs) sched).sh.count :=
  lb_le_count_of_inv2 _ (run_inv2 _ sched (init_inv2 progs))

/-- C01 for self-balanced client programs (every goroutine only decrements what it incremented
before), with no semantic hypothesis left: for every such program and EVERY schedule. -/
theorem wait_chan_closed_imp_zeroSeen_selfBalanced (progs : List (List Call)) (hb : SelfBalanced progs)
    (sched : List Nat) :
    ∀ t ∈ (run true (init true progs) sched).threads, ∀ r ∈ t.recs,
      isClosed (run true (init true progs) sched).sh r.ch = true →
      zeroSeen (run true (init true progs) sched).sh r = true :=
  wait_chan_closed_imp_zeroSeen progs sched (selfBalanced_nonneg progs hb sched)

/-- Mutual exclusion of `Add`'s critical section, in every reachable state. -/
theorem add_mutual_exclusion (progs : List (List Call)) (sched : List Nat)
    (hnn : NonNeg true (init true progs) sched) (i j : Nat) (t u : Thread)
    (hi : (run true (init true progs) sched).threads[i]? = some t)
    (hj : (run true (init true progs) sched).threads[j]? = some u)
    (hci : inCrit t.pc = true) (hcj : inCrit u.pc = true) : i = j := by
  have hinv := reachable_inv progs sched hnn
  have h1 := (hinv.th i t hi).mutex.1 hci
  have h2 := (hinv.th j u hj).mutex.1 hcj
  rw [h1] at h2; exact Option.some.inj h2

/-- The algorithm at the pinned commit violates C01: two goroutines, 13 steps.  `A: Inc; Dec`,
`B: Wait; Add(1); Add(2); Wait`.  A's Dec is preempted after its counter update; B's second
Wait obtains the open channel while the count is 3; A resumes, swaps in the sentinel and closes
B's channel although the count never returned to zero since that Wait started. -/
theorem legacy_violates_C01 :
    let s := run false (init false [[.add 1, .add (-1)], [.wait, .add 1, .add 2, .wait]])
      [0, 0, 0, 1, 1, 1, 1, 1, 1, 1, 1, 0, 0]
    ∃ t ∈ s.threads, ∃ r ∈ t.recs, isClosed s.sh r.ch = true ∧ zeroSeen s.sh r = false ∧
      0 < s.sh.count := by
  decide

/-- non-vacuity: under the current algorithm the hypotheses are met by a non-trivial reachable
state: count 2, a waiter holding the open channel 1 (`A: Inc; Dec`, `B: Wait; Add 1; Add 2; Wait`,
A's Inc complete, B's Wait and first Add complete). -/
example :
    let s := run true (init true [[.add 1, .add (-1)], [.wait, .add 1, .add 2, .wait]])
      [0, 0, 0, 0, 1, 1, 1, 1, 1]
    s.sh.count = 2 ∧ s.sh.wchan = 1 ∧
      (∃ t ∈ s.threads, ∃ r ∈ t.recs, r.ch = 1 ∧ isClosed s.sh r.ch = false ∧ zeroSeen s.sh r = true) := by
  decide

end GSync

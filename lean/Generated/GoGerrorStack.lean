import Model.GoPrelude
import Model.GoStrings
/-! REGENERATED on every run by harness/cmd/go2lean -spec gerrorstack from gerror/stack.go. Do not edit.
Each definition follows the Go function of the same name statement by statement (Model/GoPrelude.lean and
Model/GoStrings.lean fix the meaning of the primitives: strings are character lists, slices are lists, ints
are natural numbers with a checked subtraction, strings.Split/Join/HasPrefix/TrimSuffix and strconv.Itoa are
defined there).  A labelled `break L` out of nested loops is the flag `brk_L`.  What comes from the runtime is
the parameter `env`: `runtime.Caller(1)`'s pc, the pcs `runtime.Callers(skip, …)` finds, `pcToStackElem`. -/
set_option linter.unusedVariables false
namespace Generated.GoGerrorStack

/-- `type StackElem struct` (field order of the source) -/
structure StackElem where
  Name : Go.Str
  File : Go.Str
  LineNumber : Nat
  deriving DecidableEq, Inhabited

/-- what stack.go takes from the runtime -/
structure Env (π : Type) where
  /-- `pc, _, _, _ := runtime.Caller(1)` inside getCurrentPackage: the pc of its caller -/
  callerPC : π
  /-- `runtime.Callers(skip, pcs)`: the pcs of the goroutine's stack after `skip` frames, innermost first;
  as many of them as fit are written to `pcs` (`Go.fillPrefix`) -/
  callers : Nat → List π
  /-- `pcToStackElem` (runtime.FuncForPC, FileLine) -/
  pcToStackElem : π → StackElem

def defaultSkip : Nat := 4

variable {π : Type} [Inhabited π]

/-- `func (s Stack) String() string` -/
def Stack.String (s : List StackElem) : Go.M (Go.Str) := do
  let mut sb : Go.Str := []
  for e in s do
    sb := sb ++ ((Go.str "\n") ++ e.Name)
    sb := sb ++ ((((Go.str "\n\t") ++ e.File) ++ (Go.str ":")) ++ (Go.Strings.itoa e.LineNumber))
  return sb

/-- `func getCurrentPackage() (string, bool)` -/
def getCurrentPackage (env : Env π) : Go.M (Go.Str × Bool) := do
  let mut pc : π := env.callerPC
  let mut splitName : List Go.Str := (Go.Strings.split (env.pcToStackElem pc).Name (Go.str "."))
  if ((List.length splitName) == 0) then
    return ((Go.str ""), false)
  return ((Go.Strings.join (← Go.listSlice splitName 0 (← Go.intSub (List.length splitName) 1)) (Go.str ".")), true)

/-- `func (s Stack) NearestExternal() StackElem` -/
def Stack.NearestExternal (env : Env π) (s : List StackElem) : Go.M (StackElem) := do
  let r1 ← getCurrentPackage env
  let mut pkgName : Go.Str := r1.1
  let mut ok : Bool := r1.2
  if ok then
    for elem in s do
      if (!(Go.Strings.hasPrefix elem.Name pkgName)) then
        return elem
  return (← Go.listGet s 0)

/-- `func (e StackElem) SourceInfo() (packageName string, parts []string)` -/
def StackElem.SourceInfo (e : StackElem) : Go.M (Go.Str × List Go.Str) := do
  let mut packageName : Go.Str := (Go.str "")
  let mut parts : List Go.Str := []
  let mut splitName : List Go.Str := (Go.Strings.split e.Name (Go.str "/"))
  let mut last : Go.Str := (← Go.listGet splitName (← Go.intSub (List.length splitName) 1))
  last := (Go.Strings.trimSuffix last (Go.str "[...]"))
  let mut vals : List Go.Str := (Go.Strings.split last (Go.str "."))
  if (decide ((List.length vals) ≥ 1)) then
    packageName := (← Go.listGet vals 0)
    vals := (← Go.listSlice vals 1 (List.length vals))
  for (i, val) in Go.indexed vals do
    if ((Go.Strings.hasPrefix val (Go.str "func")) || (val == (Go.str ""))) then
      vals := (← Go.listSlice vals 0 i)
      break
  return (packageName, vals)

/-- `func (e StackElem) Metric() string` -/
def StackElem.Metric (e : StackElem) : Go.M (Go.Str) := do
  let delim : Go.Str := (Go.str ":")
  let r1 ← StackElem.SourceInfo e
  let mut pkg : Go.Str := r1.1
  let mut theRest : List Go.Str := r1.2
  let mut brk_outer : Bool := false
  for i in List.range' 1 ((List.length theRest) - 1) do
    let mut curr : Go.Str := (← Go.listGet theRest i)
    for j in List.range' 0 (i - 0) do
      if (curr == (← Go.listGet theRest j)) then
        theRest := (← Go.listSlice theRest 0 i)
        brk_outer := true
        break
    if brk_outer then
      break
  return ((pkg ++ delim) ++ (Go.Strings.join theRest delim))

/-- `func makeStack(depth StackType, skip StackSkip) Stack` -/
def makeStack (env : Env π) (depth : Nat) (skip : Nat) : Go.M (List StackElem) := do
  let mut pcs : List π := (List.replicate depth default)
  let r1 := Go.fillPrefix (env.callers skip) pcs
  pcs := r1.1
  let mut n : Nat := r1.2
  pcs := (← Go.listSlice pcs 0 n)
  let mut stack : List StackElem := (List.replicate n default)
  for i in List.range (List.length stack) do
    stack := (← Go.listSet stack i (env.pcToStackElem (← Go.listGet pcs i)))
  return stack

end Generated.GoGerrorStack

import Model.TmplAst
/-! REGENERATED on every run by harness/cmd/go2lean -spec gsorttmpl from gsort/gen/gsort.gotmpl (text/template/parse). Do not edit.
`lessBody`: what the template writes between `func (s {{$desc.SortTypeName}}) Less(i, j int) bool {` and the
closing brace, dot = $desc (a SorterDesc); `defs`: the defined templates it calls.  See Model/TmplAst.lean. -/
namespace Generated.GSortTmpl
open TmplAst

/-- `{{define "PriorityBlock"}}` -/
def tmpl0 : List Node :=
  [.cond "HasNest" [.text "if s[i].", .field "Accessor", .text " == s[j].", .field "Accessor", .text " {", .call "PriorityBlock" "Nest", .text "\n}"] [], .text "\nreturn ", .field "String"]

/-- the defined templates by name -/
def defs : String → Option (List Node) := fun n =>
  if n = "PriorityBlock" then some tmpl0 else
  none

/-- the body of the generated `Less` -/
def lessBody : List Node :=
  [.call "PriorityBlock" "PriorityTree"]

end Generated.GSortTmpl

import Model.GSort
/-!
# The Go source text of a comparison chain (core Lean only)

`Cmp` (Model/GSort.lean) is the syntax tree of the body of a generated `Less`.  `Cmp.text` spells
it as Go source - byte for byte what `gsort/gen/gsort.gotmpl` writes before `gofmt` lays it out
(statements start on a new line, no indentation):

    if s[i].A == s[j].A {
    <body>
    }
    return <e>

`Properties/C08Tie.lean` proves that rendering the template extracted from /repo on the chain the
translated `PriorityTree` builds yields exactly this text of the model's chain.
-/
namespace GSort

/-- the expression after `return` -/
def RetExpr.text : RetExpr → String
  | .lt a => "s[i]." ++ a ++ " < " ++ "s[j]." ++ a
  | .selJ a => "s[j]." ++ a
  | .notIAndJ a => "!s[i]." ++ a ++ " && s[j]." ++ a

/-- the statements of the body -/
def Cmp.text : Cmp → String
  | .ret e => "\nreturn " ++ e.text
  | .ifEq acc body e =>
    "if s[i]." ++ acc ++ " == s[j]." ++ acc ++ " {" ++ body.text ++ "\n}" ++ "\nreturn " ++ e.text

end GSort

package main

import (
	"encoding/hex"
	"fmt"
	"math/big"
	"sort"
	"strconv"
	"strings"

	"verif/harness/internal/hx"
)

var colTypes = []string{"string", "Str", "int", "Sm", "int16", "time.Duration", "uint8", "uint64", "Un", "bool", "rune"}
var colWords = map[string]string{"string": "Label", "Str": "Tag", "int": "Num", "Sm": "Small", "int16": "Mid", "time.Duration": "Dur", "uint8": "Byte", "uint64": "Big", "Un": "Port", "bool": "Flag", "rune": "Rn", "int8": "Tiny", "uint16": "Word"}

// scalarPool hands out pairwise distinct constants: strings never look like identifiers, integers
// are distinct across ALL numeric columns of the type (so a number names at most one value).
type scalarPool struct {
	g       *gen
	usedInt map[string]bool
	usedStr map[string]bool
	emptyOK bool // hand out the empty string once
	big     bool // 64-bit columns also draw constants of magnitude >= 2^53 that float64 represents exactly
	inner   string     // name of the pre-generated enum used as a trait type
	innerV  []*big.Int // its unused values
}

func (p *scalarPool) str() string {
	// incl. constants with a blank at either end: a decoder that trims its input no longer finds them
	words := []string{"lab-1", "x y", "ten", "a.b", "zero!", "q", "Lab-1", "two words", "v/1", "#tag", "né", "1st", "-", "tr ue", "warn: ", " w", " pad ", "tail\t"}
	if p.emptyOK && !p.usedStr[""] && p.g.rng.Intn(3) == 0 {
		p.usedStr[""] = true
		return ""
	}
	for {
		w := words[p.g.rng.Intn(len(words))]
		if p.g.rng.Intn(3) == 0 {
			w += strconv.Itoa(p.g.rng.Intn(50))
		}
		ascii := true
		for _, c := range []byte(w) {
			if c < 0x20 || c > 0x7e {
				ascii = false
			}
		}
		if ascii && !p.usedStr[w] && !isIdent(w) {
			if _, err := strconv.ParseFloat(w, 64); err == nil {
				continue
			}
			p.usedStr[w] = true
			return w
		}
	}
}

func (p *scalarPool) intIn(lo, hi int64) int64 {
	for {
		var v int64
		switch p.g.rng.Intn(4) {
		case 0:
			v = lo + int64(p.g.rng.Intn(int(min64(hi-lo, 40))+1))
		case 1:
			v = hi - int64(p.g.rng.Intn(int(min64(hi-lo, 40))+1))
		default:
			v = int64(p.g.rng.Intn(61) - 20)
			if v < lo || v > hi {
				continue
			}
		}
		if !p.usedInt[strconv.FormatInt(v, 10)] {
			p.usedInt[strconv.FormatInt(v, 10)] = true
			return v
		}
	}
}

func min64(a, b int64) int64 {
	if a < b {
		return a
	}
	return b
}

// bigExact: constants of 64-bit integer traits that a float64 holds exactly while their
// neighbours +-1 are not representable (a decoder that goes through float64 cannot tell them apart)
func bigExact(unsigned bool) []*big.Int {
	p := func(k uint) *big.Int { return new(big.Int).Lsh(bi(1), k) }
	sub := func(a *big.Int, b int64) *big.Int { return new(big.Int).Sub(a, bi(b)) }
	add := func(a *big.Int, b int64) *big.Int { return new(big.Int).Add(a, bi(b)) }
	l := []*big.Int{p(53), add(p(53), 2), p(55), p(60), p(62), sub(p(63), 1024), add(p(60), 256), sub(p(62), 512)}
	if unsigned {
		return append(l, p(63), add(p(63), 2048), sub(p(64), 2048), sub(p(64), 4096))
	}
	return append(l, new(big.Int).Neg(p(53)), new(big.Int).Neg(p(55)), new(big.Int).Neg(add(p(60), 256)), new(big.Int).Neg(p(63)), new(big.Int).Neg(sub(p(63), 1024)))
}

func (p *scalarPool) bigScalar(unsigned bool) (string, bool) {
	if !p.big || p.g.rng.Intn(2) != 0 {
		return "", false
	}
	l := bigExact(unsigned)
	for _, k := range p.g.rng.Perm(len(l)) {
		if !p.usedInt[l[k].String()] {
			p.usedInt[l[k].String()] = true
			return "i:" + l[k].String(), true
		}
	}
	return "", false
}

func (p *scalarPool) scalar(ty string, row int) string {
	if ty == "int" || ty == "time.Duration" || ty == "uint64" {
		if sc, ok := p.bigScalar(ty == "uint64"); ok {
			return sc
		}
	}
	switch {
	case p.inner != "" && ty == p.inner:
		// distinct from every integer constant of the other columns as well: where the inner type
		// has no unmarshaler for a codec its numerals are read by that codec's integer block
		var free []int
		for k, v := range p.innerV {
			if !p.usedInt[v.String()] {
				free = append(free, k)
			}
		}
		if len(free) == 0 {
			return "i:0"
		}
		k := free[p.g.rng.Intn(len(free))]
		v := p.innerV[k]
		p.innerV = append(p.innerV[:k:k], p.innerV[k+1:]...)
		p.usedInt[v.String()] = true
		return "i:" + v.String()
	case ty == "string" || strings.HasPrefix(ty, "Str"):
		return "s:" + hexOf2(p.str())
	case ty == "bool":
		if row%2 == 0 {
			return "b:f"
		}
		return "b:t"
	case ty == "rune":
		for {
			v := int64('a' + p.g.rng.Intn(26))
			if !p.usedInt[strconv.FormatInt(v, 10)] {
				p.usedInt[strconv.FormatInt(v, 10)] = true
				return "i:" + strconv.FormatInt(v, 10)
			}
		}
	case ty == "int":
		return "i:" + strconv.FormatInt(p.intIn(-1000, 100000), 10)
	case strings.HasPrefix(ty, "Sm"), ty == "int8":
		return "i:" + strconv.FormatInt(p.intIn(-128, 127), 10)
	case ty == "int16":
		return "i:" + strconv.FormatInt(p.intIn(-32768, 32767), 10)
	case ty == "time.Duration":
		return "i:" + strconv.FormatInt(p.intIn(-5, 4000000000000), 10)
	case ty == "uint8":
		return "i:" + strconv.FormatInt(p.intIn(0, 255), 10)
	case strings.HasPrefix(ty, "Un"), ty == "uint16":
		return "i:" + strconv.FormatInt(p.intIn(0, 65535), 10)
	case ty == "uint64":
		if p.g.rng.Intn(3) == 0 {
			for {
				v := new(big.Int).Sub(new(big.Int).Lsh(bi(1), 64), bi(int64(1+p.g.rng.Intn(50))))
				if !p.usedInt[v.String()] {
					p.usedInt[v.String()] = true
					return "i:" + v.String()
				}
			}
		}
		return "i:" + strconv.FormatInt(p.intIn(0, 1<<40), 10)
	}
	return "i:0"
}

func hexOf2(s string) string { // s:<hex> with an empty payload for the empty string
	if s == "" {
		return ""
	}
	return fmt.Sprintf("%x", s)
}

// traitShape steers traitDef: random by default, with the shaped classes switched on per field.
type traitShape struct {
	opts        string
	maxCols     int
	dups        bool     // one or two random duplicate names
	families    []string // column type families to draw from (without repetition)
	fixedCols   []string // if set: exactly these column families, in this order (repeats allowed:
	//                      distinct named types sharing an underlying type)
	allParsable bool
	rowless     bool     // some non-lowest values are declared without trait columns
	emptyStr    bool     // one string trait constant may be the empty string
	dupGroups   []string // deprecation patterns (alphabetical order, d/L): each pattern gets a value of
	//                      its own whose names all carry DIFFERENT trait constants
	nTypes      int
	nConsts     int
	selfCol     bool // a column whose type is ANOTHER enum of the file, generated by an earlier invocation
	//                  (it unmarshals itself from the codecs ITS invocation switched on)
	innerFlags  string // with selfCol: option letters of the inner enum's own invocation (c J Y T; "-" = all
	//                    codecs), `h...` = a hand-written type with the unmarshalers the letters leave;
	//                    "" = the inner enum shares the options of the outer one
	innerKind   string // with selfCol: underlying kind of the inner type ("" = drawn from int, u8, i16, uint)
	onlySelfParsable bool // with selfCol: the column of the inner type is the ONLY parsable one
	big         bool // 64-bit integer columns draw constants >= 2^53 that float64 holds exactly
	sharedNames bool // the types of the file share their trait NAMES (`_Name` on one, `Name` on the other)
}

func (g *gen) traitDef(opts string, maxCols int, wantDups bool, families []string) *Def {
	return g.shapedDef(traitShape{opts: opts, maxCols: maxCols, dups: wantDups, families: families})
}

// shapedDef: a definition file whose types carry 1-5 trait columns.
func (g *gen) shapedDef(sh traitShape) *Def {
	rng := g.rng
	n := g.nextSerial()
	opts := sh.opts
	d := &Def{Opts: opts}
	nTypes := sh.nTypes
	if nTypes == 0 {
		nTypes = 1
		if rng.Intn(4) == 0 {
			nTypes = 2
		}
	}
	// the pre-generated enum used as a trait type: plain, 24 values, one alias
	innerName, innerKind := "", ""
	var innerItems []Item
	var innerVals []*big.Int
	if sh.selfCol {
		innerName = fmt.Sprintf("E%di", n)
		ikind := []string{"int", "u8", "i16", "uint"}[rng.Intn(4)]
		if sh.innerKind != "" {
			ikind = sh.innerKind
		}
		ifold := strings.Contains(opts, "c")
		if sh.innerFlags != "" {
			ifold = strings.Contains(sh.innerFlags, "c")
			d.PreFlags = map[string]string{innerName: sh.innerFlags}
		}
		innerKind = ikind
		inm := &namer{rng: rng, prefix: fmt.Sprintf("C%di", n), fold: ifold, used: map[string]bool{}}
		form := "i"
		for v := 0; v < 24; v++ {
			innerItems = append(innerItems, Item{What: "const", T: innerName, Name: inm.next(), Val: bi(int64(v)), Form: form})
			innerVals = append(innerVals, bi(int64(v)))
			form = "r"
		}
		innerItems = append(innerItems, Item{What: "const", T: innerName, Name: inm.next(), Val: bi(int64(rng.Intn(24))), Dep: rng.Intn(2) == 0, Form: "x"})
		defer func() {
			d.Types = append(d.Types, TypeD{Name: innerName, Kind: ikind})
			d.Pre = append(d.Pre, innerName)
			d.Items = append(d.Items, Item{What: "block"})
			d.Items = append(d.Items, innerItems...)
		}()
	}
	for ti := 0; ti < nTypes; ti++ {
		kind := g.nextKind()
		lo, hi := kindRange(kind)
		t := fmt.Sprintf("E%d%c", n, 'a'+ti)
		pre := fmt.Sprintf("C%d%c", n, 'a'+ti)
		td := TypeD{Name: t, Kind: kind}
		var fams []string
		if len(sh.fixedCols) > 0 {
			fams = sh.fixedCols
		} else if sh.maxCols > 0 {
			nCols := 1 + rng.Intn(sh.maxCols)
			perm := rng.Perm(len(sh.families))
			for j := 0; j < nCols && j < len(sh.families); j++ {
				fams = append(fams, sh.families[perm[j]])
			}
		}
		for j, ty := range fams {
			word := colWords[ty]
			sfx := byte('a' + ti*5 + j)
			if ty == "Str" || ty == "Sm" || ty == "Un" {
				ty = fmt.Sprintf("%s%d%c", ty, n, sfx)
			}
			c := Col{Name: fmt.Sprintf("%s%d%c", word, n, sfx), Ty: ty, Fam: famOfTy(ty)}
			if sh.sharedNames {
				// the same trait name on every type of the file: `_Name` here, `Name` there
				c.Name = fmt.Sprintf("%s%d%c", word, n, 'a'+j)
				c.Spelling = []string{"u", "x"}[ti%2]
			}
			td.Cols = append(td.Cols, c)
		}
		if sh.selfCol {
			iflags := opts
			if sh.innerFlags != "" {
				iflags = sh.innerFlags
			}
			c := Col{Name: fmt.Sprintf("Skin%d%c", n, 'a'+ti), Ty: innerName, Fam: "own:" + innerName + ":" + innerKind + ":" + methodLetters(iflags)}
			if sh.sharedNames {
				c.Name = fmt.Sprintf("Skin%d", n)
				c.Spelling = []string{"u", "x"}[ti%2]
			}
			td.Cols = append(td.Cols, c)
		}
		// parsable subset
		for _, c := range td.Cols {
			_, _, own := innerOfFam(c.Fam)
			if sh.onlySelfParsable && !own {
				continue
			}
			if sh.allParsable || rng.Intn(3) != 0 || own {
				dup := false
				for _, p := range d.Parsable {
					if p == c.Name {
						dup = true
					}
				}
				if !dup {
					d.Parsable = append(d.Parsable, c.Name)
				}
			}
		}
		d.Types = append(d.Types, td)
		pool := &scalarPool{g: g, usedInt: map[string]bool{}, usedStr: map[string]bool{}, emptyOK: sh.emptyStr, big: sh.big,
			inner: innerName, innerV: append([]*big.Int{}, innerVals...)}
		nC := sh.nConsts
		if nC == 0 {
			nC = 2 + rng.Intn(7)
			if rng.Intn(6) == 0 {
				nC = 16 + rng.Intn(4)
			}
		}
		if nC < len(sh.dupGroups)+1 {
			nC = len(sh.dupGroups) + 1
		}
		start := bi(0)
		if lo.Sign() < 0 && rng.Intn(3) == 0 {
			start = bi(int64(-1 - rng.Intn(3)))
		}
		if rng.Intn(5) == 0 {
			start = new(big.Int).Set(lo)
		}
		nm := &namer{rng: rng, prefix: pre, fold: strings.Contains(opts, "c"), used: map[string]bool{}}
		if ti > 0 {
			d.Items = append(d.Items, Item{What: "block"})
		}
		tvals := func(row int) []string {
			var r []string
			for _, c := range td.Cols {
				r = append(r, pool.scalar(c.Ty, row))
			}
			return r
		}
		var lines []Item
		v := new(big.Int).Set(start)
		rowlessDone := false
		for i := 0; i < nC && v.Cmp(hi) <= 0; i++ {
			if i >= 1 && i <= len(sh.dupGroups) {
				// a duplicated value: one name per pattern letter, alphabetical order = pattern order,
				// every line with trait constants of its own; source order rotated
				pat := sh.dupGroups[i-1]
				var grp []Item
				for k := 0; k < len(pat); k++ {
					it := Item{What: "const", T: t, Name: nm.take(fmt.Sprintf("G%d%c", i, 'A'+k)), Val: new(big.Int).Set(v), Form: "x", Dep: pat[k] == 'd'}
					if rng.Intn(5) == 0 {
						it.Form = "xn"
					}
					it.TVals = tvals(i + k)
					grp = append(grp, it)
				}
				rot := rng.Intn(len(grp))
				grp = append(grp[rot:], grp[:rot]...)
				lines = append(lines, grp...)
			} else {
				it := Item{What: "const", T: t, Name: nm.next(), Val: new(big.Int).Set(v), Form: "c"}
				if rng.Intn(4) == 0 {
					it.Form = "x"
				}
				if i > 0 && rng.Intn(4) == 0 {
					it.Form += "n"
				}
				// the lowest value's line declares the traits; later values may have no trait columns
				if i > 0 && sh.rowless && (rng.Intn(3) == 0 || (!rowlessDone && i == nC-1)) {
					rowlessDone = true
				} else {
					it.TVals = tvals(i)
				}
				lines = append(lines, it)
			}
			step := int64(1)
			if rng.Intn(5) == 0 {
				step = int64(2 + rng.Intn(5))
			}
			v = new(big.Int).Add(v, bi(step))
		}
		if sh.dups && len(lines) > 1 {
			nd := 1 + rng.Intn(2)
			for k := 0; k < nd; k++ {
				src := lines[1+rng.Intn(len(lines)-1)] // never the lowest value: its first name declares the traits
				dup := Item{What: "const", T: t, Name: nm.next(), Val: src.Val, Form: "x"}
				switch rng.Intn(3) {
				case 0: // deprecated alias with trait columns of its own (ignored in favour of the primary)
					dup.Dep = true
					dup.TVals = tvals(k)
				case 1: // deprecated alias without trait columns
					dup.Dep = true
				default: // a second live name (the generator warns); with or without columns
					if rng.Intn(2) == 0 {
						dup.TVals = tvals(k)
					}
				}
				lines = append(lines, dup)
			}
		}
		d.Items = append(d.Items, lines...)
	}
	return d
}

// yamlNames: identifiers that mean something to YAML / JSON readers
var yamlNames = []string{"Null", "null", "NULL", "True", "False", "Yes", "No", "On", "Off", "Y", "N", "yes", "no", "on", "off", "y", "n", "TRUE", "NaN", "Inf"}

// yamlNamesDef: an enum whose VALUE NAMES are YAML/JSON-significant identifiers (only one such
// definition fits a package: the names are not prefixed). One value is duplicated so that a
// significant name is also a primary name picked among aliases.
func (g *gen) yamlNamesDef(opts string) *Def {
	rng := g.rng
	n := g.nextSerial()
	t := fmt.Sprintf("E%da", n)
	d := &Def{Opts: opts, Types: []TypeD{{Name: t, Kind: g.nextKind()}}}
	fold := strings.Contains(opts, "c")
	seen := map[string]bool{}
	var names []string
	for _, i := range rng.Perm(len(yamlNames)) {
		nm := yamlNames[i]
		k := nm
		if fold {
			k = strings.ToLower(nm)
		}
		if !seen[k] {
			seen[k] = true
			names = append(names, nm)
		}
	}
	// the three spellings of null first (as far as the fold allows), then the others
	sort.SliceStable(names, func(i, j int) bool {
		return strings.EqualFold(names[i], "null") && !strings.EqualFold(names[j], "null")
	})
	if len(names) > 14 {
		names = names[:14]
	}
	for i, nm := range names {
		form := "r"
		if i == 0 {
			form = "i"
		}
		d.Items = append(d.Items, Item{What: "const", T: t, Name: nm, Val: bi(int64(i)), Form: form})
	}
	// deprecated alias sorting BEFORE a significant name: the significant name stays primary
	d.Items = append(d.Items, Item{What: "block"},
		Item{What: "const", T: t, Name: fmt.Sprintf("AAlias%d", n), Val: bi(0), Dep: true, Form: "x"})
	return d
}

// primaryOf: the primary constant of each value of type t (first live name, else first name).
func primaryOf(d *Def, t string) map[string]Item {
	groups := map[string][]Item{}
	for _, it := range d.constsOf(t) {
		groups[it.Val.String()] = append(groups[it.Val.String()], it)
	}
	res := map[string]Item{}
	for k, grp := range groups {
		sort.Slice(grp, func(i, j int) bool { return grp[i].Name < grp[j].Name })
		p := grp[0]
		for _, it := range grp {
			if !it.Dep {
				p = it
				break
			}
		}
		res[k] = p
	}
	return res
}

func codecsOf(opts string) []string {
	var cs []string
	if !strings.Contains(opts, "J") {
		cs = append(cs, "json")
	}
	if !strings.Contains(opts, "T") {
		cs = append(cs, "text")
	}
	if !strings.Contains(opts, "Y") {
		cs = append(cs, "yaml")
	}
	return cs
}

func valsArgOf(kind string, consts []Item, g *gen) string {
	bits, _, _, _ := kindInfo(kind)
	if bits == 8 {
		return "all"
	}
	return g.valueList(kind, consts)
}

func definedList(consts []Item) string {
	seen := map[string]bool{}
	var vs []*big.Int
	for _, it := range consts {
		if !seen[it.Val.String()] {
			seen[it.Val.String()] = true
			vs = append(vs, it.Val)
		}
	}
	sort.Slice(vs, func(i, j int) bool { return vs[i].Cmp(vs[j]) < 0 })
	ss := make([]string, len(vs))
	for i, v := range vs {
		ss[i] = v.String()
	}
	return strings.Join(ss, ",")
}

// emitC05: marshal / round trip of every defined value and the rejection documents, per codec.
func (g *gen) emitC05(defs []*Def, domain bool) {
	g.w.prepare(defs)
	for _, d := range defs {
		g.nDefs++
		defLines := append(d.Lines(), "gn gen")
		for _, td := range d.Types {
			if d.isHand(td.Name) {
				continue // a hand-written trait type is no enum: nothing of C05 to ask about it
			}
			g.nTypes++
			consts := d.constsOf(td.Name)
			hdr := fmt.Sprintf("case gn %d %s", g.nDefs, td.Name)
			defined := definedList(consts)
			parsable := map[string]bool{}
			for _, p := range d.Parsable {
				parsable[p] = true
			}
			for _, codec := range codecsOf(d.flagsOf(td.Name)) {
				lines := append([]string{hdr + " " + codec}, defLines...)
				// Values()/StringValues() first: the probe mutates the returned slices in place
				// (caller-owned), every later answer must be unaffected
				lines = append(lines, "gn values "+td.Name, "gn strvals "+td.Name)
				lines = append(lines, "gn marshal "+td.Name+" "+codec+" "+defined, "gn rt "+td.Name+" "+codec+" "+defined)
				if codec != "text" {
					lines = append(lines, "gn rtf "+td.Name+" "+codec+" "+defined)
				}
				docs := map[string]bool{}
				var order []string
				add := func(doc string) {
					if !docs[doc] {
						docs[doc] = true
						order = append(order, doc)
					}
				}
				sdoc := func(s string) {
					for _, c := range []byte(s) {
						if c < 0x20 || c > 0x7e {
							return
						}
					}
					add("s:" + hexOf2(s))
				}
				// names and near misses
				for i, it := range consts {
					if i < 5 {
						sdoc(it.Name)
						sdoc(strings.ToLower(it.Name))
						sdoc(it.Name + "x")
						sdoc(it.Name[:len(it.Name)-1])
						sdoc(" " + it.Name)
						sdoc(it.Val.String())
						add("n:" + it.Val.String())
					}
				}
				sdoc("")
				sdoc("garbage")
				sdoc("true")
				sdoc("Undefined" + td.Name + ":0")
				for _, w := range []string{"0", "1", "-1", "7", "255", "256", "65536", "4294967296", "18446744073709551615", "18446744073709551616", "-9223372036854775808", "-9223372036854775809"} {
					add("n:" + w)
				}
				add("o:" + hexOf2("true"))
				add("o:" + hexOf2("1.5"))
				add("o:" + hexOf2("+5"))
				add("o:" + hexOf2("1e3"))
				// trait constants: parsable ones decode, non-parsable ones are rejected
				for _, it := range consts {
					for j, sc := range it.TVals {
						if j >= len(td.Cols) {
							continue
						}
						k, p, _ := strings.Cut(sc, ":")
						switch k {
						case "s":
							add("s:" + p)
							// case variants of a string trait constant are no constants (also under -caseInsensitive)
							if raw, err := hex.DecodeString(p); err == nil {
								sdoc(strings.ToUpper(string(raw)))
								sdoc(swapCase(string(raw)))
							}
						case "i":
							add("n:" + p)
							if x, ok := new(big.Int).SetString(p, 10); ok {
								for _, off := range []int64{1, -1, 256, 65536, -256} {
									add("n:" + new(big.Int).Add(x, bi(off)).String())
								}
								add("s:" + hexOf2(p))
								// float spellings of an integer constant are no integer documents
								add("n:" + p + ".0")
								add("n:" + p + "e0")
								if x.BitLen() > 53 {
									for _, off := range []int64{2, -2, 3, 128, -128, 1024} {
										add("n:" + new(big.Int).Add(x, bi(off)).String())
									}
								}
							}
						}
					}
				}
				for j, c := range td.Cols {
					inner, _, own := innerOfFam(c.Fam)
					if !own {
						continue
					}
					// the trait type's own documents: names of its values (all aliases), near misses; its
					// numerals are among the trait constants above. Which of the two decodes depends on
					// the unmarshalers the type has for THIS codec.
					ip := primaryOf(d, inner)
					for _, it := range consts {
						if j < len(it.TVals) {
							_, p, _ := strings.Cut(it.TVals[j], ":")
							if pr, ok := ip[p]; ok {
								sdoc(pr.Name)
								sdoc(pr.Name + "x")
								sdoc(strings.ToLower(pr.Name))
								sdoc(strings.ToUpper(pr.Name))
							}
						}
					}
					for _, it := range d.constsOf(inner) {
						if _, used := ip[it.Val.String()]; used && ip[it.Val.String()].Name != it.Name {
							sdoc(it.Name) // an alias of a used inner value
						}
					}
				}
				for i := 0; i < 6; i++ {
					sdoc(g.randomWord())
				}
				for _, doc := range order {
					lines = append(lines, "gn dec "+td.Name+" "+codec+" "+doc)
					g.nParse++
				}
				lines = append(lines, "gn strvals "+td.Name, "gn values "+td.Name, "gn str "+td.Name+" "+defined, "gn valid "+td.Name+" "+defined,
					"gn marshal "+td.Name+" "+codec+" "+defined)
				tags := []string{"codec:" + codec, "opts:" + d.Opts, "kind:" + td.Kind, fmt.Sprintf("cols:%d", len(td.Cols))}
				np := 0
				for _, c := range td.Cols {
					if parsable[c.Name] {
						if inner, m, own := innerOfFam(c.Fam); own {
							// the trait type by its unmarshalers and where it stands, not by its serial name
							alone := "alone-in-its-integer-block"
							for _, c2 := range td.Cols {
								if c2.Name != c.Name && parsable[c2.Name] && len(c2.Fam) > 1 && (c2.Fam[0] == 's' || c2.Fam[0] == 'u') && c2.Fam != "ustr" &&
									(c2.Fam[0] == 'u') == isUnsignedKind(d.kindOf(inner)) {
									alone = "next-to-an-integer-trait"
								}
							}
							hand := "generated"
							if d.isHand(inner) {
								hand = "hand-written"
							}
							tags = append(tags, "parsable:own:"+m+":"+hand+":"+alone)
						} else {
							tags = append(tags, "parsable:"+c.Fam)
						}
						np++
					}
				}
				if len(dupPatterns(d, td.Name)) > 0 {
					tags = append(tags, "duplicates")
				}
				rowless, significant := false, false
				for _, it := range consts {
					if len(td.Cols) > 0 && len(it.TVals) == 0 {
						rowless = true
					}
					for _, y := range yamlNames {
						if it.Name == y {
							significant = true
						}
					}
					for _, sc := range it.TVals {
						if sc == "s:" {
							tags = append(tags, "empty-string-trait")
						}
					}
				}
				if rowless {
					tags = append(tags, "value-without-trait-row")
				}
				if significant {
					tags = append(tags, "yaml-significant-names")
				}
				g.r.Add(hx.Case{Lines: lines, Domain: domain, Nontrivial: np > 0 || significant || len(dupPatterns(d, td.Name)) > 0, Tags: tags})
			}
		}
	}
}

func (g *gen) randomWord() string {
	const al = "ABCXYZabcxyz019_ :-"
	l := 1 + g.rng.Intn(6)
	b := make([]byte, l)
	for k := range b {
		b[k] = al[g.rng.Intn(len(al))]
	}
	return string(b)
}

// emitC12: accessors on every value, Parse<T> of every trait constant, decoding of scalars that
// hold a parsable trait constant (checked against the property: the owning value).
func (g *gen) emitC12(defs []*Def, domain bool) {
	g.w.prepare(defs)
	for _, d := range defs {
		g.nDefs++
		defLines := append(d.Lines(), "gn gen")
		parsable := map[string]bool{}
		for _, p := range d.Parsable {
			parsable[p] = true
		}
		for _, td := range d.Types {
			if d.isHand(td.Name) {
				continue
			}
			g.nTypes++
			consts := d.constsOf(td.Name)
			hdr := fmt.Sprintf("case gn %d %s", g.nDefs, td.Name)
			va := valsArgOf(td.Kind, consts, g)
			lines := append([]string{hdr + " accessors"}, defLines...)
			tags := []string{"kind:" + td.Kind, fmt.Sprintf("cols:%d", len(td.Cols))}
			if len(dupPatterns(d, td.Name)) > 0 {
				tags = append(tags, "duplicates")
			}
			for _, c := range td.Cols {
				lines = append(lines, "gn trait "+td.Name+" "+c.Name+" "+va)
				tags = append(tags, "col:"+c.Fam+":"+tyBase(c.Ty))
				g.nValueQ++
			}
			// Parse<T> of typed trait constants (every line's constants, near misses)
			for _, it := range consts {
				for j, sc := range it.TVals {
					if j >= len(td.Cols) {
						continue
					}
					lines = append(lines, "gn ptrait "+td.Name+" "+td.Cols[j].Name+" "+sc)
					g.nParse++
					if k, p, _ := strings.Cut(sc, ":"); k == "i" {
						if x, ok := new(big.Int).SetString(p, 10); ok && td.Cols[j].Fam != "none" {
							y := new(big.Int).Add(x, bi(1))
							if _, ok := traitExpr(td.Cols[j].Ty, "i:"+y.String()); ok && fitsFam(td.Cols[j].Fam, y) {
								lines = append(lines, "gn ptrait "+td.Name+" "+td.Cols[j].Name+" i:"+y.String())
							}
						}
					}
				}
			}
			lines = append(lines, "gn values "+td.Name, "gn strvals "+td.Name)
			for i, it := range consts {
				if i < 4 {
					lines = append(lines, "gn parse "+td.Name+" "+hexOf(it.Name))
				}
			}
			lines = append(lines, "gn values "+td.Name, "gn strvals "+td.Name, "gn str "+td.Name+" "+definedList(consts))
			g.r.Add(hx.Case{Lines: lines, Domain: domain, Nontrivial: true, Tags: tags})
			// decode-by-trait, per parsable column; families without a decoder branch under their own key
			prim := primaryOf(d, td.Name)
			for j, c := range td.Cols {
				if !parsable[c.Name] {
					continue
				}
				lines := append([]string{hdr + " decode " + c.Name}, defLines...)
				nHdr := len(lines)
				has := map[string]bool{}
				for _, cd := range codecsOf(d.flagsOf(td.Name)) {
					has[cd] = true
				}
				var codecs []string // the decoders the type was generated with
				for _, cd := range []string{"json", "yaml"} {
					if has[cd] {
						codecs = append(codecs, cd)
					}
				}
				if (c.Fam == "ustr" || c.Fam == "nstr") && has["text"] {
					codecs = append(codecs, "text")
				}
				for _, it := range consts {
					if j >= len(it.TVals) || prim[it.Val.String()].Name != it.Name {
						continue // only the primary definition's constants belong to the value
					}
					for _, codec := range codecs {
						lines = append(lines, "gn sdec "+td.Name+" "+codec+" "+c.Name+" "+it.TVals[j])
						g.nParse++
					}
				}
				if inner, _, own := innerOfFam(c.Fam); own {
					// the trait type decodes itself from its NAME where it has the codec's unmarshaler and
					// is a plain integer type where it has not: per codec the OTHER document (bare numeral
					// resp. name), near-miss names and the name as text must be rejected (or belong to
					// another trait's constant); compared with the decoder model
					ip := primaryOf(d, inner)
					for _, it := range consts {
						if j >= len(it.TVals) {
							continue
						}
						_, p, _ := strings.Cut(it.TVals[j], ":")
						pr, ok := ip[p]
						if !ok {
							continue
						}
						for _, codec := range codecs {
							lines = append(lines, "gn dec "+td.Name+" "+codec+" n:"+p,
								"gn dec "+td.Name+" "+codec+" s:"+hexOf2(pr.Name),
								"gn dec "+td.Name+" "+codec+" s:"+hexOf2(pr.Name+"x"),
								"gn dec "+td.Name+" "+codec+" s:"+hexOf2(strings.ToLower(pr.Name)))
						}
						if has["text"] {
							lines = append(lines, "gn dec "+td.Name+" text s:"+hexOf2(pr.Name), "gn dec "+td.Name+" text s:"+hexOf2(p))
						}
					}
				}
				key := ""
				ty := tyBase(c.Ty)
				if ty == "bool" || ty == "rune" {
					// families the pinned template has no decoder branch for, under their own key
					key = "C12:decode:" + ty + "-trait"
				}
				if len(lines) == nHdr {
					continue // the type has no decoder this column could be read by
				}
				famTag := c.Fam
				if inner, m, own := innerOfFam(c.Fam); own {
					famTag, ty = "own:"+m, "generated-enum"
					if d.isHand(inner) {
						ty = "hand-written"
					}
				}
				g.r.Add(hx.Case{Lines: lines, Domain: domain, Nontrivial: true, Tags: []string{"decode:" + famTag + ":" + ty}, Key: key})
			}
		}
	}
}

func fitsFam(fam string, v *big.Int) bool {
	if len(fam) < 2 {
		return false
	}
	bits, err := strconv.Atoi(fam[1:])
	if err != nil {
		return false
	}
	one := bi(1)
	if fam[0] == 's' {
		hi := new(big.Int).Lsh(one, uint(bits-1))
		return v.Cmp(new(big.Int).Neg(hi)) >= 0 && v.Cmp(hi) < 0
	}
	return v.Sign() >= 0 && v.Cmp(new(big.Int).Lsh(one, uint(bits))) < 0
}

// tyBase: the type token without the per-definition serial of local types.
func tyBase(ty string) string {
	if localTyRe.MatchString(ty) {
		return strings.TrimRight(ty, "0123456789abcdefghijklmnopqrstuvwxyz")
	}
	return ty
}

// textCollisionDef: several parsable traits of DIFFERENT types whose constants have the same
// literal TEXT on different members. validateParsableTraits compares texts (the first line's
// constants by value, the others as written), so the generator must refuse the definition; if it
// did not, bare literals of different traits could meet as equal `case` constants.
func (g *gen) textCollisionDef(variant int) *Def {
	n := g.nextSerial()
	t := fmt.Sprintf("E%da", n)
	pre := fmt.Sprintf("C%da", n)
	k := 1 + g.rng.Intn(40)
	d := &Def{Opts: "-", Types: []TypeD{{Name: t, Kind: g.nextKind()}}}
	mk := func(i int, tv ...string) Item {
		return Item{What: "const", T: t, Name: fmt.Sprintf("%sM%d", pre, i), Val: bi(int64(i)), Form: "c", TVals: tv}
	}
	num := fmt.Sprintf("i:%d", k)
	switch variant % 3 {
	case 0: // untyped int next to an untyped float whose later line is the bare literal k
		cn, cw := fmt.Sprintf("Num%da", n), fmt.Sprintf("Weight%da", n)
		d.Types[0].Cols = []Col{{Name: cn, Ty: "int", Fam: "s64"}, {Name: cw, Ty: "float", Fam: "none"}}
		d.Parsable = []string{cn, cw}
		d.Items = []Item{mk(0, "i:0", "f:0.5"), mk(1, num, "f:1.5"), mk(2, fmt.Sprintf("i:%d", k+50), fmt.Sprintf("f:%d", k))}
	case 1: // the first line's int16 constant (compared by VALUE) next to an untyped int on a later line
		cm, cn := fmt.Sprintf("Mid%da", n), fmt.Sprintf("Num%da", n)
		d.Types[0].Cols = []Col{{Name: cm, Ty: "int16", Fam: "s16"}, {Name: cn, Ty: "int", Fam: "s64"}}
		d.Parsable = []string{cm, cn}
		d.Items = []Item{mk(0, num, "i:0"), mk(1, fmt.Sprintf("i:%d", k+1), num)}
	default: // the first line's named-string constant next to an untyped string on a later line
		ty := fmt.Sprintf("Str%da", n)
		cl, ct := fmt.Sprintf("Label%da", n), fmt.Sprintf("Tag%da", n)
		d.Types[0].Cols = []Col{{Name: cl, Ty: "string", Fam: "ustr"}, {Name: ct, Ty: ty, Fam: "nstr"}}
		d.Parsable = []string{cl, ct}
		d.Items = []Item{mk(0, "s:"+hexOf2("a b"), "s:"+hexOf2("c d")), mk(1, "s:"+hexOf2("c d"), "s:"+hexOf2("e f"))}
	}
	return d
}

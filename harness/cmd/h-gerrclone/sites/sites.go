// Package sites holds the Go call sites from which the harness calls gerror's factory methods.
//
// The derived Source of an error is computed by gerror from the *caller's* frame name, so every
// site repeats the same switch over the 19 methods (and the helper gerror.ExtMsgf) in its own function body (a shared helper would
// make the helper the caller).  Each site first records its own call stack with runtime.Callers /
// CallersFrames — independently of gerror, which uses FuncForPC — and returns it next to the result.
// The switch bodies are identical on purpose; they were produced mechanically.
package sites

import (
	"runtime"

	"github.com/drshriveer/gtools/gerror"
)

// Call is one factory-method call with all possible arguments.
type Call struct {
	Method string
	Src    string
	DTag   string
	Format string
	Elems  []any
	Err    error
}

// Frames returns the function names of the caller's stack, the caller first.
func Frames() []string {
	pcs := make([]uintptr, 128)
	n := runtime.Callers(2, pcs)
	it := runtime.CallersFrames(pcs[:n])
	var out []string
	for {
		f, more := it.Next()
		if f.Function != "" {
			out = append(out, f.Function)
		} else {
			out = append(out, "unknown")
		}
		if !more {
			break
		}
	}
	return out
}

// Plain is a package-level function.
func Plain(f gerror.Factory, c *Call) (r gerror.Error, fr []string) {
	fr = Frames()
	switch c.Method {
	case "Base":
		r = f.Base()
	case "SourceOnly":
		r = f.SourceOnly()
	case "Stack":
		r = f.Stack()
	case "Src":
		r = f.Src(c.Src)
	case "DTag":
		r = f.DTag(c.DTag)
	case "Msg":
		r = f.Msg(c.Format, c.Elems...)
	case "SrcDTagMsg":
		r = f.SrcDTagMsg(c.Src, c.DTag, c.Format, c.Elems...)
	case "SrcDTag":
		r = f.SrcDTag(c.Src, c.DTag)
	case "SrcMsg":
		r = f.SrcMsg(c.Src, c.Format, c.Elems...)
	case "DTagMsg":
		r = f.DTagMsg(c.DTag, c.Format, c.Elems...)
	case "SrcS":
		r = f.SrcS(c.Src)
	case "DTagS":
		r = f.DTagS(c.DTag)
	case "MsgS":
		r = f.MsgS(c.Format, c.Elems...)
	case "SrcDTagMsgS":
		r = f.SrcDTagMsgS(c.Src, c.DTag, c.Format, c.Elems...)
	case "SrcDTagS":
		r = f.SrcDTagS(c.Src, c.DTag)
	case "SrcMsgS":
		r = f.SrcMsgS(c.Src, c.Format, c.Elems...)
	case "DTagMsgS":
		r = f.DTagMsgS(c.DTag, c.Format, c.Elems...)
	case "Convert":
		r = f.Convert(c.Err)
	case "ConvertS":
		r = f.ConvertS(c.Err)
	case "ExtMsgf":
		// the package-level helper, handed the value itself
		r, _ = gerror.ExtMsgf(f, c.Format, c.Elems...).(gerror.Error)
	case "ExtMsgfForeign":
		// … or an error that is not a gerror value (f is not used)
		r, _ = gerror.ExtMsgf(c.Err, c.Format, c.Elems...).(gerror.Error)
	}
	return r, fr
}

// T carries the method sites.
type T struct{ pad int }

// PtrMethod is a pointer-receiver method.
func (t *T) PtrMethod(f gerror.Factory, c *Call) (r gerror.Error, fr []string) {
	fr = Frames()
	switch c.Method {
	case "Base":
		r = f.Base()
	case "SourceOnly":
		r = f.SourceOnly()
	case "Stack":
		r = f.Stack()
	case "Src":
		r = f.Src(c.Src)
	case "DTag":
		r = f.DTag(c.DTag)
	case "Msg":
		r = f.Msg(c.Format, c.Elems...)
	case "SrcDTagMsg":
		r = f.SrcDTagMsg(c.Src, c.DTag, c.Format, c.Elems...)
	case "SrcDTag":
		r = f.SrcDTag(c.Src, c.DTag)
	case "SrcMsg":
		r = f.SrcMsg(c.Src, c.Format, c.Elems...)
	case "DTagMsg":
		r = f.DTagMsg(c.DTag, c.Format, c.Elems...)
	case "SrcS":
		r = f.SrcS(c.Src)
	case "DTagS":
		r = f.DTagS(c.DTag)
	case "MsgS":
		r = f.MsgS(c.Format, c.Elems...)
	case "SrcDTagMsgS":
		r = f.SrcDTagMsgS(c.Src, c.DTag, c.Format, c.Elems...)
	case "SrcDTagS":
		r = f.SrcDTagS(c.Src, c.DTag)
	case "SrcMsgS":
		r = f.SrcMsgS(c.Src, c.Format, c.Elems...)
	case "DTagMsgS":
		r = f.DTagMsgS(c.DTag, c.Format, c.Elems...)
	case "Convert":
		r = f.Convert(c.Err)
	case "ConvertS":
		r = f.ConvertS(c.Err)
	case "ExtMsgf":
		// the package-level helper, handed the value itself
		r, _ = gerror.ExtMsgf(f, c.Format, c.Elems...).(gerror.Error)
	case "ExtMsgfForeign":
		// … or an error that is not a gerror value (f is not used)
		r, _ = gerror.ExtMsgf(c.Err, c.Format, c.Elems...).(gerror.Error)
	}
	return r, fr
}

// ValMethod is a value-receiver method.
func (t T) ValMethod(f gerror.Factory, c *Call) (r gerror.Error, fr []string) {
	fr = Frames()
	switch c.Method {
	case "Base":
		r = f.Base()
	case "SourceOnly":
		r = f.SourceOnly()
	case "Stack":
		r = f.Stack()
	case "Src":
		r = f.Src(c.Src)
	case "DTag":
		r = f.DTag(c.DTag)
	case "Msg":
		r = f.Msg(c.Format, c.Elems...)
	case "SrcDTagMsg":
		r = f.SrcDTagMsg(c.Src, c.DTag, c.Format, c.Elems...)
	case "SrcDTag":
		r = f.SrcDTag(c.Src, c.DTag)
	case "SrcMsg":
		r = f.SrcMsg(c.Src, c.Format, c.Elems...)
	case "DTagMsg":
		r = f.DTagMsg(c.DTag, c.Format, c.Elems...)
	case "SrcS":
		r = f.SrcS(c.Src)
	case "DTagS":
		r = f.DTagS(c.DTag)
	case "MsgS":
		r = f.MsgS(c.Format, c.Elems...)
	case "SrcDTagMsgS":
		r = f.SrcDTagMsgS(c.Src, c.DTag, c.Format, c.Elems...)
	case "SrcDTagS":
		r = f.SrcDTagS(c.Src, c.DTag)
	case "SrcMsgS":
		r = f.SrcMsgS(c.Src, c.Format, c.Elems...)
	case "DTagMsgS":
		r = f.DTagMsgS(c.DTag, c.Format, c.Elems...)
	case "Convert":
		r = f.Convert(c.Err)
	case "ConvertS":
		r = f.ConvertS(c.Err)
	case "ExtMsgf":
		// the package-level helper, handed the value itself
		r, _ = gerror.ExtMsgf(f, c.Format, c.Elems...).(gerror.Error)
	case "ExtMsgfForeign":
		// … or an error that is not a gerror value (f is not used)
		r, _ = gerror.ExtMsgf(c.Err, c.Format, c.Elems...).(gerror.Error)
	}
	return r, fr
}

// Closure calls from an anonymous function inside a package-level function.
func Closure(f gerror.Factory, c *Call) (r gerror.Error, fr []string) {
	func() {
		fr = Frames()
		switch c.Method {
		case "Base":
			r = f.Base()
		case "SourceOnly":
			r = f.SourceOnly()
		case "Stack":
			r = f.Stack()
		case "Src":
			r = f.Src(c.Src)
		case "DTag":
			r = f.DTag(c.DTag)
		case "Msg":
			r = f.Msg(c.Format, c.Elems...)
		case "SrcDTagMsg":
			r = f.SrcDTagMsg(c.Src, c.DTag, c.Format, c.Elems...)
		case "SrcDTag":
			r = f.SrcDTag(c.Src, c.DTag)
		case "SrcMsg":
			r = f.SrcMsg(c.Src, c.Format, c.Elems...)
		case "DTagMsg":
			r = f.DTagMsg(c.DTag, c.Format, c.Elems...)
		case "SrcS":
			r = f.SrcS(c.Src)
		case "DTagS":
			r = f.DTagS(c.DTag)
		case "MsgS":
			r = f.MsgS(c.Format, c.Elems...)
		case "SrcDTagMsgS":
			r = f.SrcDTagMsgS(c.Src, c.DTag, c.Format, c.Elems...)
		case "SrcDTagS":
			r = f.SrcDTagS(c.Src, c.DTag)
		case "SrcMsgS":
			r = f.SrcMsgS(c.Src, c.Format, c.Elems...)
		case "DTagMsgS":
			r = f.DTagMsgS(c.DTag, c.Format, c.Elems...)
		case "Convert":
			r = f.Convert(c.Err)
		case "ConvertS":
			r = f.ConvertS(c.Err)
		case "ExtMsgf":
			// the package-level helper, handed the value itself
			r, _ = gerror.ExtMsgf(f, c.Format, c.Elems...).(gerror.Error)
		case "ExtMsgfForeign":
			// … or an error that is not a gerror value (f is not used)
			r, _ = gerror.ExtMsgf(c.Err, c.Format, c.Elems...).(gerror.Error)
		}
	}()
	return r, fr
}

// Nested calls from a closure inside a closure inside a method.
func (t *T) Nested(f gerror.Factory, c *Call) (r gerror.Error, fr []string) {
	func() {
		func() {
			fr = Frames()
			switch c.Method {
			case "Base":
				r = f.Base()
			case "SourceOnly":
				r = f.SourceOnly()
			case "Stack":
				r = f.Stack()
			case "Src":
				r = f.Src(c.Src)
			case "DTag":
				r = f.DTag(c.DTag)
			case "Msg":
				r = f.Msg(c.Format, c.Elems...)
			case "SrcDTagMsg":
				r = f.SrcDTagMsg(c.Src, c.DTag, c.Format, c.Elems...)
			case "SrcDTag":
				r = f.SrcDTag(c.Src, c.DTag)
			case "SrcMsg":
				r = f.SrcMsg(c.Src, c.Format, c.Elems...)
			case "DTagMsg":
				r = f.DTagMsg(c.DTag, c.Format, c.Elems...)
			case "SrcS":
				r = f.SrcS(c.Src)
			case "DTagS":
				r = f.DTagS(c.DTag)
			case "MsgS":
				r = f.MsgS(c.Format, c.Elems...)
			case "SrcDTagMsgS":
				r = f.SrcDTagMsgS(c.Src, c.DTag, c.Format, c.Elems...)
			case "SrcDTagS":
				r = f.SrcDTagS(c.Src, c.DTag)
			case "SrcMsgS":
				r = f.SrcMsgS(c.Src, c.Format, c.Elems...)
			case "DTagMsgS":
				r = f.DTagMsgS(c.DTag, c.Format, c.Elems...)
			case "Convert":
				r = f.Convert(c.Err)
			case "ConvertS":
				r = f.ConvertS(c.Err)
			case "ExtMsgf":
				// the package-level helper, handed the value itself
				r, _ = gerror.ExtMsgf(f, c.Format, c.Elems...).(gerror.Error)
			case "ExtMsgfForeign":
				// … or an error that is not a gerror value (f is not used)
				r, _ = gerror.ExtMsgf(c.Err, c.Format, c.Elems...).(gerror.Error)
			}
		}()
	}()
	return r, fr
}

// Generic is a generic package-level function (frame name ends in "[...]").
func Generic[X any](_ X, f gerror.Factory, c *Call) (r gerror.Error, fr []string) {
	fr = Frames()
	switch c.Method {
	case "Base":
		r = f.Base()
	case "SourceOnly":
		r = f.SourceOnly()
	case "Stack":
		r = f.Stack()
	case "Src":
		r = f.Src(c.Src)
	case "DTag":
		r = f.DTag(c.DTag)
	case "Msg":
		r = f.Msg(c.Format, c.Elems...)
	case "SrcDTagMsg":
		r = f.SrcDTagMsg(c.Src, c.DTag, c.Format, c.Elems...)
	case "SrcDTag":
		r = f.SrcDTag(c.Src, c.DTag)
	case "SrcMsg":
		r = f.SrcMsg(c.Src, c.Format, c.Elems...)
	case "DTagMsg":
		r = f.DTagMsg(c.DTag, c.Format, c.Elems...)
	case "SrcS":
		r = f.SrcS(c.Src)
	case "DTagS":
		r = f.DTagS(c.DTag)
	case "MsgS":
		r = f.MsgS(c.Format, c.Elems...)
	case "SrcDTagMsgS":
		r = f.SrcDTagMsgS(c.Src, c.DTag, c.Format, c.Elems...)
	case "SrcDTagS":
		r = f.SrcDTagS(c.Src, c.DTag)
	case "SrcMsgS":
		r = f.SrcMsgS(c.Src, c.Format, c.Elems...)
	case "DTagMsgS":
		r = f.DTagMsgS(c.DTag, c.Format, c.Elems...)
	case "Convert":
		r = f.Convert(c.Err)
	case "ConvertS":
		r = f.ConvertS(c.Err)
	case "ExtMsgf":
		// the package-level helper, handed the value itself
		r, _ = gerror.ExtMsgf(f, c.Format, c.Elems...).(gerror.Error)
	case "ExtMsgfForeign":
		// … or an error that is not a gerror value (f is not used)
		r, _ = gerror.ExtMsgf(c.Err, c.Format, c.Elems...).(gerror.Error)
	}
	return r, fr
}

// G is a generic type.
type G[X any] struct{ v X }

// GenMethod is a method of a generic type (frame name "sites.(*G[...]).GenMethod").
func (g *G[X]) GenMethod(f gerror.Factory, c *Call) (r gerror.Error, fr []string) {
	fr = Frames()
	switch c.Method {
	case "Base":
		r = f.Base()
	case "SourceOnly":
		r = f.SourceOnly()
	case "Stack":
		r = f.Stack()
	case "Src":
		r = f.Src(c.Src)
	case "DTag":
		r = f.DTag(c.DTag)
	case "Msg":
		r = f.Msg(c.Format, c.Elems...)
	case "SrcDTagMsg":
		r = f.SrcDTagMsg(c.Src, c.DTag, c.Format, c.Elems...)
	case "SrcDTag":
		r = f.SrcDTag(c.Src, c.DTag)
	case "SrcMsg":
		r = f.SrcMsg(c.Src, c.Format, c.Elems...)
	case "DTagMsg":
		r = f.DTagMsg(c.DTag, c.Format, c.Elems...)
	case "SrcS":
		r = f.SrcS(c.Src)
	case "DTagS":
		r = f.DTagS(c.DTag)
	case "MsgS":
		r = f.MsgS(c.Format, c.Elems...)
	case "SrcDTagMsgS":
		r = f.SrcDTagMsgS(c.Src, c.DTag, c.Format, c.Elems...)
	case "SrcDTagS":
		r = f.SrcDTagS(c.Src, c.DTag)
	case "SrcMsgS":
		r = f.SrcMsgS(c.Src, c.Format, c.Elems...)
	case "DTagMsgS":
		r = f.DTagMsgS(c.DTag, c.Format, c.Elems...)
	case "Convert":
		r = f.Convert(c.Err)
	case "ConvertS":
		r = f.ConvertS(c.Err)
	case "ExtMsgf":
		// the package-level helper, handed the value itself
		r, _ = gerror.ExtMsgf(f, c.Format, c.Elems...).(gerror.Error)
	case "ExtMsgfForeign":
		// … or an error that is not a gerror value (f is not used)
		r, _ = gerror.ExtMsgf(c.Err, c.Format, c.Elems...).(gerror.Error)
	}
	return r, fr
}

// Deep recurses n times before calling, so that the stack is deeper than any StackType.
func Deep(n int, f gerror.Factory, c *Call) (r gerror.Error, fr []string) {
	if n > 0 {
		r, fr = Deep(n-1, f, c)
		return r, fr
	}
	fr = Frames()
	switch c.Method {
	case "Base":
		r = f.Base()
	case "SourceOnly":
		r = f.SourceOnly()
	case "Stack":
		r = f.Stack()
	case "Src":
		r = f.Src(c.Src)
	case "DTag":
		r = f.DTag(c.DTag)
	case "Msg":
		r = f.Msg(c.Format, c.Elems...)
	case "SrcDTagMsg":
		r = f.SrcDTagMsg(c.Src, c.DTag, c.Format, c.Elems...)
	case "SrcDTag":
		r = f.SrcDTag(c.Src, c.DTag)
	case "SrcMsg":
		r = f.SrcMsg(c.Src, c.Format, c.Elems...)
	case "DTagMsg":
		r = f.DTagMsg(c.DTag, c.Format, c.Elems...)
	case "SrcS":
		r = f.SrcS(c.Src)
	case "DTagS":
		r = f.DTagS(c.DTag)
	case "MsgS":
		r = f.MsgS(c.Format, c.Elems...)
	case "SrcDTagMsgS":
		r = f.SrcDTagMsgS(c.Src, c.DTag, c.Format, c.Elems...)
	case "SrcDTagS":
		r = f.SrcDTagS(c.Src, c.DTag)
	case "SrcMsgS":
		r = f.SrcMsgS(c.Src, c.Format, c.Elems...)
	case "DTagMsgS":
		r = f.DTagMsgS(c.DTag, c.Format, c.Elems...)
	case "Convert":
		r = f.Convert(c.Err)
	case "ConvertS":
		r = f.ConvertS(c.Err)
	case "ExtMsgf":
		// the package-level helper, handed the value itself
		r, _ = gerror.ExtMsgf(f, c.Format, c.Elems...).(gerror.Error)
	case "ExtMsgfForeign":
		// … or an error that is not a gerror value (f is not used)
		r, _ = gerror.ExtMsgf(c.Err, c.Format, c.Elems...).(gerror.Error)
	}
	return r, fr
}

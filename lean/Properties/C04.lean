import Model.Genum
import Lemmas.Genum
/-!
# C04 — genum: generated Values/IsValid/String/Parse agree with the definition

For EVERY definition file genum accepts (`Accepted`: any Go integer kind, constants in range,
distinct names; any number of types, constants, duplicates, deprecation markers, any source order)
and every option setting, about the model `genType` of generator + template (`Model/Genum.lean`).
-/
namespace Genum.C04
open Genum

variable {f : FileDef} {t : String} {k : IntKind}

/-- what the template renders, in terms of the sorted value list -/
private theorem genType_eq (o : Options) (f : FileDef) (t : String) :
    genType o f t = renderWith dedup o t (sortedValues f t) := rfl

private theorem contains_single (a s : String) : [Dyn.ofString a].contains (Dyn.ofString s) = (a == s) := by
  by_cases h : a = s
  · subst h; simp
  · have : Dyn.ofString s ≠ Dyn.ofString a := by
      intro e; unfold Dyn.ofString at e; injection e with _ e2; injection e2 with e3; exact h e3.symm
    simp [h, this]

private theorem cases_find (vs : List Value) (s : String) :
    (vs.map (fun v => (⟨[Dyn.ofString v.name], v⟩ : ParseCase))).find? (fun c => c.consts.contains (Dyn.ofString s)) =
      (vs.find? (fun v => v.name == s)).map (fun v => ⟨[Dyn.ofString v.name], v⟩) := by
  induction vs with
  | nil => rfl
  | cons x xs ih =>
    rw [List.map_cons, List.find?_cons, List.find?_cons]
    simp only [contains_single]
    cases h : (x.name == s)
    · simp only []; exact ih
    · rfl

private theorem lower_find (vs : List Value) (s : String) :
    (vs.map (fun v => (asciiLower v.name, v))).find? (fun p => p.1 == s) =
      (vs.find? (fun v => asciiLower v.name == s)).map (fun v => (asciiLower v.name, v)) := by
  induction vs with
  | nil => rfl
  | cons x xs ih =>
    rw [List.map_cons, List.find?_cons, List.find?_cons]
    cases h : (asciiLower x.name == s)
    · simp only []; exact ih
    · simp only []; rfl

/-- `Parse<T>` of a string, in terms of the sorted value list -/
private theorem parseString_genType (o : Options) (f : FileDef) (t : String) (s : String) :
    (genType o f t).parseString s =
      match (sortedValues f t).find? (fun v => v.name == s) with
      | some v => some v.val
      | none =>
        if o.caseInsensitive then ((sortedValues f t).find? (fun v => asciiLower v.name == asciiLower s)).map (·.val)
        else none := by
  rw [genType_eq]
  unfold GenOut.parseString GenOut.parse renderWith
  simp only [cases_find]
  cases h1 : (sortedValues f t).find? (fun v => v.name == s) with
  | some v => rfl
  | none =>
    simp only [Option.map_none]
    cases ho : o.caseInsensitive
    · simp [Dyn.ofString]
    · simp only [Dyn.ofString, if_true, lower_find]
      cases (sortedValues f t).find? (fun v => asciiLower v.name == asciiLower s) <;> rfl

/-! ## the encoding is order-faithful -/

/-- `Value.Less` on the `uint64`+`Signed` images of two constants of one integer type is the
order of the integers, ties broken by name — for every signed/unsigned width up to 64 bits,
`int64` minimum and `uint64` maximum included. -/
theorem less_iff_lt (hk : k.WF) (a b : Const) (ha : k.InRange a.val) (hb : k.InRange b.val) :
    (Value.ofConst a).less (Value.ofConst b) = true ↔
      (a.val < b.val ∨ (a.val = b.val ∧ a.name < b.name)) := by
  rw [less_ofConst a b (compat_of_inRange hk ha hb), decide_eq_true_iff]
  rfl

/-! ## Values / IsValid -/

/-- `Values()` is the ascending list of the distinct defined values. -/
theorem values_sorted_distinct (o : Options) (h : Accepted f t k) :
    IsAscDistinctOf f t (genType o f t).values := by
  have ⟨hs, hf⟩ := sortedValues_facts h
  have := dedup_vals (sortedValues f t) hs hf
  refine ⟨this.1, fun e => ?_⟩
  rw [defined_iff]
  exact this.2 e

/-- `IsValid(v)` is true exactly for the defined values — for every number of constants, i.e.
both for the linear scan and for the `slices.BinarySearch` branch (more than 15 constants). -/
theorem isValid_iff_defined (o : Options) (h : Accepted f t k) (e : Int) :
    (genType o f t).isValid e = true ↔ Defined f t e := by
  have hv := values_sorted_distinct o h
  unfold GenOut.isValid
  split
  · rw [binarySearch_iff _ _ hv.1]; exact hv.2 e
  · rw [any_eq_iff_mem]; exact hv.2 e

/-- the binary-search branch on its own: whatever the threshold, searching the generated table
is membership (the table is sorted in the type's own order) -/
theorem binarySearch_table_iff_defined (o : Options) (h : Accepted f t k) (e : Int) :
    (binarySearch (genType o f t).values e).2 = true ↔ Defined f t e := by
  have hv := values_sorted_distinct o h
  rw [binarySearch_iff _ _ hv.1]; exact hv.2 e

/-! ## String / StringValues -/

private theorem primary_transfer (_h : Accepted f t k) {o : Value} (hp : PrimaryIn (sortedValues f t) o) :
    IsPrimary f t o.val o.name := by
  obtain ⟨hm, hp⟩ := hp
  obtain ⟨c, hc, ht, rfl⟩ := mem_sortedValues.mp hm
  refine ⟨c, hc, ht, rfl, rfl, ?_⟩
  rcases hp with ⟨hd, hmin⟩ | ⟨hall, hmin⟩
  · left; refine ⟨hd, ?_⟩
    intro c' hc' ht' hv' hd'
    exact hmin (Value.ofConst c') (mem_sortedValues.mpr ⟨c', hc', ht', rfl⟩) hv' hd'
  · right; constructor
    · intro c' hc' ht' hv'
      exact hall (Value.ofConst c') (mem_sortedValues.mpr ⟨c', hc', ht', rfl⟩) hv'
    · intro c' hc' ht' hv'
      exact hmin (Value.ofConst c') (mem_sortedValues.mpr ⟨c', hc', ht', rfl⟩) hv'

/-- `String()` of a defined value is its primary name: the alphabetically first non-deprecated
name, or the alphabetically first name when every name of the value is deprecated. -/
theorem string_primary (o : Options) (h : Accepted f t k) (e : Int) (hd : Defined f t e) :
    IsPrimary f t e ((genType o f t).string e) := by
  have ⟨hs, hf⟩ := sortedValues_facts h
  have hv := values_sorted_distinct o h
  have hmem : e ∈ (genType o f t).values := (hv.2 e).mpr hd
  obtain ⟨v, hvt, hve⟩ := List.mem_map.mp hmem
  have hfind := find_self _ hv.1 v hvt
  unfold GenOut.string
  rw [← hve, hfind]
  exact primary_transfer h (dedup_primary _ hs hf v hvt)

/-- `String()` of anything else is `Undefined<Type>:<n>`. -/
theorem string_undefined (o : Options) (h : Accepted f t k) (e : Int) (hd : ¬ Defined f t e) :
    (genType o f t).string e = undefinedString t e := by
  have hv := values_sorted_distinct o h
  unfold GenOut.string
  have : (genType o f t).table.find? (fun v => v.val == e) = none := by
    rw [List.find?_eq_none]
    intro v hvt hve
    exact hd ((hv.2 e).mp (List.mem_map.mpr ⟨v, hvt, by simpa using hve⟩))
  rw [this]; rfl

/-- `StringValues()` equals `String()` over `Values()`. -/
theorem stringValues_eq_map_string (o : Options) (h : Accepted f t k) :
    (genType o f t).stringValues = (genType o f t).values.map (genType o f t).string := by
  have hv := values_sorted_distinct o h
  unfold GenOut.stringValues GenOut.values
  rw [List.map_map]
  apply List.map_congr_left
  intro v hvt
  have hfind := find_self _ hv.1 v hvt
  simp only [Function.comp, GenOut.string, hfind]

/-- the primary name of a value is unique (the specification determines `String()`) -/
theorem primary_unique {e : Int} {n n' : String} (h1 : IsPrimary f t e n) (h2 : IsPrimary f t e n') : n = n' := by
  obtain ⟨c, hc, ht, hv, hn, hp⟩ := h1
  obtain ⟨c', hc', ht', hv', hn', hp'⟩ := h2
  rcases hp with ⟨hd, hmin⟩ | ⟨hall, hmin⟩ <;> rcases hp' with ⟨hd', hmin'⟩ | ⟨hall', hmin'⟩
  · exact String.le_antisymm (hn' ▸ hmin c' hc' ht' hv' hd') (hn ▸ hmin' c hc ht hv hd)
  · have := hall' c hc ht hv; rw [hd] at this; cases this
  · have := hall c' hc' ht' hv'; rw [hd'] at this; cases this
  · exact String.le_antisymm (hn' ▸ hmin c' hc' ht' hv') (hn ▸ hmin' c hc ht hv)

/-! ## Parse -/

private theorem find_name (h : Accepted f t k) (c : Const) (hc : c ∈ f.consts) (ht : c.ty = t) :
    ∃ v, (sortedValues f t).find? (fun v => v.name == c.name) = some v ∧ v.val = c.val := by
  cases hf : (sortedValues f t).find? (fun v => v.name == c.name) with
  | none =>
    rw [List.find?_eq_none] at hf
    have := hf (Value.ofConst c) (mem_sortedValues.mpr ⟨c, hc, ht, rfl⟩)
    simp [Value.ofConst] at this
  | some v =>
    refine ⟨v, rfl, ?_⟩
    have hp := List.find?_some hf
    obtain ⟨c', hc', _, rfl⟩ := mem_sortedValues.mp (List.mem_of_find?_eq_some hf)
    have : c'.name = c.name := by simpa [Value.ofConst] using hp
    rw [const_eq_of_name h.names hc' hc this]; rfl

/-- `Parse<T>`/`ParseString`/`ParseGeneric` map every constant name — duplicates and deprecated
names included — back to its value, under every option setting. -/
theorem parse_name (o : Options) (h : Accepted f t k) (c : Const) (hc : c ∈ f.consts) (ht : c.ty = t) :
    (genType o f t).parseString c.name = some c.val := by
  rw [parseString_genType]
  obtain ⟨v, hf, hv⟩ := find_name h c hc ht
  simp only [hf, hv]

private theorem const_eq_of_fold (hfold : NamesDistinctFold f t) {a b : Const}
    (ha : a ∈ collect f t) (hb : b ∈ collect f t) (e : asciiLower a.name = asciiLower b.name) : a = b := by
  unfold NamesDistinctFold at hfold
  generalize collect f t = l at *
  induction l with
  | nil => cases ha
  | cons x xs ih =>
    rw [List.map_cons, List.nodup_cons] at hfold
    rcases List.mem_cons.mp ha with ea | ha' <;> rcases List.mem_cons.mp hb with eb | hb'
    · rw [ea, eb]
    · subst ea
      exact absurd (show asciiLower a.name ∈ xs.map (fun c => asciiLower c.name) from List.mem_map.mpr ⟨b, hb', e.symm⟩) hfold.1
    · subst eb
      exact absurd (show asciiLower b.name ∈ xs.map (fun c => asciiLower c.name) from List.mem_map.mpr ⟨a, ha', e⟩) hfold.1
    · exact ih hfold.2 ha' hb'

/-- with `-caseInsensitive`, every string equal to a constant name up to ASCII case is mapped to
that constant's value (names of the type are distinct up to case, otherwise the generated file
does not compile). -/
theorem parse_name_caseInsensitive (o : Options) (ho : o.caseInsensitive = true)
    (hfold : NamesDistinctFold f t) (c : Const) (hc : c ∈ f.consts) (ht : c.ty = t)
    (s : String) (hs : EqFold s c.name) :
    (genType o f t).parseString s = some c.val := by
  rw [parseString_genType]
  have key : ∀ v, v ∈ sortedValues f t → asciiLower v.name = asciiLower s → v.val = c.val := by
    intro v hv hl
    obtain ⟨c', hc', ht', rfl⟩ := mem_sortedValues.mp hv
    have : c' = c := const_eq_of_fold hfold (mem_collect.mpr ⟨hc', ht'⟩) (mem_collect.mpr ⟨hc, ht⟩)
      (by rw [show asciiLower c'.name = asciiLower s from hl]; exact hs)
    rw [this]; rfl
  cases h1 : (sortedValues f t).find? (fun v => v.name == s) with
  | some v =>
    have hp := List.find?_some h1
    have hn : v.name = s := by simpa using hp
    simp only []
    rw [key v (List.mem_of_find?_eq_some h1) (by rw [hn])]
  | none =>
    simp only [ho, if_true]
    cases h2 : (sortedValues f t).find? (fun v => asciiLower v.name == asciiLower s) with
    | some v =>
      have hp := List.find?_some h2
      have hn : asciiLower v.name = asciiLower s := by simpa using hp
      rw [Option.map_some, key v (List.mem_of_find?_eq_some h2) hn]
    | none =>
      rw [List.find?_eq_none] at h2
      have := h2 (Value.ofConst c) (mem_sortedValues.mpr ⟨c, hc, ht, rfl⟩)
      exact absurd (by simpa [Value.ofConst] using hs.symm) this

/-- every string that is not a constant name of the type is rejected (no `-caseInsensitive`). -/
theorem parse_rejects (o : Options) (ho : o.caseInsensitive = false) (s : String)
    (hs : ∀ c ∈ f.consts, c.ty = t → c.name ≠ s) :
    (genType o f t).parseString s = none := by
  rw [parseString_genType]
  have h1 : (sortedValues f t).find? (fun v => v.name == s) = none := by
    rw [List.find?_eq_none]
    intro v hv hp
    obtain ⟨c, hc, ht, rfl⟩ := mem_sortedValues.mp hv
    exact hs c hc ht (by simpa [Value.ofConst] using hp)
  rw [h1]; simp [ho]

/-- with `-caseInsensitive`, every string that is not a constant name up to ASCII case is rejected. -/
theorem parse_rejects_caseInsensitive (o : Options) (s : String)
    (hs : ∀ c ∈ f.consts, c.ty = t → ¬ EqFold s c.name) :
    (genType o f t).parseString s = none := by
  rw [parseString_genType]
  have h1 : (sortedValues f t).find? (fun v => v.name == s) = none := by
    rw [List.find?_eq_none]
    intro v hv hp
    obtain ⟨c, hc, ht, rfl⟩ := mem_sortedValues.mp hv
    have : c.name = s := by simpa [Value.ofConst] using hp
    exact hs c hc ht (by unfold EqFold; rw [this])
  have h2 : (sortedValues f t).find? (fun v => asciiLower v.name == asciiLower s) = none := by
    rw [List.find?_eq_none]
    intro v hv hp
    obtain ⟨c, hc, ht, rfl⟩ := mem_sortedValues.mp hv
    have : asciiLower c.name = asciiLower s := by simpa [Value.ofConst] using hp
    exact hs c hc ht this.symm
  rw [h1, h2]; simp

/-- the rejection clause on the generated switch itself, whatever its cases hold (names and, for
C12, constants of parsable traits): an input equal to no `case` constant — and, when the
lower-case switch exists, whose lower-case form equals none of its cases — is an error. -/
theorem parse_rejects_of_no_case (g : GenOut) (input : Dyn)
    (h1 : ∀ c ∈ g.cases, input ∉ c.consts)
    (h2 : ∀ lc, g.lowerCases = some lc → ∀ s, input = Dyn.ofString s → ∀ p ∈ lc, p.1 ≠ asciiLower s) :
    g.parse input = none := by
  unfold GenOut.parse
  have : g.cases.find? (fun c => c.consts.contains input) = none := by
    rw [List.find?_eq_none]
    intro c hc hp
    exact h1 c hc (by simpa using hp)
  rw [this]
  cases hl : g.lowerCases with
  | none => rfl
  | some lc =>
    obtain ⟨ty, v⟩ := input
    by_cases hty : ty = "string"
    · subst hty
      cases v with
      | str s =>
        have : lc.find? (fun p => p.1 == asciiLower s) = none := by
          rw [List.find?_eq_none]
          intro p hp hq
          exact h2 lc hl s rfl p hp (by simpa using hq)
        simp only [this]
      | int _ => rfl
      | bool _ => rfl
      | other _ => rfl
    · simp only []
      split
      · rename_i heq; injection heq with e1 _; exact absurd e1 hty
      · rfl

/-! ## the pinned algorithm -/

/-- names `Aaa` (deprecated), `Bbb`, `Ccc` of one value -/
def legacyWitness : FileDef :=
  ⟨[{ name := "E", kind := ⟨8, true⟩ }],
   [{ name := "Aaa", ty := "E", val := 1, deprecated := true },
    { name := "Bbb", ty := "E", val := 1, deprecated := false },
    { name := "Ccc", ty := "E", val := 1, deprecated := false }]⟩

/-- the pinned `ValueDeduplicatedSet` never clears `addedDeprecated`: after the deprecated `Aaa`
was replaced by `Bbb`, `Ccc` replaces it again, and `String()`/`StringValues()` say `Ccc` although
the primary name is `Bbb`. The current algorithm says `Bbb`. -/
theorem legacy_string_violates :
    (genTypeLegacy {} legacyWitness "E").string 1 = "Ccc" ∧
    (genTypeLegacy {} legacyWitness "E").stringValues = ["Ccc"] ∧
    IsPrimary legacyWitness "E" 1 "Bbb" ∧ ¬ IsPrimary legacyWitness "E" 1 "Ccc" ∧
    (genType {} legacyWitness "E").string 1 = "Bbb" := by
  refine ⟨by decide, by decide, ?_, ?_, by decide⟩
  · exact ⟨{ name := "Bbb", ty := "E", val := 1, deprecated := false }, by decide, rfl, rfl, rfl, Or.inl ⟨rfl, by decide⟩⟩
  · intro h
    have hb : IsPrimary legacyWitness "E" 1 "Bbb" :=
      ⟨{ name := "Bbb", ty := "E", val := 1, deprecated := false }, by decide, rfl, rfl, rfl, Or.inl ⟨rfl, by decide⟩⟩
    exact absurd (primary_unique h hb) (by decide)

/-! ## non-vacuity -/

/-- the hypotheses are satisfiable: the witness file is an accepted definition (signed 8-bit
type, a duplicated value with a deprecated name), its names are distinct up to case, and the
theorems above compute on it -/
example : Accepted legacyWitness "E" ⟨8, true⟩ ∧ NamesDistinctFold legacyWitness "E" ∧
    Defined legacyWitness "E" 1 ∧ ¬ Defined legacyWitness "E" 2 ∧
    (genType { caseInsensitive := true } legacyWitness "E").parseString "bBB" = some 1 ∧
    (genType {} legacyWitness "E").parseString "bBB" = none ∧
    (genType {} legacyWitness "E").string 2 = "UndefinedE:2" :=
  ⟨⟨by decide, by decide, by decide⟩, by decide, by decide, by decide, by decide, by decide, by decide⟩

end Genum.C04

// Package atomic mirrors the parts of sync/atomic used by /repo; every operation is one
// scheduler step. Sequential consistency is by construction (one goroutine runs at a time).
package atomic

import "verif/harness/internal/sched"

type Int64 struct{ v int64 }

func (x *Int64) Load() int64 {
	op := &sched.Op{Kind: "ctr-read", Obj: x}
	sched.Yield(op)
	op.Res = x.v
	return x.v
}

func (x *Int64) Store(v int64) {
	op := &sched.Op{Kind: "ctr-update", Obj: x, A: v}
	sched.Yield(op)
	x.v = v
	op.Res = v
}

func (x *Int64) Add(d int64) int64 {
	op := &sched.Op{Kind: "ctr-update", Obj: x, A: d}
	sched.Yield(op)
	x.v += d
	op.Res = x.v
	return x.v
}

func (x *Int64) Swap(v int64) int64 {
	op := &sched.Op{Kind: "ctr-update", Obj: x, A: v}
	sched.Yield(op)
	old := x.v
	x.v = v
	op.Res = v
	return old
}

func (x *Int64) CompareAndSwap(old, new int64) bool {
	op := &sched.Op{Kind: "ctr-update", Obj: x, A: old, B: new}
	sched.Yield(op)
	if x.v == old {
		x.v = new
		op.OK = true
	}
	op.Res = x.v
	return op.OK
}

type Int32 struct{ v int32 }

func (x *Int32) Load() int32 {
	op := &sched.Op{Kind: "ctr-read", Obj: x}
	sched.Yield(op)
	op.Res = x.v
	return x.v
}
func (x *Int32) Store(v int32) {
	op := &sched.Op{Kind: "ctr-update", Obj: x, A: v}
	sched.Yield(op)
	x.v = v
	op.Res = v
}
func (x *Int32) Add(d int32) int32 {
	op := &sched.Op{Kind: "ctr-update", Obj: x, A: d}
	sched.Yield(op)
	x.v += d
	op.Res = x.v
	return x.v
}
func (x *Int32) CompareAndSwap(old, new int32) bool {
	op := &sched.Op{Kind: "ctr-update", Obj: x, A: old, B: new}
	sched.Yield(op)
	if x.v == old {
		x.v = new
		op.OK = true
	}
	op.Res = x.v
	return op.OK
}

type Bool struct{ v bool }

func (x *Bool) Load() bool {
	op := &sched.Op{Kind: "ctr-read", Obj: x}
	sched.Yield(op)
	op.Res = x.v
	return x.v
}
func (x *Bool) Store(v bool) {
	op := &sched.Op{Kind: "ctr-update", Obj: x, A: v}
	sched.Yield(op)
	x.v = v
	op.Res = v
}

// Pointer mirrors atomic.Pointer[T].
type Pointer[T any] struct{ p *T }

func (x *Pointer[T]) Load() *T {
	op := &sched.Op{Kind: "ptr-read", Obj: x}
	sched.Yield(op)
	op.Res = x.p
	return x.p
}

func (x *Pointer[T]) Store(p *T) {
	op := &sched.Op{Kind: "ptr-update", Obj: x, B: p}
	sched.Yield(op)
	x.p = p
	op.OK = true
	op.Res = p
}

func (x *Pointer[T]) Swap(p *T) *T {
	op := &sched.Op{Kind: "ptr-update", Obj: x, B: p}
	sched.Yield(op)
	old := x.p
	x.p = p
	op.A = old
	op.OK = true
	op.Res = p
	return old
}

func (x *Pointer[T]) CompareAndSwap(old, new *T) bool {
	op := &sched.Op{Kind: "ptr-update", Obj: x, A: old, B: new}
	sched.Yield(op)
	if x.p == old {
		x.p = new
		op.OK = true
	}
	op.Res = x.p
	return op.OK
}

import Model.GoPrelude
/-!
# Primitives of the Go fragment used by `go2lean -spec gencommonparams` (core Lean only)

Added to `Model/GoPrelude.lean`'s vocabulary for the translation of gencommon's parameter naming
(`getSafeParamName`, `Params.keepUserNames`, `Params.ensureNames`, `Method.ensureParamNames`).
Like the prelude this file is part of the trusted base of the obligations `go_*_eq`: it says what
the primitives of the translated fragment mean.

* `SIMap`: an ALLOCATED `map[string]int` (the translated code only ever receives the map that
  `ensureParamNames` makes) as an association list; an insertion puts the new binding in front, a
  lookup sees the first binding of a key - so the newest value of a key wins, as in a Go map.
* `itoa`: `strconv.FormatInt(int64(v), 10)` of an `int` that is never negative (it starts at a
  map's zero value and is only incremented): decimal digits.
* `loopN`: a Go `for { … }` that is left only through `break`.  Lean functions are total, so the
  translation runs the loop for at most `fuel` iterations and fails if it is still running; the
  translated function takes `fuel` as its first argument.  A run that ends within the fuel performs
  exactly the iterations of the Go loop; the obligations show that it ends, with the model's result,
  for EVERY fuel above an explicit bound - hence the Go loop terminates with that result.
-/
namespace Go

/-- an allocated `map[string]int` -/
abbrev SIMap := List (Str × Nat)

/-- `make(map[string]int, cap)` -/
def simMake (_cap : Nat) : SIMap := []

/-- `v, ok := m[k]` (missing key: zero value, false) -/
def simGet (m : SIMap) (k : Str) : Nat × Bool :=
  match m.find? (fun e => e.1 = k) with
  | some e => (e.2, true)
  | none => (0, false)

/-- `m[k] = v` -/
def simSet (m : SIMap) (k : Str) (v : Nat) : SIMap := (k, v) :: m

/-- `strconv.FormatInt(int64(v), 10)`, `v ≥ 0` -/
def itoa (v : Nat) : Str := Nat.toDigits 10 v

/-- `for { body }`: `body` answers `done` for `break`, `yield` for the end of an iteration -/
def loopN {σ : Type} (body : σ → M (ForInStep σ)) : Nat → σ → M σ
  | 0, _ => throw "for: still running after the given number of iterations"
  | n + 1, s => do
    match ← body s with
    | .done s' => pure s'
    | .yield s' => loopN body n s'

end Go

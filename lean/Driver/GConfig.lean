import Model.GConfig
import Model.GConfigCache
import Driver.Util
/-! Line protocol for `Model/GConfig` (C03; the cache model of C10 adds its own requests).

```
case gc
gc dim <flagName> <defaultIdx> <envSpelling: none|exact|upper|lower> <envValue|-> <name>+
gc load <tree tokens>          -> ok | err
gc dump                        -> rendering of the whole reduced tree | noconfig
gc get <dotted.path>           -> rendering | notfound | noconfig
gc spec <dotted.path>          -> the same through `resolve` + `lookupPath` (the specification)
gc getdim <i>                  -> selected value name
```
Tree tokens: `{ key value … }`, `[ value … ]`, `s:<text>`, `i:<int>`, `b:t|f`, `n`; keys and texts
are percent-encoded (`%20` = space). -/
namespace Drv.GConfig
open _root_.GConfig

def hexVal (c : Char) : Option Nat :=
  if c.isDigit then some (c.toNat - '0'.toNat)
  else if 'a' ≤ c ∧ c ≤ 'f' then some (c.toNat - 'a'.toNat + 10)
  else if 'A' ≤ c ∧ c ≤ 'F' then some (c.toNat - 'A'.toNat + 10)
  else none

def unescapeAux : List Char → List Char
  | '%' :: a :: b :: rest =>
    match hexVal a, hexVal b with
    | some x, some y => Char.ofNat (x * 16 + y) :: unescapeAux rest
    | _, _ => '%' :: unescapeAux (a :: b :: rest)
  | c :: rest => c :: unescapeAux rest
  | [] => []

def unescape (s : String) : String := String.ofList (unescapeAux s.toList)

def escapeChar (c : Char) : String :=
  if c == ' ' then "%20" else if c == '%' then "%25" else if c == '\n' then "%0a" else c.toString

def escape (s : String) : String := String.join (s.toList.map escapeChar)

partial def parseVal : List String → Option (Y × List String)
  | "n" :: rest => some (.null, rest)
  | "{" :: rest => parseMap rest []
  | "[" :: rest => parseList rest []
  | tok :: rest =>
    if tok.startsWith "s:" then some (.str (unescape (tok.drop 2).toString), rest)
    else if tok.startsWith "i:" then (tok.drop 2).toString.toInt?.map (fun n => (.int n, rest))
    else if tok == "b:t" then some (.bool true, rest)
    else if tok == "b:f" then some (.bool false, rest)
    else none
  | [] => none
where
  parseMap : List String → List (String × Y) → Option (Y × List String)
    | "}" :: rest, acc => some (.map acc.reverse, rest)
    | k :: rest, acc =>
      match parseVal rest with
      | some (v, rest') => parseMap rest' ((unescape k, v) :: acc)
      | none => none
    | [], _ => none
  parseList : List String → List Y → Option (Y × List String)
    | "]" :: rest, acc => some (.list acc.reverse, rest)
    | toks, acc =>
      match parseVal toks with
      | some (v, rest') => parseList rest' (v :: acc)
      | none => none

partial def render : Y → String
  | .null => "n"
  | .str s => "s:" ++ escape s
  | .int n => s!"i:{n}"
  | .bool b => if b then "b:t" else "b:f"
  | .list xs => "[" ++ " ".intercalate (xs.map render) ++ "]"
  | .map kvs =>
    let sorted := kvs.toArray.qsort (fun a b => a.1 < b.1) |>.toList
    "{" ++ " ".intercalate (sorted.map (fun kv => escape kv.1 ++ "=" ++ render kv.2)) ++ "}"

structure DimDecl where
  flag : String
  names : List String
  sel : Option Nat

structure DSt where
  dims : List DimDecl := []
  doc : Option Y := none            -- the raw document
  data : Option Y := none           -- reduceAny result (model)
  loaded : Bool := false
  cache : GConfigCache.Cache ((String × String) × Bool) := []

def modelDims (d : DSt) : Option (List Dim) :=
  d.dims.mapM (fun dd => dd.sel.map (fun s => { names := dd.names, sel := s }))

def splitPath (p : String) : List String := p.splitOn "."

def handle (d : DSt) (ws : List String) : DSt × String :=
  match ws with
  | "dim" :: flag :: dflt :: spelling :: value :: names =>
    match dflt.toNat? with
    | none => (d, "bad-op")
    | some df =>
      let envName := match spelling with
        | "exact" => some flag | "upper" => some (upper flag) | "lower" => some flag.toLower | _ => none
      let env : String → Option String := fun n => if some n == envName then some value else none
      let sel := selectDim names df env flag
      ({ d with dims := d.dims ++ [{ flag := flag, names := names, sel := sel }] },
        match sel with | some i => "ok " ++ (names.getD i "?") | none => "panic")
  | "load" :: toks =>
    match parseVal toks, modelDims d with
    | some (y, []), some dims =>
      let r := (fromBytes dims y).map Y.map
      -- a document outside the quantifier's grammar is marked, so that the domain stream (and the
      -- shrinker) can never silently leave the domain
      let mark := if WF dims y then "" else " !wf"
      ({ d with doc := some y, data := r, loaded := true }, (if r.isSome then "ok" else "err") ++ mark)
    | _, _ => (d, "bad-op")
  | ["dump"] => (d, match d.data with | some y => render y | none => "noconfig")
  | ["gettyped", kind, p] =>
    -- typed Get: the value at the path must have the requested kind (the harness asks for the
    -- kind the document has there)
    (d, match d.data with
      | some (.map m) => (match extract m (splitPath p) with
        | some v =>
          let ok := match kind, v with
            | "str", .str _ => true | "int", .int _ => true | "bool", .bool _ => true
            | "list", .list _ => true | "map", .map _ => true | _, _ => false
          if ok then render v else "kind-mismatch:" ++ render v
        | none => "notfound")
      | _ => "noconfig")
  | ["getnull", p] =>
    (d, match d.data with
      | some (.map m) => (match extract m (splitPath p) with
        | some .null => "n" | some v => "notnull:" ++ render v | none => "notfound")
      | _ => "noconfig")
  | ["get", p] =>
    (d, match d.data with
      | some (.map m) => (match extract m (splitPath p) with | some v => render v | none => "notfound")
      | _ => "noconfig")
  | ["spec", p] =>
    (d, match d.doc, modelDims d with
      | some y, some dims =>
        (match resolve dims y with
          | some r => (match lookupPath r (splitPath p) with | some v => render v | none => "notfound")
          | none => "noconfig")
      | _, _ => "noconfig")
  | ["req", _op, key, ty, fresh] =>
    -- the specification of a request: the result of the same request on a fresh config (the
    -- oracle `fresh`), delivered through the cache model with the injective (key, type) memo key
    let r : GConfigCache.Req := { key := unescape key, ty := ty, iface := ty == "any" }
    let conv : GConfigCache.Req → Option GConfigCache.TV := fun _ =>
      if fresh == "err" || fresh == "panic" then none
      else if fresh == "ok:nil" then some .nil
      else some (.val ty fresh)
    if fresh == "panic" then (d, "no-request-may-panic")
    else
      let res := GConfigCache.get (fun r => (GConfigCache.pairKey r, r.iface)) conv d.cache r
      ({ d with cache := res.1 },
        match res.2 with
        | .ok (.val _ repr) => repr
        | .ok .nil => "ok:nil"
        | .err => "err"
        | .panic => "panic")
  | ["conc", _, _] => (d, "ok")
  | "wf" :: _ =>
    (d, match d.doc, modelDims d with
      | some y, some dims => showBool (WF dims y)
      | _, _ => "bad-op")
  | ["getdim", i] =>
    (d, match i.toNat? with
      | some i => (match d.dims[i]? with
        | some dd => (match dd.sel with | some s => dd.names.getD s "?" | none => "panic")
        | none => "bad-op")
      | none => "bad-op")
  | _ => (d, "bad-op")

end Drv.GConfig

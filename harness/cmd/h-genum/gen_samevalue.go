package main

import "fmt"

// Several parsable trait columns carrying the SAME constant value on one definition line.
//
// validateParsableTraits walks the traits in column order and marks an instance whose value text it
// has already seen on the same enum value under an identical (default) type: that constant already
// is a key of the value's case in the Parse switch and is left out.  A constant of ANOTHER type
// with the same text (`Tint(0)` next to `0`, a rune next to its code point, a named string next to
// the untyped one) is a different key and has to stay, or Parse<T> and the decoders lose it
// (/repo 7793249 dropped it; repaired by 42de8c1).
//
// sameValueDef builds one enum whose rows carry one value in every column:
//
//	0: another generated enum, untyped int, named int8        (different types)
//	1: untyped int, untyped rune, int16                        (different types; rune rows 'a', 'b', ...)
//	2: untyped string, two named string types                  (same text, different types)
//	3: two untyped int columns, two columns of ONE named int8 type, a third of another named type
//	   (same type: the repeat is listed once; different type: kept)
//	4: uint8, named uint16, uint64
//
// The column order is rotated so that the order validateParsableTraits walks in differs from the
// alphabetical order the template renders in.
func (g *gen) sameValueDef(variant int, opts string) *Def {
	n := g.nextSerial()
	t := fmt.Sprintf("E%da", n)
	pre := fmt.Sprintf("C%da", n)
	inner := fmt.Sprintf("E%di", n)
	d := &Def{Opts: opts, Types: []TypeD{{Name: t, Kind: g.nextKind()}}}
	col := func(word, ty, fam string) Col { return Col{Name: fmt.Sprintf("%s%d", word, n), Ty: ty, Fam: fam} }
	var cols []Col
	var vals []string // the shared constant of row i, per column kind: see row()
	strs := false
	switch variant % 5 {
	case 0:
		cols = []Col{col("Tint", inner, ""), col("Code", "int", "s64"), col("Amt", fmt.Sprintf("Sm%da", n), "s8")}
		vals = []string{"0", "1", "5", "7"}
	case 1:
		cols = []Col{col("Code", "int", "s64"), col("Rn", "rune", famOfTy("rune")), col("Mid", "int16", "s16")}
		vals = []string{"97", "98", "110", "122"}
	case 2:
		cols = []Col{col("Label", "string", "ustr"), col("Tag", fmt.Sprintf("Str%da", n), "nstr"), col("Alt", fmt.Sprintf("Str%db", n), "nstr")}
		vals = []string{"x y", "a.b", "q-1"}
		strs = true
	case 3:
		sm := fmt.Sprintf("Sm%da", n)
		cols = []Col{col("Num", "int", "s64"), col("Cnt", "int", "s64"), col("Amt", sm, "s8"), col("Bmt", sm, "s8"), col("Zmt", fmt.Sprintf("Sm%db", n), "s8")}
		vals = []string{"3", "4", "-9", "100"}
	default:
		cols = []Col{col("Byte", "uint8", "u8"), col("Port", fmt.Sprintf("Un%da", n), "u16"), col("Big", "uint64", "u64")}
		vals = []string{"0", "200", "255"}
	}
	// rotate the column order by the variant's round
	rot := (variant / 5) % len(cols)
	cols = append(append([]Col{}, cols[rot:]...), cols[:rot]...)
	hasInner := false
	for i := range cols {
		if cols[i].Ty == inner {
			hasInner = true
		}
	}
	if hasInner {
		d.Types = append(d.Types, TypeD{Name: inner, Kind: []string{"int", "u8", "i16"}[(variant/5)%3]})
		d.Pre = []string{inner}
		d.PreFlags = map[string]string{inner: "-"}
		for i := range cols {
			if cols[i].Ty == inner {
				cols[i].Fam = d.ownFam(inner)
			}
		}
	}
	d.Types[0].Cols = cols
	for _, c := range cols {
		d.Parsable = append(d.Parsable, c.Name)
	}
	for i, v := range vals {
		it := Item{What: "const", T: t, Name: fmt.Sprintf("%sM%d", pre, i), Val: bi(int64(i)), Form: "c"}
		if i%2 == 1 {
			it.Form = "x"
		}
		for range cols {
			if strs {
				it.TVals = append(it.TVals, "s:"+hexOf2(v))
			} else {
				it.TVals = append(it.TVals, "i:"+v)
			}
		}
		d.Items = append(d.Items, it)
	}
	// a value without trait columns, and (odd rounds) a deprecated alias of the second value with columns
	d.Items = append(d.Items, Item{What: "const", T: t, Name: pre + "Bare", Val: bi(int64(len(vals))), Form: "x"})
	if (variant/5)%2 == 1 {
		al := Item{What: "const", T: t, Name: pre + "Old", Val: bi(1), Form: "x", Dep: true}
		for range cols {
			if strs {
				al.TVals = append(al.TVals, "s:"+hexOf2("old one"))
			} else {
				al.TVals = append(al.TVals, "i:"+map[bool]string{true: "9", false: "120"}[variant%5 != 1])
			}
		}
		d.Items = append(d.Items, al)
	}
	if hasInner {
		d.Items = append(d.Items, Item{What: "block"})
		for v := 0; v < 8; v++ {
			form := "r"
			if v == 0 {
				form = "i"
			}
			d.Items = append(d.Items, Item{What: "const", T: inner, Name: fmt.Sprintf("C%diV%d", n, v), Val: bi(int64(v)), Form: form})
		}
	}
	return d
}

// sameValueDefs: the five shapes, the column rotation and the option set advancing with the batch.
func (g *gen) sameValueDefs(b int, optSets []string) []*Def {
	var defs []*Def
	for v := 0; v < 5; v++ {
		if !g.thorough && (v+b)%2 == 1 && v != 0 {
			continue // quick: the enum-typed shape in every batch, the others in every other one
		}
		defs = append(defs, g.sameValueDef(v+5*b, optSets[(v+b)%len(optSets)]))
	}
	return defs
}

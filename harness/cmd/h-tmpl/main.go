// h-tmpl: correspondence runner for /repo/gconfig's env templates (property C16).
package main

import (
	"fmt"
	"os"

	"verif/harness/internal/hx"
)

func main() {
	f := hx.ParseFlags()
	switch f.Prop {
	case "C16":
		runC16(f)
	default:
		fmt.Fprintln(os.Stderr, "h-tmpl: unknown property", f.Prop)
		os.Exit(2)
	}
}

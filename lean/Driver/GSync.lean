import Model.GSync
import Driver.Util
/-! Line protocol for `Model/GSync`.

`case gsync <cur|legacy> | <prog> | <prog> …` with `<prog>` a list of `a<int>` (Add), `w` (Wait),
`c` (Count);  `gs step <tid>`;  `gs probe` (a fresh goroutine calls Count() then Wait(), ≤ 12
steps of its own).  Every answer describes the whole observable state after the step. -/
namespace Drv.GSync
open _root_.GSync

structure DSt where
  L : Bool := true
  s : St := {}

def parseCall (w : String) : Option Call :=
  if w == "w" then some .wait
  else if w == "c" then some .count
  else if w.startsWith "a" then (w.drop 1).toString.toInt?.map .add
  else none

/-- split on "|" tokens -/
def splitBar (ws : List String) : List (List String) :=
  let r := ws.foldl (fun (acc : List (List String) × List String) w =>
    if w == "|" then (acc.2.reverse :: acc.1, []) else (acc.1, w :: acc.2)) ([], [])
  (r.2.reverse :: r.1).reverse

def initCase (ws : List String) : Option DSt :=
  match ws with
  | v :: "|" :: rest =>
    let L := v == "cur"
    if v != "cur" && v != "legacy" then none else
    match (splitBar rest).mapM (fun p => p.mapM parseCall) with
    | some progs => some { L := L, s := init L progs }
    | none => none
  | _ => none

def showLabel : Label → String
  | .none => "none" | .lock => "lock" | .lockBlocked => "blocked" | .unlock => "unlock"
  | .ctrUpdate => "ctr-update" | .ctrRead => "ctr-read" | .ptrUpdate => "ptr-update"
  | .ptrRead => "ptr-read" | .close => "close"

def pcClass : PC → String
  | .idle => "idle"
  | .wCount | .wChan _ => "wait"
  | .cLoad => "count"
  | _ => "add"

def showInts (l : List Int) : String := "[" ++ joinSp (l.map toString) ++ "]"
def showNats (l : List Nat) : String := "[" ++ joinSp ((l.mergeSort (· ≤ ·)).map toString) ++ "]"

def showThread (sh : Shared) (t : Thread) : String :=
  let recs := t.recs.reverse.map (fun r =>
    s!"{r.ch}:{showBool (isClosed sh r.ch)}:{showBool (zeroSeen sh r)}")
  s!"{pcClass t.pc} rets={showInts t.rets.reverse} recs=[{joinSp recs}]"

def showState (s : St) : String :=
  let lock := match s.sh.lock with | none => "-" | some i => toString i
  s!"count={s.sh.count} wchan={s.sh.wchan} closed={showNats s.sh.closed} lock={lock} | " ++
    " | ".intercalate (s.threads.map (showThread s.sh))

/-- run thread `i` for at most `fuel` of its own steps or until it is idle -/
def runThread (L : Bool) (s : St) (i : Nat) : Nat → St × Nat
  | 0 => (s, 0)
  | fuel + 1 =>
    match s.threads[i]? with
    | some t => if t.pc == .idle then (s, 0) else
        let r := runThread L (step L s i) i fuel
        (r.1, r.2 + 1)
    | none => (s, 0)

def handle (d : DSt) (ws : List String) : DSt × String :=
  match ws with
  | ["step", i] => match i.toNat? with
    | some i =>
      let r := stepL d.L d.s i
      ({ d with s := r.1 }, showLabel r.2 ++ " " ++ showState r.1)
    | none => (d, "bad-op")
  | ["probe"] =>
    -- a fresh goroutine: Count() then Wait(); it is not added to the case's state
    let i := d.s.threads.length
    let s0 : St := { d.s with threads := d.s.threads ++ [enter d.L d.s.sh.zc { prog := [.count, .wait] }] }
    let r := runThread d.L s0 i 12
    match r.1.threads[i]? with
    | some t =>
      let w := match t.recs with
        | rc :: _ => if t.pc == PC.idle then s!"{rc.ch}:{showBool (isClosed r.1.sh rc.ch)}" else "spin"
        | [] => "spin"
      (d, s!"count={showInts t.rets.reverse} wait={w} steps={r.2}")
    | none => (d, "bad-op")
  | ["deadline"] =>
    -- WaitTimeout/WaitCTX at rest select on Wait()'s result and a timer: released iff the installed
    -- channel is closed (count 0), otherwise the deadline fires
    (d, if quiescent d.s && isClosed d.s.sh d.s.sh.wchan then "released"
        else if quiescent d.s then "deadline" else "bad-op")
  | ["state"] => (d, showState d.s)
  | _ => (d, "bad-op")

end Drv.GSync

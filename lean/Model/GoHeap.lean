import Model.GoPrelude
/-!
# Pointers to struct cells in the Go fragment that `harness/cmd/go2lean` translates (core Lean only)

A function that builds a linked structure through pointers (`p := &T{}`, `p.F = v`, `p = p.Next`) is
translated against a heap of cells of that one struct type:

* `Heap α = List α`: the cells allocated so far, in allocation order;
* `Ptr = Option Nat`: `none` is `nil`, `some i` the address of cell `i`;
* `new h v` (`&T{…}`) appends a cell and returns its address - a fresh address, distinct from every
  address handed out before, which is all Go promises about `&T{}`;
* `load` / `store` (`p.F`, `p.F = v`) panic on `nil` (an error of `Go.M`); an address beyond the heap
  cannot be produced by the fragment and is an error as well.

Two pointers are aliases exactly when they are the same address, so writes through one are seen
through the other, as in Go.
-/
namespace Go
variable {α : Type}

abbrev Heap (α : Type) := List α
abbrev Ptr := Option Nat

/-- `&T{…}` -/
def new (h : Heap α) (v : α) : Heap α × Ptr := (h ++ [v], some h.length)

/-- `*p` (also the implicit dereference of `p.F`) -/
def load [Inhabited α] (h : Heap α) (p : Ptr) : M α :=
  match p with
  | none => throw "nil pointer dereference"
  | some i => if i < h.length then pure (h.getD i default) else throw "address outside the heap"

/-- `*p = v` (a field write `p.F = e` stores the loaded cell with `F` replaced) -/
def store (h : Heap α) (p : Ptr) (v : α) : M (Heap α) :=
  match p with
  | none => throw "nil pointer dereference"
  | some i => if i < h.length then pure (h.set i v) else throw "address outside the heap"

end Go

import Model.GoPrelude
/-!
# Meaning of the `strings` / `strconv` functions and of the slice expressions translated code uses

`harness/cmd/go2lean -spec gerrorstack` translates `gerror/stack.go`, whose functions compute TEXT
(the derived source of an error).  The library functions it calls are therefore not left opaque:
this file gives `strings.Split`, `strings.Join`, `strings.HasPrefix`, `strings.HasSuffix`,
`strings.TrimPrefix`, `strings.TrimSuffix` and `strconv.Itoa` their meaning on Go strings seen as
character lists (`Go.Str`), each with the specification lemma that pins it down, and fixes what
`xs[lo:hi]`, `for i, v := range xs` and `a - b` on ints mean in the translated fragment.  Core Lean
only.  Like `GoPrelude.lean` it is part of the trusted base of "translated function = model".

Ints of the fragment are natural numbers (lengths, indices, depths, line numbers).  A subtraction
that would go below zero is an error of `Go.M` (`intSub`): Go would carry on with a negative int,
which the fragment could only use as an index or a slice bound, where it panics.  A theorem
`f … = pure v` therefore also says that no intermediate int was negative.

Slices are lists: `xs[lo:hi]` requires `hi ≤ len(xs)` (Go allows up to `cap(xs)`; a translated
function that re-slices beyond its length is reported as panicking, never given a made-up result).
-/
namespace Go

/-! ## ints and slices -/

/-- `a - b` on ints that are natural numbers -/
def intSub (a b : Nat) : M Nat := if b ≤ a then pure (a - b) else throw "negative int"

/-- `xs[lo:hi]` -/
def listSlice {α : Type} (xs : List α) (lo hi : Nat) : M (List α) :=
  if lo ≤ hi ∧ hi ≤ xs.length then pure ((xs.take hi).drop lo) else throw "slice bounds out of range"

/-- the (index, element) pairs `for i, v := range xs` walks through, counting from `k` -/
def indexedFrom {α : Type} (k : Nat) : List α → List (Nat × α)
  | [] => []
  | x :: xs => (k, x) :: indexedFrom (k + 1) xs

/-- `for i, v := range xs` -/
def indexed {α : Type} (xs : List α) : List (Nat × α) := indexedFrom 0 xs

/-- `n := runtime.Callers(skip, pcs)`: the runtime writes the program counters it found (`found`:
the goroutine's stack after `skip` frames, innermost first) into `pcs[0:n]` with
`n = min(len(found), len(pcs))` and leaves the rest of `pcs` alone.  Returns the new `pcs` and `n`. -/
def fillPrefix {α : Type} (found pcs : List α) : List α × Nat :=
  (found.take pcs.length ++ pcs.drop found.length, min found.length pcs.length)

theorem intSub_of_le {a b : Nat} (h : b ≤ a) : intSub a b = pure (a - b) := by simp [intSub, h]

theorem listSlice_of_le {α : Type} (xs : List α) {lo hi : Nat} (h1 : lo ≤ hi) (h2 : hi ≤ xs.length) :
    listSlice xs lo hi = pure ((xs.take hi).drop lo) := by simp [listSlice, h1, h2]

/-- `xs[:i]` -/
theorem listSlice_zero {α : Type} (xs : List α) {hi : Nat} (h : hi ≤ xs.length) :
    listSlice xs 0 hi = pure (xs.take hi) := by simp [listSlice, h]

/-- `xs[lo:]` (the translator writes `len(xs)` for the missing bound) -/
theorem listSlice_len {α : Type} (xs : List α) {lo : Nat} (h : lo ≤ xs.length) :
    listSlice xs lo xs.length = pure (xs.drop lo) := by simp [listSlice, h]

theorem indexedFrom_map_snd {α : Type} (xs : List α) (k : Nat) : (indexedFrom k xs).map (·.2) = xs := by
  induction xs generalizing k with
  | nil => rfl
  | cons x xs ih => simp [indexedFrom, ih]

namespace Strings

/-- `strings.HasPrefix(s, p)` -/
def hasPrefix (s p : Str) : Bool := p.isPrefixOf s

/-- `strings.HasSuffix(s, p)` -/
def hasSuffix (s p : Str) : Bool := p.isSuffixOf s

/-- `strings.TrimPrefix(s, p)` -/
def trimPrefix (s p : Str) : Str := if hasPrefix s p then s.drop p.length else s

/-- `strings.TrimSuffix(s, p)` -/
def trimSuffix (s p : Str) : Str := if hasSuffix s p then s.take (s.length - p.length) else s

/-- `strings.Join(parts, sep)` -/
def join : List Str → Str → Str
  | [], _ => []
  | [a], _ => a
  | a :: b :: rest, sep => a ++ sep ++ join (b :: rest) sep

/-- put a character in front of the first part -/
def consHead (c : Char) : List Str → List Str
  | [] => [[c]]
  | p :: ps => (c :: p) :: ps

/-- `strings.Split` for a non-empty separator, left to right: `skip` characters of a separator that
has just been matched are still to be passed over; otherwise a separator starting here ends the
current part (leftmost, non-overlapping matches, as `strings.Index` finds them), any other
character joins the current part. -/
def splitAux (sep : Str) : Nat → Str → List Str
  | _, [] => [[]]
  | skip + 1, _ :: cs => splitAux sep skip cs
  | 0, c :: cs =>
    if sep.isPrefixOf (c :: cs) then [] :: splitAux sep (sep.length - 1) cs
    else consHead c (splitAux sep 0 cs)

/-- `strings.Split(s, sep)`; an empty separator splits after every character -/
def split (s sep : Str) : List Str := if sep = [] then s.map (fun c => [c]) else splitAux sep 0 s

/-- `strconv.Itoa` of a non-negative int: the decimal numeral -/
def itoa (n : Nat) : Str := Nat.toDigits 10 n

/-! ## what these functions are -/

theorem hasPrefix_iff (s p : Str) : hasPrefix s p = true ↔ ∃ t, s = p ++ t := by
  unfold hasPrefix
  rw [List.isPrefixOf_iff_prefix]
  constructor
  · rintro ⟨t, h⟩; exact ⟨t, h.symm⟩
  · rintro ⟨t, h⟩; exact ⟨t, h.symm⟩

theorem hasSuffix_iff (s p : Str) : hasSuffix s p = true ↔ ∃ t, s = t ++ p := by
  unfold hasSuffix
  rw [List.isSuffixOf_iff_suffix]
  constructor
  · rintro ⟨t, h⟩; exact ⟨t, h.symm⟩
  · rintro ⟨t, h⟩; exact ⟨t, h.symm⟩

theorem trimPrefix_append (p t : Str) : trimPrefix (p ++ t) p = t := by
  have : hasPrefix (p ++ t) p = true := (hasPrefix_iff _ _).2 ⟨t, rfl⟩
  simp [trimPrefix, this]

theorem trimPrefix_of_not (s p : Str) (h : hasPrefix s p = false) : trimPrefix s p = s := by
  simp [trimPrefix, h]

theorem trimSuffix_append (t p : Str) : trimSuffix (t ++ p) p = t := by
  have : hasSuffix (t ++ p) p = true := (hasSuffix_iff _ _).2 ⟨t, rfl⟩
  simp [trimSuffix, this]

theorem trimSuffix_of_not (s p : Str) (h : hasSuffix s p = false) : trimSuffix s p = s := by
  simp [trimSuffix, h]

theorem itoa_eq_repr (n : Nat) : itoa n = (Nat.repr n).toList := by
  simp [itoa, Nat.repr]

theorem splitAux_ne_nil (sep : Str) (k : Nat) (s : Str) : splitAux sep k s ≠ [] := by
  induction s generalizing k with
  | nil => cases k <;> simp [splitAux]
  | cons c cs ih =>
    cases k with
    | succ k => simpa [splitAux] using ih k
    | zero =>
      unfold splitAux
      split
      · simp
      · cases splitAux sep 0 cs <;> simp [consHead]

/-- at least one part -/
theorem split_ne_nil (s sep : Str) (h : sep ≠ []) : split s sep ≠ [] := by
  simp [split, h, splitAux_ne_nil]

theorem splitAux_skip (sep : Str) (k : Nat) (s : Str) (h : k ≤ s.length) :
    splitAux sep k s = splitAux sep 0 (s.drop k) := by
  induction k generalizing s with
  | zero => rfl
  | succ k ih =>
    match s, h with
    | c :: cs, h => simpa [splitAux] using ih cs (by simpa using h)

theorem join_consHead (c : Char) (l : List Str) (sep : Str) (h : l ≠ []) :
    join (consHead c l) sep = c :: join l sep := by
  match l, h with
  | [a], _ => rfl
  | a :: b :: rest, _ => rfl

theorem join_nil_cons (l : List Str) (sep : Str) (h : l ≠ []) : join ([] :: l) sep = sep ++ join l sep := by
  match l, h with
  | a :: rest, _ => rfl

theorem join_splitAux (sep : Str) (hsep : sep ≠ []) (n : Nat) :
    ∀ s : Str, s.length ≤ n → join (splitAux sep 0 s) sep = s := by
  induction n with
  | zero =>
    intro s hs
    have : s = [] := List.eq_nil_of_length_eq_zero (by omega)
    subst this; rfl
  | succ n ih =>
    intro s hs
    match s, hs with
    | [], _ => rfl
    | c :: cs, hs =>
      unfold splitAux
      split
      · rename_i hp
        obtain ⟨t, ht⟩ := List.isPrefixOf_iff_prefix.1 hp
        match sep, hsep, ht with
        | d :: sep', _, ht =>
          have hc : d = c := by
            have := congrArg List.head? ht; simpa using this
          have hcs : cs = sep' ++ t := by
            have := congrArg List.tail ht; simpa using this.symm
          have hlen : (d :: sep').length - 1 ≤ cs.length := by simp [hcs]
          rw [splitAux_skip _ _ _ hlen, join_nil_cons _ _ (splitAux_ne_nil _ _ _)]
          have hdrop : cs.drop ((d :: sep').length - 1) = t := by simp [hcs]
          rw [hdrop, ih t (by simp [hcs] at hs; omega), ← ht]
      · rw [join_consHead _ _ _ (splitAux_ne_nil _ _ _), ih cs (by simpa using hs)]

/-- splitting and joining with the same non-empty separator gives the string back -/
theorem join_split (s sep : Str) (h : sep ≠ []) : join (split s sep) sep = s := by
  simp only [split, h, if_false]
  exact join_splitAux sep h s.length s (Nat.le_refl _)

/-- no part of a split on a one-character separator holds that character: together with
`join_split` this determines `split s [c]` -/
theorem split_single_no_sep (c : Char) (s : Str) : ∀ p ∈ split s [c], c ∉ p := by
  simp only [split, List.cons_ne_nil, if_false]
  induction s with
  | nil => simp [splitAux]
  | cons d ds ih =>
    unfold splitAux
    by_cases h : c = d
    · subst h
      simp only [List.isPrefixOf, beq_self_eq_true, Bool.true_and, if_true, List.length_singleton, Nat.sub_self]
      intro p hp
      rcases List.mem_cons.1 hp with rfl | hp
      · simp
      · exact ih p hp
    · have hb : (c == d) = false := by simpa using h
      simp only [List.isPrefixOf, hb, Bool.false_and, Bool.false_eq_true, if_false]
      intro p hp
      cases hsp : splitAux [c] 0 ds with
      | nil => exact absurd hsp (splitAux_ne_nil _ _ _)
      | cons q qs =>
        rw [hsp] at hp ih
        simp only [consHead] at hp
        rcases List.mem_cons.1 hp with rfl | hp
        · have := ih q (by simp)
          simp [this, h]
        · exact ih p (by simp [hp])

end Strings
end Go

import Lemmas.GSyncInv
import Lemmas.GSyncSum
/-!
# C02 — waiters released at zero, consistent at rest, Wait never blocks

All statements are about every state reachable by any client program under any schedule
(`NonNeg`: callers do not drive the count negative), examined at points where no `Add/Inc/Dec`
call is in flight (`quiescent`).
-/
namespace GSync

def begunSum (ts : List Thread) : Int := (ts.map (fun t => t.begun.sum)).sum

theorem quiescent_lock_free (s : St) (h : Inv s) (hq : quiescent s = true) : s.sh.lock = none := by
  cases hl : s.sh.lock with
  | none => rfl
  | some i =>
    exfalso
    obtain ⟨t, ht⟩ := h.holder i hl
    have hc := (h.th i t ht).mutex.2 hl
    have hm : t ∈ s.threads := List.mem_of_getElem? ht
    simp only [quiescent, List.all_eq_true] at hq
    have := hq t hm
    cases hp : t.pc <;> simp [hp, inCrit, inAdd] at hc this

/-- Whenever all `Add/Inc/Dec` calls have returned, the counter (what `Count()` loads) equals the
sum of the deltas of all calls begun so far. -/
theorem quiescent_count (progs : List (List Call)) (sched : List Nat)
    (hq : quiescent (run true (init true progs) sched) = true) :
    (run true (init true progs) sched).sh.count = begunSum (run true (init true progs) sched).threads := by
  have h2 := run_inv2 _ sched (init_inv2 progs)
  rw [h2.cnt, addedSum, begunSum]
  congr 1
  apply List.map_congr_left
  intro t ht
  obtain ⟨i, hi⟩ := List.mem_iff_getElem?.1 ht
  have hba := h2.ba i t hi
  simp only [quiescent, List.all_eq_true] at hq
  have hna := hq t ht
  unfold BA at hba
  cases hp : t.pc <;> simp [hp, inAdd] at hna hba <;> rw [hba]

theorem step_self (s : St) (i : Nat) (t : Thread) (ht : s.threads[i]? = some t) :
    (step true s i).threads[i]? = some (tstep true s.sh i t).2.1 := by
  have hi : i < s.threads.length := (List.getElem?_eq_some_iff.1 ht).1
  unfold step stepL
  rw [ht]
  simp [hi]

/-- `Count()` returns the counter: the value recorded by a `Count` call is the counter at its load. -/
theorem count_call_returns_counter (s : St) (i : Nat) (t : Thread) (ht : s.threads[i]? = some t)
    (hp : t.pc = .cLoad) :
    ∃ t', (step true s i).threads[i]? = some t' ∧ t'.rets = s.sh.count :: t.rets := by
  refine ⟨(tstep true s.sh i t).2.1, step_self s i t ht, ?_⟩
  simp only [tstep, hp]
  unfold enter; split <;> simp

/-- At rest with count zero, every channel ever returned by `Wait()` is closed. -/
theorem quiescent_zero_all_closed (progs : List (List Call)) (sched : List Nat)
    (hnn : NonNeg true (init true progs) sched)
    (hq : quiescent (run true (init true progs) sched) = true)
    (h0 : (run true (init true progs) sched).sh.count = 0) :
    ∀ t ∈ (run true (init true progs) sched).threads, ∀ r ∈ t.recs,
      isClosed (run true (init true progs) sched).sh r.ch = true := by
  intro t ht r hr
  have hinv := reachable_inv progs sched hnn
  have hrest := hinv.sh.rest (quiescent_lock_free _ hinv hq)
  obtain ⟨i, hi⟩ := List.mem_iff_getElem?.1 ht
  have hrec := (hinv.th i t hi).recs r hr
  have hw0 := hrest.1.1 h0
  simp only [isClosed, Bool.or_eq_true, beq_iff_eq, List.contains_iff_mem]
  by_cases hc : r.ch = 0
  · exact Or.inl hc
  · exact Or.inr (hrest.2 r.ch (by omega) hrec.lt (by rw [hw0]; exact hc))

/-- At rest with a positive count, the installed channel — the one a new `Wait()` returns — is
a real channel that is still open. -/
theorem quiescent_pos_fresh_wait_open (progs : List (List Call)) (sched : List Nat)
    (hnn : NonNeg true (init true progs) sched)
    (hq : quiescent (run true (init true progs) sched) = true)
    (hpos : 0 < (run true (init true progs) sched).sh.count) :
    (run true (init true progs) sched).sh.wchan ≠ 0 ∧
    isClosed (run true (init true progs) sched).sh (run true (init true progs) sched).sh.wchan = false := by
  have hinv := reachable_inv progs sched hnn
  have hrest := hinv.sh.rest (quiescent_lock_free _ hinv hq)
  have hw : (run true (init true progs) sched).sh.wchan ≠ 0 := fun h => by
    have := hrest.1.2 h; omega
  refine ⟨hw, ?_⟩
  have := hinv.sh.wopen hw
  simp [isClosed, hw, this]

/-! ### Wait never blocks: two own steps suffice whenever no `Add` operation executes -/

/-- along `more`, every step is taken by a goroutine that is not inside `Add` at that moment
(every other goroutine has finished, is between calls, or is itself in `Wait`/`Count`) -/
def NoAddSteps (s : St) : List Nat → Prop
  | [] => True
  | a :: rest => (∀ u, s.threads[a]? = some u → inAdd u.pc = false) ∧ NoAddSteps (step true s a) rest

theorem nonadd_step_shared (s : St) (j : Nat) (h : ∀ u, s.threads[j]? = some u → inAdd u.pc = false) :
    (step true s j).sh.count = s.sh.count ∧ (step true s j).sh.wchan = s.sh.wchan ∧
    (step true s j).sh.lock = s.sh.lock := by
  unfold step stepL
  cases hu : s.threads[j]? with
  | none => simp
  | some u =>
    have := h u hu
    cases hp : u.pc <;> simp [hp, inAdd] at this <;> simp only [tstep, hp]
    · simp
    · simp
    · split <;> simp
    · simp

theorem step_other_thread (s : St) (i j : Nat) (hij : j ≠ i) :
    (step true s j).threads[i]? = s.threads[i]? := by
  unfold step stepL
  cases hu : s.threads[j]? with
  | none => simp
  | some u => simp [List.getElem?_set, hij]

theorem tstep_recs_len (sh : Shared) (i : Nat) (t : Thread) :
    t.recs.length ≤ (tstep true sh i t).2.1.recs.length := by
  cases hp : t.pc with
  | idle => simp [tstep, hp]
  | aLock d => simp only [tstep, hp]; cases sh.lock <;> simp
  | aAdd d =>
    simp only [tstep, hp, finishAdd]
    by_cases h1 : sh.count + d = 0
    · rw [if_pos h1]; simp
    · by_cases h2 : 0 < d ∧ sh.count + d = d
      · rw [if_neg h1, if_pos h2]; simp
      · rw [if_neg h1, if_neg h2]; simp
  | aSwap v => simp only [tstep, hp, finishAdd]; split <;> simp
  | aCloseOld v ch => simp [tstep, hp, finishAdd]
  | aCAS v => simp only [tstep, hp, finishAdd]; split <;> simp
  | aCloseNew v ch => simp [tstep, hp, finishAdd]
  | aUnlock v => simp [tstep, hp, enter_recs]
  | wCount => simp [tstep, hp]
  | wChan c => simp only [tstep, hp]; split <;> simp [enter_recs]
  | cLoad => simp [tstep, hp, enter_recs]

/-- where the waiting goroutine `i` stands: `k` own steps still needed -/
def Phase (n : Nat) (s : St) (i : Nat) : Nat → Prop
  | 2 => ∃ t, s.threads[i]? = some t ∧ t.pc = .wCount ∧ t.recs.length = n
  | 1 => ∃ t, s.threads[i]? = some t ∧ t.pc = .wChan s.sh.count ∧ t.recs.length = n
  | _ => ∃ t, s.threads[i]? = some t ∧ n < t.recs.length

theorem wait_progress (n : Nat) (i : Nat) (more : List Nat) :
    ∀ (k : Nat) (s : St), k ≤ 2 → Inv s → s.sh.lock = none → Phase n s i k → NoAddSteps s more →
      k ≤ more.count i → Phase n (run true s more) i 0 := by
  induction more with
  | nil =>
    intro k s _ _ _ hph _ hk
    have : k = 0 := by simpa using hk
    subst this; simpa [run] using hph
  | cons a rest ih =>
    intro k s hk2 hinv hlk hph hno hk
    obtain ⟨hna, hno'⟩ := hno
    have hsh := nonadd_step_shared s a hna
    have hinv' : Inv (step true s a) := step_inv s a hinv (by rw [hsh.1]; exact hinv.sh.nn)
    have hlk' : (step true s a).sh.lock = none := by rw [hsh.2.2]; exact hlk
    simp only [run, List.foldl_cons]
    by_cases hai : a = i
    · subst hai
      -- the waiting goroutine itself steps
      have hk' : k - 1 ≤ rest.count a := by simp at hk; omega
      refine ih (k - 1) (step true s a) (by omega) hinv' hlk' ?_ hno' hk'
      have hcases : k = 0 ∨ k = 1 ∨ k = 2 := by omega
      rcases hcases with rfl | rfl | rfl
      · obtain ⟨t, ht, hlen⟩ := hph
        refine ⟨(tstep true s.sh a t).2.1, step_self s a t ht, ?_⟩
        have := tstep_recs_len s.sh a t; omega
      · obtain ⟨t, ht, hpc, hlen⟩ := hph
        have hrest := hinv.sh.rest hlk
        have hret : s.sh.count = 0 ∨ (0 < s.sh.count ∧ s.sh.wchan ≠ 0) := by
          by_cases h0 : s.sh.count = 0
          · exact Or.inl h0
          · have := hinv.sh.nn
            exact Or.inr ⟨by omega, fun hw => h0 (hrest.1.2 hw)⟩
        refine ⟨(tstep true s.sh a t).2.1, step_self s a t ht, ?_⟩
        simp only [tstep, hpc, if_pos hret, enter_recs]
        simp [hlen]
      · obtain ⟨t, ht, hpc, hlen⟩ := hph
        refine ⟨(tstep true s.sh a t).2.1, step_self s a t ht, ?_, ?_⟩
        · rw [hsh.1]; simp [tstep, hpc]
        · simp [tstep, hpc, hlen]
    · -- another goroutine steps: goroutine `i`, the counter and the channel are untouched
      have hk' : k ≤ rest.count i := by
        simpa [List.count_cons, hai] using hk
      refine ih k (step true s a) hk2 hinv' hlk' ?_ hno' hk'
      have hth := step_other_thread s i a hai
      have hcases : k = 0 ∨ k = 1 ∨ k = 2 := by omega
      rcases hcases with rfl | rfl | rfl
      · obtain ⟨t, ht, hlen⟩ := hph
        exact ⟨t, by rw [hth]; exact ht, hlen⟩
      · obtain ⟨t, ht, hpc, hlen⟩ := hph
        exact ⟨t, by rw [hth]; exact ht, by rw [hsh.1]; exact hpc, hlen⟩
      · obtain ⟨t, ht, hpc, hlen⟩ := hph
        exact ⟨t, by rw [hth]; exact ht, hpc, hlen⟩

/-- `Wait()` never waits for a call that has not started: from any reachable state in which no
`Add` is in flight, a goroutine at the start of `Wait` has returned (recorded a result) after
its second own step, whatever the other goroutines do in between, as long as no `Add`
operation executes. -/
theorem wait_returns_in_two_steps (progs : List (List Call)) (sched : List Nat)
    (hnn : NonNeg true (init true progs) sched)
    (hq : quiescent (run true (init true progs) sched) = true)
    (i : Nat) (t : Thread) (ht : (run true (init true progs) sched).threads[i]? = some t)
    (hpc : t.pc = .wCount) (more : List Nat)
    (hno : NoAddSteps (run true (init true progs) sched) more) (h2 : 2 ≤ more.count i) :
    ∃ t', (run true (run true (init true progs) sched) more).threads[i]? = some t' ∧
      t.recs.length < t'.recs.length := by
  have hinv := reachable_inv progs sched hnn
  have := wait_progress t.recs.length i more 2 _ (by omega) hinv (quiescent_lock_free _ hinv hq)
    ⟨t, ht, hpc, rfl⟩ hno h2
  exact this

/-- The algorithm at the pinned commit violates C02: after the schedule of `legacy_violates_C01`
all calls have returned, the count is 3 and the closed sentinel is installed … -/
theorem legacy_violates_C02 :
    let s := run false (init false [[.add 1, .add (-1)], [.wait, .add 1, .add 2, .wait]])
      [0, 0, 0, 1, 1, 1, 1, 1, 1, 1, 1, 0, 0]
    quiescent s = true ∧ s.sh.count = 3 ∧ s.sh.wchan = 0 := by
  decide

/-- … and in any such state `Wait` retries forever (both loads of an iteration leave it where
it was), for either algorithm, since `Wait` is the same in both. -/
theorem wait_spins_when_inconsistent (L : Bool) (sh : Shared) (i : Nat) (t : Thread)
    (hc : 0 < sh.count) (hw : sh.wchan = 0) (hp : t.pc = .wCount) :
    let r1 := tstep L sh i t
    let r2 := tstep L r1.1 i r1.2.1
    r2.1 = sh ∧ r2.2.1.pc = .wCount ∧ r2.2.1.recs = t.recs := by
  simp only [tstep, hp]
  have h1 : ¬ (sh.count = 0 ∨ 0 < sh.count ∧ sh.wchan ≠ 0) := by
    rintro (h | ⟨_, h⟩)
    · omega
    · exact h hw
  simp [h1]

/-- non-vacuity: a reachable quiescent state with positive count, and a goroutine at the start
of Wait there, for which the two-step theorem's hypotheses hold with `more = [1, 0, 1]`. -/
example :
    let s := run true (init true [[.add 2, .count], [.wait]]) [0, 0, 0, 0]
    quiescent s = true ∧ s.sh.count = 2 ∧ (∃ t, s.threads[1]? = some t ∧ t.pc = .wCount) ∧
      NoAddSteps s [1, 0, 1] := by
  refine ⟨by decide, by decide, by decide, ?_⟩
  simp only [NoAddSteps]
  decide

end GSync

import Model.Genum
import Driver.Util
/-! Line protocol for `Model/Genum` (stateful: the definition file being assembled, then the
generated code of every type).

```
gn opt <flags>                         flags: letters, `c` = -caseInsensitive; `-` = none      -> ok
gn type <T> <kind>                     kind = i8 i16 i32 i64 int u8 u16 u32 u64 uint           -> ok
gn const <T> <name> <val> <d|-> <form> one constant, source order; form only steers how the
                                       harness writes the line (iota / explicit / implicit)    -> ok
gn block | gn skip | gn other …        source layout only (new const block, `_` line,
                                       unrelated constant)                                     -> ok
gn gen                                 run the generator + compile     -> ok | err:compile
gn values <T>                          Values()                        -> v,v,… | -
gn valid <T> all | v,v,…               IsValid (all = every value of an 8-bit kind, ascending) -> t/f string
gn str <T> all | v,v,…                 String()                        -> s,s,…
gn strvals <T>                         StringValues()                  -> s,s,… | -
gn parse <T> <hex>                     Parse<T>/ParseString/ParseGeneric of the string         -> ok:<v> | err
```
-/
namespace Drv.Genum
open _root_.Genum

structure St where
  opts : Options := {}
  types : List TypeDecl := []
  consts : List Const := []      -- reversed source order while assembling
  outs : List (TypeDecl × GenOut) := []
  status : String := "no-gen"

def kindOf : String → Option IntKind
  | "i8" => some ⟨8, true⟩ | "i16" => some ⟨16, true⟩ | "i32" => some ⟨32, true⟩
  | "i64" => some ⟨64, true⟩ | "int" => some ⟨64, true⟩
  | "u8" => some ⟨8, false⟩ | "u16" => some ⟨16, false⟩ | "u32" => some ⟨32, false⟩
  | "u64" => some ⟨64, false⟩ | "uint" => some ⟨64, false⟩
  | _ => none

def hexVal (c : Char) : Option Nat :=
  if '0' ≤ c ∧ c ≤ '9' then some (c.toNat - 48)
  else if 'a' ≤ c ∧ c ≤ 'f' then some (c.toNat - 87)
  else none

def unhexAux : List Char → Option (List Char)
  | [] => some []
  | a :: b :: r => do
    let x ← hexVal a
    let y ← hexVal b
    let rest ← unhexAux r
    pure (Char.ofNat (16 * x + y) :: rest)
  | _ => none

/-- `-` = empty string, else lower-case hex of the bytes (ASCII only) -/
def unhex (w : String) : Option String :=
  if w = "-" then some "" else (unhexAux w.toList).map String.ofList

def joinComma (xs : List String) : String := if xs.isEmpty then "-" else ",".intercalate xs

def rangeOf (k : IntKind) : List Int :=
  (List.range (2 ^ k.bits)).map (fun (i : Nat) => k.minVal + Int.ofNat i)

def valsArg (k : IntKind) (w : String) : Option (List Int) :=
  if w = "all" then (if k.bits ≤ 8 then some (rangeOf k) else none)
  else match (w.splitOn ",").mapM String.toInt? with
    | some vs => if vs.all (fun v => decide (k.InRange v)) then some vs else none
    | none => none

def handle (st : St) (ws : List String) : St × String :=
  match ws with
  | ["opt", fl] => ({ st with opts := { caseInsensitive := fl.toList.contains 'c' } }, "ok")
  | ["type", t, k] =>
    match kindOf k with
    | some k => ({ st with types := st.types ++ [⟨t, k⟩] }, "ok")
    | none => (st, "bad-op")
  | ["const", t, name, v, d, _form] =>
    match v.toInt? with
    | some v => ({ st with consts := ⟨name, t, v, d == "d"⟩ :: st.consts }, "ok")
    | none => (st, "bad-op")
  | ["block"] | ["skip"] => (st, "ok")
  | "other" :: _ => (st, "ok")
  | ["gen"] =>
    let f : FileDef := ⟨st.types, st.consts.reverse⟩
    let outs := st.types.map (fun t => (t, genType st.opts f t.name))
    let status := if outs.any (fun o => o.2.dupLowerCase) then "err:compile" else "ok"
    ({ st with outs := outs, status := status }, status)
  | op :: t :: rest =>
    if st.status ≠ "ok" then (st, "no-gen") else
    match st.outs.find? (fun o => o.1.name == t) with
    | none => (st, "no-type")
    | some (td, g) =>
      match op, rest with
      | "values", [] => (st, joinComma (g.values.map toString))
      | "strvals", [] => (st, joinComma g.stringValues)
      | "valid", [w] =>
        match valsArg td.kind w with
        | some vs => (st, String.join (vs.map (fun v => showBool (g.isValid v))))
        | none => (st, "bad-op")
      | "str", [w] =>
        match valsArg td.kind w with
        | some vs => (st, joinComma (vs.map g.string))
        | none => (st, "bad-op")
      | "parse", [w] =>
        match unhex w with
        | some s => (st, match g.parseString s with | some v => s!"ok:{v}" | none => "err")
        | none => (st, "bad-op")
      | _, _ => (st, "bad-op")
  | _ => (st, "bad-op")

end Drv.Genum

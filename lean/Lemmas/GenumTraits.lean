import Model.Genum
import Lemmas.Genum
/-! Technical lemmas about part 2 of `Model/Genum` (traits, the extended `Parse` switch, the
decoders). The property theorems are in `Properties/C05.lean` and `Properties/C12.lean`. -/
namespace Genum

/-! ### `mapM` in `Except` over a function that cannot fail -/

theorem mapM_ok_pure {α β ε : Type} (g : α → β) (l : List α) :
    l.mapM (fun a => (Except.ok (g a) : Except ε β)) = .ok (l.map g) := by
  induction l with
  | nil => rfl
  | cons x xs ih =>
    rw [List.mapM_cons, ih]
    rfl

/-! ### closed form of the current `Parse` switch -/

/-- the constant trait `t` contributes to the case of value `v`: the constant of its row on the
line of `v`, unless an earlier parsable trait already contributes that very constant -/
def caseOne (ts : List TraitDesc) (first : Option Value) (v : Value) (t : TraitDesc) : List Dyn :=
  match t.instanceOf v with
  | some r => if repeatsParseKey {} ts first t r then [] else [r.dyn]
  | none => []

/-- the trait constants in the case of value `v`: one per parsable trait that has a row on the
line of `v` -/
def caseConsts (ts : List TraitDesc) (first : Option Value) (v : Value) : List Dyn :=
  ((ts.filter (fun t => t.parsable)).map (caseOne ts first v)).flatten

theorem traitCaseOne_default (ts : List TraitDesc) (first : Option Value) (j : Nat) (v : Value) (t : TraitDesc) :
    traitCaseOne {} ts first j v t = .ok (caseOne ts first v t) := by
  unfold traitCaseOne caseOne
  simp only [Bool.false_eq_true, if_false]
  cases t.instanceOf v with
  | none => rfl
  | some r => simp only []; split <;> rfl

theorem traitCaseConsts_default (ts : List TraitDesc) (first : Option Value) (j : Nat) (v : Value) :
    traitCaseConsts {} ts first j v = .ok (caseConsts ts first v) := by
  unfold traitCaseConsts caseConsts
  have : traitCaseOne {} ts first j v = fun t => (Except.ok (caseOne ts first v t) : Except GenFailure (List Dyn)) := by
    funext t; exact traitCaseOne_default ts first j v t
  rw [this, mapM_ok_pure]
  rfl

/-- the case the current template renders for value `v` -/
def caseOf (ts : List TraitDesc) (first : Option Value) (v : Value) : ParseCase :=
  ⟨Dyn.ofString v.name :: caseConsts ts first v, v⟩

theorem parseCases_default (ts : List TraitDesc) (vs : List Value) :
    parseCases {} ts vs = .ok (vs.map (caseOf ts vs.head?)) := by
  unfold parseCases
  have : (fun (p : Nat × Value) => (traitCaseConsts {} ts vs.head? p.1 p.2).map (fun cs => (⟨Dyn.ofString p.2.name :: cs, p.2⟩ : ParseCase)))
      = fun p => (Except.ok (caseOf ts vs.head? p.2) : Except GenFailure ParseCase) := by
    funext p
    rw [traitCaseConsts_default]
    rfl
  show List.mapM (fun (p : Nat × Value) => (traitCaseConsts {} ts vs.head? p.1 p.2).map (fun cs => (⟨Dyn.ofString p.2.name :: cs, p.2⟩ : ParseCase))) _ = _
  rw [this, mapM_ok_pure]
  congr 1
  have h2 : ((List.range vs.length).zip vs).map Prod.snd = vs := List.map_snd_zip (by simp)
  calc List.map (fun p => caseOf ts vs.head? p.snd) ((List.range vs.length).zip vs)
      = List.map (caseOf ts vs.head?) (((List.range vs.length).zip vs).map Prod.snd) := by rw [List.map_map]; rfl
    _ = List.map (caseOf ts vs.head?) vs := by rw [h2]

/-- what `genFull` returns, in closed form -/
theorem genFull_ok {o : Options} {f : FileDef} {t : TypeDecl} {g : GenFull} (h : genFull o f t = .ok g) :
    ∃ ts, genTraits {} o t.cols (sortedValues f t.name) = .ok ts ∧
      g = { base := { genType o f t.name with cases := (sortedValues f t.name).map (caseOf ts (sortedValues f t.name).head?) }, traits := ts } ∧
      hasDupCase g = false := by
  unfold genFull genFullQ at h
  simp only [bind, Except.bind] at h
  split at h
  · cases h
  · rename_i ts hts
    rw [parseCases_default] at h
    simp only [] at h
    split at h
    · cases h
    · rename_i hd
      injection h with h
      subst h
      exact ⟨ts, hts, rfl, by simpa using hd⟩

/-! ### `getPrimary` picks the primary entry of a group -/

theorem getPrimaryLoop_spec (rest : List Value) : ∀ (seen : List Value) (p : Value),
    p ∈ seen → PrimaryIn seen p →
    (seen ++ rest).Pairwise (fun a b => a.name < b.name) →
    (∀ c ∈ seen ++ rest, c.val = p.val) →
    PrimaryIn (seen ++ rest) (getPrimaryLoop p rest).1 := by
  induction rest with
  | nil => intro seen p _ hp _ _; simpa [getPrimaryLoop] using hp
  | cons v rest ih =>
    intro seen p hps hp hsort hval
    have hpa := List.pairwise_append.mp hsort
    have eassoc : seen ++ v :: rest = (seen ++ [v]) ++ rest := by simp
    have hpv : p.name < v.name := hpa.2.2 p hps v (by simp)
    have hvv : v.val = p.val := hval v (by simp)
    unfold getPrimaryLoop
    by_cases h1 : (p.deprecated && !v.deprecated) = true
    · rw [if_pos h1]
      simp at h1
      have hall : ∀ c ∈ seen, c.val = p.val → c.deprecated = true := by
        rcases hp.2 with ⟨hd, _⟩ | ⟨h, _⟩
        · rw [h1.1] at hd; cases hd
        · exact h
      have hpx : PrimaryIn (seen ++ [v]) v := by
        refine ⟨by simp, Or.inl ⟨h1.2, ?_⟩⟩
        intro c hc _ hcd
        rcases List.mem_append.mp hc with hc | hc
        · have := hall c hc (hval c (List.mem_append_left _ hc)); rw [this] at hcd; cases hcd
        · rw [List.mem_singleton.mp hc]; exact String.le_refl _
      rw [eassoc]
      exact ih (seen ++ [v]) v (by simp) hpx (eassoc ▸ hsort) (fun c hc => by rw [hval c (eassoc ▸ hc), hvv])
    · rw [if_neg h1]
      by_cases h2 : (!p.deprecated && !v.deprecated) = true
      · rw [if_pos h2]
        simp at h2
        refine ⟨List.mem_append_left _ hps, Or.inl ⟨h2.1, ?_⟩⟩
        intro c hc hcv hcd
        rcases List.mem_append.mp hc with hc | hc
        · rcases hp.2 with ⟨_, h⟩ | ⟨h, _⟩
          · exact h c hc hcv hcd
          · have := h p hps rfl; rw [h2.1] at this; cases this
        · exact String.le_of_lt' (hpa.2.2 p hps c hc)
      · rw [if_neg h2]
        have hvd : v.deprecated = true := by
          cases hv : v.deprecated
          · cases hpd : p.deprecated
            · exact absurd (by simp [hv, hpd]) h2
            · exact absurd (by simp [hv, hpd]) h1
          · rfl
        have hpc : PrimaryIn (seen ++ [v]) p := by
          refine ⟨List.mem_append_left _ hps, ?_⟩
          rcases hp.2 with ⟨hd, h⟩ | ⟨ha, hb⟩
          · left; refine ⟨hd, ?_⟩
            intro c hc hcv hcd
            rcases List.mem_append.mp hc with hc | hc
            · exact h c hc hcv hcd
            · rw [List.mem_singleton.mp hc] at hcd; rw [hvd] at hcd; cases hcd
          · right; constructor
            · intro c hc hcv
              rcases List.mem_append.mp hc with hc | hc
              · exact ha c hc hcv
              · rw [List.mem_singleton.mp hc]; exact hvd
            · intro c hc hcv
              rcases List.mem_append.mp hc with hc | hc
              · exact hb c hc hcv
              · rw [List.mem_singleton.mp hc]; exact String.le_of_lt' hpv
        rw [eassoc]
        exact ih (seen ++ [v]) p (List.mem_append_left _ hps) hpc (eassoc ▸ hsort) (fun c hc => hval c (eassoc ▸ hc))

/-- on a group of entries of one value, listed in name order, `getPrimary` returns the primary
entry (first live name, else first name) -/
theorem getPrimary_spec (gl : List Value) (x : Value) (hx : x ∈ gl)
    (hsort : gl.Pairwise (fun a b => a.name < b.name)) (hval : ∀ c ∈ gl, c.val = x.val) :
    ∃ p safe, getPrimary gl = some (p, safe) ∧ PrimaryIn gl p := by
  match gl, hx, hsort, hval with
  | [v], _, _, _ => exact ⟨v, true, rfl, PrimaryIn.single v⟩
  | v :: w :: rest, _, hsort, hval =>
    refine ⟨(getPrimaryLoop v (w :: rest)).1, (getPrimaryLoop v (w :: rest)).2, rfl, ?_⟩
    have := getPrimaryLoop_spec (w :: rest) [v] v (by simp) (PrimaryIn.single v) (by simpa using hsort)
      (fun c hc => by rw [hval c (by simpa using hc), hval v (by simp)])
    simpa using this

/-! ### what `genTraits` returns -/

theorem insertTrait_perm (t : TraitDesc) (l : List TraitDesc) : (insertTrait t l).Perm (t :: l) := by
  induction l with
  | nil => exact List.Perm.refl _
  | cons y ys ih =>
    unfold insertTrait
    split
    · exact List.Perm.refl _
    · exact (List.Perm.cons y ih).trans (List.Perm.swap t y ys)

theorem sortTraits_perm (l : List TraitDesc) : (sortTraits l).Perm l := by
  induction l with
  | nil => exact List.Perm.refl _
  | cons x xs ih =>
    show (insertTrait x (sortTraits xs)).Perm (x :: xs)
    exact (insertTrait_perm x _).trans (List.Perm.cons x ih)

/-- the description `genTraits` builds for column `j` -/
def mkTrait (o : Options) (vs : List Value) (p : Nat × TraitCol) : TraitDesc :=
  { name := p.2.name, ty := p.2.ty, fam := p.2.fam, parsable := o.parsable.contains p.2.name,
    rows := (rowsOf vs p.1 p.2.ty).filter (keepRow {} vs) }

theorem genTraits_ok {o : Options} {cols : List TraitCol} {first : Value} {rest : List Value} {ts : List TraitDesc}
    (h : genTraits {} o cols (first :: rest) = .ok ts) :
    ts.Perm (((List.range (cols.take first.tvals.length).length).zip (cols.take first.tvals.length)).map
      (mkTrait o (first :: rest))) := by
  unfold genTraits at h
  simp only [] at h
  split at h
  · cases h
  · split at h
    · rename_i hemp
      injection h with h
      subst h
      have : cols.take first.tvals.length = [] := by simpa using hemp
      rw [this]; exact List.Perm.refl _
    · split at h
      · cases h
      · injection h with h
        subst h
        exact sortTraits_perm _

theorem mem_zip_range {α : Type} (l : List α) (j : Nat) (x : α) (h : l[j]? = some x) :
    (j, x) ∈ (List.range l.length).zip l := by
  obtain ⟨hj, hx⟩ := List.getElem?_eq_some_iff.mp h
  rw [List.mem_iff_getElem]
  refine ⟨j, by simp [hj], ?_⟩
  rw [List.getElem_zip, List.getElem_range, hx]

/-! ### from the value list back to the definition -/

theorem primary_of_primaryIn {f : FileDef} {t : String} {o : Value} (hp : PrimaryIn (sortedValues f t) o) :
    IsPrimary f t o.val o.name := by
  obtain ⟨hm, hp⟩ := hp
  obtain ⟨c, hc, ht, rfl⟩ := mem_sortedValues.mp hm
  refine ⟨c, hc, ht, rfl, rfl, ?_⟩
  rcases hp with ⟨hd, hmin⟩ | ⟨hall, hmin⟩
  · left; refine ⟨hd, ?_⟩
    intro c' hc' ht' hv' hd'
    exact hmin (Value.ofConst c') (mem_sortedValues.mpr ⟨c', hc', ht', rfl⟩) hv' hd'
  · right; constructor
    · intro c' hc' ht' hv'
      exact hall (Value.ofConst c') (mem_sortedValues.mpr ⟨c', hc', ht', rfl⟩) hv'
    · intro c' hc' ht' hv'
      exact hmin (Value.ofConst c') (mem_sortedValues.mpr ⟨c', hc', ht', rfl⟩) hv'

/-- the group `processDuplicates` forms for the value of `x` (entries with the same uint64 image) -/
def groupOf (vs : List Value) (x : Value) : List Value := vs.filter (fun v => v.value == x.value)

/-- `getPrimary` on the group of `x` inside a sorted, faithful value list returns an entry that is
primary in the WHOLE list -/
theorem getPrimary_group (vs : List Value) (hs : vs.Pairwise R) (hf : ValueFaithful vs) (x : Value) (hx : x ∈ vs) :
    ∃ p safe, getPrimary (groupOf vs x) = some (p, safe) ∧ PrimaryIn vs p ∧ p.val = x.val := by
  have hmem : ∀ c, c ∈ groupOf vs x ↔ c ∈ vs ∧ c.val = x.val := by
    intro c
    unfold groupOf
    rw [List.mem_filter]
    constructor
    · rintro ⟨hc, hv⟩; exact ⟨hc, (hf c hc x hx).mp (by simpa using hv)⟩
    · rintro ⟨hc, hv⟩; exact ⟨hc, by simpa using (hf c hc x hx).mpr hv⟩
  have hsort : (groupOf vs x).Pairwise (fun a b => a.name < b.name) := by
    have h1 : (groupOf vs x).Pairwise R := hs.filter _
    refine h1.imp_of_mem ?_
    intro a b ha hb hr
    have ea := ((hmem a).mp ha).2
    have eb := ((hmem b).mp hb).2
    unfold R at hr
    rcases hr with h | ⟨_, h⟩
    · omega
    · exact h
  obtain ⟨p, safe, hgp, hpin⟩ := getPrimary_spec (groupOf vs x) x ((hmem x).mpr ⟨hx, rfl⟩) hsort
    (fun c hc => ((hmem c).mp hc).2)
  have hpv : p.val = x.val := ((hmem p).mp hpin.1).2
  refine ⟨p, safe, hgp, ⟨((hmem p).mp hpin.1).1, ?_⟩, hpv⟩
  rcases hpin.2 with ⟨hd, h⟩ | ⟨h1, h2⟩
  · left; refine ⟨hd, ?_⟩
    intro c hc hcv hcd
    exact h c ((hmem c).mpr ⟨hc, by rw [hcv, hpv]⟩) hcv hcd
  · right; constructor
    · intro c hc hcv; exact h1 c ((hmem c).mpr ⟨hc, by rw [hcv, hpv]⟩) hcv
    · intro c hc hcv; exact h2 c ((hmem c).mpr ⟨hc, by rw [hcv, hpv]⟩) hcv

/-- a row whose owner carries the primary name of its value survives `processDuplicates` -/
theorem keepRow_of_primary_name (vs : List Value) (hs : vs.Pairwise R) (hf : ValueFaithful vs)
    (r : TraitRow) (hr : r.owner ∈ vs)
    (hname : ∀ p, PrimaryIn vs p → p.val = r.owner.val → p.name = r.owner.name) :
    keepRow {} vs r = true := by
  obtain ⟨p, safe, hgp, hpin, hpv⟩ := getPrimary_group vs hs hf r.owner hr
  unfold keepRow
  have : vs.filter (fun v => v.value == r.owner.value) = groupOf vs r.owner := rfl
  rw [this, hgp]
  have hn := hname p hpin hpv
  simp [hn]

/-! ### rows of an accepted generation -/

theorem trait_mem_shape {o : Options} {f : FileDef} {t : TypeDecl} {g : GenFull} (h : genFull o f t = .ok g)
    (td : TraitDesc) (htd : td ∈ g.traits) :
    ∃ j col, td = mkTrait o (sortedValues f t.name) (j, col) := by
  obtain ⟨ts, hts, hg, _⟩ := genFull_ok h
  subst hg
  match hvs : sortedValues f t.name with
  | [] =>
    rw [hvs] at hts
    simp [genTraits] at hts
    subst hts
    cases htd
  | first :: rest =>
    rw [hvs] at hts
    have hperm := genTraits_ok hts
    obtain ⟨p, _, hp⟩ := List.mem_map.mp (hperm.mem_iff.mp htd)
    exact ⟨p.1, p.2, hp.symm⟩

/-- facts about a row of a trait of an accepted generation: its owner is one of the sorted values,
its constant has the trait's type, and within the trait a row is determined by its owner's name -/
theorem row_facts {o : Options} {f : FileDef} {t : TypeDecl} {k : IntKind} {g : GenFull}
    (h : genFull o f t = .ok g) (ha : Accepted f t.name k)
    (td : TraitDesc) (htd : td ∈ g.traits) (r : TraitRow) (hr : r ∈ td.rows) :
    r.owner ∈ sortedValues f t.name ∧ r.dyn.ty = td.ty ∧
    ∀ r' ∈ td.rows, r'.owner.name = r.owner.name → r' = r := by
  obtain ⟨j, col, rfl⟩ := trait_mem_shape h td htd
  have hrow : ∀ x ∈ (mkTrait o (sortedValues f t.name) (j, col)).rows,
      ∃ v ∈ sortedValues f t.name, ∃ s, v.tvals[j]? = some s ∧ x = ⟨v, ⟨col.ty, s⟩⟩ := by
    intro x hx
    have hx1 := (List.mem_filter.mp hx).1
    unfold rowsOf at hx1
    obtain ⟨v, hv, hm⟩ := List.mem_filterMap.mp hx1
    cases hs : v.tvals[j]? with
    | none => rw [hs] at hm; cases hm
    | some s =>
      rw [hs] at hm
      exact ⟨v, hv, s, hs, by simpa using hm.symm⟩
  obtain ⟨v, hv, s, hs, rfl⟩ := hrow r hr
  refine ⟨hv, rfl, ?_⟩
  intro r' hr' hname
  obtain ⟨v', hv', s', hs', rfl⟩ := hrow r' hr'
  obtain ⟨c, hc, _, rfl⟩ := mem_sortedValues.mp hv
  obtain ⟨c', hc', _, rfl⟩ := mem_sortedValues.mp hv'
  have : c' = c := const_eq_of_name ha.names hc' hc hname
  subst this
  rw [hs] at hs'
  injection hs' with e
  subst e
  rfl

/-! ### the switch, read backwards -/

theorem parse_some (g : GenOut) (d : Dyn) (w : Int) (h : g.parse d = some w) :
    (∃ c ∈ g.cases, d ∈ c.consts ∧ w = c.target.val) ∨
    (∃ lc s, g.lowerCases = some lc ∧ d = Dyn.ofString s ∧ ∃ p ∈ lc, p.1 = asciiLower s ∧ w = p.2.val) := by
  unfold GenOut.parse at h
  cases hf : g.cases.find? (fun c => c.consts.contains d) with
  | some c =>
    rw [hf] at h
    injection h with h
    left
    exact ⟨c, List.mem_of_find?_eq_some hf, by simpa using List.find?_some hf, h.symm⟩
  | none =>
    rw [hf] at h
    right
    simp only [] at h
    split at h
    · rename_i lc s hl
      cases hq : lc.find? (fun p => p.1 == asciiLower s) with
      | none => rw [hq] at h; cases h
      | some p =>
        rw [hq] at h
        injection h with h
        exact ⟨lc, s, hl, rfl, p, List.mem_of_find?_eq_some hq, by simpa using List.find?_some hq, h.symm⟩
    · cases h

theorem firstSome_eq {α : Type} (l : List (Option α)) (v : α)
    (h1 : ∀ x ∈ l, x = none ∨ x = some v) (h2 : some v ∈ l) : firstSome l = some v := by
  induction l with
  | nil => cases h2
  | cons x xs ih =>
    rcases h1 x (by simp) with hx | hx
    · subst hx
      rcases List.mem_cons.mp h2 with e | h2'
      · cases e
      · exact ih (fun y hy => h1 y (List.mem_cons_of_mem _ hy)) h2'
    · subst hx; rfl

/-- Go's integer conversion is the identity on values of the target type -/
theorem wrapTo_id (signed : Bool) (bits : Nat) (hb : 1 ≤ bits) (x : Int)
    (hx : if signed then -((2 : Int) ^ (bits - 1)) ≤ x ∧ x < (2 : Int) ^ (bits - 1) else 0 ≤ x ∧ x < (2 : Int) ^ bits) :
    wrapTo signed bits x = x := by
  unfold wrapTo
  have hpow : (2 : Int) ^ bits = 2 * (2 : Int) ^ (bits - 1) := by
    have : bits = (bits - 1) + 1 := by omega
    rw [this, Int.pow_succ]; simp; omega
  have hpos : (0 : Int) < (2 : Int) ^ (bits - 1) := Int.pow_pos (by decide)
  generalize (2 : Int) ^ (bits - 1) = hlf at *
  rw [hpow]
  cases signed
  · simp only [Bool.false_eq_true, if_false] at hx
    simp only [Bool.false_and, Bool.false_eq_true, if_false]
    rw [hpow] at hx
    exact Int.emod_eq_of_lt hx.1 hx.2
  · simp only [if_true] at hx
    simp only [Bool.true_and]
    have h2 : (2 * hlf) / 2 = hlf := by omega
    rw [h2]
    by_cases hneg : x < 0
    · have : x % (2 * hlf) = x + 2 * hlf := by
        have := Int.emod_emod_of_dvd x (Int.dvd_refl (2 * hlf))
        have h3 : (x + 2 * hlf) % (2 * hlf) = x % (2 * hlf) := by simp
        rw [← h3]; exact Int.emod_eq_of_lt (by omega) (by omega)
      rw [this]
      have : decide (x + 2 * hlf ≥ hlf) = true := by simp; omega
      rw [this]; simp
    · have : x % (2 * hlf) = x := Int.emod_eq_of_lt (by omega) (by omega)
      rw [this]
      have : decide (x ≥ hlf) = false := by simp; omega
      rw [this]; simp

/-! ### decoders: nothing parses, nothing decodes -/

theorem firstSome_none {α : Type} (l : List (Option α)) (h : ∀ x ∈ l, x = none) : firstSome l = none := by
  induction l with
  | nil => rfl
  | cons x xs ih =>
    have hx := h x (by simp)
    subst hx
    exact ih (fun y hy => h y (List.mem_cons_of_mem _ hy))

theorem stringTry_none (g : GenFull) (s : String) (h : ∀ ty, g.base.parse ⟨ty, .str s⟩ = none) :
    stringTry g s = none := by
  unfold stringTry
  rw [show Dyn.ofString s = ⟨"string", .str s⟩ from rfl, h "string"]
  apply firstSome_none
  intro x hx
  obtain ⟨t, _, rfl⟩ := List.mem_map.mp hx
  exact h t.ty

/-- a numeric fallback block fails when the number is no constant of any trait THE BLOCK RANGES
OVER (the parsable traits of that kind whose type has no unmarshaler of its own for the codec) -/
theorem numericTry_none_of_list (g : GenFull) (c : Codec) (signed : Bool) (x : Int)
    (h : ∀ t ∈ g.numericTraits c signed, g.base.parse ⟨t.ty, .int x⟩ = none) :
    numericTry {} g c signed x = none := by
  unfold numericTry
  apply firstSome_none
  intro y hy
  obtain ⟨t, ht, rfl⟩ := List.mem_map.mp hy
  simp only []
  generalize wrapTo signed _ x = w
  by_cases hc : w = x
  · subst hc; simp [h t ht]
  · have : (({} : Quirks).noRangeGuard || w == x) = false := by simp [hc]
    rw [this]; rfl

theorem numericTry_none (g : GenFull) (c : Codec) (signed : Bool) (x : Int) (h : ∀ ty, g.base.parse ⟨ty, .int x⟩ = none) :
    numericTry {} g c signed x = none :=
  numericTry_none_of_list g c signed x (fun t _ => h t.ty)

/-- a predicate that implies another and misses one element the other has selects strictly fewer -/
theorem filter_length_lt {α : Type} (p q : α → Bool) (l : List α) (hpq : ∀ x, p x = true → q x = true)
    (a : α) (ha : a ∈ l) (hqa : q a = true) (hpa : p a = false) :
    (l.filter p).length < (l.filter q).length := by
  induction l with
  | nil => cases ha
  | cons x xs ih =>
    have hle : (xs.filter p).length ≤ (xs.filter q).length := by
      clear ih ha
      induction xs with
      | nil => simp
      | cons y ys ih2 =>
        simp only [List.filter_cons]
        cases hy : p y
        · cases q y <;> simp <;> omega
        · rw [hpq y hy]; simp; exact ih2
    simp only [List.filter_cons]
    rcases List.mem_cons.mp ha with rfl | ha'
    · rw [hpa, hqa]; simp; omega
    · have := ih ha'
      cases hx : p x
      · cases q x <;> simp <;> omega
      · rw [hpq x hx]; simp; exact this

/-- membership in the list a numeric block ranges over -/
theorem mem_numericTraits {g : GenFull} {c : Codec} {signed : Bool} {t : TraitDesc} :
    t ∈ g.numericTraits c signed ↔
      t ∈ g.traits ∧ t.parsable = true ∧ t.fam.isNumeric signed = true ∧ t.fam.implements c = false := by
  unfold GenFull.numericTraits
  rw [List.mem_filter]
  simp [Bool.and_eq_true, and_assoc]


end Genum

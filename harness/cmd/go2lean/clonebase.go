// go2lean -spec clonebase: translation of gerror.CloneBase (gerror/factory.go) together with the
// declarations it depends on (struct GError in gerror.go, the StackType constants in stack.go).
//
// CloneBase is straight-line code over a record: every `if` whose branches only assign is emitted
// as guarded assignments (`x := if c then e else x`, the condition evaluated once, before the
// assignments, as Go does), so the Lean definition is a sequence of `let`s that mirrors the
// statement sequence; an `if` that returns stays an `if`.  What the function gets from outside is
// a parameter of the translation, not modelled here:
//
//	err._embededGError()            -> parameter `base`   (the receiver's embedded *GError, read only)
//	factoryOf(base)                 -> parameter `baseRef` (that pointer as an interface value)
//	err stored in an interface      -> parameter `err`
//	nil of an interface type        -> parameter `inil`
//	strings.TrimSpace               -> env.trimSpace
//	makeStack(t, defaultSkip)       -> env.makeStack t
//	len(stack)                      -> env.stackLen
//	Stack(nil)                      -> env.nilStack
//	s.NearestExternal().Metric()    -> env.nearestExternalMetric s
//	append(slices.Clone(a), b)      -> a ++ [b]   (a fresh slice: value semantics)
//
// Anything else makes the translator fail.
package main

import (
	"fmt"
	"go/ast"
	"go/parser"
	"go/token"
	"os"
	"path/filepath"
	"strconv"
	"strings"
)

type cbField struct{ name, kind string }

type cb struct {
	fields []cbField
	fkind  map[string]string
	consts map[string]string
	env    map[string]string // variable -> kind
	out    strings.Builder
	n      int
}

func (c *cb) line(ind int, s string) { c.out.WriteString(strings.Repeat("  ", ind) + s + "\n") }

func cbLeanType(k string) string {
	switch k {
	case "str":
		return "Go.Str"
	case "bool":
		return "Bool"
	case "int":
		return "Nat"
	case "iface":
		return "ι"
	case "ifaces":
		return "List ι"
	case "stack":
		return "σ"
	case "struct":
		return "GError ι σ"
	}
	fail("clonebase: no Lean type for kind %q", k)
	return ""
}

func (c *cb) zero(k string) string {
	switch k {
	case "str":
		return `(Go.str "")`
	case "bool":
		return "false"
	case "int":
		return "0"
	case "iface":
		return "inil"
	case "ifaces":
		return "[]"
	case "stack":
		return "env.nilStack"
	}
	fail("clonebase: no zero value for kind %q", k)
	return ""
}

func leanStr(goLit string) string {
	s, err := strconv.Unquote(goLit)
	if err != nil {
		fail("clonebase: string literal %s", goLit)
	}
	for _, r := range s {
		if r < 0x20 || r > 0x7e || r == '"' || r == '\\' {
			fail("clonebase: string literal %s holds a character the translator does not spell", goLit)
		}
	}
	return `(Go.str "` + s + `")`
}

func (c *cb) kindOf(e ast.Expr) string {
	switch x := e.(type) {
	case *ast.ParenExpr:
		return c.kindOf(x.X)
	case *ast.Ident:
		if x.Name == "nil" {
			return "nil"
		}
		if x.Name == "true" || x.Name == "false" {
			return "bool"
		}
		if _, ok := c.consts[x.Name]; ok {
			return "int"
		}
		if k, ok := c.env[x.Name]; ok {
			return k
		}
	case *ast.BasicLit:
		if x.Kind == token.STRING {
			return "str"
		}
		if x.Kind == token.INT {
			return "int"
		}
	case *ast.SelectorExpr:
		if c.kindOf(x.X) == "struct" {
			if k, ok := c.fkind[x.Sel.Name]; ok {
				return k
			}
		}
	case *ast.UnaryExpr:
		if x.Op == token.NOT {
			return "bool"
		}
		if x.Op == token.AND {
			if _, ok := x.X.(*ast.CompositeLit); ok {
				return "struct"
			}
		}
	case *ast.BinaryExpr:
		switch x.Op {
		case token.EQL, token.NEQ, token.LSS, token.GTR, token.LEQ, token.GEQ, token.LAND, token.LOR:
			return "bool"
		case token.ADD:
			return c.kindOf(x.X)
		}
	case *ast.CallExpr:
		switch src(x.Fun) {
		case "strings.TrimSpace":
			return "str"
		case "len":
			return "int"
		case "makeStack":
			return "stack"
		case "factoryOf":
			return "iface"
		case "append":
			return "ifaces"
		}
		if sel, ok := x.Fun.(*ast.SelectorExpr); ok && sel.Sel.Name == "Metric" {
			return "str"
		}
	}
	fail("clonebase: %s: expression `%s` is outside the translated fragment", at(e), src(e))
	return ""
}

func (c *cb) expr(e ast.Expr) string {
	switch x := e.(type) {
	case *ast.ParenExpr:
		return c.expr(x.X)
	case *ast.Ident:
		if x.Name == "true" || x.Name == "false" {
			return x.Name
		}
		if _, ok := c.consts[x.Name]; ok {
			return x.Name
		}
		if _, ok := c.env[x.Name]; ok {
			return name(x.Name)
		}
	case *ast.BasicLit:
		if x.Kind == token.STRING {
			return leanStr(x.Value)
		}
		if x.Kind == token.INT {
			return x.Value
		}
	case *ast.SelectorExpr:
		if c.kindOf(x.X) == "struct" {
			if _, ok := c.fkind[x.Sel.Name]; ok {
				return c.expr(x.X) + "." + name(x.Sel.Name)
			}
		}
	case *ast.UnaryExpr:
		if x.Op == token.NOT {
			return "(!" + c.expr(x.X) + ")"
		}
		if cl, ok := x.X.(*ast.CompositeLit); ok && x.Op == token.AND {
			if id, ok := cl.Type.(*ast.Ident); !ok || id.Name != "GError" {
				fail("clonebase: %s: composite literal of `%s`", at(e), src(cl.Type))
			}
			given := map[string]string{}
			for _, el := range cl.Elts {
				kv, ok := el.(*ast.KeyValueExpr)
				if !ok {
					fail("clonebase: %s: positional composite literal", at(e))
				}
				k := kv.Key.(*ast.Ident).Name
				fk, ok := c.fkind[k]
				if !ok {
					fail("clonebase: %s: unknown field %s", at(e), k)
				}
				if vk := c.kindOf(kv.Value); vk != fk {
					fail("clonebase: %s: field %s (%s) initialised with a %s", at(e), k, fk, vk)
				}
				given[k] = c.expr(kv.Value)
			}
			var parts []string
			for _, f := range c.fields {
				v, ok := given[f.name]
				if !ok {
					v = c.zero(f.kind)
				}
				parts = append(parts, name(f.name)+" := "+v)
			}
			return "({ " + strings.Join(parts, ", ") + " } : GError ι σ)"
		}
	case *ast.BinaryExpr:
		kx, ky := c.kindOf(x.X), c.kindOf(x.Y)
		if kx == "nil" || ky == "nil" {
			o, k := x.X, kx
			if kx == "nil" {
				o, k = x.Y, ky
			}
			if k != "iface" || (x.Op != token.EQL && x.Op != token.NEQ) {
				fail("clonebase: %s: `%s`", at(e), src(e))
			}
			if x.Op == token.EQL {
				return "(" + c.expr(o) + " == inil)"
			}
			return "(" + c.expr(o) + " != inil)"
		}
		a, b := c.expr(x.X), c.expr(x.Y)
		switch x.Op {
		case token.EQL:
			if kx == ky && (kx == "str" || kx == "int" || kx == "bool" || kx == "iface") {
				return "(" + a + " == " + b + ")"
			}
		case token.NEQ:
			if kx == ky && (kx == "str" || kx == "int" || kx == "bool" || kx == "iface") {
				return "(" + a + " != " + b + ")"
			}
		case token.LAND:
			return "(" + a + " && " + b + ")"
		case token.LOR:
			return "(" + a + " || " + b + ")"
		case token.ADD:
			if kx == "str" && ky == "str" {
				return "(" + a + " ++ " + b + ")"
			}
		case token.GTR:
			if kx == "int" && ky == "int" {
				return "(decide (" + a + " > " + b + "))"
			}
		}
	case *ast.CallExpr:
		switch src(x.Fun) {
		case "strings.TrimSpace":
			if len(x.Args) == 1 && c.kindOf(x.Args[0]) == "str" {
				return "(env.trimSpace " + c.expr(x.Args[0]) + ")"
			}
		case "len":
			if len(x.Args) == 1 && c.kindOf(x.Args[0]) == "stack" {
				return "(env.stackLen " + c.expr(x.Args[0]) + ")"
			}
		case "makeStack":
			if len(x.Args) == 2 && src(x.Args[1]) == "defaultSkip" && c.kindOf(x.Args[0]) == "int" {
				return "(env.makeStack " + c.expr(x.Args[0]) + ")"
			}
		case "factoryOf":
			if len(x.Args) == 1 && src(x.Args[0]) == "base" {
				return "baseRef"
			}
		case "append":
			if len(x.Args) == 2 && !x.Ellipsis.IsValid() {
				if in, ok := x.Args[0].(*ast.CallExpr); ok && src(in.Fun) == "slices.Clone" && len(in.Args) == 1 &&
					c.kindOf(in.Args[0]) == "ifaces" && c.kindOf(x.Args[1]) == "iface" {
					return "(" + c.expr(in.Args[0]) + " ++ [" + c.expr(x.Args[1]) + "])"
				}
			}
		}
		if sel, ok := x.Fun.(*ast.SelectorExpr); ok && sel.Sel.Name == "Metric" && len(x.Args) == 0 {
			if in, ok := sel.X.(*ast.CallExpr); ok && len(in.Args) == 0 {
				if s2, ok := in.Fun.(*ast.SelectorExpr); ok && s2.Sel.Name == "NearestExternal" && c.kindOf(s2.X) == "stack" {
					return "(env.nearestExternalMetric " + c.expr(s2.X) + ")"
				}
			}
		}
	}
	fail("clonebase: %s: expression `%s` is outside the translated fragment", at(e), src(e))
	return ""
}

// assignment `lhs op rhs` as (variable, new value of the variable)
func (c *cb) update(x *ast.AssignStmt) (string, string) {
	if len(x.Lhs) != 1 || len(x.Rhs) != 1 {
		fail("clonebase: %s: `%s`", at(x), src(x))
	}
	lhs, rhs := x.Lhs[0], x.Rhs[0]
	val := ""
	lk := c.kindOf(lhs)
	rk := c.kindOf(rhs)
	switch x.Tok {
	case token.ASSIGN:
		switch {
		case rk == "nil" && lk == "stack":
			val = "env.nilStack"
		case rk == "nil" && lk == "iface":
			val = "inil"
		case rk == lk:
			val = c.expr(rhs)
		default:
			fail("clonebase: %s: a %s is assigned to a %s", at(x), rk, lk)
		}
	case token.ADD_ASSIGN:
		if lk != "str" || rk != "str" {
			fail("clonebase: %s: `+=` on a %s", at(x), lk)
		}
		val = "(" + c.expr(lhs) + " ++ " + c.expr(rhs) + ")"
	default:
		fail("clonebase: %s: `%s`", at(x), src(x))
	}
	switch l := lhs.(type) {
	case *ast.Ident:
		if _, ok := c.env[l.Name]; !ok {
			fail("clonebase: %s: assignment to `%s`", at(x), l.Name)
		}
		return name(l.Name), val
	case *ast.SelectorExpr:
		if v, ok := l.X.(*ast.Ident); ok && c.env[v.Name] == "struct" {
			if v.Name == "base" {
				fail("clonebase: %s: the base error is written (`%s`)", at(x), src(x))
			}
			return name(v.Name), "{ " + name(v.Name) + " with " + name(l.Sel.Name) + " := " + val + " }"
		}
	}
	fail("clonebase: %s: assignment target `%s`", at(x), src(lhs))
	return "", ""
}

func pureIf(x *ast.IfStmt) bool {
	if x.Init != nil {
		return false
	}
	ok := true
	var blk func(b *ast.BlockStmt)
	blk = func(b *ast.BlockStmt) {
		for _, s := range b.List {
			switch y := s.(type) {
			case *ast.AssignStmt:
				if y.Tok == token.DEFINE {
					ok = false
				}
			case *ast.IfStmt:
				if !pureIf(y) {
					ok = false
				}
			default:
				ok = false
			}
		}
	}
	blk(x.Body)
	switch e := x.Else.(type) {
	case nil:
	case *ast.BlockStmt:
		blk(e)
	case *ast.IfStmt:
		if !pureIf(e) {
			ok = false
		}
	}
	return ok
}

// flat: an `if` whose branches only assign, as guarded assignments
func (c *cb) flat(ind int, x *ast.IfStmt, guard string) {
	c.n++
	t := fmt.Sprintf("c%d", c.n)
	c.line(ind, "let "+t+" : Bool := "+c.expr(x.Cond))
	g := func(neg bool) string {
		v := t
		if neg {
			v = "(!" + t + ")"
		}
		if guard == "" {
			return v
		}
		return "(" + guard + " && " + v + ")"
	}
	var blk func(b *ast.BlockStmt, gd string)
	blk = func(b *ast.BlockStmt, gd string) {
		for _, s := range b.List {
			switch y := s.(type) {
			case *ast.AssignStmt:
				v, val := c.update(y)
				c.line(ind, v+" := if "+gd+" then "+val+" else "+v)
			case *ast.IfStmt:
				c.flat(ind, y, gd)
			}
		}
	}
	blk(x.Body, g(false))
	switch e := x.Else.(type) {
	case *ast.BlockStmt:
		blk(e, g(true))
	case *ast.IfStmt:
		c.flat(ind, e, g(true))
	}
}

func (c *cb) stmt(ind int, s ast.Stmt) {
	switch x := s.(type) {
	case *ast.AssignStmt:
		if x.Tok == token.DEFINE {
			if len(x.Lhs) != 1 || len(x.Rhs) != 1 {
				fail("clonebase: %s: `%s`", at(x), src(x))
			}
			id := x.Lhs[0].(*ast.Ident)
			if src(x.Rhs[0]) == "err._embededGError()" {
				if id.Name != "base" {
					fail("clonebase: %s: the embedded error is bound to `%s`, the translation calls it `base`", at(x), id.Name)
				}
				return // `base` is a parameter of the translation
			}
			k := c.kindOf(x.Rhs[0])
			v := c.expr(x.Rhs[0])
			c.env[id.Name] = k
			c.line(ind, "let mut "+name(id.Name)+" : "+cbLeanType(k)+" := "+v)
			return
		}
		v, val := c.update(x)
		c.line(ind, v+" := "+val)
	case *ast.IfStmt:
		if pureIf(x) {
			c.flat(ind, x, "")
			return
		}
		// an `if` that returns
		if x.Init == nil && x.Else == nil && len(x.Body.List) == 1 {
			if r, ok := x.Body.List[0].(*ast.ReturnStmt); ok && len(r.Results) == 1 && c.kindOf(r.Results[0]) == "struct" {
				c.line(ind, "if "+c.expr(x.Cond)+" then")
				c.line(ind+1, "return "+c.expr(r.Results[0]))
				return
			}
		}
		fail("clonebase: %s: this `if` neither only assigns nor only returns", at(x))
	case *ast.ReturnStmt:
		if len(x.Results) != 1 || c.kindOf(x.Results[0]) != "struct" {
			fail("clonebase: %s: `%s`", at(x), src(x))
		}
		c.line(ind, "return "+c.expr(x.Results[0]))
	default:
		fail("clonebase: %s: statement `%s` is outside the translated fragment", at(s), src(s))
	}
}

func runCloneBase(repo, out string) {
	c := &cb{fkind: map[string]string{}, consts: map[string]string{}, env: map[string]string{}}
	parse := func(rel string) *ast.File {
		f, err := parser.ParseFile(fset, filepath.Join(repo, rel), nil, 0)
		if err != nil {
			fail("%v", err)
		}
		return f
	}
	// struct GError
	for _, d := range parse("gerror/gerror.go").Decls {
		gd, ok := d.(*ast.GenDecl)
		if !ok || gd.Tok != token.TYPE {
			continue
		}
		for _, sp := range gd.Specs {
			ts := sp.(*ast.TypeSpec)
			st, ok := ts.Type.(*ast.StructType)
			if ts.Name.Name != "GError" || !ok {
				continue
			}
			for _, f := range st.Fields.List {
				k := map[string]string{"string": "str", "Stack": "stack", "factoryOf": "iface", "[]error": "ifaces", "bool": "bool"}[src(f.Type)]
				if k == "" {
					fail("clonebase: gerror.go: field of type `%s` in GError", src(f.Type))
				}
				if len(f.Names) == 0 {
					fail("clonebase: gerror.go: embedded field in GError")
				}
				for _, n := range f.Names {
					c.fields = append(c.fields, cbField{n.Name, k})
					c.fkind[n.Name] = k
				}
			}
		}
	}
	if len(c.fields) == 0 {
		fail("clonebase: struct GError not found in gerror/gerror.go")
	}
	// StackType constants
	for _, d := range parse("gerror/stack.go").Decls {
		gd, ok := d.(*ast.GenDecl)
		if !ok || gd.Tok != token.CONST {
			continue
		}
		for _, sp := range gd.Specs {
			vs := sp.(*ast.ValueSpec)
			if len(vs.Names) == 1 && len(vs.Values) == 1 && vs.Type != nil && src(vs.Type) == "StackType" {
				lit, ok := vs.Values[0].(*ast.BasicLit)
				if !ok || lit.Kind != token.INT {
					fail("clonebase: stack.go: constant %s is not an integer literal", vs.Names[0].Name)
				}
				c.consts[vs.Names[0].Name] = lit.Value
			}
		}
	}
	for _, n := range []string{"NoStack", "SourceStack", "ShortStack", "DefaultStack"} {
		if _, ok := c.consts[n]; !ok {
			fail("clonebase: stack.go: constant %s of type StackType not found", n)
		}
	}
	// CloneBase
	var fd *ast.FuncDecl
	for _, d := range parse("gerror/factory.go").Decls {
		if f, ok := d.(*ast.FuncDecl); ok && f.Name.Name == "CloneBase" && f.Recv == nil {
			fd = f
		}
	}
	if fd == nil {
		fail("clonebase: func CloneBase not found in gerror/factory.go")
	}
	want := []struct{ name, ty, kind string }{{"err", "T", "iface"}, {"stackType", "StackType", "int"}, {"dTag", "string", "str"},
		{"source", "string", "str"}, {"extMsg", "string", "str"}, {"srcError", "error", "iface"}}
	var got []string
	for _, p := range fd.Type.Params.List {
		for _, n := range p.Names {
			got = append(got, n.Name+" "+src(p.Type))
		}
	}
	if len(got) != len(want) {
		fail("clonebase: CloneBase has parameters %v", got)
	}
	for i, w := range want {
		if got[i] != w.name+" "+w.ty {
			fail("clonebase: parameter %d of CloneBase is `%s`, the translation assumes `%s %s`", i, got[i], w.name, w.ty)
		}
		c.env[w.name] = w.kind
	}
	if fd.Type.Results == nil || len(fd.Type.Results.List) != 1 || src(fd.Type.Results.List[0].Type) != "*GError" {
		fail("clonebase: CloneBase does not return *GError")
	}
	c.env["base"] = "struct"
	// parameters assigned in the body
	as := assigned(fd)
	for _, w := range want {
		if as[w.name] {
			c.line(1, "let mut "+name(w.name)+" := "+name(w.name))
		}
	}
	if as["base"] {
		fail("clonebase: the base error is assigned in CloneBase")
	}
	for _, s := range fd.Body.List {
		c.stmt(1, s)
	}

	var b strings.Builder
	b.WriteString("import Model.GoPrelude\n")
	b.WriteString("/-! REGENERATED on every run by harness/cmd/go2lean -spec clonebase from gerror/factory.go (func CloneBase),\ngerror/gerror.go (struct GError) and gerror/stack.go (StackType constants). Do not edit.\n`CloneBase` follows the Go function statement by statement; an `if` whose branches only assign is written as\nguarded assignments.  What comes from outside the function is a parameter: `base` = err._embededGError(),\n`baseRef` = factoryOf(base), `inil` = the nil interface value, `env` = strings.TrimSpace and the stack capture. -/\n")
	b.WriteString("namespace Generated.GoCloneBase\n\n")
	b.WriteString("/-- library and runtime functions CloneBase calls -/\nstructure Env (σ : Type) where\n  trimSpace : Go.Str → Go.Str\n  makeStack : Nat → σ\n  stackLen : σ → Nat\n  nilStack : σ\n  nearestExternalMetric : σ → Go.Str\n\n")
	b.WriteString("/-- `type GError struct` (field order of the source) -/\nstructure GError (ι σ : Type) where\n")
	for _, f := range c.fields {
		fmt.Fprintf(&b, "  %s : %s\n", name(f.name), cbLeanType(f.kind))
	}
	b.WriteString("\n")
	for _, n := range []string{"NoStack", "SourceStack", "ShortStack", "DefaultStack"} {
		fmt.Fprintf(&b, "def %s : Nat := %s\n", n, c.consts[n])
	}
	b.WriteString("\nvariable {ι σ : Type} [DecidableEq ι]\n\n")
	fmt.Fprintf(&b, "/-- `%s` -/\n", src(&ast.FuncDecl{Name: fd.Name, Type: fd.Type}))
	b.WriteString("def CloneBase (env : Env σ) (inil : ι) (err : ι) (base : GError ι σ) (baseRef : ι) (stackType : Nat)\n    (dTag source extMsg : Go.Str) (srcError : ι) : Go.M (GError ι σ) := do\n")
	b.WriteString(c.out.String())
	b.WriteString("\nend Generated.GoCloneBase\n")
	if err := os.WriteFile(out, []byte(b.String()), 0o644); err != nil {
		fail("%v", err)
	}
	fmt.Printf("go2lean clonebase: CloneBase (%d statements) -> %s\n", len(fd.Body.List), out)
}

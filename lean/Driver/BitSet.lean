import Model.BitSetM
import Driver.Util
/-! Line protocol for `Model/BitSetM`: `bs <op> <set> <flag>*`, all numbers decimal `uint64`. -/
namespace Drv.BitSet
open BitSetM

def bv (n : Nat) : BS := BitVec.ofNat 64 n

def widthOf : String → Option Nat
  | "8" => some 8 | "16" => some 16 | "32" => some 32 | "64" => some 64 | "u" => some 64
  | _ => none

def handleOp (ws : List String) : String :=
  match ws with
  | "make" :: fs => match natsOf fs with
    | some fs => toString (make (fs.map bv)).toNat
    | none => "bad-op"
  | op :: s :: fs => match s.toNat?, natsOf fs with
    | some s, some fs =>
      let s := bv s; let fs := fs.map bv
      match op with
      | "add" => let r := add s fs; s!"{r.1.toNat} {showBool r.2}"
      | "remove" => let r := remove s fs; s!"{r.1.toNat} {showBool r.2}"
      | "removeLegacy" => let r := removeLegacy s fs; s!"{r.1.toNat} {showBool r.2}"
      | "hasany" => showBool (hasAny s fs)
      | "has" => match fs with | [f] => showBool (has s f) | _ => "bad-op"
      | "mask" => match fs with | [f] => toString (maskOf s f).toNat | _ => "bad-op"
      | _ => "bad-op"
    | _, _ => "bad-op"
  | _ => "bad-op"

/-- `bs <w> <op> …`; flags must fit the flag type's width (the Go conversion cannot produce
anything else), the stored set is any `uint64`. -/
def handle (ws : List String) : String :=
  match ws with
  | w :: op :: rest =>
    match widthOf w, natsOf rest with
    | some w, some ns =>
      let flags := if op == "make" then ns else ns.drop 1
      if flags.all (· < 2 ^ w) && ns.all (· < 2 ^ 64) then handleOp (op :: rest) else "bad-op"
    | _, _ => "bad-op"
  | _ => "bad-op"

end Drv.BitSet

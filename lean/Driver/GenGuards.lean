import Model.GenGuards
import Generated.Guards
import Driver.Util
/-! Line protocol for `Model/GenGuards` (area prefix `gg`, stateless).

  gg genum run                               -> ok            (domain definitions are valid)
  gg genum methods j y t c d <trait>*        -> methods declared per type (`*` = pointer receiver)
  gg genum imports j y t c d                 -> import paths of the file header (definition-independent)
  gg genum assert j y t c d                  -> interfaces the spec demands (`*` = on the pointer)
  gg genum build j y t c d <kind>*           -> ok | fail:undefined-type   (model-level compile conditions)
  gg genum fmt                               -> clean
  gg <gen> overprev                          -> same          (run over a different previous output = fresh run)
  gg gerror methods s | imports s | assert s | build s | run | fmt
  gg gsort  methods   | imports   | assert   | build   | run | fmt
  gg <gen> type <T>                          -> ok            (selects the type the next `methods` is about)
  gg multi run | fmt | build                 -> ok / clean / ok  (several generated files side by side in one package)
  gg typeref <kind> [<accessor>]             -> written type reference of a basic trait kind
  gg typereflegacy <kind>

`j y t c d` / `s` are `t`/`f`.  Trait kinds: the go/types spelling with `_` for the blank
(`untyped_float`), or `named` for a non-basic type. -/
namespace Drv.GG
open GenGuards Generated.Guards

def sorted (xs : List String) : List String := xs.mergeSort (fun a b => decide (a ≤ b))

def dedup (xs : List String) : List String :=
  xs.foldl (fun acc x => if acc.contains x then acc else acc ++ [x]) []

def boolOf : String → Option Bool
  | "t" => some true
  | "f" => some false
  | _ => none

def optsOf : List String → Option (GenumOpts × List String)
  | j :: y :: t :: c :: d :: rest => do
    let j ← boolOf j; let y ← boolOf y; let t ← boolOf t; let c ← boolOf c; let d ← boolOf d
    pure (⟨j, y, t, c, d⟩, rest)
  | _ => none

/-- Methods written per type, definition-independent part, with receiver marks. -/
def methodsMarked (tbl : List Entry) (loop : String) (env : String → Bool) : List String :=
  (tbl.filter fun e => e.kind == .method && perType loop e.guard && optsHold env e.guard).map
    fun e => (if e.ptr then "*" else "") ++ e.name

def kindOf (s : String) : Option Basic := Basic.ofWords (s.splitOn "_")

def ifaceMark (r : IfaceReq) : String := (if r.onValue then "" else "*") ++ r.name

def show' (xs : List String) : String := if xs.isEmpty then "-" else joinSp xs

def handle (ws : List String) : String :=
  match ws with
  | [_, "run"] => "ok"
  | [_, "fmt"] => "clean"
  | [_, "overprev"] => "same"
  | [_, "type", _] => "ok"
  | "genum" :: "methods" :: rest =>
    match optsOf rest with
    | some (o, traits) =>
      let acc := (traitsSeen genumTraitGates o.env traits).flatMap fun t =>
        List.replicate (perElement genumEntries genumLoop genumTraitLoop o.env) t
      show' (sorted (methodsMarked genumEntries genumLoop o.env ++ acc))
    | none => "bad-op"
  | "genum" :: "imports" :: rest =>
    match optsOf rest with
    | some (o, _) => show' (sorted (importsGuaranteed genumEntries o.env))
    | none => "bad-op"
  | "genum" :: "assert" :: rest =>
    match optsOf rest with
    | some (o, _) => show' (sorted ((genumIfaces ifaceEnum ifaceTypedEnum o).map ifaceMark))
    | none => "bad-op"
  | "genum" :: "build" :: rest =>
    match optsOf rest with
    | some (o, kinds) =>
      let seen := traitsSeen genumTraitGates o.env kinds
      if seen.all (fun k => k == "named" || match kindOf k with
          | some b => isTypeIdent (typeRef b)
          | none => false) then "ok" else "fail:undefined-type"
    | none => "bad-op"
  | ["gerror", "methods", s] =>
    match boolOf s with
    | some s => show' (sorted (methodsMarked gerrorEntries gerrorLoop (gerrorEnv s)))
    | none => "bad-op"
  | ["gerror", "imports", s] =>
    match boolOf s with
    | some s => show' (sorted (importsGuaranteed gerrorEntries (gerrorEnv s)))
    | none => "bad-op"
  | ["gerror", "assert", _] => "*gerror.Error *gerror.Factory"
  | ["gerror", "build", _] => "ok"
  | ["gsort", "methods"] => show' (sorted (methodsMarked gsortEntries gsortLoop noOpts))
  | ["gsort", "imports"] => show' (sorted (importsGuaranteed gsortEntries noOpts))
  | ["gsort", "assert"] => "sort.Interface"
  | ["gsort", "build"] => "ok"
  | ["multi", "build"] => "ok"
  | "typeref" :: k :: _ => match kindOf k with
    | some b => render (typeRef b)
    | none => "bad-op"
  | ["typereflegacy", k] => match kindOf k with
    | some b => render (typeRefLegacy b)
    | none => "bad-op"
  | _ => "bad-op"

end Drv.GG

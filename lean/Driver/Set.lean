import Model.SetM
import Driver.Util
/-! Line protocol for `Model/SetM` (stateful): elements are indices into the harness's universe. -/
namespace Drv.Set
open SetM

/-- the set under test and a second, RETAINED set used as the argument of `AddSet/RemoveSet`
(`arg*` requests): in the model the two are separate values, so any later effect of one on the
other (shared storage) shows as a difference -/
structure St where
  s : S Nat := none
  arg : S Nat := none

instance : Inhabited St := ⟨{}⟩

def showList (l : List Nat) : String := joinSp ((l.mergeSort (· ≤ ·)).map toString)

def probeOf (s : S Nat) (n : Nat) : String := String.join ((List.range n).map (fun i => showBool (has s [i])))

def handle1 (st : S Nat) (ws : List String) : S Nat × String :=
  match ws with
  | ["nil"] => (none, "ok")
  | ["slice"] => (st, match slice st with | none => "nil" | some l => "[" ++ showList l ++ "]")
  | ["probe", n] => match n.toNat? with
    | some n => (st, String.join ((List.range n).map (fun i => showBool (has st [i]))))
    | none => (st, "bad-op")
  | "rt" :: _codec :: _mode :: tgt =>
    -- round trip through the identity list codec into a target: `rt nil`, `rt empty`, `rt <idx>*`
    let t : Option (S Nat) := match tgt with
      | ["nil"] => some none
      | ["empty"] => some (some [])
      | xs => (natsOf xs).map make
    match t with
    | none => (st, "bad-op")
    | some t =>
      let shape := match encShape st with | none => "null" | some n => s!"seq:{n}"
      match unmarshal ⟨id, fun d => some (d.getD [])⟩ t (marshal ⟨id, fun d => some (d.getD [])⟩ st) with
      | none => (st, "err")
      | some r => (st, s!"{shape} [{showList (elems r)}]")
  | op :: xs => match natsOf xs with
    | none => (st, "bad-op")
    | some xs =>
      match op with
      | "make" => (make xs, "ok")
      | "add" | "addset" => let r := add st xs; (r.1, showBool r.2)
      | "remove" | "removeset" => let r := remove st xs; (r.1, showBool r.2)
      | "has" => (st, showBool (has st xs))
      | "haslegacy" => (st, showBool (hasLegacy st xs))
      | "hasany" => (st, showBool (hasAny st xs))
      | _ => (st, "bad-op")
  | _ => (st, "bad-op")

def handle (st : St) (ws : List String) : St × String :=
  match ws with
  | ["argnil"] => ({ st with arg := none }, "ok")
  | "arg" :: xs => match natsOf xs with
    | some xs => ({ st with arg := make xs }, "ok")
    | none => (st, "bad-op")
  | ["addarg"] => let r := add st.s (elems st.arg); ({ st with s := r.1 }, showBool r.2)
  | ["removearg"] => let r := remove st.s (elems st.arg); ({ st with s := r.1 }, showBool r.2)
  | ["argprobe", n] => match n.toNat? with
    | some n => (st, probeOf st.arg n)
    | none => (st, "bad-op")
  | "argadd" :: xs => match natsOf xs with
    | some xs => let r := add st.arg xs; ({ st with arg := r.1 }, showBool r.2)
    | none => (st, "bad-op")
  | "argremove" :: xs => match natsOf xs with
    | some xs => let r := remove st.arg xs; ({ st with arg := r.1 }, showBool r.2)
    | none => (st, "bad-op")
  | _ => let r := handle1 st.s ws; ({ st with s := r.1 }, r.2)

end Drv.Set

/-!
# Model of `genum/gen` (the enum generator) and of the code it generates

Part 1 (property C04).  Mirrors, in order:

* `Generate.Parse` (`generate.go:55-86`): walk every constant of the file in source order, keep the
  ones whose type is the enum type, encode each as `Value{Name, Value uint64, Signed, IsDeprecated}`
  with `constant.Uint64Val` (`Value` = two's complement image, `Signed` = "the constant is
  negative"), `sort.Sort` by `Value.Less`;
* `Value.Less` (`values.go:87-102`): compare as `int64` as soon as one side is flagged `Signed`,
  else as `uint64`; ties by name;
* `Values.ValueDeduplicatedSet` (`values.go:24-44`): one entry per numeric value, a deprecated
  first entry is replaced by the first non-deprecated one (`dedup`; the pinned algorithm, which
  forgot to clear `addedDeprecated` after the replacement, is kept as `dedupLegacy`);
* the template (`enumTemplate.gotmpl:25-131`): value table, `IsValid` (linear scan, or
  `slices.BinarySearch` when the number of constants exceeds 15), `Values`, `StringValues`,
  `String`, the `Parse<T>` switch on an `any` and its lower-case fallback.

The meaning of the generated code is a second set of definitions (`GenOut.isValid`, `.string`,
`.parse`, …) over Go values of the enum type, represented as `Int`.

The SPEC (`Defined`, `IsAscDistinctOf`, `IsPrimary`, `undefinedString`, `EqFold`) mirrors the
property text and is stated on the *definition*, not on the generator's intermediate data.

Not modelled: go/packages and go/types constant evaluation (`iota`, expressions): the model is
given the constants with their values. Identifiers are ASCII.
-/
namespace Genum

/-! ## definitions as the generator reads them -/

/-- underlying integer type of an enum: width and signedness (`int`/`uint` are 64 bit here) -/
structure IntKind where
  bits : Nat
  signed : Bool
  deriving DecidableEq, Repr

def IntKind.minVal (k : IntKind) : Int := if k.signed then -((2 : Int) ^ (k.bits - 1)) else 0
def IntKind.maxVal (k : IntKind) : Int := if k.signed then (2 : Int) ^ (k.bits - 1) - 1 else (2 : Int) ^ k.bits - 1

/-- `v` is a value of the Go type -/
def IntKind.InRange (k : IntKind) (v : Int) : Prop := k.minVal ≤ v ∧ v ≤ k.maxVal

instance (k : IntKind) (v : Int) : Decidable (k.InRange v) := by unfold IntKind.InRange; exact inferInstance

/-- the widths Go has -/
def IntKind.WF (k : IntKind) : Prop := 1 ≤ k.bits ∧ k.bits ≤ 64

instance (k : IntKind) : Decidable k.WF := by unfold IntKind.WF; exact inferInstance

/-- a dynamically typed Go scalar, as stored in an `any`: `==` on two `any`s is equality of the
dynamic type AND of the value -/
inductive Scalar where
  | str (s : String)
  | int (i : Int)
  | bool (b : Bool)
  | other (repr : String)
  deriving DecidableEq, Repr

structure Dyn where
  ty : String
  v : Scalar
  deriving DecidableEq, Repr

/-- a Go `string` in an `any` -/
def Dyn.ofString (s : String) : Dyn := ⟨"string", .str s⟩

/-- one constant of the definition file: `name Ty = val`, with or without a `Deprecated:` doc line -/
structure Const where
  name : String
  ty : String
  val : Int
  deprecated : Bool
  deriving DecidableEq, Repr

structure TypeDecl where
  name : String
  kind : IntKind
  deriving DecidableEq, Repr

/-- a definition file: the enum types named by `-types` and ALL its constants in source order -/
structure FileDef where
  types : List TypeDecl
  consts : List Const
  deriving Repr

structure Options where
  caseInsensitive : Bool := false
  deriving DecidableEq, Repr

/-! ## the generator -/

/-- `gen.Value`. `val` is what the identifier `name` denotes in the generated package; the
generator's own algorithm never looks at it (it works on `value`/`signed`). -/
structure Value where
  name : String
  value : Nat        -- uint64
  signed : Bool
  deprecated : Bool
  val : Int
  deriving DecidableEq, Repr

def two64 : Nat := 18446744073709551616
def two63 : Nat := 9223372036854775808

/-- Go's `uint64(x)` for an integer `x` -/
def toU64 (v : Int) : Nat := (v % (two64 : Int)).toNat

/-- Go's `int64(u)` for a `uint64` -/
def asI64 (u : Nat) : Int := if u < two63 then (u : Int) else (u : Int) - (two64 : Int)

/-- `constant.Uint64Val(v.Val())` and the fields around it (`generate.go:72-80`) -/
def Value.ofConst (c : Const) : Value :=
  { name := c.name, value := toU64 c.val, signed := decide (c.val < 0), deprecated := c.deprecated, val := c.val }

/-- `Value.Less` -/
def Value.less (v w : Value) : Bool :=
  if v.signed || w.signed then
    let v1 := asI64 v.value
    let v2 := asI64 w.value
    if v1 == v2 then decide (v.name < w.name) else decide (v1 < v2)
  else
    if v.value == w.value then decide (v.name < w.name) else decide (v.value < w.value)

/-- the constants of enum type `t`, in source order (`generate.go:57-84`) -/
def collect (f : FileDef) (t : String) : List Const := f.consts.filter (fun c => c.ty == t)

/-- insert `x` before the first element it is `Less` than -/
def insertBy (less : Value → Value → Bool) (x : Value) : List Value → List Value
  | [] => [x]
  | y :: ys => if less x y then x :: y :: ys else y :: insertBy less x ys

/-- `sort.Sort(values)`. Contract of `sort.Sort`: a permutation sorted by `Less`; `Less` is a
strict total order on the constants of one type (distinct names), so that permutation is unique
and any sorting algorithm yields it; written here as an insertion sort. -/
def sortValues (l : List Value) : List Value := l.foldr (insertBy Value.less) []

/-- loop of `ValueDeduplicatedSet` from index 1 on: `cur` is `result[len(result)-1]`
(`lastValue` is always `cur.value`), `ad` is `addedDeprecated`; the returned list is the final
`result` from `cur` on. -/
def dedupLoop (cur : Value) (ad : Bool) : List Value → List Value
  | [] => [cur]
  | x :: xs =>
    if cur.value != x.value then cur :: dedupLoop x x.deprecated xs
    else if ad && !x.deprecated then dedupLoop x false xs
    else dedupLoop cur ad xs

/-- `Values.ValueDeduplicatedSet` (current tree) -/
def dedup (s : List Value) : List Value :=
  if s.length < 2 then s else
  match s with
  | [] => []
  | v :: rest => dedupLoop v v.deprecated rest

/-- the pinned loop: `addedDeprecated` stays set after the replacement -/
def dedupLoopLegacy (cur : Value) (ad : Bool) : List Value → List Value
  | [] => [cur]
  | x :: xs =>
    if cur.value != x.value then cur :: dedupLoopLegacy x x.deprecated xs
    else if ad && !x.deprecated then dedupLoopLegacy x ad xs
    else dedupLoopLegacy cur ad xs

def dedupLegacy (s : List Value) : List Value :=
  if s.length < 2 then s else
  match s with
  | [] => []
  | v :: rest => dedupLoopLegacy v v.deprecated rest

/-- `strings.ToLower` on ASCII text (identifiers and inputs are ASCII, see the header) -/
def asciiLower (s : String) : String := String.ofList (s.toList.map Char.toLower)

/-- one `case c1, c2, …: return Target, nil` of the `Parse<T>` switch -/
structure ParseCase where
  consts : List Dyn
  target : Value
  deriving Repr

/-- what the template renders for one enum type -/
structure GenOut where
  tname : String
  /-- `_<T>Values`, also the rows of `StringValues` and of the `String` switch -/
  table : List Value
  /-- `len $values`: the number of constants, duplicates included (binary-search threshold) -/
  nAll : Nat
  /-- the `Parse<T>` switch, one case per constant (duplicates and deprecated ones included) -/
  cases : List ParseCase
  /-- the `strings.ToLower` switch in the default branch; `none` without `-caseInsensitive` -/
  lowerCases : Option (List (String × Value))
  deriving Repr

def renderWith (dd : List Value → List Value) (o : Options) (tname : String) (vs : List Value) : GenOut :=
  { tname := tname
    table := dd vs
    nAll := vs.length
    cases := vs.map (fun v => ⟨[Dyn.ofString v.name], v⟩)
    lowerCases := if o.caseInsensitive then some (vs.map (fun v => (asciiLower v.name, v))) else none }

/-- generator + template for enum type `t` of file `f` -/
def genType (o : Options) (f : FileDef) (t : String) : GenOut :=
  renderWith dedup o t (sortValues ((collect f t).map Value.ofConst))

def genTypeLegacy (o : Options) (f : FileDef) (t : String) : GenOut :=
  renderWith dedupLegacy o t (sortValues ((collect f t).map Value.ofConst))

/-- a compile-time condition of the generated file the model can see: two `case` constants of
the lower-case switch are equal (names that differ only in case, under `-caseInsensitive`) -/
def GenOut.dupLowerCase (g : GenOut) : Bool :=
  match g.lowerCases with
  | none => false
  | some lc => !(lc.map (·.1)).Nodup

/-! ## meaning of the generated code -/

/-- `Values()` -/
def GenOut.values (g : GenOut) : List Int := g.table.map (·.val)

/-- the loop of `slices.BinarySearch` (`i, j := 0, n; for i < j { h := (i+j)/2; if x[h] < t
{ i = h+1 } else { j = h } }`), with fuel ≥ `j - i` -/
def bsLoop (x : List Int) (t : Int) : Nat → Nat → Nat → Nat
  | 0, i, _ => i
  | fuel + 1, i, j =>
    if i < j then
      let h := (i + j) / 2
      if x.getD h 0 < t then bsLoop x t fuel (h + 1) j else bsLoop x t fuel i h
    else i

/-- `slices.BinarySearch(x, t)`: `(i, i < n && x[i] == t)` -/
def binarySearch (x : List Int) (t : Int) : Nat × Bool :=
  let i := bsLoop x t x.length 0 x.length
  (i, decide (i < x.length) && x.getD i 0 == t)

/-- number of constants above which the template switches `IsValid` to binary search -/
def bsThreshold : Nat := 15

/-- `IsValid()` -/
def GenOut.isValid (g : GenOut) (e : Int) : Bool :=
  if g.nAll > bsThreshold then (binarySearch g.values e).2
  else g.values.any (fun v => v == e)

/-- `fmt.Sprintf("Undefined<T>:%d", e)` -/
def undefinedString (tname : String) (e : Int) : String := "Undefined" ++ tname ++ ":" ++ toString e

/-- `String()`: the first `case` of the switch equal to `e` -/
def GenOut.string (g : GenOut) (e : Int) : String :=
  match g.table.find? (fun v => v.val == e) with
  | some v => v.name
  | none => undefinedString g.tname e

/-- `StringValues()` -/
def GenOut.stringValues (g : GenOut) : List String := g.table.map (·.name)

/-- `Parse<T>(input any)`: first case holding a constant equal to `input`; otherwise, with
`-caseInsensitive` and a `string` input, the first case of the lower-case switch;
`none` = the error return -/
def GenOut.parse (g : GenOut) (input : Dyn) : Option Int :=
  match g.cases.find? (fun c => c.consts.contains input) with
  | some c => some c.target.val
  | none =>
    match g.lowerCases, input with
    | some lc, ⟨"string", .str s⟩ =>
      match lc.find? (fun p => p.1 == asciiLower s) with
      | some p => some p.2.val
      | none => none
    | _, _ => none

/-- `ParseString(text)` = `Parse<T>(text)` -/
def GenOut.parseString (g : GenOut) (s : String) : Option Int := g.parse (Dyn.ofString s)

/-! ## specification (mirrors the property text) -/

/-- `e` is a defined value of enum type `t` -/
def Defined (f : FileDef) (t : String) (e : Int) : Prop := ∃ c ∈ f.consts, c.ty = t ∧ c.val = e

/-- `l` is the ascending list of the distinct defined values -/
def IsAscDistinctOf (f : FileDef) (t : String) (l : List Int) : Prop :=
  l.Pairwise (· < ·) ∧ ∀ e, e ∈ l ↔ Defined f t e

/-- `n` is the primary name of value `e`: the alphabetically first non-deprecated name of `e`,
or the alphabetically first name when all names of `e` are deprecated -/
def IsPrimary (f : FileDef) (t : String) (e : Int) (n : String) : Prop :=
  ∃ c ∈ f.consts, c.ty = t ∧ c.val = e ∧ c.name = n ∧
    ((c.deprecated = false ∧ ∀ c' ∈ f.consts, c'.ty = t → c'.val = e → c'.deprecated = false → n ≤ c'.name) ∨
     ((∀ c' ∈ f.consts, c'.ty = t → c'.val = e → c'.deprecated = true) ∧
       ∀ c' ∈ f.consts, c'.ty = t → c'.val = e → n ≤ c'.name))

/-- equal up to ASCII case -/
def EqFold (a b : String) : Prop := asciiLower a = asciiLower b

/-- what Go's declaration rules give: constant names of a file are pairwise distinct -/
def NamesDistinct (f : FileDef) : Prop := (f.consts.map (·.name)).Nodup

/-- names of type `t` stay distinct when folded to lower case (otherwise the file generated
with `-caseInsensitive` does not compile) -/
def NamesDistinctFold (f : FileDef) (t : String) : Prop := ((collect f t).map (fun c => asciiLower c.name)).Nodup

/-- every constant of type `t` is a value of the underlying Go type -/
def InRangeConsts (f : FileDef) (t : String) (k : IntKind) : Prop := ∀ c ∈ f.consts, c.ty = t → k.InRange c.val

instance (f : FileDef) (t : String) (e : Int) : Decidable (Defined f t e) := by unfold Defined; exact inferInstance
instance (f : FileDef) : Decidable (NamesDistinct f) := by unfold NamesDistinct; exact inferInstance
instance (f : FileDef) (t : String) : Decidable (NamesDistinctFold f t) := by unfold NamesDistinctFold; exact inferInstance
instance (f : FileDef) (t : String) (k : IntKind) : Decidable (InRangeConsts f t k) := by
  unfold InRangeConsts; exact inferInstance

/-- "every enum definition genum accepts": what Go's type checker guarantees for a definition
file that compiles — the underlying type is a Go integer type, every constant of the type is one
of its values, constant names are distinct -/
structure Accepted (f : FileDef) (t : String) (k : IntKind) : Prop where
  kind : k.WF
  inRange : InRangeConsts f t k
  names : NamesDistinct f

end Genum

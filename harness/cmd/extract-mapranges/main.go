// extract-mapranges: tie A for C14 (DESIGN.md section 3). Lists, with go/types, every `range`
// over a map-typed expression (set.Set is a map type), every call of an order-exposing method
// of set.Set (Slice), every maps.Keys/Values/All iterator (with what consumes it), reflect MapKeys/MapRange and sync.Map.Range in the generator packages of /repo, as file / function / ranged expression,
// into lean/Generated/MapRanges.lean.  It only extracts; Properties/C14.lean has to match every
// listed site (with the fingerprint of what its loop body does) to an order-independence theorem or to a stated reason (obligation
// `every_map_range_site_is_matched`), so a NEW site is an open obligation.
package main

import (
	"flag"
	"fmt"
	"go/ast"
	"go/token"
	"go/types"
	"os"
	"path/filepath"
	"sort"
	"strings"

	"golang.org/x/tools/go/packages"
)

var generatorPkgs = []string{
	"github.com/drshriveer/gtools/gencommon",
	"github.com/drshriveer/gtools/genum/gen",
	"github.com/drshriveer/gtools/genum/cmd/genum",
	"github.com/drshriveer/gtools/gerror/gen",
	"github.com/drshriveer/gtools/gerror/cmd/gerror",
	"github.com/drshriveer/gtools/gsort/gen",
	"github.com/drshriveer/gtools/gsort/cmd/gsort",
}

type site struct {
	file, fn, expr string
	effects        []string
}

// norm prints an expression with every index replaced by `·` (which element is touched does not
// matter for the kind of effect).
func norm(e ast.Expr) string {
	switch x := e.(type) {
	case *ast.Ident:
		return x.Name
	case *ast.SelectorExpr:
		return norm(x.X) + "." + x.Sel.Name
	case *ast.IndexExpr:
		return norm(x.X) + "[·]"
	case *ast.StarExpr:
		return "*" + norm(x.X)
	case *ast.ParenExpr:
		return norm(x.X)
	case *ast.CallExpr:
		return norm(x.Fun) + "()"
	}
	return types.ExprString(e)
}

// fingerprint lists, in source order, what a loop body DOES: assignments (by target), appends and
// deletes (by container), calls (by callee), control transfers and nested loops/conditions.
// Function literals inside the body are included.
func fingerprint(body *ast.BlockStmt) []string {
	var fx []string
	ast.Inspect(body, func(n ast.Node) bool {
		switch x := n.(type) {
		case *ast.AssignStmt:
			for _, l := range x.Lhs {
				if x.Tok == token.DEFINE {
					fx = append(fx, "define:"+norm(l))
				} else {
					fx = append(fx, "assign"+x.Tok.String()+":"+norm(l))
				}
			}
		case *ast.IncDecStmt:
			fx = append(fx, "assign"+x.Tok.String()+":"+norm(x.X))
		case *ast.CallExpr:
			if id, ok := x.Fun.(*ast.Ident); ok && (id.Name == "append" || id.Name == "delete") && len(x.Args) > 0 {
				fx = append(fx, id.Name+":"+norm(x.Args[0]))
			} else {
				fx = append(fx, "call:"+norm(x.Fun))
			}
		case *ast.ReturnStmt:
			fx = append(fx, fmt.Sprintf("return/%d", len(x.Results)))
		case *ast.BranchStmt:
			fx = append(fx, x.Tok.String())
		case *ast.IfStmt:
			fx = append(fx, "if")
		case *ast.RangeStmt:
			fx = append(fx, "range:"+norm(x.X))
		case *ast.ForStmt:
			fx = append(fx, "for")
		case *ast.GoStmt:
			fx = append(fx, "go")
		case *ast.SendStmt:
			fx = append(fx, "send:"+norm(x.Chan))
		}
		return true
	})
	return fx
}

func leanStr(s string) string {
	s = strings.ReplaceAll(s, `\`, `\\`)
	s = strings.ReplaceAll(s, `"`, `\"`)
	s = strings.ReplaceAll(s, "\n", " ")
	return `"` + s + `"`
}

// consumer names what directly consumes the value of call c: the enclosing call's callee, `range`,
// or the kind of statement.
func consumer(parents []ast.Node, c *ast.CallExpr) string {
	for i := len(parents) - 1; i >= 0; i-- {
		switch x := parents[i].(type) {
		case *ast.ParenExpr:
			continue
		case *ast.CallExpr:
			return norm(x.Fun)
		case *ast.RangeStmt:
			if x.X == ast.Expr(c) {
				return "range"
			}
			return "range-body"
		case *ast.AssignStmt:
			return "assign"
		case *ast.ReturnStmt:
			return "return"
		default:
			return fmt.Sprintf("%T", x)
		}
	}
	return "?"
}

func repoFromWorkspace(goWork string) string {
	b, err := os.ReadFile(goWork)
	if err != nil {
		fail(err.Error())
	}
	for _, l := range strings.Split(string(b), "\n") {
		l = strings.TrimSpace(strings.TrimPrefix(strings.TrimSpace(l), "use "))
		if strings.HasSuffix(l, "/genum") {
			return strings.TrimSuffix(l, "/genum")
		}
	}
	fail("no genum module in " + goWork)
	return ""
}

func main() {
	out := flag.String("out", "../lean/Generated/MapRanges.lean", "output file (relative to the harness directory)")
	flag.Parse()
	repo := repoFromWorkspace("go.work")
	cfg := &packages.Config{Mode: packages.NeedName | packages.NeedFiles | packages.NeedCompiledGoFiles | packages.NeedSyntax | packages.NeedTypes | packages.NeedTypesInfo | packages.NeedImports | packages.NeedDeps,
		Env: append(os.Environ(), "GOPROXY=off", "GOSUMDB=off", "GOTOOLCHAIN=local", "GOFLAGS=")}
	pkgs, err := packages.Load(cfg, generatorPkgs...)
	if err != nil {
		fail(err.Error())
	}
	if len(pkgs) != len(generatorPkgs) {
		fail(fmt.Sprintf("loaded %d of %d generator packages", len(pkgs), len(generatorPkgs)))
	}
	var sites []site
	for _, p := range pkgs {
		if len(p.Errors) > 0 {
			fail(fmt.Sprintf("package %s: %v", p.PkgPath, p.Errors[0]))
		}
		for i, f := range p.Syntax {
			name := p.CompiledGoFiles[i]
			if strings.HasSuffix(name, "_test.go") {
				continue
			}
			rel, err := filepath.Rel(repo, name)
			if err != nil || strings.HasPrefix(rel, "..") {
				fail("file outside the checkout: " + name)
			}
			for _, d := range f.Decls {
				fd, ok := d.(*ast.FuncDecl)
				if !ok || fd.Body == nil {
					continue
				}
				fn := fd.Name.Name
				if fd.Recv != nil && len(fd.Recv.List) == 1 {
					fn = types.ExprString(fd.Recv.List[0].Type) + "." + fn
				}
				var parents []ast.Node
				ast.Inspect(fd.Body, func(n ast.Node) bool {
					if n == nil {
						parents = parents[:len(parents)-1]
						return true
					}
					defer func() { parents = append(parents, n) }()
					switch x := n.(type) {
					case *ast.RangeStmt:
						if t := p.TypesInfo.TypeOf(x.X); t != nil {
							if _, ok := t.Underlying().(*types.Map); ok {
								sites = append(sites, site{rel, fn, "range " + types.ExprString(x.X), fingerprint(x.Body)})
							}
						}
					case *ast.CallExpr:
						if s, ok := x.Fun.(*ast.SelectorExpr); ok {
							// iterator over a map: maps.Keys / maps.Values / maps.All (package maps or
							// golang.org/x/exp/maps), wherever it is consumed (range, slices.Collect, ...)
							if id, ok := s.X.(*ast.Ident); ok {
								if pn, ok := p.TypesInfo.Uses[id].(*types.PkgName); ok {
									path := pn.Imported().Path()
									if (path == "maps" || strings.HasSuffix(path, "/maps")) && (s.Sel.Name == "Keys" || s.Sel.Name == "Values" || s.Sel.Name == "All") {
										sites = append(sites, site{rel, fn, "call " + types.ExprString(x.Fun), []string{"consumed-by:" + consumer(parents, x)}})
									}
								}
							}
							if t := p.TypesInfo.TypeOf(s.X); t != nil {
								if nt, ok := t.(*types.Named); ok && nt.Obj().Pkg() != nil {
									switch {
									case nt.Obj().Pkg().Path() == "github.com/drshriveer/gtools/set" && s.Sel.Name == "Slice":
										sites = append(sites, site{rel, fn, "call " + types.ExprString(x.Fun), nil})
									case nt.Obj().Pkg().Path() == "reflect" && nt.Obj().Name() == "Value" && (s.Sel.Name == "MapKeys" || s.Sel.Name == "MapRange"):
										sites = append(sites, site{rel, fn, "call " + types.ExprString(x.Fun), nil})
									case nt.Obj().Pkg().Path() == "sync" && nt.Obj().Name() == "Map" && s.Sel.Name == "Range":
										sites = append(sites, site{rel, fn, "call " + types.ExprString(x.Fun), nil})
									}
								}
							}
						}
					}
					return true
				})
			}
		}
	}
	sort.Slice(sites, func(i, j int) bool {
		a, b := sites[i], sites[j]
		if a.file != b.file {
			return a.file < b.file
		}
		if a.fn != b.fn {
			return a.fn < b.fn
		}
		if a.expr != b.expr {
			return a.expr < b.expr
		}
		return strings.Join(a.effects, ";") < strings.Join(b.effects, ";")
	})
	var b strings.Builder
	b.WriteString("import Model.GenOrder\n/-! REGENERATED on every run by harness/cmd/extract-mapranges (go/types) from the generator packages\n")
	b.WriteString(strings.Join(generatorPkgs, ", "))
	b.WriteString(".\nEvery `range` over a map-typed expression and every set.Set.Slice call, as ⟨file, function, expression, effects⟩;\neffects = what the loop body does, in source order (assignment targets, append/delete containers, callees,\ncontrol transfers; indices normalised to ·).\nA site occurring twice in one function is listed twice. Do not edit. -/\nnamespace Generated.MapRanges\nopen GenOrder\n\ndef sites : List Site := [\n")
	for i, s := range sites {
		sep := ","
		if i == len(sites)-1 {
			sep = ""
		}
		fx := make([]string, len(s.effects))
		for k, e := range s.effects {
			fx[k] = leanStr(e)
		}
		fmt.Fprintf(&b, "  ⟨%s, %s, %s,\n    [%s]⟩%s\n", leanStr(s.file), leanStr(s.fn), leanStr(s.expr), strings.Join(fx, ", "), sep)
	}
	b.WriteString("]\n\nend Generated.MapRanges\n")
	old, _ := os.ReadFile(*out)
	if string(old) != b.String() {
		if err := os.WriteFile(*out, []byte(b.String()), 0o644); err != nil {
			fail(err.Error())
		}
	}
	fmt.Printf("map-range sites: %d\n", len(sites))
}

func fail(msg string) {
	fmt.Fprintln(os.Stderr, "extract-mapranges:", msg)
	os.Exit(1)
}

import Model.GoPrelude
/-! REGENERATED on every run by harness/cmd/go2lean -spec clonebase from gerror/factory.go (func CloneBase),
gerror/gerror.go (struct GError) and gerror/stack.go (StackType constants). Do not edit.
`CloneBase` follows the Go function statement by statement; an `if` whose branches only assign is written as
guarded assignments.  What comes from outside the function is a parameter: `base` = err._embededGError(),
`baseRef` = factoryOf(base), `inil` = the nil interface value, `env` = strings.TrimSpace and the stack capture. -/
namespace Generated.GoCloneBase

/-- library and runtime functions CloneBase calls -/
structure Env (σ : Type) where
  trimSpace : Go.Str → Go.Str
  makeStack : Nat → σ
  stackLen : σ → Nat
  nilStack : σ
  nearestExternalMetric : σ → Go.Str

/-- `type GError struct` (field order of the source) -/
structure GError (ι σ : Type) where
  Name : Go.Str
  Message : Go.Str
  Source : Go.Str
  detailTag : Go.Str
  stack : σ
  factoryRef : ι
  srcErrors : List ι
  isFactory : Bool

def NoStack : Nat := 0
def SourceStack : Nat := 4
def ShortStack : Nat := 16
def DefaultStack : Nat := 32

variable {ι σ : Type} [DecidableEq ι]

/-- `func CloneBase[T factoryOf]( err T, stackType StackType, dTag string, source string, extMsg string, srcError error, ) *GError` -/
def CloneBase (env : Env σ) (inil : ι) (err : ι) (base : GError ι σ) (baseRef : ι) (stackType : Nat)
    (dTag source extMsg : Go.Str) (srcError : ι) : Go.M (GError ι σ) := do
  let mut err := err
  let mut extMsg := extMsg
  let mut fRef : ι := baseRef
  let c1 : Bool := (base.factoryRef != inil)
  fRef := if c1 then base.factoryRef else fRef
  let mut clone : GError ι σ := ({ Name := base.Name, Message := base.Message, Source := base.Source, detailTag := base.detailTag, stack := base.stack, factoryRef := fRef, srcErrors := base.srcErrors, isFactory := false } : GError ι σ)
  let c2 : Bool := ((source != (Go.str "")) && (clone.Source == (Go.str "")))
  clone := if c2 then { clone with Source := source } else clone
  let c3 : Bool := (dTag != (Go.str ""))
  let c4 : Bool := (clone.detailTag == (Go.str ""))
  clone := if (c3 && c4) then { clone with detailTag := dTag } else clone
  clone := if (c3 && (!c4)) then { clone with detailTag := (clone.detailTag ++ ((Go.str "-") ++ dTag)) } else clone
  extMsg := (env.trimSpace extMsg)
  let c5 : Bool := (extMsg != (Go.str ""))
  let c6 : Bool := (clone.Message == (Go.str ""))
  clone := if (c5 && c6) then { clone with Message := extMsg } else clone
  clone := if (c5 && (!c6)) then { clone with Message := (clone.Message ++ ((Go.str " ") ++ extMsg)) } else clone
  let c7 : Bool := ((clone.factoryRef == inil) && base.isFactory)
  clone := if c7 then { clone with factoryRef := err } else clone
  let c8 : Bool := (srcError != inil)
  clone := if c8 then { clone with srcErrors := (base.srcErrors ++ [srcError]) } else clone
  if (((decide ((env.stackLen clone.stack) > 0)) || (stackType == NoStack)) || ((stackType == SourceStack) && (clone.Source != (Go.str "")))) then
    return clone
  clone := { clone with stack := (env.makeStack stackType) }
  let c9 : Bool := (clone.Source == (Go.str ""))
  clone := if c9 then { clone with Source := (env.nearestExternalMetric clone.stack) } else clone
  let c10 : Bool := (stackType == SourceStack)
  clone := if (c9 && c10) then { clone with stack := env.nilStack } else clone
  return clone

end Generated.GoCloneBase

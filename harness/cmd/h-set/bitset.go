package main

import (
	"fmt"
	"strconv"
	"strings"

	"github.com/drshriveer/gtools/set"
	"verif/harness/internal/hx"
)

type flagT interface {
	~uint64 | ~uint32 | ~uint16 | ~uint8 | ~uint
}

type (
	F8  uint8
	F16 uint16
	F32 uint32
	F64 uint64
	FU  uint
)

func b2s(b bool) string {
	if b {
		return "t"
	}
	return "f"
}

func conv[T flagT](fs []uint64) []T {
	r := make([]T, len(fs))
	for i, f := range fs {
		r[i] = T(f)
	}
	return r
}

func bsExec[T flagT](op string, s uint64, fs []uint64) string {
	bs := set.BitSet[T](s)
	items := conv[T](fs)
	switch op {
	case "add":
		ok := bs.Add(items...)
		return fmt.Sprintf("%d %s", uint64(bs), b2s(ok))
	case "remove":
		ok := bs.Remove(items...)
		return fmt.Sprintf("%d %s", uint64(bs), b2s(ok))
	case "hasany":
		return b2s(bs.HasAny(items...))
	case "has":
		return b2s(bs.Has(items[0]))
	case "mask":
		return fmt.Sprintf("%d", uint64(bs.MaskOf(items[0])))
	}
	return "bad-op"
}

// bsImpl interprets `bs <w> <op> <set> <flag>*` and `bs <w> make <flag>*` on set.BitSet.
type bsImpl struct{}

func (bsImpl) Reset() {}

func (bsImpl) Exec(line string) string {
	ws := strings.Fields(line)
	if len(ws) < 3 || ws[0] != "bs" {
		return "bad-op"
	}
	w, op := ws[1], ws[2]
	nums := []uint64{}
	for _, x := range ws[3:] {
		n, err := strconv.ParseUint(x, 10, 64)
		if err != nil {
			return "bad-op"
		}
		nums = append(nums, n)
	}
	if op == "make" {
		switch w {
		case "8":
			return fmt.Sprint(uint64(set.MakeBitSet(conv[F8](nums)...)))
		case "16":
			return fmt.Sprint(uint64(set.MakeBitSet(conv[F16](nums)...)))
		case "32":
			return fmt.Sprint(uint64(set.MakeBitSet(conv[F32](nums)...)))
		case "64":
			return fmt.Sprint(uint64(set.MakeBitSet(conv[F64](nums)...)))
		case "u":
			return fmt.Sprint(uint64(set.MakeBitSet(conv[FU](nums)...)))
		}
		return "bad-op"
	}
	if len(nums) < 1 {
		return "bad-op"
	}
	s, fs := nums[0], nums[1:]
	if (op == "has" || op == "mask") && len(fs) != 1 {
		return "bad-op"
	}
	switch w {
	case "8":
		return bsExec[F8](op, s, fs)
	case "16":
		return bsExec[F16](op, s, fs)
	case "32":
		return bsExec[F32](op, s, fs)
	case "64":
		return bsExec[F64](op, s, fs)
	case "u":
		return bsExec[FU](op, s, fs)
	}
	return "bad-op"
}

func widthMax(w string) uint64 {
	switch w {
	case "8":
		return 0xff
	case "16":
		return 0xffff
	case "32":
		return 0xffffffff
	}
	return ^uint64(0)
}

func u(n uint64) string { return strconv.FormatUint(n, 10) }

func joinU(ns []uint64) string {
	p := make([]string, len(ns))
	for i, n := range ns {
		p[i] = u(n)
	}
	return strings.Join(p, " ")
}

func runC11(f *hx.Flags) {
	r := hx.NewRunner(f, "h-set", bsImpl{}, "exhaustive (set,flag) pairs over an 8-bit flag type (every op), random multi-argument calls on 8/16/32/64/uint flag types incl. bit 63, chained op sequences <=30; thorough adds all (set,flag,flag) triples. non-trivial: at least one non-zero flag and a non-zero set; distinct by request lines")
	r.KeyOf = func(d *hx.Disagreement) string {
		ws := strings.Fields(d.Request)
		if len(ws) >= 3 {
			return "C11:" + ws[2]
		}
		return "C11:?"
	}
	if r.HandleReplay() {
		return
	}
	r.RunCorpus()
	// exhaustive pairs
	for s := uint64(0); s < 256; s++ {
		for fl := uint64(0); fl < 256; fl++ {
			r.Add(hx.Case{Domain: true, Nontrivial: s != 0 && fl != 0, Tags: []string{"pair8"}, Lines: []string{
				"bs 8 add " + u(s) + " " + u(fl),
				"bs 8 remove " + u(s) + " " + u(fl),
				"bs 8 has " + u(s) + " " + u(fl),
				"bs 8 mask " + u(s) + " " + u(fl),
				"bs 8 hasany " + u(s) + " " + u(fl),
				"bs 8 make " + u(s) + " " + u(fl),
			}})
		}
	}
	r.Res.Exhaustive = true
	r.Res.Extra["exhaustive_space"] = "all 65536 (set,flag) pairs of an 8-bit flag type x {add,remove,has,mask,hasany,make}"
	if f.Tier == "thorough" {
		for s := uint64(0); s < 256; s++ {
			for f1 := uint64(0); f1 < 256; f1++ {
				lines := make([]string, 0, 256*3)
				for f2 := uint64(0); f2 < 256; f2++ {
					a := u(s) + " " + u(f1) + " " + u(f2)
					lines = append(lines, "bs 8 add "+a, "bs 8 remove "+a, "bs 8 hasany "+a)
				}
				r.Add(hx.Case{Domain: true, Nontrivial: s != 0 && f1 != 0, Tags: []string{"triple8"}, Lines: lines})
			}
		}
		r.Res.Extra["exhaustive_space"] = "all 65536 pairs x 6 ops and all 16777216 (set,flag,flag) triples x {add,remove,hasany} of an 8-bit flag type"
	}
	// random widths
	widths := []string{"8", "16", "32", "64", "u"}
	rnd := func(w string) uint64 {
		m := widthMax(w)
		switch r.Rng.Intn(6) {
		case 0:
			return 0
		case 1:
			return (uint64(1) << uint(r.Rng.Intn(64))) & m
		case 2:
			return m
		case 3:
			return (uint64(1)<<63 | uint64(r.Rng.Intn(8))) & m
		default:
			return (r.Rng.Uint64() & r.Rng.Uint64()) & m
		}
	}
	n := r.N(20000)
	if f.Tier == "thorough" {
		n = r.N(400000)
	}
	for i := 0; i < n; i++ {
		w := widths[r.Rng.Intn(len(widths))]
		s := r.Rng.Uint64()
		if r.Rng.Intn(4) == 0 {
			s &= widthMax(w)
		}
		k := r.Rng.Intn(5)
		fs := make([]uint64, k)
		nz := false
		for j := range fs {
			fs[j] = rnd(w)
			nz = nz || fs[j] != 0
		}
		args := u(s)
		if k > 0 {
			args += " " + joinU(fs)
		}
		lines := []string{"bs " + w + " add " + args, "bs " + w + " remove " + args, "bs " + w + " hasany " + args, strings.TrimSpace("bs " + w + " make " + joinU(fs))}
		if k >= 1 {
			lines = append(lines, "bs "+w+" has "+u(s)+" "+u(fs[0]), "bs "+w+" mask "+u(s)+" "+u(fs[0]))
		}
		r.Add(hx.Case{Domain: true, Nontrivial: nz && s != 0, Tags: []string{"rand" + w, fmt.Sprintf("args%d", k)}, Lines: lines})
	}
	// chained sequences
	m := r.N(2000)
	if f.Tier == "thorough" {
		m = r.N(40000)
	}
	impl := bsImpl{}
	for i := 0; i < m; i++ {
		w := widths[r.Rng.Intn(len(widths))]
		s := uint64(0)
		var lines []string
		L := 1 + r.Rng.Intn(30)
		for j := 0; j < L; j++ {
			k := 1 + r.Rng.Intn(3)
			fs := make([]uint64, k)
			for q := range fs {
				fs[q] = rnd(w)
			}
			op := []string{"add", "remove", "hasany"}[r.Rng.Intn(3)]
			line := "bs " + w + " " + op + " " + u(s) + " " + joinU(fs)
			lines = append(lines, line)
			out := impl.Exec(line)
			if op != "hasany" {
				if n, err := strconv.ParseUint(strings.Fields(out)[0], 10, 64); err == nil {
					s = n
				}
			}
		}
		r.Add(hx.Case{Domain: true, Nontrivial: L > 1, Tags: []string{"seq"}, Lines: lines})
	}
	r.Finish()
}

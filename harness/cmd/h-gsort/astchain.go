package main

import (
	"bytes"
	"fmt"
	"go/ast"
	"go/parser"
	"go/printer"
	"go/token"
	"strings"
)

// chainsOfSource reads a file written by the real generator and returns, per generated slice
// type, "value|ptr <TypeName> <body of Less as S-expression>" in the notation of the Lean
// driver (`Drv.GSort.showCmp`).  It only extracts; whatever it does not recognise is rendered as
// `(other …)` and therefore disagrees with the model.  The second result maps every generated
// slice type to its element struct type.
func chainsOfSource(src []byte) (map[string]string, map[string]string, error) {
	fset := token.NewFileSet()
	f, err := parser.ParseFile(fset, "gen.go", src, 0)
	if err != nil {
		return nil, nil, err
	}
	form := map[string]string{}
	body := map[string]string{}
	elem := map[string]string{}
	for _, decl := range f.Decls {
		switch d := decl.(type) {
		case *ast.GenDecl:
			for _, sp := range d.Specs {
				ts, ok := sp.(*ast.TypeSpec)
				if !ok {
					continue
				}
				at, ok := ts.Type.(*ast.ArrayType)
				if !ok || at.Len != nil {
					continue
				}
				if st, isPtr := at.Elt.(*ast.StarExpr); isPtr {
					form[ts.Name.Name] = "ptr"
					elem[ts.Name.Name] = show(fset, st.X)
				} else {
					form[ts.Name.Name] = "value"
					elem[ts.Name.Name] = show(fset, at.Elt)
				}
			}
		case *ast.FuncDecl:
			if d.Name.Name != "Less" || d.Recv == nil || len(d.Recv.List) != 1 || d.Body == nil {
				continue
			}
			id, ok := d.Recv.List[0].Type.(*ast.Ident)
			if !ok || len(d.Recv.List[0].Names) != 1 || d.Recv.List[0].Names[0].Name != "s" {
				continue
			}
			if !lessParamsAreIJ(d) {
				body[id.Name] = "(other params)"
				continue
			}
			body[id.Name] = cmpOf(fset, d.Body.List)
		}
	}
	res := map[string]string{}
	elemOf := map[string]string{}
	for tn, fm := range form {
		b, ok := body[tn]
		if !ok {
			b = "(other no-less)"
		}
		res[tn] = fm + " " + tn + " " + b
		elemOf[tn] = elem[tn]
	}
	return res, elemOf, nil
}

func lessParamsAreIJ(d *ast.FuncDecl) bool {
	var names []string
	for _, p := range d.Type.Params.List {
		for _, n := range p.Names {
			names = append(names, n.Name)
		}
	}
	return len(names) == 2 && names[0] == "i" && names[1] == "j"
}

func show(fset *token.FileSet, n ast.Node) string {
	var b bytes.Buffer
	printer.Fprint(&b, fset, n)
	return strings.Join(strings.Fields(b.String()), "")
}

func unparen(e ast.Expr) ast.Expr {
	for {
		p, ok := e.(*ast.ParenExpr)
		if !ok {
			return e
		}
		e = p.X
	}
}

// accOf: `s[i].<acc>` / `s[j].<acc>` -> (index name, acc)
func accOf(fset *token.FileSet, e ast.Expr) (string, string, bool) {
	s := show(fset, unparen(e))
	for _, ix := range []string{"i", "j"} {
		p := "s[" + ix + "]."
		if strings.HasPrefix(s, p) && len(s) > len(p) {
			return ix, s[len(p):], true
		}
	}
	return "", "", false
}

func retOf(fset *token.FileSet, e ast.Expr) string {
	e = unparen(e)
	if ix, acc, ok := accOf(fset, e); ok && ix == "j" {
		if _, isBin := e.(*ast.BinaryExpr); !isBin {
			return "(j " + acc + ")"
		}
	}
	if b, ok := e.(*ast.BinaryExpr); ok {
		switch b.Op {
		case token.LSS:
			ix, ax, ok1 := accOf(fset, b.X)
			iy, ay, ok2 := accOf(fset, b.Y)
			if ok1 && ok2 && ix == "i" && iy == "j" && ax == ay {
				return "(lt " + ax + ")"
			}
		case token.LAND:
			for _, pr := range [][2]ast.Expr{{b.X, b.Y}, {b.Y, b.X}} {
				u, ok := unparen(pr[0]).(*ast.UnaryExpr)
				if !ok || u.Op != token.NOT {
					continue
				}
				ix, ax, ok1 := accOf(fset, u.X)
				iy, ay, ok2 := accOf(fset, pr[1])
				if ok1 && ok2 && ix == "i" && iy == "j" && ax == ay {
					return "(noti-and-j " + ax + ")"
				}
			}
		}
	}
	return "(other " + show(fset, e) + ")"
}

// guardOf: `if s[i].a != s[j].a { return e }` -> (a, rendering of e)
func guardOf(fset *token.FileSet, st ast.Stmt) (string, string, bool) {
	ifs, ok := st.(*ast.IfStmt)
	if !ok || ifs.Init != nil || ifs.Else != nil || len(ifs.Body.List) != 1 {
		return "", "", false
	}
	r, ok := ifs.Body.List[0].(*ast.ReturnStmt)
	if !ok || len(r.Results) != 1 {
		return "", "", false
	}
	c, ok := unparen(ifs.Cond).(*ast.BinaryExpr)
	if !ok || c.Op != token.NEQ {
		return "", "", false
	}
	ix, ax, okx := accOf(fset, c.X)
	iy, ay, oky := accOf(fset, c.Y)
	if !okx || !oky || ix != "i" || iy != "j" || ax != ay {
		return "", "", false
	}
	return ax, retOf(fset, r.Results[0]), true
}

// guardsOf: a body of guard clauses `if a != b { return e_a }; …; return e_last` is rewritten
// into the nested form, exactly as `GSort.Cmp.ofGuards` does (sound: Properties/C08.evalGuards_eq).
func guardsOf(fset *token.FileSet, stmts []ast.Stmt) (string, bool) {
	if len(stmts) < 2 {
		return "", false
	}
	last, ok := stmts[len(stmts)-1].(*ast.ReturnStmt)
	if !ok || len(last.Results) != 1 {
		return "", false
	}
	out := "(ret " + retOf(fset, last.Results[0]) + ")"
	for k := len(stmts) - 2; k >= 0; k-- {
		acc, ret, ok := guardOf(fset, stmts[k])
		if !ok {
			return "", false
		}
		if ret == "(j "+acc+")" {
			ret = "(noti-and-j " + acc + ")"
		}
		out = "(ifeq " + acc + " " + out + " " + ret + ")"
	}
	return out, true
}

func cmpOf(fset *token.FileSet, stmts []ast.Stmt) string {
	if g, ok := guardsOf(fset, stmts); ok {
		return g
	}
	switch len(stmts) {
	case 1:
		if r, ok := stmts[0].(*ast.ReturnStmt); ok && len(r.Results) == 1 {
			return "(ret " + retOf(fset, r.Results[0]) + ")"
		}
	case 2:
		ifs, ok1 := stmts[0].(*ast.IfStmt)
		r, ok2 := stmts[1].(*ast.ReturnStmt)
		if ok1 && ok2 && len(r.Results) == 1 && ifs.Init == nil && ifs.Else == nil {
			if c, ok := unparen(ifs.Cond).(*ast.BinaryExpr); ok && c.Op == token.EQL {
				ix, ax, okx := accOf(fset, c.X)
				iy, ay, oky := accOf(fset, c.Y)
				if okx && oky && ix == "i" && iy == "j" && ax == ay {
					ret := retOf(fset, r.Results[0])
					if ret == "(j "+ax+")" {
						// normal form, mirrors `GSort.Cmp.normalize` (sound: Properties/C08.normalize_eval)
						ret = "(noti-and-j " + ax + ")"
					}
					return "(ifeq " + ax + " " + cmpOf(fset, ifs.Body.List) + " " + ret + ")"
				}
			}
		}
	}
	var parts []string
	for _, s := range stmts {
		parts = append(parts, show(fset, s))
	}
	return fmt.Sprintf("(other %s)", strings.Join(parts, ";"))
}

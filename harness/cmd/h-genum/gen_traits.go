package main

import (
	"encoding/hex"
	"fmt"
	"math/big"
	"sort"
	"strconv"
	"strings"

	"verif/harness/internal/hx"
)

var colTypes = []string{"string", "Str", "int", "Sm", "int16", "time.Duration", "uint8", "uint64", "Un", "bool", "rune"}
var colWords = map[string]string{"string": "Label", "Str": "Tag", "int": "Num", "Sm": "Small", "int16": "Mid", "time.Duration": "Dur", "uint8": "Byte", "uint64": "Big", "Un": "Port", "bool": "Flag", "rune": "Rn", "int8": "Tiny", "uint16": "Word"}

// scalarPool hands out pairwise distinct constants: strings never look like identifiers, integers
// are distinct across ALL numeric columns of the type (so a number names at most one value).
type scalarPool struct {
	g       *gen
	usedInt map[string]bool
	usedStr map[string]bool
	emptyOK bool // hand out the empty string once
}

func (p *scalarPool) str() string {
	words := []string{"lab-1", "x y", "ten", "a.b", "zero!", "q", "Lab-1", "two words", "v/1", "#tag", "né", "1st", "-", "tr ue"}
	if p.emptyOK && !p.usedStr[""] && p.g.rng.Intn(3) == 0 {
		p.usedStr[""] = true
		return ""
	}
	for {
		w := words[p.g.rng.Intn(len(words))]
		if p.g.rng.Intn(3) == 0 {
			w += strconv.Itoa(p.g.rng.Intn(50))
		}
		ascii := true
		for _, c := range []byte(w) {
			if c < 0x20 || c > 0x7e {
				ascii = false
			}
		}
		if ascii && !p.usedStr[w] && !isIdent(w) {
			if _, err := strconv.ParseFloat(w, 64); err == nil {
				continue
			}
			p.usedStr[w] = true
			return w
		}
	}
}

func (p *scalarPool) intIn(lo, hi int64) int64 {
	for {
		var v int64
		switch p.g.rng.Intn(4) {
		case 0:
			v = lo + int64(p.g.rng.Intn(int(min64(hi-lo, 40))+1))
		case 1:
			v = hi - int64(p.g.rng.Intn(int(min64(hi-lo, 40))+1))
		default:
			v = int64(p.g.rng.Intn(61) - 20)
			if v < lo || v > hi {
				continue
			}
		}
		if !p.usedInt[strconv.FormatInt(v, 10)] {
			p.usedInt[strconv.FormatInt(v, 10)] = true
			return v
		}
	}
}

func min64(a, b int64) int64 {
	if a < b {
		return a
	}
	return b
}

func (p *scalarPool) scalar(ty string, row int) string {
	switch {
	case ty == "string" || strings.HasPrefix(ty, "Str"):
		return "s:" + hexOf2(p.str())
	case ty == "bool":
		if row%2 == 0 {
			return "b:f"
		}
		return "b:t"
	case ty == "rune":
		for {
			v := int64('a' + p.g.rng.Intn(26))
			if !p.usedInt[strconv.FormatInt(v, 10)] {
				p.usedInt[strconv.FormatInt(v, 10)] = true
				return "i:" + strconv.FormatInt(v, 10)
			}
		}
	case ty == "int":
		return "i:" + strconv.FormatInt(p.intIn(-1000, 100000), 10)
	case strings.HasPrefix(ty, "Sm"), ty == "int8":
		return "i:" + strconv.FormatInt(p.intIn(-128, 127), 10)
	case ty == "int16":
		return "i:" + strconv.FormatInt(p.intIn(-32768, 32767), 10)
	case ty == "time.Duration":
		return "i:" + strconv.FormatInt(p.intIn(-5, 4000000000000), 10)
	case ty == "uint8":
		return "i:" + strconv.FormatInt(p.intIn(0, 255), 10)
	case strings.HasPrefix(ty, "Un"), ty == "uint16":
		return "i:" + strconv.FormatInt(p.intIn(0, 65535), 10)
	case ty == "uint64":
		if p.g.rng.Intn(3) == 0 {
			for {
				v := new(big.Int).Sub(new(big.Int).Lsh(bi(1), 64), bi(int64(1+p.g.rng.Intn(50))))
				if !p.usedInt[v.String()] {
					p.usedInt[v.String()] = true
					return "i:" + v.String()
				}
			}
		}
		return "i:" + strconv.FormatInt(p.intIn(0, 1<<40), 10)
	}
	return "i:0"
}

func hexOf2(s string) string { // s:<hex> with an empty payload for the empty string
	if s == "" {
		return ""
	}
	return fmt.Sprintf("%x", s)
}

// traitShape steers traitDef: random by default, with the shaped classes switched on per field.
type traitShape struct {
	opts        string
	maxCols     int
	dups        bool     // one or two random duplicate names
	families    []string // column type families to draw from (without repetition)
	fixedCols   []string // if set: exactly these column families, in this order (repeats allowed:
	//                      distinct named types sharing an underlying type)
	allParsable bool
	rowless     bool     // some non-lowest values are declared without trait columns
	emptyStr    bool     // one string trait constant may be the empty string
	dupGroups   []string // deprecation patterns (alphabetical order, d/L): each pattern gets a value of
	//                      its own whose names all carry DIFFERENT trait constants
	nTypes      int
	nConsts     int
}

func (g *gen) traitDef(opts string, maxCols int, wantDups bool, families []string) *Def {
	return g.shapedDef(traitShape{opts: opts, maxCols: maxCols, dups: wantDups, families: families})
}

// shapedDef: a definition file whose types carry 1-5 trait columns.
func (g *gen) shapedDef(sh traitShape) *Def {
	rng := g.rng
	n := g.nextSerial()
	opts := sh.opts
	d := &Def{Opts: opts}
	nTypes := sh.nTypes
	if nTypes == 0 {
		nTypes = 1
		if rng.Intn(4) == 0 {
			nTypes = 2
		}
	}
	for ti := 0; ti < nTypes; ti++ {
		kind := g.nextKind()
		lo, hi := kindRange(kind)
		t := fmt.Sprintf("E%d%c", n, 'a'+ti)
		pre := fmt.Sprintf("C%d%c", n, 'a'+ti)
		td := TypeD{Name: t, Kind: kind}
		var fams []string
		if len(sh.fixedCols) > 0 {
			fams = sh.fixedCols
		} else {
			nCols := 1 + rng.Intn(sh.maxCols)
			perm := rng.Perm(len(sh.families))
			for j := 0; j < nCols && j < len(sh.families); j++ {
				fams = append(fams, sh.families[perm[j]])
			}
		}
		for j, ty := range fams {
			word := colWords[ty]
			sfx := byte('a' + ti*5 + j)
			if ty == "Str" || ty == "Sm" || ty == "Un" {
				ty = fmt.Sprintf("%s%d%c", ty, n, sfx)
			}
			td.Cols = append(td.Cols, Col{Name: fmt.Sprintf("%s%d%c", word, n, sfx), Ty: ty, Fam: famOfTy(ty)})
		}
		// parsable subset
		for _, c := range td.Cols {
			if sh.allParsable || rng.Intn(3) != 0 {
				d.Parsable = append(d.Parsable, c.Name)
			}
		}
		d.Types = append(d.Types, td)
		pool := &scalarPool{g: g, usedInt: map[string]bool{}, usedStr: map[string]bool{}, emptyOK: sh.emptyStr}
		nC := sh.nConsts
		if nC == 0 {
			nC = 2 + rng.Intn(7)
			if rng.Intn(6) == 0 {
				nC = 16 + rng.Intn(4)
			}
		}
		if nC < len(sh.dupGroups)+1 {
			nC = len(sh.dupGroups) + 1
		}
		start := bi(0)
		if lo.Sign() < 0 && rng.Intn(3) == 0 {
			start = bi(int64(-1 - rng.Intn(3)))
		}
		if rng.Intn(5) == 0 {
			start = new(big.Int).Set(lo)
		}
		nm := &namer{rng: rng, prefix: pre, fold: strings.Contains(opts, "c"), used: map[string]bool{}}
		if ti > 0 {
			d.Items = append(d.Items, Item{What: "block"})
		}
		tvals := func(row int) []string {
			var r []string
			for _, c := range td.Cols {
				r = append(r, pool.scalar(c.Ty, row))
			}
			return r
		}
		var lines []Item
		v := new(big.Int).Set(start)
		rowlessDone := false
		for i := 0; i < nC && v.Cmp(hi) <= 0; i++ {
			if i >= 1 && i <= len(sh.dupGroups) {
				// a duplicated value: one name per pattern letter, alphabetical order = pattern order,
				// every line with trait constants of its own; source order rotated
				pat := sh.dupGroups[i-1]
				var grp []Item
				for k := 0; k < len(pat); k++ {
					it := Item{What: "const", T: t, Name: nm.take(fmt.Sprintf("G%d%c", i, 'A'+k)), Val: new(big.Int).Set(v), Form: "x", Dep: pat[k] == 'd'}
					if rng.Intn(5) == 0 {
						it.Form = "xn"
					}
					it.TVals = tvals(i + k)
					grp = append(grp, it)
				}
				rot := rng.Intn(len(grp))
				grp = append(grp[rot:], grp[:rot]...)
				lines = append(lines, grp...)
			} else {
				it := Item{What: "const", T: t, Name: nm.next(), Val: new(big.Int).Set(v), Form: "c"}
				if rng.Intn(4) == 0 {
					it.Form = "x"
				}
				if i > 0 && rng.Intn(4) == 0 {
					it.Form += "n"
				}
				// the lowest value's line declares the traits; later values may have no trait columns
				if i > 0 && sh.rowless && (rng.Intn(3) == 0 || (!rowlessDone && i == nC-1)) {
					rowlessDone = true
				} else {
					it.TVals = tvals(i)
				}
				lines = append(lines, it)
			}
			step := int64(1)
			if rng.Intn(5) == 0 {
				step = int64(2 + rng.Intn(5))
			}
			v = new(big.Int).Add(v, bi(step))
		}
		if sh.dups && len(lines) > 1 {
			nd := 1 + rng.Intn(2)
			for k := 0; k < nd; k++ {
				src := lines[1+rng.Intn(len(lines)-1)] // never the lowest value: its first name declares the traits
				dup := Item{What: "const", T: t, Name: nm.next(), Val: src.Val, Form: "x"}
				switch rng.Intn(3) {
				case 0: // deprecated alias with trait columns of its own (ignored in favour of the primary)
					dup.Dep = true
					dup.TVals = tvals(k)
				case 1: // deprecated alias without trait columns
					dup.Dep = true
				default: // a second live name (the generator warns); with or without columns
					if rng.Intn(2) == 0 {
						dup.TVals = tvals(k)
					}
				}
				lines = append(lines, dup)
			}
		}
		d.Items = append(d.Items, lines...)
	}
	return d
}

// yamlNames: identifiers that mean something to YAML / JSON readers
var yamlNames = []string{"Null", "null", "NULL", "True", "False", "Yes", "No", "On", "Off", "Y", "N", "yes", "no", "on", "off", "y", "n", "TRUE", "NaN", "Inf"}

// yamlNamesDef: an enum whose VALUE NAMES are YAML/JSON-significant identifiers (only one such
// definition fits a package: the names are not prefixed). One value is duplicated so that a
// significant name is also a primary name picked among aliases.
func (g *gen) yamlNamesDef(opts string) *Def {
	rng := g.rng
	n := g.nextSerial()
	t := fmt.Sprintf("E%da", n)
	d := &Def{Opts: opts, Types: []TypeD{{Name: t, Kind: g.nextKind()}}}
	fold := strings.Contains(opts, "c")
	seen := map[string]bool{}
	var names []string
	for _, i := range rng.Perm(len(yamlNames)) {
		nm := yamlNames[i]
		k := nm
		if fold {
			k = strings.ToLower(nm)
		}
		if !seen[k] {
			seen[k] = true
			names = append(names, nm)
		}
	}
	// the three spellings of null first (as far as the fold allows), then the others
	sort.SliceStable(names, func(i, j int) bool {
		return strings.EqualFold(names[i], "null") && !strings.EqualFold(names[j], "null")
	})
	if len(names) > 14 {
		names = names[:14]
	}
	for i, nm := range names {
		form := "r"
		if i == 0 {
			form = "i"
		}
		d.Items = append(d.Items, Item{What: "const", T: t, Name: nm, Val: bi(int64(i)), Form: form})
	}
	// deprecated alias sorting BEFORE a significant name: the significant name stays primary
	d.Items = append(d.Items, Item{What: "block"},
		Item{What: "const", T: t, Name: fmt.Sprintf("AAlias%d", n), Val: bi(0), Dep: true, Form: "x"})
	return d
}

// primaryOf: the primary constant of each value of type t (first live name, else first name).
func primaryOf(d *Def, t string) map[string]Item {
	groups := map[string][]Item{}
	for _, it := range d.constsOf(t) {
		groups[it.Val.String()] = append(groups[it.Val.String()], it)
	}
	res := map[string]Item{}
	for k, grp := range groups {
		sort.Slice(grp, func(i, j int) bool { return grp[i].Name < grp[j].Name })
		p := grp[0]
		for _, it := range grp {
			if !it.Dep {
				p = it
				break
			}
		}
		res[k] = p
	}
	return res
}

func codecsOf(opts string) []string {
	var cs []string
	if !strings.Contains(opts, "J") {
		cs = append(cs, "json")
	}
	if !strings.Contains(opts, "T") {
		cs = append(cs, "text")
	}
	if !strings.Contains(opts, "Y") {
		cs = append(cs, "yaml")
	}
	return cs
}

func valsArgOf(kind string, consts []Item, g *gen) string {
	bits, _, _, _ := kindInfo(kind)
	if bits == 8 {
		return "all"
	}
	return g.valueList(kind, consts)
}

func definedList(consts []Item) string {
	seen := map[string]bool{}
	var vs []*big.Int
	for _, it := range consts {
		if !seen[it.Val.String()] {
			seen[it.Val.String()] = true
			vs = append(vs, it.Val)
		}
	}
	sort.Slice(vs, func(i, j int) bool { return vs[i].Cmp(vs[j]) < 0 })
	ss := make([]string, len(vs))
	for i, v := range vs {
		ss[i] = v.String()
	}
	return strings.Join(ss, ",")
}

// emitC05: marshal / round trip of every defined value and the rejection documents, per codec.
func (g *gen) emitC05(defs []*Def, domain bool) {
	g.w.prepare(defs)
	for _, d := range defs {
		g.nDefs++
		defLines := append(d.Lines(), "gn gen")
		for _, td := range d.Types {
			g.nTypes++
			consts := d.constsOf(td.Name)
			hdr := fmt.Sprintf("case gn %d %s", g.nDefs, td.Name)
			defined := definedList(consts)
			parsable := map[string]bool{}
			for _, p := range d.Parsable {
				parsable[p] = true
			}
			for _, codec := range codecsOf(d.Opts) {
				lines := append([]string{hdr + " " + codec}, defLines...)
				// Values()/StringValues() first: the probe mutates the returned slices in place
				// (caller-owned), every later answer must be unaffected
				lines = append(lines, "gn values "+td.Name, "gn strvals "+td.Name)
				lines = append(lines, "gn marshal "+td.Name+" "+codec+" "+defined, "gn rt "+td.Name+" "+codec+" "+defined)
				if codec != "text" {
					lines = append(lines, "gn rtf "+td.Name+" "+codec+" "+defined)
				}
				docs := map[string]bool{}
				var order []string
				add := func(doc string) {
					if !docs[doc] {
						docs[doc] = true
						order = append(order, doc)
					}
				}
				sdoc := func(s string) {
					for _, c := range []byte(s) {
						if c < 0x20 || c > 0x7e {
							return
						}
					}
					add("s:" + hexOf2(s))
				}
				// names and near misses
				for i, it := range consts {
					if i < 5 {
						sdoc(it.Name)
						sdoc(strings.ToLower(it.Name))
						sdoc(it.Name + "x")
						sdoc(it.Name[:len(it.Name)-1])
						sdoc(" " + it.Name)
						sdoc(it.Val.String())
						add("n:" + it.Val.String())
					}
				}
				sdoc("")
				sdoc("garbage")
				sdoc("true")
				sdoc("Undefined" + td.Name + ":0")
				for _, w := range []string{"0", "1", "-1", "7", "255", "256", "65536", "4294967296", "18446744073709551615", "18446744073709551616", "-9223372036854775808", "-9223372036854775809"} {
					add("n:" + w)
				}
				add("o:" + hexOf2("true"))
				add("o:" + hexOf2("1.5"))
				add("o:" + hexOf2("+5"))
				add("o:" + hexOf2("1e3"))
				// trait constants: parsable ones decode, non-parsable ones are rejected
				for _, it := range consts {
					for j, sc := range it.TVals {
						if j >= len(td.Cols) {
							continue
						}
						k, p, _ := strings.Cut(sc, ":")
						switch k {
						case "s":
							add("s:" + p)
							// case variants of a string trait constant are no constants (also under -caseInsensitive)
							if raw, err := hex.DecodeString(p); err == nil {
								sdoc(strings.ToUpper(string(raw)))
								sdoc(swapCase(string(raw)))
							}
						case "i":
							add("n:" + p)
							if x, ok := new(big.Int).SetString(p, 10); ok {
								for _, off := range []int64{1, -1, 256, 65536, -256} {
									add("n:" + new(big.Int).Add(x, bi(off)).String())
								}
								add("s:" + hexOf2(p))
							}
						}
					}
				}
				for i := 0; i < 6; i++ {
					sdoc(g.randomWord())
				}
				for _, doc := range order {
					lines = append(lines, "gn dec "+td.Name+" "+codec+" "+doc)
					g.nParse++
				}
				lines = append(lines, "gn strvals "+td.Name, "gn values "+td.Name, "gn str "+td.Name+" "+defined, "gn valid "+td.Name+" "+defined,
					"gn marshal "+td.Name+" "+codec+" "+defined)
				tags := []string{"codec:" + codec, "opts:" + d.Opts, "kind:" + td.Kind, fmt.Sprintf("cols:%d", len(td.Cols))}
				np := 0
				for _, c := range td.Cols {
					if parsable[c.Name] {
						tags = append(tags, "parsable:"+c.Fam)
						np++
					}
				}
				if len(dupPatterns(d, td.Name)) > 0 {
					tags = append(tags, "duplicates")
				}
				rowless, significant := false, false
				for _, it := range consts {
					if len(td.Cols) > 0 && len(it.TVals) == 0 {
						rowless = true
					}
					for _, y := range yamlNames {
						if it.Name == y {
							significant = true
						}
					}
					for _, sc := range it.TVals {
						if sc == "s:" {
							tags = append(tags, "empty-string-trait")
						}
					}
				}
				if rowless {
					tags = append(tags, "value-without-trait-row")
				}
				if significant {
					tags = append(tags, "yaml-significant-names")
				}
				g.r.Add(hx.Case{Lines: lines, Domain: domain, Nontrivial: np > 0 || significant || len(dupPatterns(d, td.Name)) > 0, Tags: tags})
			}
		}
	}
}

func (g *gen) randomWord() string {
	const al = "ABCXYZabcxyz019_ :-"
	l := 1 + g.rng.Intn(6)
	b := make([]byte, l)
	for k := range b {
		b[k] = al[g.rng.Intn(len(al))]
	}
	return string(b)
}

// emitC12: accessors on every value, Parse<T> of every trait constant, decoding of scalars that
// hold a parsable trait constant (checked against the property: the owning value).
func (g *gen) emitC12(defs []*Def, domain bool) {
	g.w.prepare(defs)
	for _, d := range defs {
		g.nDefs++
		defLines := append(d.Lines(), "gn gen")
		parsable := map[string]bool{}
		for _, p := range d.Parsable {
			parsable[p] = true
		}
		for _, td := range d.Types {
			g.nTypes++
			consts := d.constsOf(td.Name)
			hdr := fmt.Sprintf("case gn %d %s", g.nDefs, td.Name)
			va := valsArgOf(td.Kind, consts, g)
			lines := append([]string{hdr + " accessors"}, defLines...)
			tags := []string{"kind:" + td.Kind, fmt.Sprintf("cols:%d", len(td.Cols))}
			if len(dupPatterns(d, td.Name)) > 0 {
				tags = append(tags, "duplicates")
			}
			for _, c := range td.Cols {
				lines = append(lines, "gn trait "+td.Name+" "+c.Name+" "+va)
				tags = append(tags, "col:"+c.Fam+":"+tyBase(c.Ty))
				g.nValueQ++
			}
			// Parse<T> of typed trait constants (every line's constants, near misses)
			for _, it := range consts {
				for j, sc := range it.TVals {
					if j >= len(td.Cols) {
						continue
					}
					lines = append(lines, "gn ptrait "+td.Name+" "+td.Cols[j].Name+" "+sc)
					g.nParse++
					if k, p, _ := strings.Cut(sc, ":"); k == "i" {
						if x, ok := new(big.Int).SetString(p, 10); ok && td.Cols[j].Fam != "none" {
							y := new(big.Int).Add(x, bi(1))
							if _, ok := traitExpr(td.Cols[j].Ty, "i:"+y.String()); ok && fitsFam(td.Cols[j].Fam, y) {
								lines = append(lines, "gn ptrait "+td.Name+" "+td.Cols[j].Name+" i:"+y.String())
							}
						}
					}
				}
			}
			lines = append(lines, "gn values "+td.Name, "gn strvals "+td.Name)
			for i, it := range consts {
				if i < 4 {
					lines = append(lines, "gn parse "+td.Name+" "+hexOf(it.Name))
				}
			}
			lines = append(lines, "gn values "+td.Name, "gn strvals "+td.Name, "gn str "+td.Name+" "+definedList(consts))
			g.r.Add(hx.Case{Lines: lines, Domain: domain, Nontrivial: true, Tags: tags})
			// decode-by-trait, per parsable column; families without a decoder branch under their own key
			prim := primaryOf(d, td.Name)
			for j, c := range td.Cols {
				if !parsable[c.Name] {
					continue
				}
				lines := append([]string{hdr + " decode " + c.Name}, defLines...)
				codecs := []string{"json", "yaml"}
				if c.Fam == "ustr" || c.Fam == "nstr" {
					codecs = append(codecs, "text")
				}
				for _, it := range consts {
					if j >= len(it.TVals) || prim[it.Val.String()].Name != it.Name {
						continue // only the primary definition's constants belong to the value
					}
					for _, codec := range codecs {
						lines = append(lines, "gn sdec "+td.Name+" "+codec+" "+c.Name+" "+it.TVals[j])
						g.nParse++
					}
				}
				key := ""
				ty := tyBase(c.Ty)
				if c.Fam == "none" || ty == "rune" {
					// families the pinned template has no decoder branch for, under their own key
					key = "C12:decode:" + ty + "-trait"
				}
				g.r.Add(hx.Case{Lines: lines, Domain: domain, Nontrivial: true, Tags: []string{"decode:" + c.Fam + ":" + ty}, Key: key})
			}
		}
	}
}

func fitsFam(fam string, v *big.Int) bool {
	if len(fam) < 2 {
		return false
	}
	bits, err := strconv.Atoi(fam[1:])
	if err != nil {
		return false
	}
	one := bi(1)
	if fam[0] == 's' {
		hi := new(big.Int).Lsh(one, uint(bits-1))
		return v.Cmp(new(big.Int).Neg(hi)) >= 0 && v.Cmp(hi) < 0
	}
	return v.Sign() >= 0 && v.Cmp(new(big.Int).Lsh(one, uint(bits))) < 0
}

// tyBase: the type token without the per-definition serial of local types.
func tyBase(ty string) string {
	if localTyRe.MatchString(ty) {
		return strings.TrimRight(ty, "0123456789abcdefghijklmnopqrstuvwxyz")
	}
	return ty
}

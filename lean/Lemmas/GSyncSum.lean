import Model.GSync
/-!
# Book-keeping invariant: the counter is the sum of the deltas whose update has executed
(independent of `NonNeg`; used by C02)
-/
namespace GSync

def addedSum (ts : List Thread) : Int := (ts.map (fun t => t.added.sum)).sum

/-- relation between the deltas begun and the deltas applied, per program counter -/
def BA (t : Thread) : Prop :=
  match t.pc with
  | .aLock d | .aAdd d => t.begun = d :: t.added
  | _ => t.begun = t.added

structure Inv2 (s : St) : Prop where
  cnt : s.sh.count = addedSum s.threads
  ba : ∀ (i : Nat) (t : Thread), s.threads[i]? = some t → BA t

theorem sum_map_set (f : Thread → Int) (l : List Thread) (i : Nat) (t t' : Thread)
    (h : l[i]? = some t) : ((l.set i t').map f).sum = (l.map f).sum - f t + f t' := by
  induction l generalizing i with
  | nil => simp at h
  | cons a l ih =>
    cases i with
    | zero => simp at h; subst h; simp; omega
    | succ i =>
      simp at h
      have := ih i h
      simp only [List.set_cons_succ, List.map_cons, List.sum_cons] at this ⊢
      omega

theorem enter_added (L : Bool) (zc : Nat) (t : Thread) : (enter L zc t).added = t.added := by
  unfold enter; split <;> simp

theorem enter_BA (zc : Nat) (t : Thread) (h : t.begun = t.added) : BA (enter true zc t) := by
  unfold enter; split <;> simp [BA, h]

theorem tstep_added (sh : Shared) (i : Nat) (t : Thread) :
    (tstep true sh i t).1.count - sh.count =
      (tstep true sh i t).2.1.added.sum - t.added.sum := by
  cases hp : t.pc with
  | idle => simp [tstep, hp]
  | aLock d => simp only [tstep, hp]; cases sh.lock <;> simp
  | aAdd d =>
    simp only [tstep, hp, finishAdd]
    by_cases h1 : sh.count + d = 0
    · rw [if_pos h1]; simp; omega
    · by_cases h2 : 0 < d ∧ sh.count + d = d
      · rw [if_neg h1, if_pos h2]; simp; omega
      · rw [if_neg h1, if_neg h2]; simp; omega
  | aSwap v => simp only [tstep, hp, finishAdd]; split <;> simp
  | aCloseOld v ch => simp [tstep, hp, finishAdd]
  | aCAS v => simp only [tstep, hp, finishAdd]; split <;> simp
  | aCloseNew v ch => simp [tstep, hp, finishAdd]
  | aUnlock v => simp [tstep, hp, enter_added]
  | wCount => simp [tstep, hp]
  | wChan c => simp only [tstep, hp]; split <;> simp [enter_added]
  | cLoad => simp [tstep, hp, enter_added]

theorem tstep_BA (sh : Shared) (i : Nat) (t : Thread) (h : BA t) : BA (tstep true sh i t).2.1 := by
  unfold BA at h
  cases hp : t.pc with
  | idle => simp only [hp] at h; simpa [tstep, hp, BA] using h
  | aLock d => simp only [hp] at h; simp only [tstep, hp]; cases sh.lock <;> simp [BA, hp, h]
  | aAdd d =>
    simp only [hp] at h
    simp only [tstep, hp, finishAdd]
    by_cases h1 : sh.count + d = 0
    · rw [if_pos h1]; simp [BA, h]
    · by_cases h2 : 0 < d ∧ sh.count + d = d
      · rw [if_neg h1, if_pos h2]; simp [BA, h]
      · rw [if_neg h1, if_neg h2]; simp [BA, h]
  | aSwap v => simp only [hp] at h; simp only [tstep, hp, finishAdd]; split <;> simp [BA, h]
  | aCloseOld v ch => simp only [hp] at h; simp [tstep, hp, finishAdd, BA, h]
  | aCAS v => simp only [hp] at h; simp only [tstep, hp, finishAdd]; split <;> simp [BA, h]
  | aCloseNew v ch => simp only [hp] at h; simp [tstep, hp, finishAdd, BA, h]
  | aUnlock v => simp only [hp] at h; simp only [tstep, hp]; exact enter_BA _ _ (by simpa using h)
  | wCount => simp only [hp] at h; simp [tstep, hp, BA, h]
  | wChan c =>
    simp only [hp] at h
    simp only [tstep, hp]
    split
    · exact enter_BA _ _ (by simpa using h)
    · simp [BA, h]
  | cLoad => simp only [hp] at h; simp only [tstep, hp]; exact enter_BA _ _ (by simpa using h)

theorem step_inv2 (s : St) (i : Nat) (h : Inv2 s) : Inv2 (step true s i) := by
  unfold step stepL
  cases ht : s.threads[i]? with
  | none => simpa [ht] using h
  | some t =>
    simp only [ht]
    have hi : i < s.threads.length := (List.getElem?_eq_some_iff.1 ht).1
    refine ⟨?_, ?_⟩
    · show (tick (tstep true s.sh i t).1).count = _; simp only [tick, addedSum]
      rw [sum_map_set _ _ _ _ _ ht]
      have := tstep_added s.sh i t
      have hc := h.cnt
      simp only [addedSum] at hc
      omega
    · intro j u hj
      simp only [List.getElem?_set] at hj
      by_cases hji : i = j
      · subst hji; simp [hi] at hj; subst hj
        exact tstep_BA _ _ _ (h.ba i t ht)
      · simp [hji] at hj; exact h.ba j u hj

theorem init_inv2 (progs : List (List Call)) : Inv2 (init true progs) := by
  refine ⟨?_, ?_⟩
  · simp only [init, addedSum]
    induction progs with
    | nil => simp
    | cons p ps ih => simp [enter_added] at ih ⊢; exact ih
  · intro i t ht
    simp only [init, List.getElem?_map] at ht
    cases hp : progs[i]? with
    | none => simp [hp] at ht
    | some p => simp [hp] at ht; subst ht; exact enter_BA _ _ rfl

theorem run_inv2 (s : St) (sched : List Nat) (h : Inv2 s) : Inv2 (run true s sched) := by
  induction sched generalizing s with
  | nil => simpa [run] using h
  | cons a rest ih => simpa [run] using ih (step true s a) (step_inv2 s a h)

end GSync

// go2lean -spec log: translation of log/context_utils.go and log/custom_level.go (property C18).
//
// Three renderings, all re-derived from the source on every run (lean/Model/LogRt.lean fixes what
// the primitives mean; lean/Properties/C18Tie.lean proves every result equal to the hand-written
// model of lean/Model/Log.lean for all states and arguments):
//
//  1. functions that touch holders, contexts or the global logger (InitLogger, ChildLogger, Log,
//     SetLevel, EnableDebug, WithFields, getOrDefault, (*logHolder).update) become `do` blocks in
//     the monad LogRt.M, statement by statement:
//
//     &logHolder{}                               newHolder
//     lh.Load() / lh.Store(x)                    load lh / store lh x
//     lh.CompareAndSwap(a, b)                    cas lh a b
//     zap.L()                                    globalLogger
//     l.With(fields...)  (l a *zap.Logger)       z.loggerWith l fields
//     ctx.Value(logHolderKey).(*logHolder)       ctxHolder ctx          (comma-ok form only)
//     context.WithValue(ctx, logHolderKey, lh)   withHolder ctx lh
//     for { … }  (last statement)                loop fuel (do … return none)
//     zapcore.DebugLevel                         DebugLevel
//
//  2. functions without any of these (custom_level.go, and every func literal) become plain
//     definitions: `[if c { return a }]* return b` is `if c then a else b`.
//
//     l.WithOptions(zap.WrapCore(f))             z.withWrapCore l f
//     c.With(fields)     (c a zapcore.Core)      z.coreWith c fields
//     &customLevelCoreWrapper{Core: a, minLevel: b}   mkWrapper (Core := a) (minLevel := b)
//     a <= b             (levels)                decide (a ≤ b)
//     ce.AddCore(ent, c)                         addCore ce ent c       (a parameter)
//
//     A receiver `c *customLevelCoreWrapper` is its two fields (parameters c_Core, c_minLevel).
//     A func literal is lifted to `<function>.func<n>` over the variables it captures (which must
//     not be assigned anywhere in the enclosing function).
//
//  3. (*logHolder).update once more as the step program of one goroutine (LogRt.Prog, continuation
//     form): Load / CompareAndSwap / Store on the receiver are the visible operations, a call of the
//     function parameter is local.
//
// The declarations the renderings rely on are checked (struct logHolder, struct
// customLevelCoreWrapper and its method set, logHolderKey, the import names).  Anything outside the
// fragment makes the translator fail: the tie is broken and `check` says so.
package main

import (
	"fmt"
	"go/ast"
	"go/parser"
	"go/token"
	"os"
	"path/filepath"
	"regexp"
	"sort"
	"strings"
)

func init() { register("log", "../lean/Generated/GoLog.lean", runLog) }

const (
	lgCtxFile = "log/context_utils.go"
	lgLvlFile = "log/custom_level.go"
)

// functions to translate (output order, unless the calls between them demand another)
var lgFuncs = []struct{ file, key string }{
	{lgLvlFile, "CustomLevelLogger"},
	{lgLvlFile, "customLevelCoreWrapper.Level"},
	{lgLvlFile, "customLevelCoreWrapper.Enabled"},
	{lgLvlFile, "customLevelCoreWrapper.With"},
	{lgLvlFile, "customLevelCoreWrapper.Check"},
	{lgCtxFile, "logHolder.update"},
	{lgCtxFile, "getOrDefault"},
	{lgCtxFile, "InitLogger"},
	{lgCtxFile, "ChildLogger"},
	{lgCtxFile, "Log"},
	{lgCtxFile, "SetLevel"},
	{lgCtxFile, "EnableDebug"},
	{lgCtxFile, "WithFields"},
}

// functions of the package that are deliberately not translated
var lgSkipped = map[string]string{
	"TestContext": "builds a context around zaptest.NewLogger(t); the holder/context part is InitLogger's",
}

var lgTypeKinds = map[string]string{
	"context.Context":         "ctx",
	"...zap.Field":            "fields",
	"...zapcore.Field":        "fields",
	"[]zapcore.Field":         "fields",
	"[]zap.Field":             "fields",
	"*zap.Logger":             "logger",
	"zapcore.Level":           "level",
	"*logHolder":              "holder",
	"bool":                    "bool",
	"zapcore.Core":            "core",
	"zapcore.Entry":           "entry",
	"*zapcore.CheckedEntry":   "ce",
	"*customLevelCoreWrapper": "wrapper",
}

func lgLeanType(k string) string {
	switch k {
	case "ctx":
		return "Ctx"
	case "fields":
		return "List ZField"
	case "logger":
		return "Logger"
	case "level":
		return "ZLevel"
	case "holder":
		return "Holder"
	case "bool":
		return "Bool"
	case "core":
		return "ZCore"
	case "entry":
		return "Entry"
	case "ce":
		return "κ"
	case "derivefn":
		return "(Logger → Logger)"
	case "corefn":
		return "(ZCore → ZCore)"
	}
	fail("log: no Lean type for kind %q", k)
	return ""
}

type lgFn struct {
	key      string
	decl     *ast.FuncDecl
	lean     string
	mono     bool // rendered in the monad
	fuel     bool // takes the bound of `for {}` (every function in the monad)
	usesCE   bool
	recv     string
	recvKind string
	params   []param
	rets     []string
}

type lg struct {
	fns      map[string]*lgFn
	cur      *lgFn
	env      []map[string]string
	out      *strings.Builder
	tmpN     int
	pure     bool     // the current rendering is a plain definition
	loopEnv  int      // index of the first scope inside the current `for {}` (0: not in a loop)
	nclos    int      // func literals of the current function so far
	lifted   []string // their definitions
	assigned map[string]bool
}

func (t *lg) line(ind int, s string) { t.out.WriteString(strings.Repeat("  ", ind) + s + "\n") }
func (t *lg) push()                  { t.env = append(t.env, map[string]string{}) }
func (t *lg) pop()                   { t.env = t.env[:len(t.env)-1] }

var lgTmpName = regexp.MustCompile(`^[rt][0-9]+$|^z$|^fuel$|^addCore$|_Core$|_minLevel$`)

func (t *lg) bind(n ast.Node, v, kind string) {
	if lgTmpName.MatchString(v) {
		fail("log: %s: the name `%s` is reserved by the translation", at(n), v)
	}
	t.env[len(t.env)-1][v] = kind
}

func (t *lg) lookup(v string) (string, int, bool) {
	for i := len(t.env) - 1; i >= 0; i-- {
		if k, ok := t.env[i][v]; ok {
			return k, i, true
		}
	}
	return "", 0, false
}

func (t *lg) tmp(p string) string { t.tmpN++; return fmt.Sprintf("%s%d", p, t.tmpN) }

func lgKindOfType(e ast.Expr) string {
	if ft, ok := e.(*ast.FuncType); ok && ft.TypeParams == nil && len(ft.Params.List) == 1 && len(ft.Params.List[0].Names) <= 1 &&
		ft.Results != nil && len(ft.Results.List) == 1 && len(ft.Results.List[0].Names) == 0 {
		a, r := src(ft.Params.List[0].Type), src(ft.Results.List[0].Type)
		switch {
		case a == "*zap.Logger" && r == "*zap.Logger":
			return "derivefn"
		case a == "zapcore.Core" && r == "zapcore.Core":
			return "corefn"
		}
	}
	if k, ok := lgTypeKinds[src(e)]; ok {
		return k
	}
	fail("log: %s: type `%s` is outside the translated fragment", at(e), src(e))
	return ""
}

// ---- expressions ----

func (t *lg) monadic(e ast.Expr, what string) {
	if t.pure {
		fail("log: %s: `%s` (%s) inside a function rendered as a plain definition", at(e), src(e), what)
	}
}

// callArgs: the leading arguments every translated function takes
func (f *lgFn) callHead() string {
	h := f.lean
	if f.usesCE {
		h += " addCore"
	}
	if f.fuel {
		h += " fuel"
	}
	return h + " z"
}

func (t *lg) wrapperFields(e ast.Expr, v string) string {
	return name(v+"_Core") + " " + name(v+"_minLevel")
}

// expr returns the Lean term and its kind
func (t *lg) expr(e ast.Expr) (string, string) {
	switch x := e.(type) {
	case *ast.ParenExpr:
		return t.expr(x.X)
	case *ast.Ident:
		switch x.Name {
		case "true", "false":
			return x.Name, "bool"
		}
		if k, _, ok := t.lookup(x.Name); ok {
			if k == "wrapper" {
				return "(mkWrapper " + t.wrapperFields(e, x.Name) + ")", "core"
			}
			return name(x.Name), k
		}
		fail("log: %s: identifier `%s` is not a parameter or local of the translated function", at(e), x.Name)
	case *ast.BasicLit:
		if x.Kind == token.INT {
			return x.Value, "int"
		}
	case *ast.SelectorExpr:
		if src(x) == "zapcore.DebugLevel" {
			return "DebugLevel", "level"
		}
		if id, ok := x.X.(*ast.Ident); ok {
			if k, _, ok := t.lookup(id.Name); ok {
				switch {
				case k == "wrapper" && x.Sel.Name == "Core":
					return name(id.Name + "_Core"), "core"
				case k == "wrapper" && x.Sel.Name == "minLevel":
					return name(id.Name + "_minLevel"), "level"
				case k == "entry" && x.Sel.Name == "Level":
					return name(id.Name) + ".Level", "level"
				}
			}
		}
	case *ast.UnaryExpr:
		switch x.Op {
		case token.NOT:
			a, k := t.expr(x.X)
			if k == "bool" {
				return "(!" + a + ")", "bool"
			}
		case token.AND:
			cl, ok := x.X.(*ast.CompositeLit)
			if !ok {
				break
			}
			switch src(cl.Type) {
			case "logHolder":
				if len(cl.Elts) != 0 {
					break
				}
				t.monadic(e, "allocation of a holder")
				return "(← newHolder)", "holder"
			case "customLevelCoreWrapper":
				given := map[string]string{}
				for _, el := range cl.Elts {
					kv, ok := el.(*ast.KeyValueExpr)
					if !ok {
						fail("log: %s: positional composite literal `%s`", at(e), src(e))
					}
					key := src(kv.Key)
					want := map[string]string{"Core": "core", "minLevel": "level"}[key]
					v, k := t.expr(kv.Value)
					if want == "" || k != want {
						fail("log: %s: field `%s` of customLevelCoreWrapper initialised with a %s", at(kv), key, k)
					}
					given[key] = v
				}
				if len(given) != 2 {
					fail("log: %s: `%s` leaves a field of customLevelCoreWrapper at its zero value", at(e), src(e))
				}
				return "(mkWrapper (Core := " + given["Core"] + ") (minLevel := " + given["minLevel"] + "))", "core"
			}
		}
	case *ast.BinaryExpr:
		// len(fields) <op> 0
		if c, ok := x.X.(*ast.CallExpr); ok && src(c.Fun) == "len" && len(c.Args) == 1 && src(x.Y) == "0" {
			a, k := t.expr(c.Args[0])
			if k == "fields" {
				switch x.Op {
				case token.EQL:
					return "(List.length " + a + " == 0)", "bool"
				case token.NEQ, token.GTR:
					return "(List.length " + a + " != 0)", "bool"
				}
			}
			break
		}
		a, ka := t.expr(x.X)
		b, kb := t.expr(x.Y)
		switch {
		case ka == "level" && kb == "level":
			op := map[token.Token]string{token.LEQ: "≤", token.LSS: "<", token.GEQ: "≥", token.GTR: ">", token.EQL: "=", token.NEQ: "≠"}[x.Op]
			if op != "" {
				return "(decide (" + a + " " + op + " " + b + "))", "bool"
			}
		case ka == "bool" && kb == "bool":
			op := map[token.Token]string{token.LAND: "&&", token.LOR: "||", token.EQL: "==", token.NEQ: "!="}[x.Op]
			if op != "" {
				return "(" + a + " " + op + " " + b + ")", "bool"
			}
		}
	case *ast.FuncLit:
		return t.funcLit(x)
	case *ast.CallExpr:
		return t.call(x)
	}
	fail("log: %s: expression `%s` is outside the translated fragment", at(e), src(e))
	return "", ""
}

func (t *lg) call(x *ast.CallExpr) (string, string) {
	bad := func() (string, string) {
		fail("log: %s: call `%s` is outside the translated fragment", at(x), src(x))
		return "", ""
	}
	switch fun := x.Fun.(type) {
	case *ast.Ident:
		// a call of a function-typed parameter
		if k, _, ok := t.lookup(fun.Name); ok {
			if (k == "derivefn" || k == "corefn") && len(x.Args) == 1 && !x.Ellipsis.IsValid() {
				a, ka := t.expr(x.Args[0])
				want, res := "logger", "logger"
				if k == "corefn" {
					want, res = "core", "core"
				}
				if ka == want {
					return "(" + name(fun.Name) + " " + a + ")", res
				}
			}
			return bad()
		}
		f, ok := t.fns[fun.Name]
		if !ok || f.recv != "" {
			return bad()
		}
		return t.callFn(x, f, "")
	case *ast.SelectorExpr:
		switch src(fun) {
		case "zap.L":
			if len(x.Args) != 0 {
				return bad()
			}
			t.monadic(x, "read of the global logger")
			return "(← globalLogger)", "logger"
		case "context.WithValue":
			if len(x.Args) != 3 || src(x.Args[1]) != "logHolderKey" {
				return bad()
			}
			c, kc := t.expr(x.Args[0])
			h, kh := t.expr(x.Args[2])
			if kc != "ctx" || kh != "holder" {
				return bad()
			}
			t.monadic(x, "a context is given a holder")
			return "(← withHolder " + c + " " + h + ")", "ctx"
		}
		// methods: the receiver expression decides
		if id, ok := fun.X.(*ast.Ident); ok {
			if k, _, ok := t.lookup(id.Name); ok && k == "wrapper" {
				if f, ok := t.fns["customLevelCoreWrapper."+fun.Sel.Name]; ok {
					return t.callFn(x, f, t.wrapperFields(x, id.Name))
				}
				fail("log: %s: `%s` calls a method of the wrapper that is not translated (promoted from the embedded core?)", at(x), src(x))
			}
		}
		r, kr := t.expr(fun.X)
		switch {
		case kr == "holder" && fun.Sel.Name == "Load" && len(x.Args) == 0:
			t.monadic(x, "atomic load")
			return "(← load " + r + ")", "logger"
		case kr == "holder" && fun.Sel.Name == "CompareAndSwap" && len(x.Args) == 2:
			a, ka := t.expr(x.Args[0])
			b, kb := t.expr(x.Args[1])
			if ka != "logger" || kb != "logger" {
				return bad()
			}
			t.monadic(x, "compare-and-swap")
			return "(← cas " + r + " " + a + " " + b + ")", "bool"
		case kr == "logger" && fun.Sel.Name == "With" && len(x.Args) == 1 && x.Ellipsis.IsValid():
			a, ka := t.expr(x.Args[0])
			if ka != "fields" {
				return bad()
			}
			return "(z.loggerWith " + r + " " + a + ")", "logger"
		case kr == "core" && fun.Sel.Name == "With" && len(x.Args) == 1 && !x.Ellipsis.IsValid():
			a, ka := t.expr(x.Args[0])
			if ka != "fields" {
				return bad()
			}
			return "(z.coreWith " + r + " " + a + ")", "core"
		case kr == "logger" && fun.Sel.Name == "WithOptions" && len(x.Args) == 1 && !x.Ellipsis.IsValid():
			in, ok := x.Args[0].(*ast.CallExpr)
			if !ok || src(in.Fun) != "zap.WrapCore" || len(in.Args) != 1 {
				return bad()
			}
			f, kf := t.expr(in.Args[0])
			if kf != "corefn" {
				return bad()
			}
			return "(z.withWrapCore " + r + " " + f + ")", "logger"
		case kr == "ce" && fun.Sel.Name == "AddCore" && len(x.Args) == 2:
			a, ka := t.expr(x.Args[0])
			b, kb := t.expr(x.Args[1])
			if ka != "entry" || kb != "core" {
				return bad()
			}
			return "(addCore " + r + " " + a + " " + b + ")", "ce"
		}
	}
	return bad()
}

// callFn: a call of a translated function; recvArgs are the receiver's parameters (methods)
func (t *lg) callFn(x *ast.CallExpr, f *lgFn, recvArgs string) (string, string) {
	if x.Ellipsis.IsValid() != (len(f.params) > 0 && f.variadic()) {
		fail("log: %s: `%s`: only a variadic parameter passed on as `xs...` is translated", at(x), src(x))
	}
	if len(x.Args) != len(f.params) {
		fail("log: %s: `%s` passes %d arguments, %s has %d parameters", at(x), src(x), len(x.Args), f.key, len(f.params))
	}
	s := f.callHead()
	if recvArgs != "" {
		s += " " + recvArgs
	}
	for i, a := range x.Args {
		v, k := t.expr(a)
		if k != f.params[i].kind {
			fail("log: %s: argument %d of `%s` is a %s, the parameter a %s", at(x), i+1, src(x), k, f.params[i].kind)
		}
		s += " " + v
	}
	kind := ""
	switch len(f.rets) {
	case 0:
		kind = "unit"
	case 1:
		kind = f.rets[0]
	default:
		kind = "tuple:" + strings.Join(f.rets, ",")
	}
	if f.mono {
		t.monadic(x, "call of "+f.key)
		return "(← " + s + ")", kind
	}
	return "(" + s + ")", kind
}

func (f *lgFn) variadic() bool {
	ps := f.decl.Type.Params.List
	if len(ps) == 0 {
		return false
	}
	_, ok := ps[len(ps)-1].Type.(*ast.Ellipsis)
	return ok
}

// funcLit: a func literal, lifted to a definition over the variables it captures
func (t *lg) funcLit(x *ast.FuncLit) (string, string) {
	kind := lgKindOfType(x.Type)
	if kind != "derivefn" && kind != "corefn" {
		fail("log: %s: func literal of type `%s`", at(x), src(x.Type))
	}
	if len(x.Type.Params.List) != 1 || len(x.Type.Params.List[0].Names) != 1 {
		fail("log: %s: func literal without a named parameter", at(x))
	}
	pname := x.Type.Params.List[0].Names[0].Name
	pkind := lgKindOfType(x.Type.Params.List[0].Type)
	// captured variables, in order of first occurrence
	var caps []param
	seen := map[string]bool{pname: true}
	var walk func(n ast.Node) bool
	walk = func(n ast.Node) bool {
		switch y := n.(type) {
		case *ast.SelectorExpr:
			ast.Inspect(y.X, walk)
			return false
		case *ast.KeyValueExpr:
			ast.Inspect(y.Value, walk)
			return false
		case *ast.FuncLit:
			if y != x {
				fail("log: %s: func literal inside a func literal body is only translated as an argument of zap.WrapCore at top level", at(y))
			}
		case *ast.AssignStmt, *ast.DeclStmt, *ast.IncDecStmt:
			fail("log: %s: a func literal that declares or assigns variables", at(y))
		case *ast.Ident:
			if seen[y.Name] {
				return true
			}
			if k, _, ok := t.lookup(y.Name); ok {
				seen[y.Name] = true
				if t.assigned[y.Name] {
					fail("log: %s: the func literal captures `%s`, which the enclosing function assigns", at(y), y.Name)
				}
				if k == "wrapper" || k == "holder" {
					fail("log: %s: the func literal captures `%s` (a %s)", at(y), y.Name, k)
				}
				caps = append(caps, param{y.Name, k})
			}
		}
		return true
	}
	ast.Inspect(x.Body, walk)
	t.nclos++
	lean := fmt.Sprintf("%s.func%d", t.cur.lean, t.nclos)
	// render in a fresh translator state that shares the function table
	sub := &lg{fns: t.fns, cur: &lgFn{lean: lean, key: lean}, out: &strings.Builder{}, pure: true, assigned: map[string]bool{}}
	sub.push()
	sig := "def " + lean + " (z : Zap)"
	app := lean + " z"
	for _, c := range caps {
		sub.bind(x, c.name, c.kind)
		sig += " (" + name(c.name) + " : " + lgLeanType(c.kind) + ")"
		app += " " + name(c.name)
	}
	sub.bind(x, pname, pkind)
	sig += " (" + name(pname) + " : " + lgLeanType(pkind) + ") : " + lgLeanType(pkind) + " :="
	sub.pureBlock(1, x.Body.List, []string{pkind})
	t.lifted = append(t.lifted, sub.lifted...)
	t.lifted = append(t.lifted, fmt.Sprintf("/-- func literal %d of `%s`: `%s` -/\n%s\n%s", t.nclos, t.cur.key, src(x), sig, sub.out.String()))
	return "(" + app + ")", kind
}

// ---- plain definitions ----

// pureBlock: `[if c { return a }]* return b`
func (t *lg) pureBlock(ind int, list []ast.Stmt, rets []string) {
	if len(list) == 0 {
		fail("log: %s: a block of %s can reach its end without `return`", t.cur.key, t.cur.key)
	}
	switch x := list[0].(type) {
	case *ast.ReturnStmt:
		t.line(ind, t.retVal(x, rets))
	case *ast.IfStmt:
		if x.Init != nil {
			fail("log: %s: `if` with an init statement in a plain definition", at(x))
		}
		c, k := t.expr(x.Cond)
		if k != "bool" {
			fail("log: %s: condition `%s`", at(x), src(x.Cond))
		}
		t.line(ind, "if "+c+" then")
		t.pureBlock(ind+1, x.Body.List, rets)
		t.line(ind, "else")
		switch e := x.Else.(type) {
		case nil:
			t.pureBlock(ind, list[1:], rets)
		case *ast.BlockStmt:
			t.pureBlock(ind+1, e.List, rets)
		default:
			fail("log: %s: `else if` in a plain definition", at(x))
		}
	default:
		fail("log: %s: statement `%s` in a function rendered as a plain definition", at(list[0]), src(list[0]))
	}
}

func (t *lg) retVal(x *ast.ReturnStmt, rets []string) string {
	if len(x.Results) != len(rets) {
		fail("log: %s: `%s` does not fit the function's results", at(x), src(x))
	}
	var vs []string
	for i, r := range x.Results {
		v, k := t.expr(r)
		if k != rets[i] {
			fail("log: %s: `%s` returns a %s where a %s is declared", at(x), src(x), k, rets[i])
		}
		vs = append(vs, v)
	}
	switch len(vs) {
	case 0:
		return "()"
	case 1:
		return vs[0]
	}
	return "(" + strings.Join(vs, ", ") + ")"
}

// ---- statements in the monad ----

func (t *lg) block(ind int, list []ast.Stmt, last bool) {
	t.push()
	if len(list) == 0 {
		t.line(ind, "pure ()")
	}
	for i, s := range list {
		t.stmt(ind, s, last && i == len(list)-1)
	}
	t.pop()
}

func (t *lg) define(ind int, n ast.Node, v, kind, rhs string) {
	if v == "_" {
		return
	}
	if strings.HasPrefix(kind, "tuple:") || kind == "unit" || kind == "wrapper" {
		fail("log: %s: a %s is bound to `%s`", at(n), kind, v)
	}
	t.bind(n, v, kind)
	t.line(ind, "let mut "+name(v)+" : "+lgLeanType(kind)+" := "+rhs)
}

func (t *lg) assignVar(ind int, n ast.Node, lhs ast.Expr, kind, rhs string) {
	id, ok := lhs.(*ast.Ident)
	if !ok {
		fail("log: %s: assignment target `%s`", at(n), src(lhs))
	}
	if id.Name == "_" {
		return
	}
	k, scope, ok := t.lookup(id.Name)
	if !ok {
		fail("log: %s: assignment to `%s`, which is not a parameter or local", at(n), id.Name)
	}
	if k != kind {
		fail("log: %s: a %s is assigned to `%s` (a %s)", at(n), kind, id.Name, k)
	}
	if t.loopEnv > 0 && scope < t.loopEnv {
		fail("log: %s: `%s` is assigned inside `for {}` but declared outside it (not translated: the loop body is rendered without state)", at(n), id.Name)
	}
	t.line(ind, name(id.Name)+" := "+rhs)
}

func (t *lg) stmt(ind int, s ast.Stmt, last bool) {
	switch x := s.(type) {
	case *ast.AssignStmt:
		if x.Tok != token.DEFINE && x.Tok != token.ASSIGN {
			fail("log: %s: assignment `%s` is outside the translated fragment", at(x), src(x))
		}
		if len(x.Rhs) != 1 {
			fail("log: %s: assignment `%s` is outside the translated fragment", at(x), src(x))
		}
		if x.Tok == token.DEFINE {
			for _, l := range x.Lhs {
				if _, ok := l.(*ast.Ident); !ok {
					fail("log: %s: `%s`", at(x), src(x))
				}
			}
		}
		put := func(l ast.Expr, kind, rhs string) {
			if x.Tok == token.DEFINE {
				t.define(ind, x, l.(*ast.Ident).Name, kind, rhs)
			} else {
				t.assignVar(ind, x, l, kind, rhs)
			}
		}
		if len(x.Lhs) == 2 {
			// comma-ok lookup of the holder in a context
			if ta, ok := x.Rhs[0].(*ast.TypeAssertExpr); ok {
				c, okc := ta.X.(*ast.CallExpr)
				if !okc || ta.Type == nil || src(ta.Type) != "*logHolder" || len(c.Args) != 1 || src(c.Args[0]) != "logHolderKey" {
					fail("log: %s: `%s` is outside the translated fragment", at(x), src(x))
				}
				sel, oks := c.Fun.(*ast.SelectorExpr)
				if !oks || sel.Sel.Name != "Value" {
					fail("log: %s: `%s` is outside the translated fragment", at(x), src(x))
				}
				cv, kc := t.expr(sel.X)
				if kc != "ctx" {
					fail("log: %s: `%s`: Value of a %s", at(x), src(x), kc)
				}
				r := t.tmp("r")
				t.line(ind, "let "+r+" := ctxHolder "+cv)
				put(x.Lhs[0], "holder", r+".1")
				put(x.Lhs[1], "bool", r+".2")
				return
			}
			v, k := t.expr(x.Rhs[0])
			if !strings.HasPrefix(k, "tuple:") {
				fail("log: %s: `%s`: two variables from a %s", at(x), src(x), k)
			}
			ks := strings.Split(k[6:], ",")
			if len(ks) != 2 {
				fail("log: %s: `%s`", at(x), src(x))
			}
			r := t.tmp("r")
			t.line(ind, "let "+r+" := "+v)
			put(x.Lhs[0], ks[0], r+".1")
			put(x.Lhs[1], ks[1], r+".2")
			return
		}
		if len(x.Lhs) != 1 {
			fail("log: %s: assignment `%s` is outside the translated fragment", at(x), src(x))
		}
		if id, ok := x.Rhs[0].(*ast.Ident); ok {
			if k, _, ok := t.lookup(id.Name); ok && k == "holder" {
				fail("log: %s: `%s` makes a second name for a holder", at(x), src(x))
			}
		}
		v, k := t.expr(x.Rhs[0])
		put(x.Lhs[0], k, v)
	case *ast.ExprStmt:
		call, ok := x.X.(*ast.CallExpr)
		if !ok {
			fail("log: %s: statement `%s` is outside the translated fragment", at(s), src(s))
		}
		if sel, ok := call.Fun.(*ast.SelectorExpr); ok {
			r, kr := t.expr(sel.X)
			if kr == "holder" {
				switch {
				case sel.Sel.Name == "Store" && len(call.Args) == 1:
					v, k := t.expr(call.Args[0])
					if k != "logger" {
						fail("log: %s: a %s is stored in a holder", at(s), k)
					}
					t.line(ind, "store "+r+" "+v)
					return
				default:
					if f, ok := t.fns["logHolder."+sel.Sel.Name]; ok && len(f.rets) == 0 {
						if len(call.Args) != len(f.params) {
							fail("log: %s: `%s`", at(s), src(s))
						}
						line := f.callHead() + " " + r
						for i, a := range call.Args {
							v, k := t.expr(a)
							if k != f.params[i].kind {
								fail("log: %s: argument %d of `%s` is a %s", at(s), i+1, src(s), k)
							}
							line += " " + v
						}
						t.line(ind, line)
						return
					}
				}
			}
		}
		fail("log: %s: statement `%s` is outside the translated fragment", at(s), src(s))
	case *ast.IfStmt:
		if x.Init != nil {
			fail("log: %s: `if` with an init statement", at(x))
		}
		c, k := t.expr(x.Cond)
		if k != "bool" {
			fail("log: %s: condition `%s`", at(x), src(x.Cond))
		}
		t.line(ind, "if "+c+" then")
		t.block(ind+1, x.Body.List, false)
		switch e := x.Else.(type) {
		case nil:
		case *ast.BlockStmt:
			t.line(ind, "else")
			t.block(ind+1, e.List, false)
		default:
			fail("log: %s: `else if`", at(x))
		}
	case *ast.ReturnStmt:
		v := t.retVal(x, t.cur.rets)
		if t.loopEnv > 0 {
			t.line(ind, "return (some "+v+")")
		} else {
			t.line(ind, "return "+v)
		}
	case *ast.ForStmt:
		if x.Init != nil || x.Cond != nil || x.Post != nil {
			fail("log: %s: only `for { … }` is translated, not `for %s`", at(x), src(x.Cond))
		}
		if !last || t.loopEnv > 0 {
			fail("log: %s: `for {}` is only translated as the last statement of a function", at(x))
		}
		ast.Inspect(x.Body, func(n ast.Node) bool {
			if b, ok := n.(*ast.BranchStmt); ok {
				fail("log: %s: `%s` inside `for {}`", at(b), b.Tok)
			}
			return true
		})
		t.line(ind, "loop fuel (do")
		t.loopEnv = len(t.env)
		t.block(ind+1, x.Body.List, false)
		t.loopEnv = 0
		t.line(ind+1, "return none)")
	default:
		fail("log: %s: statement `%s` is outside the translated fragment", at(s), src(s))
	}
}

// ---- step programs ----

type lgProg struct {
	t      *lg
	recv   string
	derive string
	vars   map[string]string // logger | bool
	out    *strings.Builder
	n      int
}

func (p *lgProg) line(ind int, s string) { p.out.WriteString(strings.Repeat("  ", ind) + s + "\n") }
func (p *lgProg) fresh() string          { p.n++; return fmt.Sprintf("t%d", p.n) }

// atom: emits the operations the expression performs, returns the variable holding its value
func (p *lgProg) atom(ind int, e ast.Expr, want string) (string, string) {
	nameFor := func() string {
		if want != "" {
			return name(want)
		}
		return p.fresh()
	}
	switch x := e.(type) {
	case *ast.ParenExpr:
		return p.atom(ind, x.X, want)
	case *ast.Ident:
		if k, ok := p.vars[x.Name]; ok && want == "" {
			return name(x.Name), k
		}
	case *ast.UnaryExpr:
		if x.Op == token.NOT && want == "" {
			a, k := p.atom(ind, x.X, "")
			if k == "bool" {
				return "(!" + a + ")", "bool"
			}
		}
	case *ast.CallExpr:
		if id, ok := x.Fun.(*ast.Ident); ok && id.Name == p.derive && len(x.Args) == 1 {
			a, k := p.atom(ind, x.Args[0], "")
			if k != "logger" {
				break
			}
			v := nameFor()
			p.line(ind, "Prog.derive "+a+" fun "+v+" =>")
			return v, "logger"
		}
		if sel, ok := x.Fun.(*ast.SelectorExpr); ok && src(sel.X) == p.recv {
			switch {
			case sel.Sel.Name == "Load" && len(x.Args) == 0:
				v := nameFor()
				p.line(ind, "Prog.load fun "+v+" =>")
				return v, "logger"
			case sel.Sel.Name == "CompareAndSwap" && len(x.Args) == 2:
				a, ka := p.atom(ind, x.Args[0], "")
				b, kb := p.atom(ind, x.Args[1], "")
				if ka != "logger" || kb != "logger" {
					break
				}
				v := nameFor()
				p.line(ind, "Prog.cas "+a+" "+b+" fun "+v+" =>")
				return v, "bool"
			}
		}
	}
	fail("log: %s: `%s` is outside the fragment of step programs", at(e), src(e))
	return "", ""
}

func endsWithReturn(list []ast.Stmt) bool {
	if len(list) == 0 {
		return false
	}
	_, ok := list[len(list)-1].(*ast.ReturnStmt)
	return ok
}

func (p *lgProg) stmts(ind int, list []ast.Stmt) {
	if len(list) == 0 {
		p.line(ind, "Prog.fall")
		return
	}
	switch x := list[0].(type) {
	case *ast.ReturnStmt:
		if len(x.Results) != 0 {
			fail("log: %s: a step program returns a value", at(x))
		}
		p.line(ind, "Prog.ret")
	case *ast.AssignStmt:
		if x.Tok != token.DEFINE || len(x.Lhs) != 1 || len(x.Rhs) != 1 {
			fail("log: %s: `%s` is outside the fragment of step programs (variables are bound once)", at(x), src(x))
		}
		id := x.Lhs[0].(*ast.Ident)
		if lgTmpName.MatchString(id.Name) {
			fail("log: %s: the name `%s` is reserved by the translation", at(x), id.Name)
		}
		if _, ok := p.vars[id.Name]; ok {
			fail("log: %s: `%s` is declared twice", at(x), id.Name)
		}
		_, k := p.atom(ind, x.Rhs[0], id.Name)
		p.vars[id.Name] = k
		p.stmts(ind, list[1:])
	case *ast.ExprStmt:
		call, ok := x.X.(*ast.CallExpr)
		if ok {
			if sel, ok := call.Fun.(*ast.SelectorExpr); ok && src(sel.X) == p.recv && sel.Sel.Name == "Store" && len(call.Args) == 1 {
				a, k := p.atom(ind, call.Args[0], "")
				if k == "logger" {
					p.line(ind, "Prog.store "+a+" <|")
					p.stmts(ind, list[1:])
					return
				}
			}
		}
		fail("log: %s: statement `%s` is outside the fragment of step programs", at(x), src(x))
	case *ast.IfStmt:
		if x.Init != nil || x.Else != nil || !endsWithReturn(x.Body.List) {
			fail("log: %s: in a step program an `if` has no init, no else, and its body ends in `return`", at(x))
		}
		c, k := p.atom(ind, x.Cond, "")
		if k != "bool" {
			fail("log: %s: condition `%s`", at(x), src(x.Cond))
		}
		p.line(ind, "if "+c+" then")
		p.stmts(ind+1, x.Body.List)
		p.line(ind, "else")
		p.stmts(ind, list[1:])
	default:
		fail("log: %s: statement `%s` is outside the fragment of step programs", at(x), src(x))
	}
}

func (t *lg) stepProgram(f *lgFn) string {
	if f.recvKind != "holder" || len(f.params) != 1 || f.params[0].kind != "derivefn" || len(f.rets) != 0 {
		fail("log: %s: %s is not a method on *logHolder with one func(*zap.Logger) *zap.Logger parameter", at(f.decl), f.key)
	}
	p := &lgProg{t: t, recv: f.recv, derive: f.params[0].name, vars: map[string]string{}, out: &strings.Builder{}}
	list := f.decl.Body.List
	loop := false
	if len(list) == 1 {
		if fs, ok := list[0].(*ast.ForStmt); ok && fs.Init == nil && fs.Cond == nil && fs.Post == nil {
			loop = true
			list = fs.Body.List
			ast.Inspect(fs.Body, func(n ast.Node) bool {
				if b, ok := n.(*ast.BranchStmt); ok {
					fail("log: %s: `%s` inside `for {}`", at(b), b.Tok)
				}
				return true
			})
		}
	}
	p.stmts(2, list)
	return fmt.Sprintf("/-- `%s` as the step program of one goroutine -/\ndef %s.steps : StepProg where\n  loop := %v\n  body :=\n%s",
		src(&ast.FuncDecl{Recv: f.decl.Recv, Name: f.decl.Name, Type: f.decl.Type}), f.lean, loop, p.out.String())
}

// ---- declarations ----

func lgParse(repo, rel string) *ast.File {
	f, err := parser.ParseFile(fset, filepath.Join(repo, rel), nil, 0)
	if err != nil {
		fail("%v", err)
	}
	return f
}

func lgCheckImports(rel string, f *ast.File, want map[string]string) {
	got := map[string]string{}
	for _, im := range f.Imports {
		p := strings.Trim(im.Path.Value, `"`)
		n := filepath.Base(p)
		if im.Name != nil {
			n = im.Name.Name
		}
		got[n] = p
	}
	for n, p := range want {
		if g, ok := got[n]; ok && g != p {
			fail("log: %s: the name `%s` is package %s, the translation assumes %s", rel, n, g, p)
		}
	}
	for n := range got {
		if n == "." || n == "_" {
			fail("log: %s: dot or blank import", rel)
		}
	}
}

func lgStructFields(f *ast.File, typ string) ([]string, bool) {
	for _, d := range f.Decls {
		gd, ok := d.(*ast.GenDecl)
		if !ok || gd.Tok != token.TYPE {
			continue
		}
		for _, sp := range gd.Specs {
			ts := sp.(*ast.TypeSpec)
			st, ok := ts.Type.(*ast.StructType)
			if ts.Name.Name != typ || !ok || ts.TypeParams != nil {
				continue
			}
			var fs []string
			for _, fl := range st.Fields.List {
				if len(fl.Names) == 0 {
					fs = append(fs, src(fl.Type))
				}
				for _, n := range fl.Names {
					fs = append(fs, n.Name+" "+src(fl.Type))
				}
			}
			return fs, true
		}
	}
	return nil, false
}

func runLog(repo, out string) {
	files := map[string]*ast.File{lgCtxFile: lgParse(repo, lgCtxFile), lgLvlFile: lgParse(repo, lgLvlFile)}
	imports := map[string]string{"zap": "go.uber.org/zap", "zapcore": "go.uber.org/zap/zapcore", "context": "context", "atomic": "sync/atomic"}
	for rel, f := range files {
		lgCheckImports(rel, f, imports)
	}
	// the declarations the renderings rely on
	if fs, ok := lgStructFields(files[lgCtxFile], "logHolder"); !ok || strings.Join(fs, "; ") != "atomic.Pointer[zap.Logger]" {
		fail("log: %s: type logHolder is `struct { %s }`; the translation assumes `struct { atomic.Pointer[zap.Logger] }`", lgCtxFile, strings.Join(fs, "; "))
	}
	if fs, ok := lgStructFields(files[lgLvlFile], "customLevelCoreWrapper"); !ok || strings.Join(fs, "; ") != "zapcore.Core; minLevel zapcore.Level" {
		fail("log: %s: type customLevelCoreWrapper is `struct { %s }`; the translation assumes `struct { zapcore.Core; minLevel zapcore.Level }`", lgLvlFile, strings.Join(fs, "; "))
	}
	keyOK := false
	for _, d := range files[lgCtxFile].Decls {
		if gd, ok := d.(*ast.GenDecl); ok && gd.Tok == token.VAR {
			for _, sp := range gd.Specs {
				vs := sp.(*ast.ValueSpec)
				for i, n := range vs.Names {
					if n.Name == "logHolderKey" {
						keyOK = len(vs.Values) == len(vs.Names) && src(vs.Values[i]) == "logHolderKeyType{}"
					} else {
						fail("log: %s: package-level variable `%s` (the translation knows none besides logHolderKey)", lgCtxFile, n.Name)
					}
				}
			}
		}
	}
	if fs, ok := lgStructFields(files[lgCtxFile], "logHolderKeyType"); !keyOK || !ok || len(fs) != 0 {
		fail("log: %s: logHolderKey is not `logHolderKeyType{}` of an empty struct type", lgCtxFile)
	}
	for _, d := range files[lgLvlFile].Decls {
		if gd, ok := d.(*ast.GenDecl); ok && gd.Tok == token.VAR {
			fail("log: %s: package-level variable `%s`", lgLvlFile, src(gd.Specs[0].(*ast.ValueSpec).Names[0]))
		}
	}
	// every other non-test file of the package: no further methods on the two types
	ents, err := os.ReadDir(filepath.Join(repo, "log"))
	if err != nil {
		fail("%v", err)
	}
	decls := map[string]*ast.FuncDecl{}
	declFile := map[string]string{}
	for _, e := range ents {
		n := e.Name()
		if e.IsDir() || !strings.HasSuffix(n, ".go") || strings.HasSuffix(n, "_test.go") {
			continue
		}
		rel := "log/" + n
		f := files[rel]
		if f == nil {
			f = lgParse(repo, rel)
		}
		for _, d := range f.Decls {
			fd, ok := d.(*ast.FuncDecl)
			if !ok {
				continue
			}
			key := fd.Name.Name
			if fd.Recv != nil && len(fd.Recv.List) == 1 {
				key = recvTypeName(fd.Recv.List[0].Type) + "." + key
			}
			decls[key] = fd
			declFile[key] = rel
		}
	}
	wanted := map[string]bool{}
	for _, f := range lgFuncs {
		wanted[f.key] = true
	}
	var extra []string
	for key := range decls {
		if wanted[key] || lgSkipped[key] != "" {
			continue
		}
		if strings.HasPrefix(key, "customLevelCoreWrapper.") || strings.HasPrefix(key, "logHolder.") {
			fail("log: %s: method %s is not part of the translation (the method sets of logHolder and customLevelCoreWrapper decide what zap calls)", declFile[key], key)
		}
		extra = append(extra, key)
	}
	sort.Strings(extra)

	// pass 1: signatures
	t := &lg{fns: map[string]*lgFn{}}
	for _, w := range lgFuncs {
		fd := decls[w.key]
		if fd == nil || declFile[w.key] != w.file || fd.Body == nil {
			fail("log: %s: function %s not found", w.file, w.key)
		}
		if fd.Type.TypeParams != nil {
			fail("log: %s: %s has type parameters", at(fd), w.key)
		}
		f := &lgFn{key: w.key, decl: fd, lean: w.key}
		if fd.Recv != nil {
			r := fd.Recv.List[0]
			if len(r.Names) != 1 {
				fail("log: %s: receiver of %s has no name", at(fd), w.key)
			}
			f.recv = r.Names[0].Name
			f.recvKind = lgKindOfType(r.Type)
			if f.recvKind != "holder" && f.recvKind != "wrapper" {
				fail("log: %s: receiver type `%s`", at(fd), src(r.Type))
			}
		}
		for _, p := range fd.Type.Params.List {
			k := lgKindOfType(p.Type)
			if len(p.Names) == 0 {
				fail("log: %s: %s has an unnamed parameter", at(fd), w.key)
			}
			for _, n := range p.Names {
				f.params = append(f.params, param{n.Name, k})
				if k == "ce" {
					f.usesCE = true
				}
			}
		}
		if fd.Type.Results != nil {
			for _, r := range fd.Type.Results.List {
				if len(r.Names) != 0 {
					fail("log: %s: %s: named results are not translated", at(fd), w.key)
				}
				f.rets = append(f.rets, lgKindOfType(r.Type))
			}
		}
		t.fns[w.key] = f
	}
	// which functions need the monad, which need fuel (fixed point over the calls)
	calls := func(f *lgFn) []*lgFn {
		var cs []*lgFn
		ast.Inspect(f.decl.Body, func(n ast.Node) bool {
			c, ok := n.(*ast.CallExpr)
			if !ok {
				return true
			}
			switch fun := c.Fun.(type) {
			case *ast.Ident:
				if g, ok := t.fns[fun.Name]; ok {
					cs = append(cs, g)
				}
			case *ast.SelectorExpr:
				for key, g := range t.fns {
					if g.recv != "" && strings.HasSuffix(key, "."+fun.Sel.Name) {
						// by name only: an over-approximation that can only add a parameter
						if id, ok := fun.X.(*ast.Ident); ok && id.Name != "zap" && id.Name != "zapcore" && id.Name != "context" {
							cs = append(cs, g)
						}
					}
				}
			}
			return true
		})
		return cs
	}
	for _, f := range t.fns {
		ast.Inspect(f.decl.Body, func(n ast.Node) bool {
			switch y := n.(type) {
			case *ast.ForStmt:
				f.fuel, f.mono = true, true
			case *ast.AssignStmt, *ast.ExprStmt, *ast.DeclStmt, *ast.IncDecStmt, *ast.TypeAssertExpr, *ast.RangeStmt, *ast.GoStmt, *ast.DeferStmt:
				f.mono = true
			case *ast.CallExpr:
				switch src(y.Fun) {
				case "zap.L", "context.WithValue":
					f.mono = true
				}
			case *ast.CompositeLit:
				if src(y.Type) == "logHolder" {
					f.mono = true
				}
			}
			return true
		})
		if f.recvKind == "holder" {
			f.mono = true
		}
	}
	for changed := true; changed; {
		changed = false
		for _, f := range t.fns {
			for _, g := range calls(f) {
				if g.mono && !f.mono {
					f.mono, changed = true, true
				}
				if g.fuel && !f.fuel {
					f.fuel, changed = true, true
				}
			}
		}
	}
	for _, f := range t.fns {
		// every function in the monad takes the bound, whether or not a loop is reachable from it now:
		// the signatures the obligations are stated for do not change when a loop comes or goes
		f.fuel = f.mono
		if f.usesCE && f.mono {
			fail("log: %s: %s takes a CheckedEntry and is not a plain definition", at(f.decl), f.key)
		}
	}

	// pass 2: bodies
	var b strings.Builder
	b.WriteString("import Model.LogRt\n")
	b.WriteString("/-! REGENERATED on every run by harness/cmd/go2lean -spec log from " + lgCtxFile + " and " + lgLvlFile + ". Do not edit.\n" +
		"Each definition follows the Go function of the same name statement by statement; Model/LogRt.lean fixes what\n" +
		"the primitives mean.  Functions that touch holders, contexts or the global logger are `do` blocks in `LogRt.M`\n" +
		"(all take `fuel`, the bound of `for {}`), the others plain definitions; a func literal is lifted to `<function>.func<n>` over the\n" +
		"variables it captures; a receiver `c *customLevelCoreWrapper` is its two fields; `z` is zap (`LogRt.Zap`).\n" +
		"`logHolder.update.steps` is `(*logHolder).update` once more, as the step program of one goroutine (`LogRt.Prog`).\n")
	for _, k := range sortedKeys(lgSkipped) {
		if decls[k] != nil {
			fmt.Fprintf(&b, "Not translated: %s (%s).\n", k, lgSkipped[k])
		}
	}
	b.WriteString("-/\nnamespace Generated.GoLog\nopen LogRt\nset_option linter.unusedVariables false\n\n")
	// output order: a definition precedes its uses (the order of lgFuncs where the calls leave a choice)
	var order []*lgFn
	state := map[*lgFn]int{}
	var visit func(f *lgFn)
	visit = func(f *lgFn) {
		switch state[f] {
		case 1:
			fail("log: %s: %s is recursive", at(f.decl), f.key)
		case 2:
			return
		}
		state[f] = 1
		cs := calls(f)
		for _, w := range lgFuncs {
			for _, g := range cs {
				if g.key == w.key && g != f {
					visit(g)
				}
			}
		}
		state[f] = 2
		order = append(order, f)
	}
	for _, w := range lgFuncs {
		visit(t.fns[w.key])
	}
	var names []string
	for _, f := range order {
		w := f
		t.cur, t.env, t.out, t.tmpN, t.loopEnv, t.nclos, t.lifted = f, nil, &strings.Builder{}, 0, 0, 0, nil
		t.assigned = lgAssigned(f.decl)
		t.pure = !f.mono
		t.push()
		sig := "def " + f.lean
		if f.usesCE {
			sig += " {κ : Type} (addCore : κ → Entry → ZCore → κ)"
		}
		if f.fuel {
			sig += " (fuel : Nat)"
		}
		sig += " (z : Zap)"
		var muts []string
		if f.recv != "" {
			if t.assigned[f.recv] {
				fail("log: %s: %s assigns its receiver", at(f.decl), f.key)
			}
			t.bind(f.decl, f.recv, f.recvKind)
			if f.recvKind == "wrapper" {
				sig += " (" + name(f.recv+"_Core") + " : ZCore) (" + name(f.recv+"_minLevel") + " : ZLevel)"
			} else {
				sig += " (" + name(f.recv) + " : Holder)"
			}
		}
		for _, p := range f.params {
			t.bind(f.decl, p.name, p.kind)
			sig += " (" + name(p.name) + " : " + lgLeanType(p.kind) + ")"
			if t.assigned[p.name] {
				muts = append(muts, p.name)
			}
		}
		ret := "Unit"
		switch len(f.rets) {
		case 0:
		case 1:
			ret = lgLeanType(f.rets[0])
		default:
			var rs []string
			for _, r := range f.rets {
				rs = append(rs, lgLeanType(r))
			}
			ret = "(" + strings.Join(rs, " × ") + ")"
		}
		if f.mono {
			sig += " : M " + ret + " := do"
			for _, m := range muts {
				t.line(1, "let mut "+name(m)+" := "+name(m))
			}
			list := f.decl.Body.List
			for i, s := range list {
				t.stmt(1, s, i == len(list)-1)
			}
			if n := len(list); n == 0 || !(endsInReturn(list[n-1]) || isFor(list[n-1])) {
				if len(f.rets) != 0 {
					fail("log: %s: %s can fall off its end", at(f.decl), f.key)
				}
				t.line(1, "return ()")
			}
		} else {
			if len(muts) != 0 {
				fail("log: %s: %s assigns its parameter %s", at(f.decl), f.key, muts[0])
			}
			if len(f.rets) != 1 {
				fail("log: %s: %s is rendered as a plain definition and has %d results", at(f.decl), f.key, len(f.rets))
			}
			sig += " : " + ret + " :="
			t.pureBlock(1, f.decl.Body.List, f.rets)
		}
		for _, l := range t.lifted {
			b.WriteString(l + "\n")
		}
		fmt.Fprintf(&b, "/-- `%s` -/\n%s\n%s\n", src(&ast.FuncDecl{Recv: f.decl.Recv, Name: f.decl.Name, Type: f.decl.Type}), sig, t.out.String())
		names = append(names, f.lean)
		if w.key == "logHolder.update" {
			b.WriteString(t.stepProgram(f) + "\n")
			names = append(names, f.lean+".steps")
		}
	}
	sort.Strings(names)
	fmt.Fprintf(&b, "/-- the translated functions -/\ndef translated : List String := [%s]\n\n", `"`+strings.Join(names, `", "`)+`"`)
	fmt.Fprintf(&b, "/-- other functions of the package (not called by the translated ones, or the translation would have failed) -/\ndef untranslated : List String := [%s]\n\n", logQuoteAll(append(extra, presentSkipped(decls)...)))
	b.WriteString("end Generated.GoLog\n")
	if err := os.WriteFile(out, []byte(b.String()), 0o644); err != nil {
		fail("%v", err)
	}
	fmt.Printf("go2lean log: %d definitions of %s, %s -> %s\n", len(names), lgCtxFile, lgLvlFile, out)
}

// lgAssigned: the variables a function assigns after their declaration (func literals included)
func lgAssigned(fd *ast.FuncDecl) map[string]bool {
	r := map[string]bool{}
	ast.Inspect(fd.Body, func(n ast.Node) bool {
		switch x := n.(type) {
		case *ast.AssignStmt:
			if x.Tok == token.DEFINE {
				return true
			}
			for _, l := range x.Lhs {
				if b, ok := recvBase(l); ok {
					r[b] = true
				}
			}
		case *ast.IncDecStmt:
			if b, ok := recvBase(x.X); ok {
				r[b] = true
			}
		case *ast.UnaryExpr:
			if x.Op == token.AND {
				if b, ok := recvBase(x.X); ok {
					r[b] = true // its address is taken: anything may write it
				}
			}
		}
		return true
	})
	return r
}

func isFor(s ast.Stmt) bool { _, ok := s.(*ast.ForStmt); return ok }

func sortedKeys(m map[string]string) []string {
	var ks []string
	for k := range m {
		ks = append(ks, k)
	}
	sort.Strings(ks)
	return ks
}

func presentSkipped(decls map[string]*ast.FuncDecl) []string {
	var r []string
	for _, k := range sortedKeys(lgSkipped) {
		if decls[k] != nil {
			r = append(r, k)
		}
	}
	return r
}

func logQuoteAll(xs []string) string {
	sort.Strings(xs)
	var q []string
	for _, x := range xs {
		q = append(q, `"`+x+`"`)
	}
	return strings.Join(q, ", ")
}

import Lemmas.GoCloneBase
import Model.GErrorIs
import Properties.C06
/-!
# C06, tie A by translation: the reference bookkeeping of `gerror.CloneBase`

The C06 heap model keeps, per error object, `isFactory`, `factoryRef` and `srcErrors`; its
`cloneBase` was written by hand from factory.go.  Here the same three fields of the TRANSLATED
`CloneBase` (regenerated from /repo on every run) are proved equal to what the model allocates -
for every heap, receiver and source error, and whatever the string arguments, the stack type and
the stack-capture functions are.  (`baseRef`, the interface value `factoryOf(base)`, is `.base a`
for the object at address `a`; the nil interface value is `.nil`.)
-/
set_option linter.unusedSectionVars false
namespace C06Tie
open Generated.GoCloneBase GoCloneBase GErrorIs

variable {σ : Type}

/-- the C06 fields of a translated record -/
def toObj (g : GError Val σ) : Obj :=
  { extTy := none, isFactory := g.isFactory, factoryRef := g.factoryRef, srcErrors := g.srcErrors }

theorem toObj_phSource (c : GError Val σ) (s : Go.Str) : toObj (phSource c s) = toObj c := by
  unfold phSource; split <;> rfl
theorem toObj_phDTag (c : GError Val σ) (s : Go.Str) : toObj (phDTag c s) = toObj c := by
  unfold phDTag; (repeat' split) <;> rfl
theorem toObj_phMsg (c : GError Val σ) (s : Go.Str) : toObj (phMsg c s) = toObj c := by
  unfold phMsg; (repeat' split) <;> rfl
theorem toObj_stack (env : Env σ) (c : GError Val σ) (st : Nat) :
    toObj (if skipStack env c st then c else phStack env c st) = toObj c := by
  unfold phStack
  simp only []
  (repeat' split) <;> rfl

/-- The reference bookkeeping of the translated `CloneBase` is the C06 model's `cloneBase`. -/
theorem go_cloneBase_refs (env : Env σ) (h : Heap) (recv : Val) (a : Nat) (srcError : Val)
    (base : GError Val σ) (hb : toObj base = { obj h a with extTy := none })
    (st : Nat) (dTag source extMsg : Go.Str) :
    (fun g => alloc h (toObj g)) <$> CloneBase env .nil recv base (.base a) st dTag source extMsg srcError
      = pure (GErrorIs.cloneBase h recv a srcError) := by
  rw [go_cloneBase_pure]
  simp only [map_pure]
  congr 1
  unfold pureCB GErrorIs.cloneBase
  simp only []
  rw [toObj_stack]
  have hf : base.factoryRef = (obj h a).factoryRef := by have := congrArg Obj.factoryRef hb; simpa [toObj] using this
  have hs : base.srcErrors = (obj h a).srcErrors := by have := congrArg Obj.srcErrors hb; simpa [toObj] using this
  have hi : base.isFactory = (obj h a).isFactory := by have := congrArg Obj.isFactory hb; simpa [toObj] using this
  congr 1
  generalize hm : phMsg (phDTag (phSource (phInit Val.nil base (Val.base a)) source) dTag) (env.trimSpace extMsg) = m
  have hm' : toObj m = toObj (phInit Val.nil base (Val.base a)) := by
    rw [← hm, toObj_phMsg, toObj_phDTag, toObj_phSource]
  have h1 : m.factoryRef = (if base.factoryRef != Val.nil then base.factoryRef else Val.base a) := by
    have := congrArg Obj.factoryRef hm'; simpa [toObj, phInit] using this
  have h2 : m.srcErrors = base.srcErrors := by have := congrArg Obj.srcErrors hm'; simpa [toObj, phInit] using this
  have h3 : m.isFactory = false := by have := congrArg Obj.isFactory hm'; simpa [toObj, phInit] using this
  unfold phSrcErr phRef toObj
  by_cases hF : (obj h a).factoryRef = Val.nil <;> by_cases hI : (obj h a).isFactory = true <;>
    by_cases hS : srcError = Val.nil <;>
    simp [hF, hI, hS, h1, h2, h3, hf, hs, hi]

/-- non-vacuity: a record whose reference fields are those of a heap object -/
example : toObj (σ := Unit) ⟨[], [], [], [], (), .nil, [], true⟩ = { obj [{ isFactory := true }] 0 with extTy := none } := by
  decide

end C06Tie
